"""C10 — every connection's resources are released exactly once, however it ends.

Correspondence (notes/C10.md):
 (x) executor schedules through the REAL Threadless._run_forever (props/exec_common.py) aimed at endings: every way a
     scripted work can end (handle_events True / raising, get_events raising, selector refusing a descriptor, idle sweep,
     is_inactive raising, initialize raising, shutdown raising), local and remote executor, vs Exec/Threadless.v;
 (r) the REAL HttpProtocolHandler.shutdown() on handlers driven into every plugin state, with scripted failures of
     conn.shutdown / upstream shutdown / hooks / flush, vs handler_shutdown of Exec/FdTable.v (which sockets are
     closed, in which order, what escapes);
 (h) REAL HttpProtocolHandler works in the real loop over fake sockets: every conversation script cut at every
     prefix and ended by every abort kind; the open/close trace of its sockets is evaluated by restoresb in Coq
     (also repeated 3 times) and compared with what really stayed open;
 (f) the real acceptor->executor hand-off (delegate_work_to_pool + RemoteFdExecutor.receive_from_work_queue +
     ThreadlessFdExecutor.work + _cleanup) on real sockets and a real pipe vs the two-process table model.
Oracles: every socket opened for a connection is closed, nothing registered, bookkeeping empty, loop alive; live
descriptor counts (thorough)."""
import copy, errno, os, socket, struct
import common as C
from props import exec_common as X
from props import C05 as B

ID = 'C10'
CASE_TIMEOUT = 60   # per-case wall-clock limit of the driver's hang detection
COQ_TARGETS = ['theories/Props/C10.vo', 'theories/Exec/FdTableCases.vo']
IMPORTS = ('From PM Require Import Lib.Bytes Lib.ZDict Exec.Threadless Exec.ThreadlessOld Exec.ThreadlessCases Exec.FdTable Exec.FdTableCases.\n'
           'From Coq Require Import ZArith.')
CASE_TYPE = 'c10case'
CHECK_FN = 'check_c10'
ANCHOR_FILES = ['proxy/core/work/threadless.py', 'proxy/http/handler.py', 'proxy/http/proxy/server.py', 'proxy/http/server/reverse.py',
                'proxy/http/server/web.py', 'proxy/core/base/tcp_upstream.py', 'proxy/core/connection/connection.py',
                'proxy/core/work/delegate.py', 'proxy/core/work/fd/remote.py', 'proxy/core/work/fd/fd.py']
RULE = ('cases = "ending" executor schedules (a work ending in each of 9 ways among 1-3 others, local/remote), "release" cases '
        '(real HttpProtocolHandler.shutdown in 8 plugin states x scripted failures), "history" cases (conversation scripts of all '
        'roles cut at every prefix x abort kind: client EOF/reset/timeout, upstream EOF/reset, connect refused/timeout/gaierror, '
        'protocol error, send errors), "handoff" cases (real descriptor passing). Non-trivial: a work was live and was cleaned '
        '(ending), at least one socket closed (release), the conversation opened at least the client socket and something was '
        'exchanged (history); distinct = distinct case dicts')
TRUSTED = ['FakeSock/FakeEpoll stand for kernel sockets/epoll in streams (x), (r), (h); stream (f) and the thorough tier use real descriptors',
           'kernel descriptor semantics (close releases, epoll forgets closed descriptors, SCM_RIGHTS installs a new descriptor for the same open connection) are modelled as explicit rules of Exec/FdTable.v and probed by (f) and the live runs',
           'Python socket objects close their descriptor exactly once however often close() is called']
ASSUMPTIONS = ['C10_release_closes_everything / C10_conn_history_restores: no plugin hook raises before the upstream is closed (C10_release_needs_quiet_hooks shows the premise is needed)',
               'which sockets a handler opens while serving is not modelled here (the Net/ development does); it is observed',
               'flags.enable_conn_pool is False']
SHARD = 18


# ----------------------------------------------------------------------------- (x) endings at the executor
ENDINGS = ['handle_true', 'handle_raises', 'get_raises', 'modify_fails', 'register_fails', 'idle', 'inactive_raises',
           'init_raises', 'shutdown_raises', 'stop_loop']


def ending_case(rng, ending, remote):
    n_other = rng.randrange(0, 3)
    ids = rng.sample(range(11, 40), n_other + 1)
    me, others = ids[0], ids[1:]
    fds = X.own_fds(me)
    w = dict(id=me, get=[{'ev': [[fds[0], 1], [fds[1], rng.choice([1, 3])]]}] * 2 + [{'ev': [[fds[0], 1], [fds[1], 1]]}] * 6,
             handle=[{'ret': False}] * rng.randrange(0, 3), inactive=[{'ret': False}] * 2)
    kf = {}
    if ending == 'handle_true': w['handle'].append({'ret': True})
    elif ending == 'handle_raises': w['handle'].append({'raise': rng.choice([1, 3, 5, 200, 202])})
    elif ending == 'get_raises': w['get'][2] = {'raise': rng.choice([1, 5, 200])}
    elif ending == 'modify_fails': w['get'][2] = {'ev': [[fds[0], 1], [fds[1], 2]]}; kf = 'mod'
    elif ending == 'register_fails': w['get'][2] = {'ev': [[fds[0], 1], [fds[1], 1], [fds[2], 1]]}; kf = 'reg'
    elif ending == 'idle': w['inactive'] = [{'ret': True}]
    elif ending == 'inactive_raises': w['inactive'] = [{'raise': rng.choice([1, 4, 200])}]
    elif ending == 'init_raises': w['init'] = rng.choice([1, 200])
    elif ending == 'shutdown_raises': w['handle'].append({'ret': True}); w['shutdown'] = rng.choice([5, 1, 200])
    if rng.random() < 0.25 and ending != 'shutdown_raises':
        w['shutdown'] = rng.choice([5, 200])
    allids = ids
    events = []
    wqr = [[X.WQ_FD, 1]] if remote else []
    arrivals = [w] + [X.gen_script(rng, o, False) for o in others]
    rng.shuffle(arrivals)
    k = 0
    for a in arrivals:
        for o in a.get('inactive', []):
            if 'ret' in o: o['ret'] = False if a is not w else o['ret']
        events.append(dict(ready=list(wqr), arrival=a, fin=allids, clock=100 + 3 * k)); k += 1
    n_iter = rng.randrange(5, 8)
    for j in range(n_iter):
        pool = [f for i in allids for f in X.own_fds(i)]
        ready = [[f, rng.choice([1, 2, 3])] for f in rng.sample(pool, rng.randrange(1, min(4, len(pool)) + 1))]
        if [fds[0], 1] not in ready:
            ready.append([fds[0], 1])
        ev = dict(ready=ready, fin=allids, clock=100 + 3 * k); k += 1
        if kf:
            ev['kfail'] = [fds[1]] if kf == 'mod' else [fds[2]]
        if ending == 'stop_loop' and j == n_iter - 2 and not remote:
            ev['arrival'] = 'stop'
        events.append(ev)
    events.append(dict(ready=[], fin=allids, clock=100 + 3 * k))
    return dict(kind='ending', ending=ending, remote=remote, tick_limit=rng.choice([2, 3]), events=events, ids=allids, me=me)


# ----------------------------------------------------------------------------- (r) HttpProtocolHandler.shutdown
STATES = ['none', 'proxy_sock', 'proxy_closed', 'proxy_nosock', 'proxy_noupstream', 'web_noroute', 'web_reverse', 'web_reverse_nosock',
          'web_reverse_closed']


def gen_release(rng):
    st = rng.choice(STATES)
    env = dict(flush=None, hook=None, cs=None, us=None)
    r = rng.random()
    if r < 0.25: env['cs'] = rng.choice([errno.ENOTCONN, errno.EPIPE, errno.EBADF])
    elif r < 0.4: env['us'] = rng.choice([errno.ENOTCONN, errno.ECONNRESET])
    elif r < 0.6 and st != 'none': env['hook'] = rng.choice([1, 3, 5, 200])
    elif r < 0.75: env['flush'] = rng.choice([1, 200, 5])
    return dict(kind='release', state=st, env=env)


def run_release(case):
    import logging
    import sim as S
    st, env = case['state'], case['env']
    logging.disable(logging.CRITICAL)
    try:
        kw = {}
        if st.startswith('web'):
            kw = dict(args=['--enable-web-server', '--enable-reverse-proxy'], plugins=[B.rev_plugin()])
        s = S.Sim(**kw)
        s.teardown = lambda: None          # keep the handler alive: shutdown() is what is under test
        try:
            if st in ('proxy_nosock', 'web_reverse_nosock'):
                s.connect_script = [S.io_error('refused')]
            if st.startswith('proxy'):
                s.client.feed(b'GET http://h.test/x HTTP/1.1\r\nHost: h.test\r\n\r\n'); s.step(r=['client'])
            elif st == 'web_noroute':
                s.client.feed(b'GET /nothing HTTP/1.1\r\nHost: x\r\n\r\n'); s.step(r=['client'])
            elif st.startswith('web_reverse'):
                s.client.feed(b'GET /rev/a HTTP/1.1\r\nHost: x\r\n\r\n'); s.step(r=['client'])
            h = s.h
            plugin = h.plugin
            up = None
            if plugin is not None:
                holder = plugin if st.startswith('proxy') else getattr(plugin, 'route', None)
                if st == 'proxy_noupstream':
                    for k in s.upstreams:
                        k.close()
                    plugin.upstream = None
                up = getattr(holder, 'upstream', None) if holder is not None else None
                if st in ('proxy_closed', 'web_reverse_closed') and up is not None:
                    up.close()
            order = []
            socks = [s.client] + s.upstreams
            pre_closed = {k.fd for k in socks if k.closed}
            for k in socks:
                def mk(k, orig=k.close):
                    def close():
                        if not k.closed:
                            order.append(k.fd)
                        orig()
                    return close
                k.close = mk(k)
            def raiser(code):
                def f(*a, **kw):
                    raise X.make_exc(code)
                return f
            if env['cs'] is not None:
                def bad_shutdown(how, e=env['cs']):
                    raise OSError(e, 'scripted')
                s.client.shutdown = bad_shutdown
            if env['us'] is not None and s.upstreams:
                def bad_up_shutdown(how, e=env['us']):
                    raise OSError(e, 'scripted')
                s.upstreams[-1].shutdown = bad_up_shutdown
            if env['hook'] is not None and plugin is not None:
                if st.startswith('proxy'):
                    plugin.access_log = raiser(env['hook'])
                else:
                    plugin._context = raiser(env['hook'])
            if env['flush'] is not None:
                h.selector = object()
                from proxy.http.responses import BAD_REQUEST_RESPONSE_PKT
                if not h.work.has_buffer():
                    h.work.queue(BAD_REQUEST_RESPONSE_PKT)
                h._flush = raiser(env['flush'])
            esc = 0
            try:
                h.shutdown()
            except Exception as e:
                esc = 1 if type(e).__name__ == 'TcpConnectionUninitializedException' else 1000 + C.exn_code(e)
            plug = 'none' if plugin is None else ('proxy' if st.startswith('proxy') else 'web')
            updesc = None
            if plug != 'none':
                if up is None:
                    updesc = 'none' if (plug == 'proxy' or getattr(plugin, 'route', None) is not None) else 'noroute'
                elif up._conn is None:
                    updesc = 'nosock'
                else:
                    ufd = [k.fd for k in s.upstreams if k is up._conn][0]
                    updesc = ['sock', ufd, ufd in pre_closed]
            return dict(client=s.client.fd, plugin=plug, upstream=updesc, closes=order, esc=esc,
                        still_open=[k.fd for k in socks if not k.closed])
        finally:
            s.close()
    finally:
        logging.disable(0)


def coq_upstream(u):
    if u in (None, 'none'): return 'UNone'
    if u == 'nosock': return 'UNoSock'
    return '(USock %d%%Z %s)' % (u[1], C.coq_bool(u[2]))


def coq_release(case, out):
    env = case['env']
    def code(x):
        return 'None' if x is None else '(Some %d)' % x
    # the scripted hook exists only where a plugin exists; flush only matters in that handler
    if out['plugin'] == 'none':
        p = 'PNone'
    elif out['plugin'] == 'proxy':
        p = '(PProxy %s)' % coq_upstream(out['upstream'])
    else:
        p = '(PWeb %s)' % ('None' if out['upstream'] == 'noroute' else '(Some %s)' % coq_upstream(out['upstream']))
    hook = env['hook'] if out['plugin'] != 'none' else None
    return 'C10F (CRelease (mk_renv %s %s %s %s) %d%%Z %s %s %d)' % (
        code(env['flush']), code(hook), code(env['cs']), code(env['us']), out['client'], p,
        X.coq_Zs(out['closes']), out['esc'])


# ----------------------------------------------------------------------------- (h) whole conversations cut and aborted
ABORTS = ['client_eof', 'client_reset', 'client_timeout', 'upstream_eof', 'upstream_reset', 'none']


def base_conversations(rng):
    """(name, conversation) for every role; hosts are per conversation"""
    out = []
    for kind in B.CANARY_KINDS:
        out.append(B.canary_conv(rng, kind, 'k', 0))
    for kind in ['refused', 'gaierror', 'timeout', 'garbage', 'badutf8', 'huge_header', 'bad_chunk', 'connect_refused', 'two_origins',
                 'client_pipe', 'client_oserror', 'upstream_send_err', 'nul_host',
                 # endings AFTER the upstream socket exists: refused by a plugin / a plugin raising / irregular teardowns
                 'plugin_rejects_after_connect', 'plugin_raises_after_connect', 'pending_output_teardown',
                 'lingering_after_upstream_close', 'reverse_short_writes']:
        c = B.adversarial_conv(rng, kind, 'k', 0)
        out.append(c)
    # web server role with non-UTF-8 attributes through the reverse route (fixed defect ff290f1)
    out.append(dict(name='k', arrive=0, hosts=['rev.upstream.test'], role='reverse_badutf8',
                    client=[b'GET /rev/a HTTP/1.1\r\nHost: localhost\r\nUser-Agent: \xff\r\n\r\n'],
                    upstreams=[dict(respond=[b'HTTP/1.1 200 OK\r\nContent-Length: 2\r\n\r\nok'])]))
    return out


def cut_conversation(rng, conv, k, abort):
    c = copy.deepcopy(conv)
    items = [x for x in c.get('client', [])]
    # split the byte items into smaller pieces so that "every prefix" includes cuts inside a request
    pieces = []
    for x in items:
        if isinstance(x, bytes) and len(x) > 8 and rng.random() < 0.5:
            cut = rng.randrange(1, len(x))
            pieces += [x[:cut], x[cut:]]
        else:
            pieces.append(x)
    pieces = pieces[:k]
    if abort == 'client_eof': pieces.append('EOF')
    elif abort == 'client_reset': pieces.append('reset')
    elif abort == 'client_timeout': pieces.append('timeout')
    c['client'] = pieces
    if abort in ('upstream_eof', 'upstream_reset'):
        for u in c.get('upstreams', []):
            r = [x for x in u.get('respond', []) if isinstance(x, bytes)]
            if r:
                cutb = rng.randrange(0, len(r[0]) + 1)
                u['respond'] = ([r[0][:cutb]] if cutb else []) + (['EOF'] if abort == 'upstream_eof' else ['reset'])
            else:
                u['respond'] = ['EOF' if abort == 'upstream_eof' else 'reset']
                u['after'] = b''
    c['abort'] = abort
    c['cut'] = k
    return c


def gen_histories(rng, n, thorough=False):
    convs = base_conversations(rng)
    cases = []
    grid = []
    for conv in convs:
        nitems = 2 * len(conv.get('client', [])) + 1
        for k in range(0, nitems + 1):
            for ab in ABORTS:
                grid.append((conv, k, ab))
    if not thorough:
        grid = rng.sample(grid, min(n, len(grid)))
    for conv, k, ab in grid:
        c = cut_conversation(rng, conv, k, ab)
        cases.append(dict(kind='history', conv=c, role=conv.get('role')))
    # endings after the upstream was connected: always part of the run, every abort kind
    for kind in ('plugin_rejects_after_connect', 'plugin_raises_after_connect'):
        for ab in ABORTS:
            conv = B.adversarial_conv(rng, kind, 'k', 0)
            conv['client'] = [x for x in conv['client'] if isinstance(x, bytes)][:1]
            cases.append(dict(kind='history', conv=cut_conversation(rng, conv, 2, ab), role=conv.get('role')))
    # the known finding: later requests through the reverse proxy
    r = b'GET /rev/a HTTP/1.1\r\nHost: localhost\r\n\r\n'
    for nreq in (2, 3):
        cases.append(dict(kind='history', role='reverse_followup',
                          conv=dict(name='k', arrive=0, hosts=['rev.upstream.test'], role='reverse_followup', abort='client_eof', cut=nreq,
                                    client=[r] * nreq + ['EOF'],
                                    upstreams=[dict(respond=[b'HTTP/1.1 200 OK\r\nContent-Length: 2\r\n\r\nok'])] * nreq)))
    return cases


def run_history(case):
    o = B.run_http([case['conv']])
    v = o['convs']['k']
    # open/close trace in event order; descriptor numbers are the fake sockets' numbers
    ops, names = [], {}
    world_fd = {}
    evs = v['events']
    return dict(status=o['status'], leftover=o['leftover'], arrived=v['arrived'], events=evs,
                client_closed=v['client_closed'], upstream_closed=v['upstream_closed'],
                upstream_close_count=v['upstream_close_count'], client_close_count=v['client_close_count'],
                client_out_len=len(v['client_out']), connects=len(v['upstream_closed']) + v['connect_failures'])


def history_ops(out):
    """[('open'|'close', socket name)] from the per-connection event list"""
    ops, seen = [], set()
    if out['arrived']:
        ops.append(('open', 'client')); seen.add('client')
    failed = set()
    evs = out['events']
    for i, e in enumerate(evs):
        name, what = e[0], e[1]
        if what == 'connect':
            # a connect that failed never produced a socket: no later event carries that name
            if any(x[0] == name and x[1] != 'connect' for x in evs[i + 1:]):
                ops.append(('open', name)); seen.add(name)
        elif what == 'close':
            ops.append(('close', name))
    return ops


def coq_history(case, out):
    ops = history_ops(out)
    num = {}
    def fd(name):
        if name not in num:
            num[name] = 7 + len(num)
        return num[name]
    terms = []
    for what, name in ops:
        if what == 'open':
            terms.append('FOpen %d%%Z %d' % (fd(name), 50 + fd(name)))
        else:
            terms.append('FClose %d%%Z' % fd(name))
    all_closed = out['client_closed'] and all(out['upstream_closed']) if out['arrived'] else True
    l = C.coq_list(terms)
    return ['C10F (CHistory 1 %s %s)' % (l, C.coq_bool(all_closed)),
            'C10F (CHistory 3 %s %s)' % (l, C.coq_bool(all_closed))]


# ----------------------------------------------------------------------------- (f) real hand-off
def run_handoff(case):
    """real sockets, a real multiprocessing pipe, the real delegate_work_to_pool / RemoteFdExecutor code, in one process"""
    import multiprocessing, logging, asyncio
    from proxy.core.work.delegate import delegate_work_to_pool
    from proxy.core.work.fd import RemoteFdExecutor
    logging.disable(logging.CRITICAL)
    srv = socket.socket(); srv.bind(('127.0.0.1', 0)); srv.listen(4)
    cli = socket.create_connection(srv.getsockname())
    conn, addr = srv.accept()
    a, b = multiprocessing.Pipe()
    ex = None
    try:
        ino = os.fstat(conn.fileno()).st_ino
        def refs():
            n = 0
            for f in os.listdir('/proc/self/fd'):
                try:
                    if os.fstat(int(f)).st_ino == ino:
                        n += 1
                except OSError:
                    pass
            return n
        before = refs()                                            # 1: the accepted socket
        drv = X.Driver(dict(events=[], remote=True))
        from proxy.core.work import Work
        flags = X.get_flags()
        held = {}
        class HandoffWork(Work):
            @staticmethod
            def create(c, ad):
                held['sock'] = c
                return c
            def shutdown(self):
                self.work.close()
        flags.work_klass = HandoffWork
        ex = RemoteFdExecutor(iid='1', work_queue=b, flags=flags)
        ex._loop = asyncio.new_event_loop()
        drv.ex = ex
        delegate_work_to_pool(os.getpid(), a, multiprocessing.Lock(), conn, addr)      # acceptor side
        acc_closed = conn.fileno() == -1
        in_flight = refs()                                         # 0 descriptors, the connection lives in the pipe
        cli.setblocking(False)
        try:
            cli.recv(1); open_in_flight = False
        except BlockingIOError:
            open_in_flight = True
        ex.selector = X.FakeSelector(drv)
        ex.receive_from_work_queue()                               # worker side: recv addr, recv_handle, work()
        wid = list(ex.works.keys())[0]
        s = held['sock']
        worker_refs = refs()
        same = (os.fstat(wid).st_ino == ino) and (os.fstat(s.fileno()).st_ino == ino) and s.fileno() != wid
        try:
            cli.recv(1); open_before = False
        except BlockingIOError:
            open_before = True
        ex._cleanup(wid)                                           # shutdown() closes the dup, os.close(work_id) the handle
        after = refs()
        cli.setblocking(True); cli.settimeout(2)
        try:
            closed_after = cli.recv(1) == b''
        except (socket.timeout, OSError):
            closed_after = False
        return dict(before=before, acc_closed=acc_closed, in_flight_fds=in_flight, open_in_flight=open_in_flight,
                    worker_refs=worker_refs, same=same, open_before=open_before, after=after, closed_after=closed_after,
                    works_left=len(ex.works))
    finally:
        logging.disable(0)
        for x in (srv, cli, conn):
            try: x.close()
            except OSError: pass
        a.close(); b.close()
        if ex is not None and ex._loop is not None:
            ex._loop.close()


def coq_handoff(case, out):
    return 'C10F (CHandoff %d %d %s %s %s)' % (0 if out['acc_closed'] else 1, out['worker_refs'], C.coq_bool(out['same']),
                                               C.coq_bool(out['open_before']), C.coq_bool(out['closed_after'] and out['after'] == 0))


# ----------------------------------------------------------------------------- module interface
def generate(rng, tier):
    quick = tier != 'thorough'
    cases = []
    for _ in range(3 if quick else 100):
        for e in ENDINGS:
            for remote in (False, True):
                if e == 'stop_loop' and remote:
                    continue
                cases.append(ending_case(rng, e, remote))
    for _ in range(150 if quick else 2000):
        cases.append(gen_release(rng))
    cases += gen_histories(rng, 160, thorough=not quick)
    if not quick:
        for _ in range(3):
            cases += gen_histories(rng, 0, thorough=True)
    for _ in range(2 if quick else 10):
        cases.append(dict(kind='handoff', n=_))
    return cases


def run_impl(case):
    k = case['kind']
    if k == 'ending':
        return X.run_schedule(case)
    if k == 'release':
        return run_release(case)
    if k == 'history':
        return run_history(case)
    if k == 'handoff':
        return run_handoff(case)
    if k in ('sched', 'canary'):          # corpus cases shared with C05
        return X.run_schedule(case)
    raise ValueError(k)


def coq_term(case, out):
    k = case['kind']
    if k in ('ending', 'sched', 'canary'):
        return 'C10X (%s)' % X.coq_xcase(case, out, old=False)
    if k == 'release':
        return coq_release(case, out)
    if k == 'history':
        return coq_history(case, out)
    if k == 'handoff':
        return coq_handoff(case, out)
    return None


def oracle(case, out):
    k = case['kind']
    if k in ('ending', 'sched', 'canary'):
        if out['status'][0] == 'crashed':
            return 'the executor loop stopped with %s' % out['status'][2]
        fin = out['final']
        live = set(fin['works'])
        for wid, d in fin['registered']:
            if wid not in live:
                return 'work %d is gone but still has registered events %r' % (wid, d)
        for fd, m, data in fin['sel']:
            if data not in live and not (case.get('remote') and fd == X.WQ_FD):
                return 'descriptor %d of work %d is still in the selector map after the work is gone' % (fd, data)
        if case.get('remote'):
            dups = [f for op, f in out['oslog'] if op == 'dup']
            closes = [f for op, f in out['oslog'] if op == 'close']
            for f in set(dups) | set(closes):
                bal = dups.count(f) - closes.count(f)
                if bal != (1 if f in live else 0):
                    return 'received handle %d: dup %d times, os.close %d times, work %s' % (
                        f, dups.count(f), closes.count(f), 'live' if f in live else 'gone')
        if k == 'ending' and case['ending'] != 'stop_loop' and out['status'][0] == 'running':
            me = case['me']
            if me in live and not any(e.get('arrival') == 'stop' for e in case['events']):
                return 'work %d should have ended (%s) but is still in works' % (me, case['ending'])
        return None
    if k == 'release':
        # every socket of the connection that was open is closed, unless a hook raised first (premise) or,
        # threaded flush, an OSError skipped the plugin
        env = case['env']
        quiet = env['hook'] is None and env['flush'] is None
        if out['client'] in out['still_open']:
            return 'shutdown() left the client socket open'
        if quiet and out['still_open']:
            return 'shutdown() left sockets %r open (state %s)' % (out['still_open'], case['state'])
        if len(out['closes']) != len(set(out['closes'])):
            return 'a socket was closed twice'
        return None
    if k == 'history':
        if out['status'][0] == 'crashed':
            return 'the executor loop stopped with %s' % out['status'][2]
        lo = out['leftover']
        conv = case['conv']
        if out['client_closed'] and (lo['works'] or lo['registered'] or lo['sel']):
            return 'the connection is over but the executor still holds %r' % (lo,)
        finished = out['arrived'] and lo['works'] == 0        # the executor has dropped the work
        if finished:
            if lo['registered'] or lo['sel']:
                return 'the work is gone but the executor still holds %r' % (lo,)
            if not out['client_closed']:
                return 'the work is gone but the client socket was never closed'
            if not all(out['upstream_closed']):
                return 'the connection is over but upstream socket(s) %r were never closed' % (
                    [i for i, c in enumerate(out['upstream_closed']) if not c],)
        if any(c > 1 for c in out['upstream_close_count']) or out['client_close_count'] > 2:
            # Python socket objects tolerate repeated close(); more than the handler's own double close is suspicious
            return 'a socket object was closed %r times' % (out['upstream_close_count'] + [out['client_close_count']],)
        return None
    if k == 'handoff':
        if not out['acc_closed']:
            return 'the acceptor kept its descriptor after delegating the connection'
        if not out['same'] or out['worker_refs'] != 2:
            return 'the executor does not hold exactly handle + dup of the accepted connection (%r)' % (out,)
        if not (out['open_in_flight'] and out['open_before']):
            return 'the connection was closed during the hand-off'
        if out['after'] != 0 or not out['closed_after'] or out['works_left']:
            return 'after _cleanup the connection is still referenced (%r)' % (out,)
        return None
    return None


def nontrivial(case, out):
    k = case['kind']
    if k in ('ending', 'sched', 'canary'):
        return bool(out['gone']) and any(s['works'] for s in out['snaps'])
    if k == 'release':
        return len(out['closes']) >= 1
    if k == 'history':
        return out['arrived'] and (out['client_out_len'] > 0 or out['connects'] > 0)
    return True


def classify(case, out, failure):
    """known finding C10-reverse-upstream-replacement: reverse-proxy role, >= 2 upstream connects on one client
    connection, an upstream socket (not the last one) never closed"""
    if case.get('kind') != 'history' or not isinstance(out, dict):
        return None
    ev = out.get('events', [])
    first = next((e for e in ev if e[0] == 'client' and e[1] == 'recv'), None)
    is_reverse = any(e[1] == 'connect' and e[2].startswith('rev.upstream.test') for e in ev if len(e) > 2)
    ups = out.get('upstream_closed', [])
    if is_reverse and len(ups) >= 2 and not all(ups[:-1]):
        return 'C10-reverse-upstream-replacement'
    return None


def model_expr(case):
    if case['kind'] in ('ending', 'sched', 'canary'):
        return B.model_expr(dict(case, kind='sched'))
    return 'tt'


def extra_checks(rng, tier):
    cov, notes, failures = {}, [], []
    if tier == 'thorough':
        try:
            from props import exec_live as L
            live = L.c10_live(rng, repeats=200)
            cov['live_fd_counts'] = live
            if live.get('failure'):
                failures.append(dict(case=dict(kind='live', what=live['failure']), out=live, what=live['failure']))
        except Exception as e:
            notes.append('live descriptor count run failed to start: %r' % (e,))
    return dict(failures=failures, notes=notes, **cov)
