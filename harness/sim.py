"""Simulated I/O layer (DESIGN.md §1.5): fake sockets, a patched upstream connect routine and a
virtual clock around the REAL HttpProtocolHandler / plugins imported from /repo.  Nothing in
/repo is modified; everything is monkey-patching from here.

An *event* is a dict:  {'r': [names], 'w': [names]}  naming the descriptors that are ready in
this step ('client', 'up0', 'up1', ...); only descriptors the handler asked for (get_events)
are passed on, exactly like a selector would.  The outcomes of the I/O calls the handler makes
are scripted on the fake sockets beforehand (feed / script_send)."""
import asyncio, itertools, selectors, errno, socket
from unittest import mock

EOF = None          # recv script entry: peer closed (recv returns b'')


class FakeSock:
    _next = itertools.count(1000)

    def __init__(self, name):
        self.name = name
        self.fd = next(FakeSock._next)
        self.inq = []            # scripted recv results: bytes | EOF | Exception instance
        self.out = b''           # every byte accepted by send()
        self.send_script = []    # scripted send outcomes: int (accept at most k) | Exception instance; empty = accept all
        self.closed = False
        self.shut = []
        self.log = []            # ('send', n_offered, n_accepted) / ('recv', n) / ('close',) ...
        self.blocking = True
        self.timeout = None
        self.close_count = 0
        self.peer_reset = False  # set once a scripted reset / broken pipe was raised: shutdown() then fails like a real socket

    # -- scripting
    def feed(self, *items):
        self.inq.extend(items)
        return self

    def script_send(self, *items):
        self.send_script.extend(items)
        return self

    def readable(self):
        return bool(self.inq) and not self.closed

    # -- socket API used by proxy.py
    def fileno(self):
        return -1 if self.closed else self.fd

    def setblocking(self, b):
        self.blocking = b
        self.timeout = None if b else 0.0

    def settimeout(self, t):
        # settimeout(0) = non-blocking, settimeout(None) = blocking, settimeout(t>0) = timeout mode (still a BLOCKING socket)
        self.timeout = t
        self.blocking = (t is None) or (t > 0)

    def setsockopt(self, *a):
        pass

    def getpeername(self):
        return ('10.0.0.1', 1234)

    def recv(self, n):
        if self.closed:
            raise OSError(errno.EBADF, 'Bad file descriptor')
        if not self.inq:
            if self.blocking:
                # a blocking / timeout-mode socket asked to read when nothing is there BLOCKS the caller (here: the whole
                # event loop) and, in timeout mode, finally raises socket.timeout; recorded so that oracles can flag it
                self.log.append(('blocked_recv', self.timeout))
                raise TimeoutError('timed out')
            raise BlockingIOError(errno.EAGAIN, 'would block')
        x = self.inq.pop(0)
        if isinstance(x, BaseException):
            self.log.append(('recv_err', type(x).__name__))
            if isinstance(x, (ConnectionResetError, BrokenPipeError)):
                self.peer_reset = True
            raise x
        if x is EOF:
            self.log.append(('recv', 0))
            return b''
        if len(x) > n:
            self.inq.insert(0, x[n:])
            x = x[:n]
        self.log.append(('recv', len(x)))
        return x

    def send(self, data):
        if self.closed:
            raise OSError(errno.EBADF, 'Bad file descriptor')
        data = bytes(data)
        if self.send_script:
            k = self.send_script.pop(0)
            if isinstance(k, BaseException):
                self.log.append(('send_err', type(k).__name__, len(data)))
                if isinstance(k, (ConnectionResetError, BrokenPipeError)):
                    self.peer_reset = True
                raise k
        else:
            k = len(data)
        k = min(k, len(data))
        self.out += data[:k]
        self.log.append(('send', len(data), k))
        return k

    def shutdown(self, how):
        if self.closed:
            raise OSError(errno.EBADF, 'Bad file descriptor')
        if self.peer_reset:
            # observed on a real loopback socket: after the peer reset the connection, shutdown(SHUT_WR) raises ENOTCONN
            self.log.append(('shutdown_err', 'ENOTCONN'))
            raise OSError(errno.ENOTCONN, 'Transport endpoint is not connected')
        self.shut.append(how)

    def close(self):
        self.close_count += 1
        self.closed = True
        self.log.append(('close',))

    def __repr__(self):
        return '<FakeSock %s fd=%d%s>' % (self.name, self.fd, ' closed' if self.closed else '')


class VClock:
    """virtual time.time()"""
    def __init__(self, t=1000.0):
        self.t = t
    def __call__(self):
        return self.t
    def advance(self, dt):
        self.t += dt


def make_flags(**opts):
    from proxy.common.flag import FlagParser
    opts.setdefault('threadless', True)
    args = opts.pop('args', None)
    return FlagParser.initialize(args, **opts) if args else FlagParser.initialize(**opts)


class Sim:
    """One client connection handled by the real HttpProtocolHandler."""

    def __init__(self, flags=None, connect_script=None, clock=None, handler_klass=None, **opts):
        from proxy.http.handler import HttpProtocolHandler
        from proxy.http.connection import HttpClientConnection
        self.flags = flags if flags is not None else make_flags(**opts)
        self.client = FakeSock('client')
        self.upstreams = []
        self.connect_log = []                 # (host, port) of every upstream connect attempt
        self.connect_script = list(connect_script or [])   # per attempt: None (succeed) | Exception instance
        self.clock = clock or VClock()
        self._patches = []
        sim = self

        def new_conn(addr, timeout=None, source_address=None):
            sim.connect_log.append((addr[0], addr[1]))
            outcome = sim.connect_script.pop(0) if sim.connect_script else None
            if isinstance(outcome, BaseException):
                raise outcome
            s = FakeSock('up%d' % len(sim.upstreams))
            s.settimeout(timeout if timeout else 10.0)      # what the real new_socket_connection leaves behind
            sim.upstreams.append(s)
            if sim.on_connect:
                sim.on_connect(s)
            return s
        self.on_connect = None
        for target in ('proxy.core.connection.server.new_socket_connection',
                       'proxy.core.base.tcp_upstream.new_socket_connection'):
            try:
                p = mock.patch(target, new_conn); p.start(); self._patches.append(p)
            except (AttributeError, ModuleNotFoundError):
                pass
        import time as _time, types
        shim = types.SimpleNamespace(**{k: getattr(_time, k) for k in dir(_time) if not k.startswith('__')})
        shim.time = self.clock           # only these modules see the virtual clock
        for target in ('proxy.http.handler.time', 'proxy.http.proxy.server.time', 'proxy.http.server.web.time'):
            try:
                p = mock.patch(target, shim); p.start(); self._patches.append(p)
            except (AttributeError, ModuleNotFoundError):
                pass
        klass = handler_klass or HttpProtocolHandler
        self.h = klass(HttpClientConnection(self.client, ('1.2.3.4', 5555)), flags=self.flags)
        self.loop = asyncio.new_event_loop()
        self.h.initialize()
        self.torn = False
        self.trace = []

    # ---- helpers
    def socks(self):
        return {s.name: s for s in [self.client] + self.upstreams}

    def by_fd(self):
        return {s.fd: s for s in [self.client] + self.upstreams if not s.closed}

    def interest(self):
        """what the handler asks the selector to watch: {'client': 'rw', 'up0': 'r', ...}"""
        ev = self.loop.run_until_complete(self.h.get_events())
        fds = {s.fd: s.name for s in [self.client] + self.upstreams}
        out = {}
        for fd, m in ev.items():
            name = fds.get(fd, 'fd%d' % fd)
            out[name] = ('r' if m & selectors.EVENT_READ else '') + ('w' if m & selectors.EVENT_WRITE else '')
        return out, ev

    def step(self, r=(), w=()):
        """one handle_events call with the named descriptors ready (filtered by interest).
        returns 'teardown' | 'ok' | ('raised', exc)"""
        if self.torn:
            return 'torn'
        names, ev = self.interest()
        socks = self.socks()
        rr = [socks[n].fd for n in r if n in socks and 'r' in names.get(n, '') and not socks[n].closed]
        ww = [socks[n].fd for n in w if n in socks and 'w' in names.get(n, '') and not socks[n].closed]
        try:
            td = self.loop.run_until_complete(self.h.handle_events(rr, ww))
        except Exception as e:       # what Threadless would see from task.result()
            self.trace.append(('raised', type(e).__name__))
            self.teardown()
            return ('raised', e)
        if td:
            self.teardown()
            return 'teardown'
        return 'ok'

    def auto_step(self, client_writable=True):
        """every descriptor with something scripted to read is readable, every interested writer writable"""
        socks = self.socks()
        r = [n for n, s in socks.items() if s.readable()]
        w = [n for n in socks if (client_writable or n != 'client')]
        names, _ = self.interest()
        if not any(n in names for n in r) and not any('w' in names.get(n, '') for n in w):
            return 'idle'
        return self.step(r, w)

    def run(self, n=200, **kw):
        for _ in range(n):
            x = self.auto_step(**kw)
            if x != 'ok':
                return x
        return 'maxsteps'

    def teardown(self):
        if not self.torn:
            self.torn = True
            try:
                self.h.shutdown()
            except Exception as e:
                self.trace.append(('shutdown_raised', type(e).__name__))
                self.shutdown_exc = e

    def close(self):
        for p in self._patches:
            try:
                p.stop()
            except RuntimeError:
                pass
        self.loop.close()

    def __enter__(self):
        return self

    def __exit__(self, *a):
        self.close()


def canon_exc(e):
    return type(e).__name__


def io_error(kind):
    """scripted I/O errors by short name"""
    return {
        'reset': ConnectionResetError(errno.ECONNRESET, 'Connection reset by peer'),
        'pipe': BrokenPipeError(errno.EPIPE, 'Broken pipe'),
        'block': BlockingIOError(errno.EAGAIN, 'Resource temporarily unavailable'),
        'timeout': TimeoutError(errno.ETIMEDOUT, 'timed out'),
        'refused': ConnectionRefusedError(errno.ECONNREFUSED, 'Connection refused'),
        'unreach': OSError(errno.EHOSTUNREACH, 'No route to host'),
        'gaierror': socket.gaierror(-2, 'Name or service not known'),
        'oserror': OSError(errno.EIO, 'I/O error'),
    }[kind]
