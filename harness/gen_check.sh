#!/bin/bash
# Generated tie between code and model: regenerate the Gallina text of the translated functions from the
# CURRENT source and re-check, in Coq, that each still equals the hand-written model (coq/gen/GenLinks.v).
#
#   harness/gen_check.sh [repo_dir]        (default /repo)        [-v as 2nd argument: show coqc output]
#
# (a) copies coq/gen/*.v to a fresh temp dir, (b) runs harness/py2v.py against repo_dir writing Generated.v
# there, (c) compiles GenSupport.v, Generated.v, GenLinks.v there (coqc, each under `timeout 600`), (d) prints
#   GEN: targets=<n> link_theorems=<n> closed=<n> regenerated_differs_from_committed=<yes|no>
# and, per problem,   GEN-BROKEN: <target or theorem> : <translator error or first Coq error line>
# exit 0 iff every target translated, every target has its link theorem gen_<name>_eq, GenLinks.v compiled
# and every Print Assumptions says "Closed under the global context".
# Writes nothing under /verif/coq (the main development must be built: its .vo files are only read), so
# several runs against different repository copies can go on at the same time.  The temp dir is removed.
set -u
VERIF=/verif
REPO=${1:-/repo}
VERBOSE=${2:-}
GEN=$VERIF/coq/gen
PY=/venv/bin/python; [ -x "$PY" ] || PY=python3
T=${GEN_TIMEOUT:-600}
COQFLAGS="-w -notation-overridden,-deprecated-hint-without-locality,-deprecated-instance-without-locality"

TMP=$(mktemp -d /tmp/gen_check.XXXXXX) || exit 1
trap 'rm -rf "$TMP"' EXIT
cp "$GEN"/*.v "$TMP"/ || { echo "GEN-BROKEN: setup : cannot copy $GEN"; exit 1; }
rc=0

# forbidden constructs in the hand-written and generated files
if grep -nE '\b(Admitted|admit|Axiom|Axioms|Parameter|Parameters|Conjecture|Hypothesis|Hypotheses|Variable|Variables)\b|Unset Guard|bypass_check|type-in-type|impredicative-set' \
     "$TMP"/*.v | grep -v '^\S*:[0-9]*:\s*(\*' ; then
  echo "GEN-BROKEN: audit : forbidden construct in coq/gen"; rc=1
fi

# (b) translate
PYTHONDONTWRITEBYTECODE=1 "$PY" "$VERIF/harness/py2v.py" --repo "$REPO" -o "$TMP/Generated.v" 2>"$TMP/py2v.err"
[ $? -eq 0 ] || rc=1
grep '^GEN-BROKEN' "$TMP/py2v.err"
TARGETS=$(PYTHONDONTWRITEBYTECODE=1 "$PY" "$VERIF/harness/py2v.py" --list | wc -l)
TRANSLATED=$(sed -n 's/^py2v: targets=[0-9]* translated=\([0-9]*\).*/\1/p' "$TMP/py2v.err")
[ -n "$TRANSLATED" ] || { echo "GEN-BROKEN: translator : $(tail -1 "$TMP/py2v.err")"; TRANSLATED=0; rc=1; }
if cmp -s "$TMP/Generated.v" "$GEN/Generated.v"; then DIFFERS=no; else DIFFERS=yes; fi

# every target must have its link theorem
for name in $(PYTHONDONTWRITEBYTECODE=1 "$PY" "$VERIF/harness/py2v.py" --list | cut -d' ' -f1); do
  grep -q "^Theorem gen_${name}_eq\b" "$TMP/GenLinks.v" || { echo "GEN-BROKEN: $name : no link theorem gen_${name}_eq in GenLinks.v"; rc=1; }
done

# the .vo files of the main development are only READ: take the build lock in SHARED mode so that a compile
# never looks at a half-finished `make` (several gen_check runs can hold it together); after GEN_LOCK_WAIT
# seconds go on without it
LOCK=$VERIF/build/.coq.lock
coq() {
  if [ -e "$LOCK" ]; then
    ( cd "$TMP" && { flock -s -w "${GEN_LOCK_WAIT:-1200}" 9 || true; } &&
      timeout "$T" coqc $COQFLAGS -Q "$VERIF/coq/theories" PM -Q "$TMP" PMG "$1" ) 9<"$LOCK"
  else
    ( cd "$TMP" && timeout "$T" coqc $COQFLAGS -Q "$VERIF/coq/theories" PM -Q "$TMP" PMG "$1" )
  fi
}
first_error() {   # file with coqc output -> "line N: Error: message" (the hypotheses of an `In environment` dump are skipped)
  "$PY" - "$1" <<'PYEOF'
import re, sys
t = open(sys.argv[1], errors='replace').read()
m = re.search(r'^File .*?line (\d+)', t, re.M)
line = 'line %s' % m.group(1) if m else 'line ?'
e = t[t.find('\nError') + 1:] if '\nError' in t else t[-400:]
e = re.sub(r'In environment.*?\n(?=Unable|The term|Found|Cannot|The reference|No |Tactic|Illegal)', '', e, flags=re.S)
print((line + ': ' + ' '.join(e.split()))[:300])
PYEOF
}
block_of_line() { # line number in GenLinks file $2 -> name after the last `(* @target NAME *)` marker above it
  awk -v L="$1" 'NR<=L && /^\(\* @target /{ n=$3 } END{ print (n==""?"preamble":n) }' "$2"
}

# (c) compile
LINKS=0; CLOSED=0
if ! coq GenSupport.v >"$TMP/out.support" 2>&1; then
  echo "GEN-BROKEN: GenSupport.v : $(first_error "$TMP/out.support")"; rc=1
elif ! coq Generated.v >"$TMP/out.generated" 2>&1; then
  # generated text that does not type-check: name the definition
  L=$(sed -n 's/^File .*line \([0-9]*\),.*/\1/p' "$TMP/out.generated" | head -1)
  D=$(awk -v L="${L:-0}" 'NR<=L && /^Definition /{ n=$2 } END{ print n }' "$TMP/Generated.v")
  echo "GEN-BROKEN: ${D:-Generated.v} : generated text rejected by Coq: $(first_error "$TMP/out.generated")"; rc=1
else
  if coq GenLinks.v >"$TMP/out.links" 2>&1; then
    LINKS=$(grep -c '^Theorem gen_.*_eq\b' "$TMP/GenLinks.v")
    WANT=$(grep -c '^Print Assumptions' "$TMP/GenLinks.v")
    CLOSED=$(grep -c 'Closed under the global context' "$TMP/out.links")
    AX=$(grep -c '^Axioms:' "$TMP/out.links")
    if [ "$CLOSED" -ne "$WANT" ] || [ "$AX" -ne 0 ] || [ "$WANT" -lt "$LINKS" ]; then
      echo "GEN-BROKEN: GenLinks.v : print_assumptions=$WANT closed=$CLOSED axiom_blocks=$AX"; rc=1
    fi
  else
    rc=1
    # name every block that no longer compiles: report the first failure, cut that block out, retry
    cp "$TMP/GenLinks.v" "$TMP/GenLinksCut.v"
    for _ in $(seq 1 40); do
      if coq GenLinksCut.v >"$TMP/out.cut" 2>&1; then break; fi
      L=$(sed -n 's/^File .*line \([0-9]*\),.*/\1/p' "$TMP/out.cut" | head -1)
      [ -n "$L" ] || { echo "GEN-BROKEN: GenLinks.v : $(tail -2 "$TMP/out.cut" | tr '\n' ' ' | cut -c1-300)"; break; }
      B=$(block_of_line "$L" "$TMP/GenLinksCut.v")
      TH=$(awk -v L="$L" 'NR<=L && /^(Theorem|Lemma|Example) /{ n=$2 } END{ print n }' "$TMP/GenLinksCut.v")
      echo "GEN-BROKEN: $B (${TH:-?}) : $(first_error "$TMP/out.cut")"
      [ "$B" = preamble ] && break
      # delete the block B: from its marker up to the next marker
      awk -v B="$B" '/^\(\* @target /{ skip = ($3 == B) } !skip{ print }' "$TMP/GenLinksCut.v" >"$TMP/GenLinksCut.tmp"
      mv "$TMP/GenLinksCut.tmp" "$TMP/GenLinksCut.v"
    done
    LINKS=$(grep -c '^Theorem gen_.*_eq\b' "$TMP/GenLinksCut.v")
    CLOSED=$(grep -c 'Closed under the global context' "$TMP/out.cut")
  fi
  [ "$VERBOSE" = "-v" ] && cat "$TMP"/out.links 2>/dev/null
fi

echo "GEN: targets=$TARGETS link_theorems=$LINKS closed=$CLOSED regenerated_differs_from_committed=$DIFFERS"
[ "$TRANSLATED" = "$TARGETS" ] || rc=1
exit $rc
