"""Target table of the Python->Gallina translator (harness/py2v.py).

TARGETS (in dependency order: a target may call only targets above it):
    file      source file relative to the repository root
    func      function, or Class.method
    name      Gallina name of the generated definition (PMG.Generated.<name>)
    params    [(python parameter name, type)] in the order of the Python signature (self / cls omitted when
              the function reads the object only through `names`); checked against the signature
    returns   type of the Python return value ('unit' for None)
    extras    [(Gallina name, type)] inputs that stand for what the function reads from its environment
              (flags, configuration constants that are not literals, the clock); they come first in the
              generated definition
    names     ATTRIBUTE / NAME ENVIRONMENT: meaning of every free dotted name of the function body
                ('const', file, NAME[, field])  module-level constant, its value is READ FROM THE SOURCE
                ('param', extra)                an environment input
                ('call_param', extra)           a call without arguments that reads an environment input
                ('target', name)                call of another target (plain function)
                ('method', name)                call of another target with the receiver as first argument
                ('ctor', record)                constructor call of a record
    exceptions  exception class name -> constructor of Lib/Bytes.v's exn (builtins are predefined)
    state_out   record parameters whose attribute updates are returned (state passing)

RECORDS: attribute environments of objects.  `generate: True` records are emitted into Generated.v (one
field per attribute the translated methods use); the others name an existing Gallina record with its
getter / setter functions.

Types: bytes int bool str unit list[T] option[T] dict[V] (keys are bytes) tuple[T,...] record:NAME.
"""

CONSTANTS = 'proxy/common/constants.py'
UTILS = 'proxy/common/utils.py'

RECORDS = {
    # HttpParser as AuthPlugin sees it: only .headers is touched (dict: lower-cased name -> (name, value))
    'request': dict(coq='Auth.request', fields={
        'headers': dict(get='Auth.rq_headers', set='Auth.set_headers', type='dict[tuple[bytes,bytes]]'),
    }),
    # Url(scheme, username, password, hostname, port, remainder): the constructor's keyword order
    'url': dict(coq='Url.url', ctor='Url.Build_url', fields={
        'scheme': dict(get='Url.u_scheme', type='option[bytes]', default='None'),
        'username': dict(get='Url.u_username', type='option[bytes]', default='None'),
        'password': dict(get='Url.u_password', type='option[bytes]', default='None'),
        'hostname': dict(get='Url.u_hostname', type='option[bytes]', default='None'),
        'port': dict(get='Url.u_port', type='option[int]', default='None'),
        'remainder': dict(get='Url.u_remainder', type='option[bytes]', default='None'),
    }),
    'TcpConnection': dict(generate=True, fields=[('buffer', 'list[bytes]'), ('_num_buffer', 'int')]),
    'ChunkParser': dict(generate=True, fields=[('state', 'int'), ('body', 'bytes'), ('chunk', 'bytes'), ('size', 'option[int]')]),
    'HttpProtocolHandler': dict(generate=True, fields=[('work', 'record:TcpConnection'), ('last_activity', 'int')]),
}

# utils.bytes_ / utils.text_ are not translated (isinstance dispatch): the translator knows what they do on the
# static types it allows (int -> decimal digits, bytes/str -> unchanged / UTF-8 decode); their source is pinned
HELPERS = {'bytes_': (UTILS, '1f56ca442b07b0bc2320d1817e1cbcb796c4ec1b'), 'text_': (UTILS, '6f53da0d13a081cf5b376f172a737dc759b4e49a')}

IMPORTS = ['From PM Require Net.Auth Http.Url.']

C = lambda name, *field: ('const', CONSTANTS, name) + field

TARGETS = [
    # ---- b. builders (proxy/common/utils.py)
    dict(file=UTILS, func='build_http_header', name='build_http_header',
         params=[('k', 'bytes'), ('v', 'bytes')], returns='bytes',
         names={'COLON': C('COLON'), 'WHITESPACE': C('WHITESPACE')}),
    dict(file=UTILS, func='_header_key', name='header_key',
         params=[('headers', 'dict[bytes]'), ('name', 'bytes')], returns='bytes'),
    dict(file=UTILS, func='build_http_pkt', name='build_http_pkt',
         params=[('line', 'list[bytes]'), ('headers', 'option[dict[bytes]]'), ('body', 'option[bytes]'),
                 ('conn_close', 'bool')], returns='bytes',
         names={'WHITESPACE': C('WHITESPACE'), 'CRLF': C('CRLF'),
                '_header_key': ('target', 'header_key'), 'build_http_header': ('target', 'build_http_header')}),
    dict(file=UTILS, func='build_http_response', name='build_http_response',
         params=[('status_code', 'int'), ('protocol_version', 'bytes'), ('reason', 'option[bytes]'),
                 ('headers', 'option[dict[bytes]]'), ('body', 'option[bytes]'), ('conn_close', 'bool'),
                 ('no_cl', 'bool')], returns='bytes',
         names={'_header_key': ('target', 'header_key'), 'build_http_pkt': ('target', 'build_http_pkt')}),
    dict(file=UTILS, func='build_http_request', name='build_http_request',
         params=[('method', 'bytes'), ('url', 'bytes'), ('protocol_version', 'bytes'),
                 ('content_type', 'option[bytes]'), ('headers', 'option[dict[bytes]]'), ('body', 'option[bytes]'),
                 ('conn_close', 'bool'), ('no_ua', 'bool')], returns='bytes',
         extras=[('ua', 'bytes')],
         names={'PROXY_AGENT_HEADER_VALUE': ('param', 'ua'),      # b'proxy.py v' + __version__: not a literal
                '_header_key': ('target', 'header_key'), 'build_http_pkt': ('target', 'build_http_pkt')}),

    # ---- a. the credential decision (proxy/http/proxy/auth.py)
    dict(file='proxy/http/proxy/auth.py', func='AuthPlugin.before_upstream_connection',
         name='AuthPlugin_before_upstream_connection',
         params=[('request', 'record:request')], returns='record:request',
         extras=[('auth_code', 'option[bytes]')],
         names={'self.flags.auth_code': ('param', 'auth_code'),
                'httpHeaders.PROXY_AUTHORIZATION': ('const', 'proxy/http/headers.py', 'httpHeaders', 'PROXY_AUTHORIZATION')},
         # ProxyAuthenticationFailed is the HttpProtocolException whose .response() is the 407 packet
         exceptions={'ProxyAuthenticationFailed': 'HttpProtocolException 407'}),
    # ---- c. chunked encoder (proxy/http/parser/chunk.py)
    dict(file='proxy/http/parser/chunk.py', func='ChunkParser.to_chunks', name='to_chunks',
         params=[('raw', 'bytes'), ('chunk_size', 'int')], returns='bytes',
         names={'CRLF': C('CRLF')}),
    # ---- d. request-target parsing (proxy/http/url.py)
    dict(file='proxy/http/url.py', func='Url._parse', name='Url_parse',
         params=[('raw', 'bytes')], returns='tuple[option[bytes],option[bytes],bytes,option[int]]',
         names={'AT': C('AT'), 'COLON': C('COLON')}),
    dict(file='proxy/http/url.py', func='Url.from_bytes', name='Url_from_bytes',
         params=[('raw', 'bytes'), ('allowed_url_schemes', 'option[list[bytes]]')], returns='record:url',
         names={'SLASH': C('SLASH'), 'DEFAULT_ALLOWED_URL_SCHEMES': C('DEFAULT_ALLOWED_URL_SCHEMES'),
                'Url._parse': ('target', 'Url_parse'), 'cls': ('ctor', 'url')},
         exceptions={'HttpProtocolException': 'HttpProtocolException 1'}),
    # ---- e. idle test and send-buffer bookkeeping
    dict(file='proxy/core/connection/connection.py', func='TcpConnection.has_buffer', name='TcpConnection_has_buffer',
         params=[('self', 'record:TcpConnection')], returns='bool'),
    dict(file='proxy/core/connection/connection.py', func='TcpConnection.queue', name='TcpConnection_queue',
         params=[('self', 'record:TcpConnection'), ('mv', 'bytes')], returns='unit', state_out=['self']),
    dict(file='proxy/http/handler.py', func='HttpProtocolHandler._connection_inactive_for',
         name='HttpProtocolHandler_connection_inactive_for',
         params=[('self', 'record:HttpProtocolHandler')], returns='int',
         extras=[('now', 'int')], names={'time.time': ('call_param', 'now')}),
    dict(file='proxy/http/handler.py', func='HttpProtocolHandler.is_inactive', name='HttpProtocolHandler_is_inactive',
         params=[('self', 'record:HttpProtocolHandler')], returns='bool',
         extras=[('now', 'int'), ('timeout', 'int')],
         names={'self.flags.timeout': ('param', 'timeout'),
                'self.work.has_buffer': ('method', 'TcpConnection_has_buffer'),
                'self._connection_inactive_for': ('method', 'HttpProtocolHandler_connection_inactive_for')}),
    # ---- f. chunked decoder, one step (state passing)
    dict(file=UTILS, func='find_http_line', name='find_http_line',
         params=[('raw', 'bytes')], returns='tuple[option[bytes],bytes]', names={'CRLF': C('CRLF')}),
    dict(file='proxy/http/parser/chunk.py', func='ChunkParser.process', name='ChunkParser_process',
         params=[('self', 'record:ChunkParser'), ('raw', 'bytes')], returns='tuple[bool,bytes]', state_out=['self'],
         names={'find_http_line': ('target', 'find_http_line'),
                'chunkParserStates.WAITING_FOR_SIZE': ('const', 'proxy/http/parser/chunk.py', 'chunkParserStates', 'WAITING_FOR_SIZE'),
                'chunkParserStates.WAITING_FOR_DATA': ('const', 'proxy/http/parser/chunk.py', 'chunkParserStates', 'WAITING_FOR_DATA'),
                'chunkParserStates.COMPLETE': ('const', 'proxy/http/parser/chunk.py', 'chunkParserStates', 'COMPLETE'),
                'chunkParserStates.WAITING_FOR_TRAILER': ('const', 'proxy/http/parser/chunk.py', 'chunkParserStates', 'WAITING_FOR_TRAILER')}),
    # ---- f. websocket masking
    dict(file='proxy/http/websocket/frame.py', func='WebsocketFrame.apply_mask', name='apply_mask',
         params=[('data', 'bytes'), ('mask', 'bytes')], returns='bytes'),
]
