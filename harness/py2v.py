#!/usr/bin/env python3
"""py2v.py -- fail-closed translator from a SMALL subset of Python to Gallina (Coq 8.16).

Usage:
    python3 harness/py2v.py [--repo DIR] [-o FILE | --write] [--list]
        --repo DIR   repository to read (default $VERIF_REPO or /repo)
        -o FILE      write the generated Coq file there (default: stdout)
        --write      refresh the committed copy /verif/coq/gen/Generated.v
Exit status 0 iff every target of harness/py2v_targets.py was translated.  For every target that is not,
one line `GEN-BROKEN: <target> : <file>:<line>: <what>` is printed on stderr and the target is left out of
the output (so the link theorem about it cannot compile).

The translator never guesses: every syntax form, builtin, method, name or type combination that is not
explicitly handled below raises Untranslatable.  The subset, the translation scheme and the trusted base
are described in /verif/notes/Gen.md; the support definitions are in /verif/coq/gen/GenSupport.v.
"""
import ast, os, sys, hashlib, argparse

HERE = os.path.dirname(os.path.abspath(__file__))
sys.path.insert(0, HERE)


class Untranslatable(Exception):
    def __init__(self, file, lineno, what):
        Exception.__init__(self, '%s:%s: %s' % (file, lineno, what))
        self.file, self.lineno, self.what = file, lineno, what


class NeedPartial(Exception):
    """raised while translating in pure mode when a construct needs the result monad"""


# ------------------------------------------------------------------------------------------- types
# static types of the subset (tuples so that they compare structurally)
BYTES, INT, BOOL, STR, UNIT = ('bytes',), ('int',), ('bool',), ('str',), ('unit',)
UNKNOWN = ('?',)                       # element type of `None` / `[]` / `{}` not yet known
def LIST(t): return ('list', t)
def OPT(t): return ('option', t)
def DICT(v): return ('dict', v)        # keys are always bytes
def TUPLE(*ts): return ('tuple', tuple(ts))
def REC(n): return ('record', n)
NONE_T = OPT(UNKNOWN)


def parse_type(s):
    """type syntax of the targets table: bytes int bool str unit list[T] option[T] dict[V] tuple[T,...] record:NAME"""
    s = s.strip()
    simple = {'bytes': BYTES, 'int': INT, 'bool': BOOL, 'str': STR, 'unit': UNIT}
    if s in simple:
        return simple[s]
    if s.startswith('record:'):
        return REC(s[7:])
    head, _, rest = s.partition('[')
    if not rest.endswith(']'):
        raise ValueError('bad type ' + s)
    inner = rest[:-1]
    parts, depth, cur = [], 0, ''
    for ch in inner:
        if ch == '[': depth += 1
        if ch == ']': depth -= 1
        if ch == ',' and depth == 0:
            parts.append(cur); cur = ''
        else:
            cur += ch
    parts.append(cur)
    ts = [parse_type(p) for p in parts]
    if head == 'list' and len(ts) == 1: return LIST(ts[0])
    if head == 'option' and len(ts) == 1: return OPT(ts[0])
    if head == 'dict' and len(ts) == 1: return DICT(ts[0])
    if head == 'tuple' and len(ts) >= 2: return TUPLE(*ts)
    raise ValueError('bad type ' + s)


def coq_type(t, records):
    k = t[0]
    if k == 'bytes' or k == 'str': return 'bytes'
    if k == 'int': return 'Z'
    if k == 'bool': return 'bool'
    if k == 'unit': return 'unit'
    if k == 'list': return '(list %s)' % coq_type(t[1], records)
    if k == 'option': return '(option %s)' % coq_type(t[1], records)
    if k == 'dict': return '(dict %s)' % coq_type(t[1], records)
    if k == 'tuple': return '(' + ' * '.join(coq_type(x, records) for x in t[1]) + ')%type'
    if k == 'record': return records[t[1]]['coq']
    raise ValueError('no Coq type for %r' % (t,))


def is_listlike(t):
    return t[0] in ('bytes', 'list', 'dict')


def unify(a, b):
    """least common type of two branch values, or None.  T and option T unify to option T (the T side is
    wrapped in Some); unknown element types are filled in."""
    if a == b: return a
    if a == UNKNOWN: return b
    if b == UNKNOWN: return a
    if a[0] == 'option' and b[0] == 'option':
        u = unify(a[1], b[1]);  return OPT(u) if u else None
    if a[0] == 'option' and b[0] != 'option':
        u = unify(a[1], b);  return OPT(u) if u else None
    if b[0] == 'option' and a[0] != 'option':
        u = unify(a, b[1]);  return OPT(u) if u else None
    if a[0] == b[0] == 'list':
        u = unify(a[1], b[1]);  return LIST(u) if u else None
    if a[0] == b[0] == 'dict':
        u = unify(a[1], b[1]);  return DICT(u) if u else None
    if a[0] == b[0] == 'tuple' and len(a[1]) == len(b[1]):
        us = [unify(x, y) for x, y in zip(a[1], b[1])]
        return TUPLE(*us) if all(us) else None
    return None


# ------------------------------------------------------------------------------------------- Coq text
def coq_bytes_lit(b):
    """bytes literal; printable text is written bs "..." (= bytes_of_string, convertible to the list)"""
    if len(b) == 0:
        return '[]'
    if all(32 <= x < 127 and x != 34 for x in b):
        return '(bs "%s")' % b.decode('ascii')
    return '[' + '; '.join(str(x) for x in b) + ']'


def coq_Z(n):
    return '%d%%Z' % n if n >= 0 else '(%d)%%Z' % n


def ind(s, n=2):
    pad = ' ' * n
    return '\n'.join(pad + l if l else l for l in s.split('\n'))


def paren(s):
    return '(' + s + ')'


RESERVED = set('''as at cofix else end exists exists2 fix for forall fun if IF in let match mod return Set Prop Type
then using where with Definition Fixpoint Lemma Theorem Proof Qed do'''.split())


def gname(pyname):
    """Gallina name of a Python local / parameter: prefixed so that it can never capture a global"""
    return 'v_' + pyname


# ------------------------------------------------------------------------------------------- module constants
class Module:
    """a source file of the repository: its AST, its top-level assignments and its functions"""
    cache = {}

    def __init__(self, repo, rel):
        self.repo, self.rel = repo, rel
        self.path = os.path.join(repo, rel)
        with open(self.path, encoding='utf-8') as f:
            self.src = f.read()
        self.tree = ast.parse(self.src, filename=rel)
        self.assigns = {}          # name -> value node (LAST top-level assignment; two assignments = refuse)
        self.multi = set()
        for node in self.tree.body:
            tgt = None
            if isinstance(node, ast.Assign) and len(node.targets) == 1 and isinstance(node.targets[0], ast.Name):
                tgt, val = node.targets[0].id, node.value
            elif isinstance(node, ast.AnnAssign) and isinstance(node.target, ast.Name) and node.value is not None:
                tgt, val = node.target.id, node.value
            if tgt is not None:
                if tgt in self.assigns:
                    self.multi.add(tgt)
                self.assigns[tgt] = val

    @classmethod
    def get(cls, repo, rel):
        key = (repo, rel)
        if key not in cls.cache:
            cls.cache[key] = Module(repo, rel)
        return cls.cache[key]

    def origin(self, name, hops=4):
        """where the top-level name `name` of this module is defined: (file, name) after following
        `from X import name` chains inside the repository; ('<import>', module) for `import module`;
        None when the module does not bind the name at top level (so a builtin keeps its meaning)"""
        found = None
        for node in self.tree.body:
            if isinstance(node, (ast.FunctionDef, ast.AsyncFunctionDef, ast.ClassDef)) and node.name == name:
                found = (self.rel, name)
            elif isinstance(node, ast.Import):
                for a in node.names:
                    if (a.asname or a.name.split('.')[0]) == name:
                        found = ('<import>', a.name)
            elif isinstance(node, ast.ImportFrom):
                for a in node.names:
                    if (a.asname or a.name) == name:
                        found = self._follow(node, a.name, hops)
            elif isinstance(node, (ast.Assign, ast.AnnAssign, ast.AugAssign)):
                tgts = node.targets if isinstance(node, ast.Assign) else [node.target]
                for t in tgts:
                    for n in ast.walk(t):
                        if isinstance(n, ast.Name) and n.id == name:
                            found = (self.rel, name)
            elif not isinstance(node, (ast.Expr, ast.Pass)):
                # if / try / with ... at top level may bind names conditionally: be conservative
                for n in ast.walk(node):
                    if (isinstance(n, ast.Name) and n.id == name and isinstance(n.ctx, ast.Store)) or \
                            (isinstance(n, ast.alias) and (n.asname or n.name.split('.')[0]) == name) or \
                            (isinstance(n, (ast.FunctionDef, ast.ClassDef)) and n.name == name):
                        found = ('<conditional>', name)
        return found

    def _follow(self, node, name, hops):
        if hops <= 0 or node.level == 0:
            return ('<external>', '%s.%s' % (node.module, name))
        base = os.path.dirname(self.rel)
        for _ in range(node.level - 1):
            base = os.path.dirname(base)
        parts = (node.module or '').split('.') if node.module else []
        cand = os.path.join(base, *parts)
        for rel in (cand + '.py', os.path.join(cand, '__init__.py')):
            if os.path.isfile(os.path.join(self.repo, rel)):
                m = Module.get(self.repo, rel)
                o = m.origin(name, hops - 1)
                return o if o is not None else (rel, name)
        return ('<unresolved>', name)

    def find_function(self, qual):
        """'f' or 'Class.f' -> (FunctionDef, class name or None)"""
        parts = qual.split('.')
        body, cls = self.tree.body, None
        if len(parts) == 2:
            cs = [n for n in body if isinstance(n, ast.ClassDef) and n.name == parts[0]]
            if len(cs) != 1:
                raise Untranslatable(self.rel, 0, 'class %s not found exactly once' % parts[0])
            body, cls = cs[0].body, parts[0]
        elif len(parts) != 1:
            raise Untranslatable(self.rel, 0, 'bad qualified name ' + qual)
        fs = [n for n in body if isinstance(n, ast.FunctionDef) and n.name == parts[-1]]
        if len(fs) != 1:
            raise Untranslatable(self.rel, 0, 'function %s not found exactly once (async/overloaded definitions are not supported)' % qual)
        return fs[0], cls

    def const(self, name, field=None, seen=()):
        """value of a module-level constant as a Python value (bytes / int / list of those), evaluating only
        literals, + on bytes, + - * on ints, names of other constants of the same file, and the pattern
        X = NamedTuple('X', [(field, type), ...]);  x = X(v1, v2, ...)  read as x.field"""
        if name in self.multi:
            raise Untranslatable(self.rel, 0, 'constant %s is assigned more than once' % name)
        if name not in self.assigns:
            raise Untranslatable(self.rel, 0, 'constant %s has no top-level assignment in this file' % name)
        if name in seen:
            raise Untranslatable(self.rel, 0, 'cyclic constant ' + name)
        node = self.assigns[name]
        if field is not None:
            return self._namedtuple_field(name, node, field, seen + (name,))
        return self._ceval(node, seen + (name,))

    def _ceval(self, n, seen):
        if isinstance(n, ast.Constant) and isinstance(n.value, (bytes, int)) and not isinstance(n.value, bool):
            return n.value
        if isinstance(n, ast.Name):
            return self.const(n.id, None, seen)
        if isinstance(n, ast.BinOp) and isinstance(n.op, (ast.Add, ast.Sub, ast.Mult)):
            a, b = self._ceval(n.left, seen), self._ceval(n.right, seen)
            if isinstance(a, bytes) and isinstance(b, bytes) and isinstance(n.op, ast.Add):
                return a + b
            if isinstance(a, int) and isinstance(b, int):
                return a + b if isinstance(n.op, ast.Add) else a - b if isinstance(n.op, ast.Sub) else a * b
            raise Untranslatable(self.rel, n.lineno, 'constant expression: operator on these operand types')
        if isinstance(n, (ast.List, ast.Tuple)):
            return [self._ceval(e, seen) for e in n.elts]
        raise Untranslatable(self.rel, getattr(n, 'lineno', 0), 'constant expression outside the literal subset: ' + type(n).__name__)

    def _namedtuple_field(self, name, node, field, seen):
        if not (isinstance(node, ast.Call) and isinstance(node.func, ast.Name) and not node.keywords):
            raise Untranslatable(self.rel, node.lineno, '%s is not a NamedTuple instance X(v1, ...)' % name)
        cls = node.func.id
        if cls in self.multi or cls not in self.assigns:
            raise Untranslatable(self.rel, node.lineno, 'NamedTuple class %s not found' % cls)
        c = self.assigns[cls]
        ok = (isinstance(c, ast.Call) and isinstance(c.func, ast.Name) and c.func.id == 'NamedTuple'
              and len(c.args) == 2 and not c.keywords and isinstance(c.args[1], ast.List))
        if not ok:
            raise Untranslatable(self.rel, c.lineno, '%s is not NamedTuple(name, [(field, type), ...])' % cls)
        fields = []
        for e in c.args[1].elts:
            if not (isinstance(e, ast.Tuple) and len(e.elts) == 2 and isinstance(e.elts[0], ast.Constant)
                    and isinstance(e.elts[0].value, str)):
                raise Untranslatable(self.rel, e.lineno, 'NamedTuple field list entry')
            fields.append(e.elts[0].value)
        if len(fields) != len(node.args) or field not in fields:
            raise Untranslatable(self.rel, node.lineno, 'NamedTuple %s has no field %s / arity mismatch' % (name, field))
        return self._ceval(node.args[fields.index(field)], seen)


def const_to_coq(v, where):
    """Python constant value -> (Coq term, type)"""
    if isinstance(v, bytes):
        return coq_bytes_lit(v), BYTES
    if isinstance(v, int):
        return coq_Z(v), INT
    if isinstance(v, list) and v and all(isinstance(x, bytes) for x in v):
        return '[' + '; '.join(coq_bytes_lit(x) for x in v) + ']', LIST(BYTES)
    raise Untranslatable(where[0], where[1], 'constant value of unsupported shape: %r' % (v,))


# ------------------------------------------------------------------------------------------- analyses
def assigned_names(stmts):
    """names (and, for attribute stores / mutating method calls, the base object) a block may rebind, in
    order of first occurrence"""
    out = []
    def add(n):
        if n not in out: out.append(n)
    def tgt(t):
        if isinstance(t, ast.Name): add(t.id)
        elif isinstance(t, (ast.Tuple, ast.List)):
            for e in t.elts: tgt(e)
        elif isinstance(t, (ast.Subscript, ast.Attribute)):
            b = t
            while isinstance(b, (ast.Subscript, ast.Attribute)): b = b.value
            if isinstance(b, ast.Name): add(b.id)
    def walk(ss):
        for s in ss:
            if isinstance(s, ast.Assign):
                for t in s.targets: tgt(t)
            elif isinstance(s, (ast.AugAssign, ast.AnnAssign)):
                tgt(s.target)
            elif isinstance(s, ast.For):
                tgt(s.target); walk(s.body); walk(s.orelse)
            elif isinstance(s, ast.If):
                walk(s.body); walk(s.orelse)
            elif isinstance(s, ast.Try):
                walk(s.body)
                for h in s.handlers: walk(h.body)
                walk(s.orelse); walk(s.finalbody)
            elif isinstance(s, ast.Expr) and isinstance(s.value, ast.Call) and isinstance(s.value.func, ast.Attribute) \
                    and s.value.func.attr in ('append',):
                tgt(s.value.func.value)
    walk(stmts)
    return out


def has_exit(stmts, kinds=(ast.Return, ast.Raise, ast.Break, ast.Continue)):
    """does the block contain return / raise / break / continue (break/continue of nested loops excluded)"""
    for s in stmts:
        if isinstance(s, kinds): return True
        if isinstance(s, ast.If) and (has_exit(s.body, kinds) or has_exit(s.orelse, kinds)): return True
        if isinstance(s, ast.For):
            inner = tuple(k for k in kinds if k in (ast.Return, ast.Raise))
            if inner and (has_exit(s.body, inner) or has_exit(s.orelse, inner)): return True
        if isinstance(s, ast.Try):
            if has_exit(s.body, kinds) or any(has_exit(h.body, kinds) for h in s.handlers) \
                    or has_exit(s.orelse, kinds) or has_exit(s.finalbody, kinds): return True
    return False


def names_read(node):
    return {n.id for n in ast.walk(node) if isinstance(n, ast.Name) and isinstance(n.ctx, ast.Load)}


class Var:
    """a Python local as seen by the translator: the Gallina term that reads it and its static type"""
    def __init__(self, term, ty):
        self.term, self.ty = term, ty


class Ctx:
    """where the block being translated sits: which monad, and what return / break / falling through mean"""
    def __init__(self, partial, ret, brk=None):
        self.partial = partial      # True: terms have type `result X`
        self.ret = ret              # value term -> term of the block (None: `return` not allowed here)
        self.brk = brk              # env -> term of the block (None: `break` not allowed here)

    def wrap(self, t):
        return 'Ok ' + paren(t) if self.partial else t


# ------------------------------------------------------------------------------------------- one function
CHAR = ('char',)      # s[0] / s[-1] of a str: only comparable with a one-character ASCII literal

BUILTIN_EXN = {'ValueError': 'ValueError', 'IndexError': 'IndexError', 'KeyError': 'KeyError',
               'AssertionError': 'AssertionError', 'UnicodeDecodeError': 'UnicodeDecodeError', 'TypeError': 'TypeError'}
EXN_CLASS = {'ValueError': 'CValueError', 'IndexError': 'CIndexError', 'KeyError': 'CKeyError',
             'AssertionError': 'CAssertionError', 'UnicodeDecodeError': 'CUnicodeDecodeError',
             'TypeError': 'CTypeError', 'Exception': 'CException'}


class Fn:
    def __init__(self, tr, spec, fdef, module):
        self.tr, self.spec, self.fdef, self.module = tr, spec, fdef, module
        self.records = tr.records
        self.n = 0
        self.extras = [(g, parse_type(t)) for g, t in spec.get('extras', [])]
        self.names = spec.get('names', {})
        self.exceptions = dict(BUILTIN_EXN); self.exceptions.update(spec.get('exceptions', {}))
        self.ret_ty = parse_type(spec['returns'])
        self.state_out = spec.get('state_out', [])
        self.mutated = set()
        self.bytearrays = set()

    # ---- small helpers
    def fail(self, node, what):
        raise Untranslatable(self.module.rel, getattr(node, 'lineno', self.fdef.lineno), what)

    def fresh(self, base='t'):
        self.n += 1
        return '%s_%d' % (base, self.n)

    def close(self, binds, term):
        """binds + pure term -> a term of type result"""
        out = 'Ok ' + paren(term)
        for pat, r in reversed(binds):
            out = 'do %s <- %s;\n%s' % (pat, r, out)
        return paren(out) if binds else out

    def dotted(self, e):
        parts = []
        while isinstance(e, ast.Attribute):
            parts.append(e.attr); e = e.value
        if isinstance(e, ast.Name):
            parts.append(e.id)
            return '.'.join(reversed(parts))
        return None

    def static_bytes(self, e):
        """the bytes value of e when it is known at translation time (literal / resolved constant / their +)"""
        if isinstance(e, ast.Constant) and isinstance(e.value, bytes):
            return e.value
        d = self.dotted(e)
        if d is not None and d in self.names and self.names[d][0] == 'const' and not (isinstance(e, ast.Name) and False):
            v = self.const_value(self.names[d])
            return v if isinstance(v, bytes) else None
        if isinstance(e, ast.BinOp) and isinstance(e.op, ast.Add):
            a, b = self.static_bytes(e.left), self.static_bytes(e.right)
            if a is not None and b is not None:
                return a + b
        return None

    def const_value(self, spec):
        m = Module.get(self.module.repo, spec[1])
        return m.const(spec[2], spec[3] if len(spec) > 3 else None)

    def coerce(self, term, ty, want, node):
        if ty == want:
            return term
        if want[0] == 'option' and ty[0] != 'option':
            if unify(ty, want[1]) is None:
                self.fail(node, 'type mismatch: have %r, need %r' % (ty, want))
            return 'Some ' + paren(self.coerce(term, ty, unify(ty, want[1]), node))
        u = unify(ty, want)
        if u == want and (UNKNOWN in _flat(ty)):
            return term                         # None / [] / {} at a more specific type: same term
        self.fail(node, 'type mismatch: have %r, need %r' % (ty, want))

    def truth(self, term, ty, node):
        k = ty
        if k == BOOL: return term
        if k == OPT(BYTES): return 'truthy_ob ' + paren(term)
        if k == BYTES: return 'truthy_b ' + paren(term)
        if k[0] in ('list', 'dict'): return 'truthy_l ' + paren(term)
        if k[0] == 'option' and k[1][0] in ('list', 'dict'): return 'truthy_ol ' + paren(term)
        if k == INT: return 'truthy_z ' + paren(term)
        if k == OPT(INT): return 'truthy_oz ' + paren(term)
        self.fail(node, 'truthiness of a value of type %r' % (ty,))

    # ---- is a free name of the function really bound to what the environment says?
    def check_origin(self, node, d):
        spec = self.names[d]
        base = d.split('.')[0]
        if base in ('self', 'cls'):
            return            # resolved through the object: part of the attribute environment (trusted)
        o = self.module.origin(base)
        if spec[0] == 'const':
            want = (spec[1], spec[2])
        elif spec[0] in ('target', 'method'):
            t = [x for x in self.tr.table.TARGETS if x['name'] == spec[1]]
            if not t: self.fail(node, 'environment names the unknown target ' + spec[1])
            want = (t[0]['file'], t[0]['func'].split('.')[0])
        elif spec[0] == 'call_param':
            want = ('<import>', base)
        else:
            return
        if o != want:
            self.fail(node, 'the name %s is bound to %r here, the environment says %r' % (base, o, want))

    def check_builtin(self, node, name, env):
        if name in env or self.module.origin(name) is not None:
            self.fail(node, 'the builtin %s is shadowed in this module / function' % name)

    def check_helper(self, node, name):
        """bytes_ / text_ of common/utils.py have a hard-wired meaning: refuse when their source text changed"""
        want = getattr(self.tr.table, 'HELPERS', {}).get(name)
        if want is None: self.fail(node, 'helper %s has no pinned source in the target table' % name)
        if self.module.origin(name) != (want[0], name):
            self.fail(node, 'the name %s is not %s:%s here' % (name, want[0], name))
        m = Module.get(self.module.repo, want[0])
        fdef, _ = m.find_function(name)
        sha = hashlib.sha1((ast.get_source_segment(m.src, fdef) or '').encode('utf-8')).hexdigest()
        if sha != want[1]:
            self.fail(node, 'the source of helper %s changed (sha1 %s): its meaning is hard-wired in the translator' % (name, sha))

    # ---- names
    def load_name(self, e, env):
        """Name / Attribute chain in load position"""
        if isinstance(e, ast.Name) and e.id in env:
            v = env[e.id]
            if v is None:
                self.fail(e, 'variable %s may be unbound here (assigned on some paths only)' % e.id)
            return [], v.term, v.ty
        d = self.dotted(e)
        if d is not None and '@' + d in env:          # an environment input narrowed by an enclosing test
            return [], env['@' + d].term, env['@' + d].ty
        if d is not None and d in self.names:
            spec = self.names[d]
            self.check_origin(e, d)
            if spec[0] == 'param':
                ty = dict(self.extras)[spec[1]]
                return [], spec[1], ty
            if spec[0] == 'const':
                t, ty = const_to_coq(self.const_value(spec), (self.module.rel, e.lineno))
                return [], t, ty
            self.fail(e, 'name %s is not a value (%s)' % (d, spec[0]))
        if isinstance(e, ast.Attribute):
            binds, t, ty = self.expr(e.value, env)
            if ty[0] == 'record':
                f = self.records[ty[1]]['fields'].get(e.attr)
                if f is None:
                    self.fail(e, 'attribute %s of record %s is not in the attribute environment' % (e.attr, ty[1]))
                return binds, '%s %s' % (f['get'], paren(t)), parse_type(f['type'])
            self.fail(e, 'attribute read .%s on a value of type %r' % (e.attr, ty))
        self.fail(e, 'unknown name %s' % (d or ast.dump(e)))

    # ---- expressions: returns (binds, pure term, type)
    def expr(self, e, env):
        if isinstance(e, ast.Constant):
            v = e.value
            if v is None: return [], 'None', NONE_T
            if v is True: return [], 'true', BOOL
            if v is False: return [], 'false', BOOL
            if isinstance(v, bytes): return [], coq_bytes_lit(v), BYTES
            if isinstance(v, int): return [], coq_Z(v), INT
            if isinstance(v, str) and all(ord(c) < 128 for c in v):
                return [], coq_bytes_lit(v.encode('ascii')), STR
            self.fail(e, 'literal %r' % (v,))
        if isinstance(e, (ast.Name, ast.Attribute)):
            return self.load_name(e, env)
        if isinstance(e, ast.List):
            if not e.elts: return [], '[]', LIST(UNKNOWN)
            binds, ts, ty = [], [], UNKNOWN
            parts = [self.expr(x, env) for x in e.elts]
            for b, t, y in parts:
                ty = unify(ty, y)
                if ty is None: self.fail(e, 'list literal with elements of different types')
            for (b, t, y), x in zip(parts, e.elts):
                binds += b; ts.append(self.coerce(t, y, ty, x))
            return binds, '[' + '; '.join(ts) + ']', LIST(ty)
        if isinstance(e, ast.Tuple):
            parts = [self.expr(x, env) for x in e.elts]
            if len(parts) < 2: self.fail(e, 'tuple of fewer than two elements')
            return sum((p[0] for p in parts), []), '(' + ', '.join(p[1] for p in parts) + ')', TUPLE(*[p[2] for p in parts])
        if isinstance(e, ast.Dict):
            if e.keys: self.fail(e, 'non-empty dict literal')
            return [], '[]', DICT(UNKNOWN)
        if isinstance(e, ast.BinOp): return self.binop(e, env)
        if isinstance(e, ast.UnaryOp):
            if isinstance(e.op, ast.Not):
                b, t, _ = self.test(e, env)
                return b, t, BOOL
            if isinstance(e.op, ast.USub) and isinstance(e.operand, ast.Constant) and type(e.operand.value) is int:
                return [], coq_Z(-e.operand.value), INT
            self.fail(e, 'unary operator ' + type(e.op).__name__)
        if isinstance(e, ast.BoolOp): return self.boolop_value(e, env)
        if isinstance(e, ast.Compare): return self.compare(e, env)
        if isinstance(e, ast.IfExp): return self.ifexp(e, env, None)
        if isinstance(e, ast.Subscript): return self.subscript(e, env)
        if isinstance(e, ast.Call): return self.call(e, env)
        self.fail(e, 'expression form ' + type(e).__name__)

    def expr_as(self, e, env, want):
        """translate e and coerce it to the type `want` (tuples and conditional expressions piecewise)"""
        if isinstance(e, ast.Tuple) and want[0] == 'tuple' and len(want[1]) == len(e.elts):
            parts = [self.expr_as(x, env, w) for x, w in zip(e.elts, want[1])]
            return sum((p[0] for p in parts), []), '(' + ', '.join(p[1] for p in parts) + ')'
        if isinstance(e, ast.IfExp):
            b, t, ty = self.ifexp(e, env, want)
            return b, t
        b, t, ty = self.expr(e, env)
        return b, self.coerce(t, ty, want, e)

    def binop(self, e, env):
        b1, t1, y1 = self.expr(e.left, env)
        b2, t2, y2 = self.expr(e.right, env)
        if isinstance(e.op, ast.Add):
            if y1 == BYTES and y2 == BYTES: return b1 + b2, '(%s ++ %s)' % (t1, t2), BYTES
            if y1 == INT and y2 == INT: return b1 + b2, '(%s + %s)%%Z' % (t1, t2), INT
        if isinstance(e.op, ast.Sub) and y1 == INT and y2 == INT:
            return b1 + b2, '(%s - %s)%%Z' % (t1, t2), INT
        if isinstance(e.op, ast.Mult) and y1 == INT and y2 == INT:
            return b1 + b2, '(%s * %s)%%Z' % (t1, t2), INT
        if isinstance(e.op, ast.BitXor) and y1 == INT and y2 == INT:
            return b1 + b2, 'Z.lxor %s %s' % (paren(t1), paren(t2)), INT
        if isinstance(e.op, ast.Mod) and y1 == INT and y2 == INT:
            d = self.const_index(e.right)
            if d is None or d <= 0: self.fail(e, '% with a divisor that is not a positive constant')
            return b1 + b2, '(%s mod %s)%%Z' % (t1, t2), INT      # Python % = floor modulo = Z.modulo
        self.fail(e, 'operator %s on %r and %r' % (type(e.op).__name__, y1, y2))

    # a boolean test with the narrowing it justifies in its true branch
    def test(self, e, env):
        """-> (binds, bool term, narrowing: {pyname: Var} valid where the test is true)"""
        if isinstance(e, ast.UnaryOp) and isinstance(e.op, ast.Not):
            b, t, _ = self.test(e.operand, env)
            return b, 'negb ' + paren(t), {}
        if isinstance(e, ast.BoolOp):
            binds, terms, narrow = [], [], {}
            cur = dict(env)
            is_and = isinstance(e.op, ast.And)
            for i, x in enumerate(e.values):
                b, t, nw = self.test(x, cur)
                if b and i > 0:
                    # a partial operand after the first is evaluated only if the earlier ones let it
                    guard = (' && ' if is_and else ' || ').join(terms)
                    fr = self.fresh('c')
                    short = 'Ok false' if is_and else 'Ok true'
                    inner = self.close(b, t)
                    r = ('if %s then\n%s\nelse %s' % (guard, ind(inner), short)) if is_and else \
                        ('if %s then %s else\n%s' % (guard, short, ind(inner)))
                    binds.append((fr, paren(r)))
                    terms = [fr]     # fr already contains the earlier operands' verdict
                else:
                    binds += b
                    terms.append(paren(t))
                if is_and:
                    narrow.update(nw); cur.update(nw)
            op = ' && ' if is_and else ' || '
            return binds, op.join(terms), (narrow if is_and else {})
        b, t, ty = self.expr(e, env)
        narrow = {}
        key = None
        if isinstance(e, ast.Name): key = e.id
        elif self.dotted(e) in self.names and self.names[self.dotted(e)][0] == 'param': key = '@' + self.dotted(e)
        if key is not None and ty[0] == 'option':
            inner = ty[1]
            if is_listlike(inner): narrow[key] = Var('or_empty ' + paren(t), inner)
            elif inner == INT: narrow[key] = Var('or_zero ' + paren(t), inner)
        return b, self.truth(t, ty, e), narrow

    def boolop_value(self, e, env):
        """and / or used as a value: all-bool operands, or the idioms `x or <default>`"""
        first = self.expr(e.values[0], env)
        if first[2] == BOOL or isinstance(e.op, ast.And):
            b, t, _ = self.test(e, env)
            # every operand must really be a bool, otherwise the VALUE would not be a bool
            for x in e.values:
                if self.expr(x, env)[2] != BOOL:
                    self.fail(e, 'and/or over non-bool operands used as a value')
            return b, paren(t), BOOL
        if len(e.values) != 2:
            self.fail(e, '`or` chain of non-bool operands')
        b1, t1, y1 = first
        b2, t2, y2 = self.expr(e.values[1], env)
        if b2: self.fail(e, 'partial right operand of `or`')
        empty_lit = t2 == '[]'
        if y1[0] == 'option' and is_listlike(y1[1]) and unify(y1[1], y2) is not None:
            ty = unify(y1[1], y2)
            return b1, ('opt_or_empty %s' % paren(t1)) if empty_lit else ('opt_or %s %s' % (paren(t1), paren(t2))), ty
        if is_listlike(y1) and unify(y1, y2) is not None and empty_lit:
            return b1, 'list_or_empty ' + paren(t1), unify(y1, y2)
        if y1 == OPT(INT) and y2 == INT: return b1, 'oz_or %s %s' % (paren(t1), paren(t2)), INT
        if y1 == INT and y2 == INT: return b1, 'z_or %s %s' % (paren(t1), paren(t2)), INT
        self.fail(e, '`or` on operands of type %r and %r' % (y1, y2))

    def compare(self, e, env):
        if len(e.ops) != 1: self.fail(e, 'chained comparison')
        op, l, r = e.ops[0], e.left, e.comparators[0]
        if isinstance(op, (ast.Is, ast.IsNot)):
            if not (isinstance(r, ast.Constant) and r.value is None): self.fail(e, '`is` with something other than None')
            b, t, ty = self.expr(l, env)
            if ty[0] != 'option': self.fail(e, '`is None` on a value that is never None (type %r)' % (ty,))
            s = 'is_none ' + paren(t)
            return b, s if isinstance(op, ast.Is) else 'negb ' + paren(s), BOOL
        b1, t1, y1 = self.expr(l, env)
        b2, t2, y2 = self.expr(r, env)
        binds = b1 + b2
        if isinstance(op, (ast.In, ast.NotIn)):
            if y1 == BYTES and y2[0] == 'dict': s = 'dict_has %s %s' % (paren(t1), paren(t2))
            elif y1 == BYTES and y2 == LIST(BYTES): s = 'list_bytes_mem %s %s' % (paren(t1), paren(t2))
            elif y1 == STR and y2 == STR:
                c = self.static_char(l)
                if c is None: self.fail(e, '`in` on str with a needle that is not a one-character ASCII constant')
                s = 'str_has_ascii %d %s' % (c, paren(t2))
            else: self.fail(e, '`in` on %r and %r' % (y1, y2))
            return binds, s if isinstance(op, ast.In) else 'negb ' + paren(s), BOOL
        if isinstance(op, (ast.Eq, ast.NotEq)):
            if y1 == BYTES and y2 == BYTES: s = 'bytes_eqb %s %s' % (paren(t1), paren(t2))
            elif y1 == INT and y2 == INT: s = '(%s =? %s)%%Z' % (t1, t2)
            elif y1 == BOOL and y2 == BOOL: s = 'Bool.eqb %s %s' % (paren(t1), paren(t2))
            elif y1 == CHAR and y2 == STR and self.static_char(r) is not None:
                s = '(%s =? %d)%%N' % (t1, self.static_char(r))
            else: self.fail(e, '== on %r and %r' % (y1, y2))
            return binds, s if isinstance(op, ast.Eq) else 'negb ' + paren(s), BOOL
        if y1 == INT and y2 == INT:
            sym = {ast.Lt: '<?', ast.LtE: '<=?', ast.Gt: '>?', ast.GtE: '>=?'}.get(type(op))
            if sym: return binds, '(%s %s %s)%%Z' % (t1, sym, t2), BOOL
        self.fail(e, 'comparison %s on %r and %r' % (type(op).__name__, y1, y2))

    def static_char(self, e):
        """code of a one-character ASCII str constant: 'c' or <bytes constant>.decode(...)"""
        if isinstance(e, ast.Constant) and isinstance(e.value, str) and len(e.value) == 1 and ord(e.value) < 128:
            return ord(e.value)
        if isinstance(e, ast.Call) and isinstance(e.func, ast.Attribute) and e.func.attr == 'decode':
            v = self.static_bytes(e.func.value)
            if v is not None and len(v) == 1 and v[0] < 128: return v[0]
        return None

    def ifexp(self, e, env, want):
        # `a if x is not None else b` / `... if x is None ...` on a variable: match with narrowing
        nn = self.none_test(e.test, env)
        if nn is not None:
            name, is_none, inner_ty, term = nn
            fr = self.fresh(gname(name.replace('@', '').replace('.', '_')))
            env_some = dict(env); env_some[name] = Var(fr, inner_ty)
            e_none, e_some = (e.body, e.orelse) if is_none else (e.orelse, e.body)
            pn = self.expr(e_none, env) if want is None else None
            ps = self.expr(e_some, env_some) if want is None else None
            if want is None:
                ty = unify(pn[2], ps[2])
                if ty is None: self.fail(e, 'branches of a conditional expression have different types')
            else: ty = want
            bn, tn = self.expr_as(e_none, env, ty)
            bs_, ts = self.expr_as(e_some, env_some, ty)
            if bn or bs_:
                r = self.fresh()
                return [(r, paren('match %s with\n| None =>\n%s\n| Some %s =>\n%s\nend' % (term, ind(self.close(bn, tn)), fr, ind(self.close(bs_, ts)))))], r, ty
            return [], paren('match %s with None => %s | Some %s => %s end' % (term, tn, fr, ts)), ty
        bc, tc, nw = self.test(e.test, env)
        env_t = dict(env); env_t.update(nw)
        if want is None:
            ya, yb = self.expr(e.body, env_t)[2], self.expr(e.orelse, env)[2]
            ty = unify(ya, yb)
            if ty is None: self.fail(e, 'branches of a conditional expression have different types')
        else: ty = want
        ba, ta = self.expr_as(e.body, env_t, ty)
        bb, tb = self.expr_as(e.orelse, env, ty)
        if ba or bb:
            r = self.fresh()
            return bc + [(r, paren('if %s then\n%s\nelse\n%s' % (tc, ind(self.close(ba, ta)), ind(self.close(bb, tb)))))], r, ty
        return bc, paren('if %s then %s else %s' % (tc, ta, tb)), ty

    def none_test(self, t, env):
        """`X is None` / `X is not None` for a local or a record attribute X of option type
        -> (env key that carries the narrowing, is_none?, inner type, term)"""
        if not (isinstance(t, ast.Compare) and len(t.ops) == 1 and isinstance(t.ops[0], (ast.Is, ast.IsNot))
                and isinstance(t.comparators[0], ast.Constant) and t.comparators[0].value is None):
            return None
        x = t.left
        if isinstance(x, ast.Name) and x.id in env and env[x.id] is not None:
            v = env[x.id]
            if v.ty[0] == 'option' and v.ty[1] != UNKNOWN:
                return x.id, isinstance(t.ops[0], ast.Is), v.ty[1], v.term
            return None
        d = self.dotted(x)
        if isinstance(x, ast.Attribute) and d is not None and d not in self.names and isinstance(x.value, ast.Name) \
                and x.value.id in env and env[x.value.id] is not None and env[x.value.id].ty[0] == 'record':
            b, term, ty = self.load_name(x, env)
            if not b and ty[0] == 'option' and ty[1] != UNKNOWN:
                return '@' + d, isinstance(t.ops[0], ast.Is), ty[1], term
        return None

    def const_index(self, e):
        if isinstance(e, ast.Constant) and type(e.value) is int: return e.value
        if isinstance(e, ast.UnaryOp) and isinstance(e.op, ast.USub) and isinstance(e.operand, ast.Constant) \
                and type(e.operand.value) is int: return -e.operand.value
        return None

    def subscript(self, e, env):
        bv, tv, yv = self.expr(e.value, env)
        sl = e.slice
        if isinstance(sl, ast.Slice):
            if sl.step is not None: self.fail(e, 'slice with a step')
            if yv != BYTES and yv[0] != 'list': self.fail(e, 'slice of a value of type %r' % (yv,))
            binds = list(bv)
            lo = hi = None
            if sl.lower is not None:
                b, lo, y = self.expr(sl.lower, env); binds += b
                if y != INT: self.fail(e, 'slice bound of type %r' % (y,))
            if sl.upper is not None:
                b, hi, y = self.expr(sl.upper, env); binds += b
                if y != INT: self.fail(e, 'slice bound of type %r' % (y,))
            if lo is None and hi is None: return binds, tv, yv
            if lo is None: return binds, 'py_slice_to %s %s' % (paren(hi), paren(tv)), yv
            if hi is None: return binds, 'py_slice_from %s %s' % (paren(lo), paren(tv)), yv
            return binds, 'py_slice %s %s %s' % (paren(lo), paren(hi), paren(tv)), yv
        if yv[0] == 'tuple':
            i = self.const_index(sl)
            n = len(yv[1])
            if i is None or not (-n <= i < n): self.fail(e, 'tuple index that is not a constant in range')
            i %= n
            # (a, b, c) is ((a, b), c)
            t = tv
            for _ in range(n - 1 - i): t = 'fst ' + paren(t)
            if i > 0: t = 'snd ' + paren(t)
            return bv, t, yv[1][i]
        if yv[0] == 'dict':
            bk, tk, yk = self.expr(sl, env)
            if yk != BYTES: self.fail(e, 'dict key of type %r' % (yk,))
            r = self.fresh()
            return bv + bk + [(r, 'dict_index %s %s' % (paren(tk), paren(tv)))], r, yv[1]
        if yv == BYTES or yv[0] == 'list' or yv == STR:
            if yv == STR and self.const_index(sl) not in (0, -1):
                self.fail(e, 'index into a str other than [0] / [-1]')
            bi, ti, yi = self.expr(sl, env)
            if yi != INT: self.fail(e, 'index of type %r' % (yi,))
            r = self.fresh()
            binds = bv + bi + [(r, 'py_index %s %s' % (paren(tv), paren(ti)))]
            if yv == BYTES: return binds, 'Z.of_N ' + r, INT
            if yv == STR: return binds, r, CHAR
            if yv[1] == UNKNOWN: self.fail(e, 'index into a list of unknown element type')
            return binds, r, yv[1]
        self.fail(e, 'subscript on a value of type %r' % (yv,))

    def args_of(self, e, n_min, n_max):
        if e.keywords or any(isinstance(a, ast.Starred) for a in e.args):
            self.fail(e, 'keyword / starred arguments')
        if not (n_min <= len(e.args) <= n_max):
            self.fail(e, 'wrong number of arguments')
        return e.args

    def call(self, e, env):
        f = e.func
        d = self.dotted(f)
        # names given a meaning by the target's environment
        if d is not None and d in self.names and not (isinstance(f, ast.Name) and f.id in env):
            spec = self.names[d]
            self.check_origin(e, d)
            if spec[0] == 'call_param':
                self.args_of(e, 0, 0)
                return [], spec[1], dict(self.extras)[spec[1]]
            if spec[0] == 'target':
                return self.call_target(e, env, spec[1], None)
            if spec[0] == 'method':
                return self.call_target(e, env, spec[1], f.value)
            if spec[0] == 'ctor':
                return self.call_ctor(e, env, spec[1])
            self.fail(e, 'call of %s (%s)' % (d, spec[0]))
        if isinstance(f, ast.Name):
            if f.id in ('len', 'int', 'bytes', 'bytearray', 'memoryview'):
                self.check_builtin(e, f.id, env)
            if f.id in ('bytes_', 'text_'):
                if f.id in env: self.fail(e, 'helper %s is shadowed by a local' % f.id)
                self.check_helper(e, f.id)
            if f.id == 'len':
                (a,) = self.args_of(e, 1, 1)
                b, t, y = self.expr(a, env)
                if y != BYTES and y[0] not in ('list', 'dict'): self.fail(e, 'len of a value of type %r' % (y,))
                return b, 'zlen ' + paren(t), INT
            if f.id == 'int':
                args = self.args_of(e, 1, 2)
                b, t, y = self.expr(args[0], env)
                if y not in (BYTES, STR): self.fail(e, 'int() of a value of type %r' % (y,))
                fn = 'int10'
                if len(args) == 2:
                    base = self.const_index(args[1])
                    if base == 16: fn = 'int16'
                    elif base != 10: self.fail(e, 'int() with a base other than 10 / 16')
                r = self.fresh()
                return b + [(r, '%s %s' % (fn, paren(t)))], r, INT
            if f.id == 'bytes_':
                (a,) = self.args_of(e, 1, 1)
                b, t, y = self.expr(a, env)
                if y == INT: return b, 'dec_of_Z ' + paren(t), BYTES
                if y in (BYTES, STR): return b, t, BYTES
                self.fail(e, 'bytes_() of a value of type %r' % (y,))
            if f.id == 'bytes':               # bytes(bytearray): an immutable copy, the same value
                (a,) = self.args_of(e, 1, 1)
                b, t, y = self.expr(a, env)
                if y != BYTES: self.fail(e, 'bytes() of a value of type %r' % (y,))
                return b, t, BYTES
            if f.id == 'bytearray':           # a fresh mutable copy: the same value (see assign: item stores)
                (a,) = self.args_of(e, 1, 1)
                b, t, y = self.expr(a, env)
                if y != BYTES: self.fail(e, 'bytearray() of a value of type %r' % (y,))
                return b, t, BYTES
            if f.id == 'memoryview':          # a view of immutable bytes: the same value
                (a,) = self.args_of(e, 1, 1)
                b, t, y = self.expr(a, env)
                if y != BYTES: self.fail(e, 'memoryview() of a value of type %r' % (y,))
                return b, t, BYTES
            if f.id == 'text_':
                (a,) = self.args_of(e, 1, 1)
                b, t, y = self.expr(a, env)
                if y == STR: return b, t, STR
                if y != BYTES: self.fail(e, 'text_() of a value of type %r' % (y,))
                r = self.fresh()
                return b + [(r, 'text_ ' + paren(t))], r, STR
            self.fail(e, 'call of %s' % f.id)
        if isinstance(f, ast.Attribute):
            return self.method(e, env)
        self.fail(e, 'call of a computed function')

    def method(self, e, env):
        f, m = e.func, e.func.attr
        # '{:x}'.format(n)
        if m == 'format' and isinstance(f.value, ast.Constant) and f.value.value == '{:x}':
            (a,) = self.args_of(e, 1, 1)
            b, t, y = self.expr(a, env)
            if y != INT: self.fail(e, "'{:x}'.format of a value of type %r" % (y,))
            return b, 'hex_of_Z ' + paren(t), STR
        bv, tv, yv = self.expr(f.value, env)
        if m == 'split' and yv == BYTES:
            args = self.args_of(e, 0, 2)
            if not args: return bv, 'split_ws ' + paren(tv), LIST(BYTES)
            sep = self.static_bytes(args[0])
            if not sep: self.fail(e, 'split() separator is not a non-empty bytes constant known at translation time')
            bs_, ts, _ = self.expr(args[0], env)
            if len(args) == 1: return bv + bs_, 'split_all %s %s' % (paren(ts), paren(tv)), LIST(BYTES)
            n = self.const_index(args[1])
            if n is None or n < 0: self.fail(e, 'split() maxsplit is not a non-negative constant')
            return bv + bs_, 'splitn %s %d%%nat %s' % (paren(ts), n, paren(tv)), LIST(BYTES)
        if m in ('lower', 'upper', 'strip') and yv == BYTES:
            self.args_of(e, 0, 0)
            return bv, '%s %s' % (m, paren(tv)), BYTES
        if m == 'startswith' and yv == BYTES:
            (a,) = self.args_of(e, 1, 1)
            b, t, y = self.expr(a, env)
            if y != BYTES: self.fail(e, 'startswith() of a value of type %r' % (y,))
            return bv + b, 'startswith %s %s' % (paren(tv), paren(t)), BOOL
        if m == 'join' and yv == BYTES:
            (a,) = self.args_of(e, 1, 1)
            b, t, y = self.expr(a, env)
            if y != LIST(BYTES): self.fail(e, 'join() of a value of type %r' % (y,))
            return bv + b, 'join %s %s' % (paren(tv), paren(t)), BYTES
        if m == 'decode' and yv == BYTES:
            args = self.args_of(e, 0, 2)
            for a, allowed in zip(args, (('utf-8', 'utf8'), ('strict',))):
                if not (isinstance(a, ast.Constant) and a.value in allowed): self.fail(e, 'decode() arguments')
            r = self.fresh()
            return bv + [(r, 'text_ ' + paren(tv))], r, STR
        if m == 'encode' and yv == STR:
            args = self.args_of(e, 0, 2)
            for a, allowed in zip(args, (('utf-8', 'utf8'), ('strict',))):
                if not (isinstance(a, ast.Constant) and a.value in allowed): self.fail(e, 'encode() arguments')
            return bv, tv, BYTES
        self.fail(e, 'method .%s on a value of type %r' % (m, yv))

    def call_target(self, e, env, tname, receiver):
        callee = self.tr.done.get(tname)
        if callee is None:
            self.fail(e, 'call of target %s which is not (yet / successfully) translated' % tname)
        if callee['mutates']:
            self.fail(e, 'call of a target that mutates its object')
        if e.keywords or any(isinstance(a, ast.Starred) for a in e.args):
            self.fail(e, 'keyword / starred arguments in a call of a target')
        params = list(callee['params'])
        binds, terms = [], []
        for g, ty in callee['extras']:
            if (g, ty) not in self.extras:
                self.fail(e, 'callee %s needs the environment input %s which this target does not declare' % (tname, g))
            terms.append(g)
        args = list(e.args)
        if receiver is not None:
            args = [receiver] + args
        if len(args) > len(params): self.fail(e, 'too many arguments')
        for i, (pn, pty, default) in enumerate(params):
            if i < len(args):
                b, t = self.expr_as(args[i], env, pty)
                binds += b; terms.append(paren(t))
            elif default is not None:
                terms.append(default)
            else:
                self.fail(e, 'missing argument %s without a literal default' % pn)
        app = ' '.join([callee['gname']] + terms)
        if callee['partial']:
            r = self.fresh()
            return binds + [(r, app)], r, callee['ret']
        return binds, paren(app), callee['ret']

    def call_ctor(self, e, env, rname):
        rec = self.records[rname]
        if 'ctor' not in rec: self.fail(e, 'record %s has no constructor in the environment' % rname)
        fields = list(rec['fields'].items())
        vals = {}
        if len(e.args) > len(fields): self.fail(e, 'too many constructor arguments')
        binds = []
        for (fn, fs), a in zip(fields, e.args):
            b, t = self.expr_as(a, env, parse_type(fs['type'])); binds += b; vals[fn] = t
        for kw in e.keywords:
            if kw.arg is None or kw.arg not in rec['fields'] or kw.arg in vals: self.fail(e, 'constructor keyword')
            b, t = self.expr_as(kw.value, env, parse_type(rec['fields'][kw.arg]['type'])); binds += b; vals[kw.arg] = t
        terms = []
        for fn, fs in fields:
            if fn in vals: terms.append(paren(vals[fn]))
            elif 'default' in fs: terms.append(fs['default'])
            else: self.fail(e, 'constructor field %s has no value and no default' % fn)
        return binds, paren(' '.join([rec['ctor']] + terms)), REC(rname)

    # ---- statements (continuation passing: k(env) is the term of "whatever follows")
    def with_binds(self, ctx, binds, body):
        if binds and not ctx.partial:
            raise NeedPartial()
        for pat, r in reversed(binds):
            body = 'do %s <- %s;\n%s' % (pat, r, body)
        return body

    def block(self, stmts, env, ctx, k):
        if not stmts:
            return k(env)
        return self.stmt(stmts[0], env, ctx, lambda env2: self.block(stmts[1:], env2, ctx, k))

    def final_value(self, t, env):
        """the value a `return` hands back: the state-passing objects first, then the Python return value"""
        outs = [env[o].term for o in self.state_out]
        if self.ret_ty != UNIT or not outs:
            outs.append(t)
        return outs[0] if len(outs) == 1 else '(' + ', '.join(outs) + ')'

    def bind_var(self, env, name, ty):
        env2 = dict(env); env2[name] = Var(gname(name), ty)
        return env2

    def pat_of(self, names):
        gs = ['_' if n == '_' else gname(n) for n in names]
        if not gs: return '_'
        return gs[0] if len(gs) == 1 else "'(" + ', '.join(gs) + ')'

    def check_no_alias(self, value, ty, node):
        if isinstance(value, (ast.Name, ast.Attribute)) and (ty[0] in ('list', 'dict', 'record')):
            d = self.dotted(value)
            if d is None or d not in self.names:
                self.fail(node, 'a second name for a mutable object (aliasing is not modelled)')

    def stmt(self, s, env, ctx, k):
        if isinstance(s, ast.Pass):
            return k(env)
        if isinstance(s, ast.Expr):
            if isinstance(s.value, ast.Constant) and isinstance(s.value.value, str):
                return k(env)                                        # docstring
            c = s.value
            if isinstance(c, ast.Call) and isinstance(c.func, ast.Attribute) and c.func.attr == 'append' \
                    and len(c.args) == 1 and not c.keywords:
                tgt = c.func.value
                b0, t0, y0 = self.expr(tgt, env)
                if y0[0] != 'list': self.fail(s, '.append on a value of type %r' % (y0,))
                b1, t1, y1 = self.expr(c.args[0], env)
                ety = unify(y0[1], y1)
                if ety is None: self.fail(s, '.append of a %r to a list of %r' % (y1, y0[1]))
                new = '(%s ++ [%s])' % (t0, self.coerce(t1, y1, ety, s))
                return self.with_binds(ctx, b0 + b1, self.store(tgt, new, LIST(ety), env, ctx, k, s))
            self.fail(s, 'expression statement other than a docstring or .append()')
        if isinstance(s, ast.Return):
            self.return_nodes.append(s)
            if ctx.ret is None: self.fail(s, 'return inside this construct')
            if s.value is None:
                if self.ret_ty != UNIT: self.fail(s, 'bare return in a function with a result')
                return ctx.ret(self.final_value('tt', env))
            b, t = self.expr_as(s.value, env, self.ret_ty)
            return self.with_binds(ctx, b, ctx.ret(self.final_value(t, env)))
        if isinstance(s, ast.Raise):
            if s.cause is not None or s.exc is None: self.fail(s, 'raise form')
            exc = s.exc
            args = []
            if isinstance(exc, ast.Call):
                args = list(exc.args) + [kw.value for kw in exc.keywords]; exc = exc.func
            if not isinstance(exc, ast.Name) or exc.id not in self.exceptions:
                self.fail(s, 'raise of an exception class that is not in the environment')
            for a in args:      # the message: evaluated by Python, it must not be able to fail or have effects
                for n in ast.walk(a):
                    if not isinstance(n, (ast.Constant, ast.Name, ast.Load, ast.BinOp, ast.Mod, ast.Tuple)):
                        self.fail(s, 'exception argument that is not a plain message')
                    if isinstance(n, ast.Name) and (n.id not in env or env[n.id] is None):
                        self.fail(s, 'exception message reads an unknown name')
            if not ctx.partial: raise NeedPartial()
            return 'Err ' + paren(self.exceptions[exc.id])
        if isinstance(s, ast.Assert):
            if s.msg is not None: self.fail(s, 'assert with a message')
            if not ctx.partial: raise NeedPartial()
            nn = self.none_test(s.test, env)
            if nn is not None and not nn[1]:
                name, _, inner, term = nn
                fr = self.fresh(gname(name.replace('@', '').replace('.', '_')))
                env2 = dict(env); env2[name] = Var(fr, inner)
                return 'match %s with\n| None => Err AssertionError\n| Some %s =>\n%s\nend' % (term, fr, ind(k(env2)))
            b, t, nw = self.test(s.test, env)
            env2 = dict(env); env2.update(nw)
            return self.with_binds(ctx, b, 'if %s then\n%s\nelse Err AssertionError' % (t, ind(k(env2))))
        if isinstance(s, (ast.Assign, ast.AnnAssign, ast.AugAssign)):
            return self.assign(s, env, ctx, k)
        if isinstance(s, ast.If):
            return self.stmt_if(s, env, ctx, k)
        if isinstance(s, ast.For):
            return self.stmt_for(s, env, ctx, k)
        if isinstance(s, ast.Try):
            return self.stmt_try(s, env, ctx, k)
        if isinstance(s, ast.Break):
            if ctx.brk is None: self.fail(s, 'break outside a translated loop')
            return ctx.brk(env)
        self.fail(s, 'statement form ' + type(s).__name__)

    def store(self, tgt, term, ty, env, ctx, k, node):
        """rebind the variable / attribute `tgt` to the pure term `term` and continue"""
        if isinstance(tgt, ast.Name):
            env2 = self.bind_var(env, tgt.id, ty)
            for key in [x for x in env2 if x.startswith('@' + tgt.id + '.')]:
                del env2[key]
            if term in ('None', '[]') and not _flat(ty) and ty[0] != 'record':
                # a bare None / [] that may never be used again: give Coq its type
                return 'let %s : %s := %s in\n%s' % (gname(tgt.id), coq_type(ty, self.records), term, k(env2))
            return 'let %s := %s in\n%s' % (gname(tgt.id), term, k(env2))
        if isinstance(tgt, ast.Attribute) and isinstance(tgt.value, ast.Name) and tgt.value.id in env \
                and env[tgt.value.id] is not None and env[tgt.value.id].ty[0] == 'record':
            obj = tgt.value.id
            rname = env[obj].ty[1]
            f = self.records[rname]['fields'].get(tgt.attr)
            if f is None or not f.get('set'):
                self.fail(node, 'assignment to attribute %s.%s which has no setter in the environment' % (obj, tgt.attr))
            fty = parse_type(f['type'])
            self.mutated.add(obj)
            env2 = self.bind_var(env, obj, env[obj].ty)
            key = '@%s.%s' % (obj, tgt.attr)
            env2.pop(key, None)
            if fty[0] == 'option' and ty == fty[1] and term.replace('_', 'a').isalnum():
                env2[key] = Var(term, ty)     # a plain value was just stored into an Optional attribute
            return 'let %s := %s %s %s in\n%s' % (gname(obj), f['set'], paren(env[obj].term),
                                                 paren(self.coerce(term, ty, fty, node)), k(env2))
        self.fail(node, 'assignment target')

    def assign(self, s, env, ctx, k):
        if isinstance(s, ast.AugAssign):
            if not isinstance(s.op, (ast.Add, ast.Sub)): self.fail(s, 'augmented assignment operator')
            fake = ast.BinOp(left=_as_load(s.target), op=s.op, right=s.value)
            ast.copy_location(fake, s); ast.fix_missing_locations(fake)
            b, t, ty = self.expr(fake, env)
            return self.with_binds(ctx, b, self.store(s.target, t, ty, env, ctx, k, s))
        if isinstance(s, ast.AnnAssign):
            if s.value is None: self.fail(s, 'annotation without a value')
            want = self.annotation(s.annotation)
            b, t = self.expr_as(s.value, env, want)
            self.check_no_alias(s.value, want, s)
            return self.with_binds(ctx, b, self.store(s.target, t, want, env, ctx, k, s))
        if len(s.targets) != 1: self.fail(s, 'chained assignment')
        tgt = s.targets[0]
        if isinstance(tgt, (ast.Tuple, ast.List)):
            names = []
            for e in tgt.elts:
                if not isinstance(e, ast.Name): self.fail(s, 'unpacking into something other than plain names')
                names.append(e.id)
            b, t, ty = self.expr(s.value, env)
            if ty[0] != 'tuple' or len(ty[1]) != len(names): self.fail(s, 'unpacking a value of type %r into %d names' % (ty, len(names)))
            if len(set(n for n in names if n != '_')) != len([n for n in names if n != '_']): self.fail(s, 'repeated name in unpacking')
            env2 = dict(env)
            for n, y in zip(names, ty[1]):
                if n != '_': env2[n] = Var(gname(n), y)
            return self.with_binds(ctx, b, "let %s := %s in\n%s" % (self.pat_of(names), t, k(env2)))
        if isinstance(tgt, ast.Subscript):
            if not (isinstance(tgt.value, ast.Name) and tgt.value.id in env and env[tgt.value.id] is not None):
                self.fail(s, 'item assignment on something other than a local')
            d = env[tgt.value.id]
            if d.ty == BYTES and tgt.value.id in self.bytearrays and not isinstance(tgt.slice, ast.Slice):
                # bytearray item store: IndexError out of range, ValueError outside range(256)
                bv, tv, yv = self.expr(s.value, env)
                bi, ti, yi = self.expr(tgt.slice, env)
                if yv != INT or yi != INT: self.fail(s, 'bytearray item store with index %r / value %r' % (yi, yv))
                r = self.fresh()
                binds = bv + bi + [(r, 'py_setitem_byte %s %s %s' % (paren(d.term), paren(ti), paren(tv)))]
                return self.with_binds(ctx, binds, self.store(tgt.value, r, BYTES, env, ctx, k, s))
            if d.ty[0] != 'dict' or isinstance(tgt.slice, ast.Slice): self.fail(s, 'item assignment on a value of type %r' % (d.ty,))
            bk, tk, yk = self.expr(tgt.slice, env)
            if yk != BYTES: self.fail(s, 'dict key of type %r' % (yk,))
            bv, tv, yv = self.expr(s.value, env)
            vty = unify(d.ty[1], yv)
            if vty is None or (vty != d.ty[1] and d.ty[1] != UNKNOWN):
                # an Optional value stored into a dict of plain values etc.
                tv = self.coerce(tv, yv, d.ty[1], s); vty = d.ty[1]
            else:
                tv = self.coerce(tv, yv, vty, s)
            # Python evaluates the value first, then the key expression
            new = 'dict_set %s %s %s' % (paren(tk), paren(tv), paren(d.term))
            return self.with_binds(ctx, bv + bk, self.store(tgt.value, new, DICT(vty), env, ctx, k, s))
        b, t, ty = self.expr(s.value, env)
        self.check_no_alias(s.value, ty, s)
        if isinstance(tgt, ast.Name):
            if isinstance(s.value, ast.Call) and isinstance(s.value.func, ast.Name) and s.value.func.id == 'bytearray':
                self.bytearrays.add(tgt.id)
            else:
                self.bytearrays.discard(tgt.id)
        if ty == CHAR: self.fail(s, 'a str character stored in a variable')
        return self.with_binds(ctx, b, self.store(tgt, t, ty, env, ctx, k, s))

    def annotation(self, a):
        if isinstance(a, ast.Name) and a.id in ('bytes', 'int', 'bool', 'str'):
            return parse_type(a.id)
        if isinstance(a, ast.Subscript) and isinstance(a.value, ast.Name):
            h = a.value.id
            if h == 'Optional': return OPT(self.annotation(a.slice))
            if h == 'List': return LIST(self.annotation(a.slice))
            if h == 'Dict' and isinstance(a.slice, ast.Tuple) and len(a.slice.elts) == 2 \
                    and self.annotation(a.slice.elts[0]) == BYTES:
                return DICT(self.annotation(a.slice.elts[1]))
            if h == 'Tuple' and isinstance(a.slice, ast.Tuple):
                return TUPLE(*[self.annotation(x) for x in a.slice.elts])
        self.fail(a, 'type annotation outside the subset')

    # ---- joins: blocks without early exits are translated to the tuple of the variables they rebind
    def join_vars(self, blocks, env, node):
        """-> (joined names, names that become unbound after the construct)"""
        names = []
        for b in blocks:
            for n in assigned_names(b):
                if n not in names: names.append(n)
        joined, unbound = [], []
        for n in names:
            if n in env and env[n] is not None:
                joined.append(n)
            elif all(_top_assigns(b, n) for b in blocks):
                joined.append(n)
            else:
                unbound.append(n)
        return joined, unbound

    def value_blocks(self, branches, M, node, extra_ty=None):
        """branches: list of (stmts, env).  Translate each to the tuple of the variables M at its end, all
        at the same types.  -> (partial?, [term per branch], {name: type})"""
        def run(partial):
            sub = Ctx(partial, None, None)
            ends = []
            for stmts, env in branches:
                got = {}
                self.block(stmts, env, sub, lambda e, got=got: (got.update(e), 'X')[1])
                ends.append(got)
            T = {}
            for n in M:
                ty = (extra_ty or {}).get(n, UNKNOWN)
                for e in ends:
                    if e.get(n) is None: self.fail(node, 'variable %s is not bound on every path' % n)
                    ty2 = unify(ty, e[n].ty)
                    if ty2 is None: self.fail(node, 'variable %s has different types on different paths' % n)
                    ty = ty2
                T[n] = ty
            def fin(e):
                vals = [self.coerce(e[n].term, e[n].ty, T[n], node) for n in M]
                v = 'tt' if not vals else vals[0] if len(vals) == 1 else '(' + ', '.join(vals) + ')'
                return sub.wrap(v)
            return [self.block(stmts, env, sub, fin) for stmts, env in branches], T
        saved = self.n
        try:
            terms, T = run(False)
            return False, terms, T
        except NeedPartial:
            self.n = saved
            terms, T = run(True)
            return True, terms, T

    def after_join(self, env, M, T, unbound):
        env2 = dict(env)
        for n in M:
            env2[n] = Var(gname(n), T[n])
            for key in [x for x in env2 if x.startswith('@' + n + '.')]:
                del env2[key]          # what was known about the attributes of a rebound object is forgotten
        for n in unbound: env2[n] = None
        return env2

    def bind_join(self, ctx, partial, M, term, rest):
        if partial:
            if not ctx.partial: raise NeedPartial()
            return 'do %s <- %s;\n%s' % (self.pat_of(M), paren(term), rest)
        if not M:
            return rest
        return 'let %s := %s in\n%s' % (self.pat_of(M), paren(term), rest)

    def stmt_if(self, s, env, ctx, k):
        nn = self.none_test(s.test, env)
        # the continuation is inlined when a branch can return / break, or when a branch never falls through
        # (`if c: raise X`); raises nested deeper stay inside the joined value (they are Err there)
        exits = has_exit(s.body, (ast.Return, ast.Break, ast.Continue)) or has_exit(s.orelse, (ast.Return, ast.Break, ast.Continue)) \
            or _never_falls(s.body) or _never_falls(s.orelse)
        if nn is not None:
            name, is_none, inner, term = nn
            fr = self.fresh(gname(name.replace('@', '').replace('.', '_')))
            env_some = dict(env); env_some[name] = Var(fr, inner)
            b_none, b_some = (s.body, s.orelse) if is_none else (s.orelse, s.body)
            shape = lambda tn, ts: 'match %s with\n| None =>\n%s\n| Some %s =>\n%s\nend' % (term, ind(tn), fr, ind(ts))
            branches = [(b_none, env), (b_some, env_some)]
            binds = []
        else:
            binds, tc, nw = self.test(s.test, env)
            env_t = dict(env); env_t.update(nw)
            shape = lambda ta, tb: 'if %s then\n%s\nelse\n%s' % (tc, ind(ta), ind(tb))
            branches = [(s.body, env_t), (s.orelse, env)]
        if exits:
            # the continuation is placed at every point where a branch falls through
            t1 = self.block(branches[0][0], branches[0][1], ctx, k)
            t2 = self.block(branches[1][0], branches[1][1], ctx, k)
            return self.with_binds(ctx, binds, shape(t1, t2))
        M, unbound = self.join_vars([s.body, s.orelse], env, s)
        partial, terms, T = self.value_blocks(branches, M, s)
        rest = k(self.after_join(env, M, T, unbound))
        if not M and not partial:
            return self.with_binds(ctx, binds, rest)          # the test is still evaluated (its binds)
        return self.with_binds(ctx, binds, self.bind_join(ctx, partial, M, shape(*terms), rest))

    def stmt_for(self, s, env, ctx, k):
        if s.orelse: self.fail(s, 'for ... else')
        if has_exit(s.body, (ast.Continue,)): self.fail(s, 'continue')
        if has_exit(s.body, (ast.Raise,)): self.fail(s, 'raise inside a loop body')
        # the iterable
        it = s.iter
        binds = []
        if isinstance(it, ast.Call) and isinstance(it.func, ast.Name) and it.func.id == 'range':
            self.check_builtin(it, 'range', env)
            args = self.args_of(it, 1, 3)
            parts = [self.expr(a, env) for a in args]
            for p, a in zip(parts, args):
                if p[2] != INT: self.fail(a, 'range() argument of type %r' % (p[2],))
                binds += p[0]
            ts = [p[1] for p in parts]
            a_, b_, s_ = (coq_Z(0), ts[0], coq_Z(1)) if len(ts) == 1 else (ts[0], ts[1], coq_Z(1)) if len(ts) == 2 else ts
            r = self.fresh('rng')
            binds.append((r, 'py_range %s %s %s' % (paren(a_), paren(b_), paren(s_))))
            it_term, ety = r, INT
        elif isinstance(it, ast.Call) and isinstance(it.func, ast.Attribute) and it.func.attr == 'items' and not it.args and not it.keywords:
            b, t, y = self.expr(it.func.value, env); binds += b
            if y[0] != 'dict' or y[1] == UNKNOWN: self.fail(s, '.items() of a value of type %r' % (y,))
            it_term, ety = t, TUPLE(BYTES, y[1])
        else:
            b, t, y = self.expr(it, env); binds += b
            if y[0] == 'dict': it_term, ety = 'dict_keys ' + paren(t), BYTES
            elif y[0] == 'list' and y[1] != UNKNOWN: it_term, ety = t, y[1]
            else: self.fail(s, 'iteration over a value of type %r' % (y,))
        # the loop variable(s)
        if isinstance(s.target, ast.Name): lnames = [s.target.id]; ltys = [ety]
        elif isinstance(s.target, ast.Tuple) and all(isinstance(e, ast.Name) for e in s.target.elts) \
                and ety[0] == 'tuple' and len(ety[1]) == len(s.target.elts):
            lnames = [e.id for e in s.target.elts]; ltys = list(ety[1])
        else: self.fail(s, 'loop target')
        for n in lnames:
            if n != '_' and n in env: self.fail(s, 'loop variable %s shadows an existing local' % n)
        if set(lnames) & (names_read(it)): self.fail(s, 'loop variable occurs in the iterable')
        body_assigned = assigned_names(s.body)
        M = [n for n in body_assigned if n in env and env[n] is not None]
        if set(M) & set(lnames): self.fail(s, 'loop variable reassigned in the body')
        # mutation of the iterated object inside the loop
        if names_read(it) & set(M) and ety != INT:      # range(...) is evaluated once, before the loop
            self.fail(s, 'the loop body rebinds a name the iterable reads')
        unbound = [n for n in body_assigned if n not in M] + [n for n in lnames if n != '_']
        env_b = dict(env)
        for n, y in zip(lnames, ltys):
            if n != '_': env_b[n] = Var(gname(n), y)
        lpat = self.pat_of(lnames) if len(lnames) == 1 else self.pat_of(lnames)
        spat = self.pat_of(M)
        init_T = {n: env[n].ty for n in M}
        has_ret = has_exit(s.body, (ast.Return,))
        has_brk = has_exit(s.body, (ast.Break,))

        def state_of(e, T):
            vals = [self.coerce(e[n].term, e[n].ty, T[n], s) for n in M]
            return 'tt' if not vals else vals[0] if len(vals) == 1 else '(' + ', '.join(vals) + ')'

        if not has_ret and not has_brk:
            partial, (body_t,), T = self.value_blocks([(s.body, env_b)], M, s, init_T)
            init = state_of(env, T)
            fn = 'for_r' if partial else 'fold_left'
            loop = '%s (fun %s %s =>\n%s)\n  %s %s' % (fn, spat, lpat, ind(body_t, 4), paren(it_term), paren(init))
            rest = k(self.after_join(env, M, T, unbound))
            return self.with_binds(ctx, binds, self.bind_join(ctx, partial, M, loop, rest) if (M or partial) else rest)

        # break / return inside the body
        def run(partial):
            # types of the loop-carried variables: first pass
            got_all = []
            def rec(e):
                got_all.append(dict(e)); return 'X'
            probe = Ctx(partial, (lambda v: 'X') if has_ret else None, rec if has_brk else None)
            self.block(s.body, env_b, probe, rec)
            T = dict(init_T)
            for e in got_all:
                for n in M:
                    u = unify(T[n], e[n].ty)
                    if u is None: self.fail(s, 'loop-carried variable %s changes type' % n)
                    T[n] = u
            wrap = (lambda t: 'Ok ' + paren(t)) if partial else (lambda t: t)
            if has_ret:
                sub = Ctx(partial, lambda v: wrap('Ret ' + paren(v)),
                          (lambda e: wrap('Brk ' + paren(state_of(e, T)))) if has_brk else None)
                fin = lambda e: wrap('Cont ' + paren(state_of(e, T)))
            else:
                sub = Ctx(partial, None, lambda e: wrap('(%s, true)' % state_of(e, T)))
                fin = lambda e: wrap('(%s, false)' % state_of(e, T))
            return self.block(s.body, env_b, sub, fin), T
        saved = self.n
        try:
            body_t, T = run(False); partial = False
        except NeedPartial:
            self.n = saved
            body_t, T = run(True); partial = True
        init = state_of(env, T)
        rest = k(self.after_join(env, M, T, unbound))
        if has_ret:
            if ctx.ret is None: self.fail(s, 'return inside a loop nested in this construct')
            fn = 'for_ctl_r' if partial else 'for_ctl'
            loop = '%s (fun %s %s =>\n%s)\n  %s %s' % (fn, spat, lpat, ind(body_t, 4), paren(it_term), paren(init))
            r = self.fresh('r'); st = self.fresh('st')
            after = '| Ret %s => %s\n| Cont %s | Brk %s =>\n%s' % (
                r, ctx.ret(r), st, st, ind(('let %s := %s in\n%s' % (spat, st, rest)) if M else rest))
            if partial:
                if not ctx.partial: raise NeedPartial()
                c = self.fresh('c')
                out = 'do %s <- %s;\nmatch %s with\n%s\nend' % (c, paren(loop), c, after)
            else:
                out = 'match %s with\n%s\nend' % (loop, after)
            return self.with_binds(ctx, binds, out)
        fn = 'for_brk_r' if partial else 'for_brk'
        loop = '%s (fun %s %s =>\n%s)\n  %s %s' % (fn, spat, lpat, ind(body_t, 4), paren(it_term), paren(init))
        return self.with_binds(ctx, binds, self.bind_join(ctx, partial, M, loop, rest) if (M or partial) else rest)

    def stmt_try(self, s, env, ctx, k):
        if s.orelse or s.finalbody or len(s.handlers) != 1: self.fail(s, 'try with else / finally / several handlers')
        h = s.handlers[0]
        if h.name is not None or not isinstance(h.type, ast.Name) or h.type.id not in EXN_CLASS:
            self.fail(s, 'except clause outside the subset')
        if has_exit(s.body) or has_exit(h.body): self.fail(s, 'return / raise / break inside try or except')
        body_as = assigned_names(s.body)
        if names_read(ast.Module(body=h.body, type_ignores=[])) & set(body_as):
            self.fail(s, 'the except block reads a variable the try block assigns (partially executed try blocks are not modelled)')
        for n in body_as:
            if n in env and env[n] is not None and not _top_assigns(h.body, n):
                self.fail(s, 'variable %s is live before the try, assigned inside it and not re-assigned by the handler' % n)
        M, unbound = self.join_vars([s.body, h.body], env, s)
        if not ctx.partial: raise NeedPartial()
        sub_partial, terms, T = self.value_blocks([(s.body, env), (h.body, env)], M, s)
        if not sub_partial:
            # nothing in the try block can raise in the model: still emit it faithfully
            terms = ['Ok ' + paren(t) for t in terms]
        term = 'try_except\n%s\n  %s\n%s' % (ind(paren(terms[0])), EXN_CLASS[h.type.id], ind(paren(terms[1])))
        rest = k(self.after_join(env, M, T, unbound))
        return 'do %s <- %s;\n%s' % (self.pat_of(M), paren(term), rest)

    # ---- the whole function
    def translate(self):
        f = self.fdef
        a = f.args
        if a.vararg or a.kwarg or a.kwonlyargs or a.posonlyargs: self.fail(f, 'parameter kinds other than plain positional')
        for d in f.decorator_list:
            if not (isinstance(d, ast.Name) and d.id in ('staticmethod', 'classmethod')):
                self.fail(f, 'decorator')
        pynames = [x.arg for x in a.args]
        spec_params = [(p[0], parse_type(p[1])) for p in self.spec['params']]
        want = [p[0] for p in spec_params]
        if pynames != want and not (pynames[:1] in (['self'], ['cls']) and pynames[1:] == want):
            self.fail(f, 'parameter list %r differs from the target table %r' % (pynames, want))
        offset = len(pynames) - len(want)
        defaults = [None] * (len(pynames) - len(a.defaults)) + list(a.defaults)
        defaults = defaults[offset:]
        env = {}
        for n, ty in spec_params:
            env[n] = Var(gname(n), ty)
        params = []
        for (n, ty), dflt in zip(spec_params, defaults):
            dterm = None
            if dflt is not None:
                try:
                    b, t = self.expr_as(dflt, {}, ty)
                    if not b: dterm = paren(t)
                except Untranslatable:
                    dterm = None
            params.append((n, ty, dterm))
        for o in self.state_out:
            if o not in env or env[o].ty[0] != 'record': self.fail(f, 'state_out names %s which is not a record parameter' % o)

        def run(partial):
            self.n = 0; self.mutated = set(); self.return_nodes = []
            ctx = Ctx(partial, None, None)
            ctx.ret = lambda v: ctx.wrap(v)
            def fell_off(e):
                if self.ret_ty != UNIT: self.fail(f, 'control can reach the end of the function without a return')
                return ctx.wrap(self.final_value('tt', e))
            return self.block(f.body, env, ctx, fell_off)
        try:
            body = run(False); partial = False
        except NeedPartial:
            body = run(True); partial = True
        for o in self.mutated:
            if o in self.state_out: continue
            for r in self.return_nodes:
                if not (isinstance(r.value, ast.Name) and r.value.id == o):
                    self.fail(r, 'the function assigns attributes of %s, which is neither in state_out nor the returned value here' % o)
            if not self.return_nodes: self.fail(f, 'the function assigns attributes of %s, which is not in state_out' % o)
        out_tys = [env[o].ty for o in self.state_out]
        if self.ret_ty != UNIT or not out_tys: out_tys.append(self.ret_ty)
        final_ty = out_tys[0] if len(out_tys) == 1 else TUPLE(*out_tys)
        rt = coq_type(final_ty, self.records)
        if partial: rt = 'result ' + rt
        binders = ['(%s : %s)' % (g, coq_type(t, self.records)) for g, t in self.extras]
        binders += ['(%s : %s)' % (gname(n), coq_type(t, self.records)) for n, t in spec_params]
        text = 'Definition %s %s\n  : %s :=\n%s.' % (self.spec['name'], ' '.join(binders), rt, ind(body))
        info = dict(gname=self.spec['name'], params=params, extras=self.extras, ret=final_ty, partial=partial,
                    mutates=bool(self.state_out))
        return text, info


def _flat(ty):
    """the UNKNOWN leaves of a type"""
    out = []
    def go(t):
        if t == UNKNOWN:
            out.append(UNKNOWN); return
        for x in t[1:]:
            if isinstance(x, tuple):
                if x and isinstance(x[0], str): go(x)
                else:
                    for y in x: go(y)
    go(ty)
    return out


def _never_falls(stmts):
    if not stmts: return False
    last = stmts[-1]
    if isinstance(last, (ast.Return, ast.Raise)): return True
    if isinstance(last, ast.If): return _never_falls(last.body) and _never_falls(last.orelse)
    return False


def _top_assigns(stmts, name):
    """is `name` assigned by a statement at the top level of the block (so: on every path through it)"""
    for s in stmts:
        if isinstance(s, ast.Assign):
            for t in s.targets:
                if isinstance(t, ast.Name) and t.id == name: return True
                if isinstance(t, (ast.Tuple, ast.List)) and any(isinstance(e, ast.Name) and e.id == name for e in t.elts): return True
        if isinstance(s, (ast.AnnAssign,)) and isinstance(s.target, ast.Name) and s.target.id == name and s.value is not None:
            return True
    return False


def _as_load(t):
    t2 = ast.parse(ast.unparse(t), mode='eval').body
    return t2


# ------------------------------------------------------------------------------------------- the file
HEADER = '''(* GENERATED - do not edit.
   Output of harness/py2v.py (targets: harness/py2v_targets.py) for the repository it was run against.
   Each definition below is the translation of ONE Python function; the comment above it names the source
   file, the function and the sha1 of the function's source text.  The link theorems of GenLinks.v prove
   each definition equal to the hand-written model the property theorems are about.
   Refresh the committed copy with:  python3 harness/py2v.py --write *)
From PM Require Import Lib.Bytes Lib.PyStr.
From Coq Require Import ZArith.
From PMG Require Import GenSupport.
'''


class Translator:
    def __init__(self, repo, table):
        self.repo = repo
        self.table = table
        self.records = {}
        for rn, r in table.RECORDS.items():
            r = dict(r)
            if r.get('generate'):
                r['coq'] = rn
                r['ctor'] = 'mk_' + rn
                fields = {}
                for fn, fty in r['fields']:
                    g = '%s_%s' % (rn, fn.lstrip('_'))
                    fields[fn] = dict(get=g, set='set_' + g, type=fty)
                r['field_list'] = r['fields']
                r['fields'] = fields
            self.records[rn] = r
        self.done = {}
        self.broken = []

    def record_text(self, rn):
        r = self.records[rn]
        fs = r['field_list']
        lines = ['(* the attributes of class %s that the translated methods read or write (attribute environment) *)' % rn]
        lines.append('Record %s := mk_%s {' % (rn, rn))
        lines.append(';\n'.join('  %s : %s' % (r['fields'][fn]['get'], coq_type(parse_type(fty), self.records)) for fn, fty in fs) + ' }.')
        for fn, fty in fs:
            g = r['fields'][fn]['get']
            args = ' '.join(paren('%s o' % r['fields'][x]['get']) if x != fn else 'x' for x, _ in fs)
            lines.append('Definition set_%s (o : %s) (x : %s) : %s := mk_%s %s.' % (
                g, rn, coq_type(parse_type(fty), self.records), rn, rn, args))
        return '\n'.join(lines)

    def run(self):
        out = [HEADER]
        for imp in getattr(self.table, 'IMPORTS', []):
            out.append(imp)
        out.append('')
        for rn, r in self.records.items():
            if r.get('generate'):
                out.append(self.record_text(rn)); out.append('')
        for spec in self.table.TARGETS:
            try:
                m = Module.get(self.repo, spec['file'])
                fdef, cls = m.find_function(spec['func'])
                src = ast.get_source_segment(m.src, fdef) or ''
                sha = hashlib.sha1(src.encode('utf-8')).hexdigest()
                text, info = Fn(self, spec, fdef, m).translate()
                self.done[spec['name']] = info
                out.append('(* source: %s  function: %s  lines %d-%d  sha1: %s *)' % (
                    spec['file'], spec['func'], fdef.lineno, fdef.end_lineno, sha))
                out.append(text)
                out.append('')
            except Untranslatable as e:
                self.broken.append((spec['name'], str(e)))
            except (OSError, SyntaxError) as e:
                self.broken.append((spec['name'], '%s: %s' % (spec['file'], e)))
        return '\n'.join(out)


def main():
    ap = argparse.ArgumentParser()
    ap.add_argument('--repo', default=os.environ.get('VERIF_REPO', '/repo'))
    ap.add_argument('-o', dest='out')
    ap.add_argument('--write', action='store_true')
    ap.add_argument('--list', action='store_true')
    args = ap.parse_args()
    import py2v_targets as table
    if args.list:
        for t in table.TARGETS: print(t['name'], t['file'], t['func'])
        return 0
    tr = Translator(args.repo, table)
    text = tr.run()
    dest = os.path.join(os.path.dirname(HERE), 'coq', 'gen', 'Generated.v') if args.write else args.out
    if dest:
        with open(dest, 'w') as f: f.write(text)
    else:
        sys.stdout.write(text)
    for name, why in tr.broken:
        sys.stderr.write('GEN-BROKEN: %s : %s\n' % (name, why))
    sys.stderr.write('py2v: targets=%d translated=%d\n' % (len(table.TARGETS), len(tr.done)))
    return 1 if tr.broken else 0


if __name__ == '__main__':
    sys.exit(main())
