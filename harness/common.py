"""Shared machinery of ./check: Coq audit/build/assumption capture, evaluation of generated
cases inside Coq (vm_compute), evidence and verdict writing.  Runs under /venv/bin/python with
PYTHONPATH=/repo so that `import proxy` is /repo's current working tree."""
import os, re, sys, json, time, fcntl, random, hashlib, subprocess, traceback
from pathlib import Path

VERIF = Path('/verif')
REPO = Path(os.environ.get('VERIF_REPO', '/repo'))
COQ = VERIF / 'coq'
BUILD = VERIF / 'build'
NPROC = int(os.environ.get('VERIF_JOBS', '16'))

FORBIDDEN = r'\b(Admitted|admit|Axiom|Axioms|Parameter|Parameters|Conjecture|Hypothesis|Variable|Variables|Hypotheses)\b|Unset Guard|bypass_check|type-in-type|impredicative-set|Admit Obligations|Unset Positivity|Unset Universe'

# axioms declared by Coq's standard library that a theorem may depend on (must be named in DESIGN.md §2)
ALLOWED_AXIOMS = {
    'functional_extensionality_dep', 'FunctionalExtensionality.functional_extensionality_dep',
}

TRUSTED_BASE_COMMON = [
    'Coq 8.16.1 kernel incl. vm_compute (used for finite sweeps and for evaluating the model on the generated cases); native_compute unused',
    'no Axiom/Parameter/Admitted in coq/theories (grep audit on every run); Print Assumptions of every property theorem captured on every run',
    'hand-written Gallina model of the anchored Python code + Python-semantics layer Lib/ (tied to /repo only by the correspondence check of this run)',
    'the harness: generators, canonicalisation, simulated I/O layer',
    'no extraction, no Extract directives',
]


# ---------------------------------------------------------------- Coq literals
def coq_N(n):
    assert n >= 0
    return str(n)

def coq_Z(n):
    return str(n) if n >= 0 else '(%d)' % n

def coq_bool(v):
    return 'true' if v else 'false'

def coq_bytes(data):
    data = bytes(data)
    if not data:
        return '[]'
    return '[' + ';'.join(str(x) for x in data) + ']'

def coq_bpat(pat, n):
    return '(bpat %s %d)' % (coq_bytes(pat), n)

def coq_option(f, x):
    return 'None' if x is None else '(Some %s)' % f(x)

def coq_list(items):
    items = list(items)
    return '[' + '; '.join(items) + ']' if items else '[]'

def coq_pair(*xs):
    return '(' + ', '.join(xs) + ')'

def coq_string(s):
    return '"' + s.replace('"', '""') + '"'


# ---------------------------------------------------------------- build / audit
class Lock:
    def __init__(self, name='coq'):
        BUILD.mkdir(exist_ok=True)
        self.path = BUILD / ('.%s.lock' % name)
    def __enter__(self):
        self.f = open(self.path, 'w')
        fcntl.flock(self.f, fcntl.LOCK_EX)
    def __exit__(self, *a):
        fcntl.flock(self.f, fcntl.LOCK_UN)
        self.f.close()


def sh(cmd, timeout=600, cwd=None, env=None, input=None):
    try:
        p = subprocess.run(cmd, shell=isinstance(cmd, str), cwd=cwd, env=env, input=input,
                           stdout=subprocess.PIPE, stderr=subprocess.STDOUT, timeout=timeout, text=True)
        return p.returncode, p.stdout
    except subprocess.TimeoutExpired as e:
        out = e.stdout or ''
        if isinstance(out, bytes):
            out = out.decode('utf-8', 'replace')
        return 124, out + '\n[timeout after %ss]' % timeout


def strip_coq_comments(text):
    out, depth, i = [], 0, 0
    while i < len(text):
        if text.startswith('(*', i):
            depth += 1; i += 2
        elif text.startswith('*)', i) and depth:
            depth -= 1; i += 2
        else:
            if not depth:
                out.append(text[i])
            i += 1
    return ''.join(out)


def audit():
    """forbidden constructs anywhere in the development (comments and strings excluded)"""
    bad = []
    for p in sorted((COQ / 'theories').rglob('*.v')):
        txt = strip_coq_comments(p.read_text())
        txt = re.sub(r'"[^"]*"', '""', txt)
        in_section = 0
        for ln, line in enumerate(txt.split('\n'), 1):
            if re.match(r'\s*Section\b', line): in_section += 1
            if re.match(r'\s*End\b', line) and in_section: in_section -= 1
            for m in re.finditer(FORBIDDEN, line):
                tok = m.group(0)
                if tok in ('Variable', 'Variables', 'Hypothesis', 'Hypotheses') and in_section:
                    continue   # Section-local: becomes an explicit premise of every theorem
                bad.append('%s:%d: %s' % (p.relative_to(VERIF), ln, line.strip()[:120]))
    return bad


def build_coq(targets=None, timeout=1500):
    """full .vo build (never -vos) of the given targets (paths relative to coq/), or everything"""
    with Lock():
        mk = COQ / 'Makefile'
        cp = COQ / '_CoqProject'
        if not mk.exists() or mk.stat().st_mtime < cp.stat().st_mtime:
            rc, out = sh('coq_makefile -f _CoqProject -o Makefile', cwd=COQ, timeout=120)
            if rc:
                return False, out
        tgt = ' '.join(targets) if targets else ''
        rc, out = sh('make -j%d %s' % (NPROC, tgt), cwd=COQ, timeout=timeout)
        return rc == 0, out


def props_assumptions(prop_id):
    """re-compile Props/<id>.v and capture Print Assumptions for each theorem.
    returns dict(obligations, discharged, theorems=[(name, status)], axioms=set, log)"""
    src = COQ / 'theories' / 'Props' / ('%s.v' % prop_id)
    text = strip_coq_comments(src.read_text())
    thms = re.findall(r'^\s*Theorem\s+(\w+)', text, re.M)
    printed = re.findall(r'^\s*Print Assumptions\s+(\w+)\s*\.', text, re.M)
    with Lock():
        rc, out = sh('coqc -Q theories PM -w -notation-overridden,-deprecated-hint-without-locality,-deprecated-instance-without-locality theories/Props/%s.v' % prop_id, cwd=COQ, timeout=900)
    res = dict(obligations=len(thms), discharged=0, theorems=[], axioms=[], log=out[-4000:], ok=False)
    if rc != 0:
        return res
    # split output in blocks: either "Closed under the global context" or "Axioms:\n name : type ..."
    blocks = re.split(r'(?m)^(?=Closed under the global context|Axioms:)', out)
    blocks = [b for b in blocks if b.startswith('Closed under') or b.startswith('Axioms:')]
    axioms = set()
    statuses = []
    for b in blocks:
        if b.startswith('Closed under'):
            statuses.append('closed')
        else:
            names = re.findall(r'(?m)^([A-Za-z_][\w.\']*)\s*:', b[len('Axioms:'):])
            axioms.update(names)
            statuses.append('axioms:' + ','.join(names))
    ok = (len(printed) == len(statuses)) and set(thms) <= set(printed)
    disch = 0
    for name, st in zip(printed, statuses):
        good = st == 'closed' or all(a in ALLOWED_AXIOMS for a in st[len('axioms:'):].split(','))
        res['theorems'].append((name, st))
        if name in thms and good:
            disch += 1
    res['discharged'] = disch
    res['axioms'] = sorted(axioms)
    res['ok'] = ok and disch == len(thms) and len(thms) > 0
    return res


# ---------------------------------------------------------------- evaluating cases inside Coq
COQC_FLAGS = '-Q /verif/coq/theories PM -w -notation-overridden,-deprecated-hint-without-locality,-deprecated-instance-without-locality'

def _parse_N_list(out):
    m = re.search(r'=\s*(\[[^\]]*\])\s*(%N)?\s*:\s*list N', out, re.S)
    if not m:
        return None
    body = m.group(1).strip()[1:-1]
    body = body.replace('%N', '')
    return [int(x) for x in re.split(r'[;\s]+', body) if x.strip()]


def run_coq_cases(prop_id, imports, case_type, check_fn, terms, shard=300, timeout=900, tag='cases'):
    """terms: list of Coq terms of type case_type.  check_fn : case_type -> bool (model output == expected).
    Returns (mismatch_indices, errors).  The comparison itself is evaluated by vm_compute.
    Each invocation works in its own directory (concurrent runs of the same property do not interfere);
    a shard whose coqc times out or crashes is retried once on its own with a longer limit."""
    import tempfile, shutil
    (BUILD / 'cases').mkdir(parents=True, exist_ok=True)
    d = Path(tempfile.mkdtemp(prefix='%s-%s-' % (prop_id, tag), dir=str(BUILD / 'cases')))
    try:
        shards = [terms[i:i + shard] for i in range(0, len(terms), shard)]
        files = []
        for k, sh_terms in enumerate(shards):
            f = d / ('%s_%d.v' % (tag, k))
            with open(f, 'w') as fh:
                fh.write(imports + '\nOpen Scope N_scope.\n')
                fh.write('Definition cases : list (%s) := [\n' % case_type)
                fh.write(';\n'.join(sh_terms))
                fh.write('\n].\n')
                fh.write('Eval vm_compute in (mismatches (%s) cases).\n' % check_fn)
            files.append(f)
        results = [None] * len(files)
        errors = []

        def start(k, f, tmo):
            return (k, f, subprocess.Popen('ulimit -s unlimited 2>/dev/null; timeout %d coqc %s %s' % (tmo, COQC_FLAGS, f), shell=True,
                                           cwd=str(d), stdout=subprocess.PIPE, stderr=subprocess.STDOUT, text=True))

        def run_all(todo, tmo, par):
            failed = []
            pending = list(todo)
            running = []
            while pending or running:
                while pending and len(running) < par:
                    k, f = pending.pop(0)
                    running.append(start(k, f, tmo))
                k, f, p = running.pop(0)
                out, _ = p.communicate()
                lst = _parse_N_list(out) if p.returncode == 0 else None
                if lst is None:
                    failed.append((k, f, 'coqc exit %s: %s' % (p.returncode, out[-1500:])))
                else:
                    results[k] = lst
            return failed

        failed = run_all(list(enumerate(files)), timeout, NPROC)
        if failed:
            failed = run_all([(k, f) for k, f, _ in failed], timeout * 3, 4)
        for k, f, msg in failed:
            errors.append('shard %d (%s): %s' % (k, f.name, msg))
        mism = []
        for k, lst in enumerate(results):
            if lst:
                mism.extend(k * shard + i for i in lst)
        return mism, errors
    finally:
        shutil.rmtree(d, ignore_errors=True)


def coq_eval(prop_id, imports, expr, timeout=300):
    """evaluate one expression in Coq and return the printed text (for replay files)"""
    d = BUILD / 'cases' / ('%s-eval' % prop_id)
    d.mkdir(parents=True, exist_ok=True)
    f = d / ('eval_%d.v' % os.getpid())
    f.write_text(imports + '\nOpen Scope N_scope.\nEval vm_compute in (%s).\n' % expr)
    rc, out = sh('ulimit -s unlimited 2>/dev/null; timeout %d coqc %s %s' % (timeout, COQC_FLAGS, f), cwd=str(d))
    for g in d.glob('eval_%d.*' % os.getpid()):
        g.unlink()
    for g in d.glob('.eval_%d.*' % os.getpid()):
        g.unlink()
    return out.strip()[-3000:]


# ---------------------------------------------------------------- misc helpers
def exn_code(e):
    """canonical code of a Python exception, the same numbering as Lib/Bytes.v exn_code"""
    import struct
    name = type(e).__name__
    if isinstance(e, UnicodeDecodeError): return 5
    if isinstance(e, ValueError): return 1
    if isinstance(e, IndexError): return 2
    if isinstance(e, KeyError): return 3
    if isinstance(e, AssertionError): return 4
    if isinstance(e, struct.error): return 6
    if isinstance(e, TypeError): return 7
    if name in ('HttpProtocolException', 'HttpRequestRejected', 'ProxyAuthenticationFailed', 'ProxyConnectionFailed'):
        return 100
    if isinstance(e, OSError): return 200
    return 98


def jsonable(x):
    if isinstance(x, (bytes, bytearray, memoryview)):
        return {'hex': bytes(x).hex()} if len(x) <= 4096 else {'hex_prefix': bytes(x[:64]).hex(), 'len': len(x), 'sha1': hashlib.sha1(bytes(x)).hexdigest()}
    if isinstance(x, dict):
        return {str(k): jsonable(v) for k, v in x.items()}
    if isinstance(x, (list, tuple)):
        return [jsonable(v) for v in x]
    if isinstance(x, (int, float, str, bool)) or x is None:
        return x
    return repr(x)


def unhex(x):
    """inverse of jsonable for small byte strings"""
    if isinstance(x, dict) and set(x) == {'hex'}:
        return bytes.fromhex(x['hex'])
    if isinstance(x, dict):
        return {k: unhex(v) for k, v in x.items()}
    if isinstance(x, list):
        return [unhex(v) for v in x]
    return x


def load_known_findings(prop_id):
    p = VERIF / 'known_findings.json'
    if not p.exists():
        return []
    data = json.loads(p.read_text())
    return [e for e in data.get('findings', []) if e['property'] == prop_id]


def anchors_digest(files_funcs):
    """digest of the source text of anchored files (for change-triggered escalation, informational)"""
    h = hashlib.sha1()
    for f in files_funcs:
        p = REPO / f
        h.update(p.read_bytes() if p.exists() else b'<missing>')
    return h.hexdigest()


# ---------------------------------------------------------------------------------------------------------------
# Line coverage of the anchored source files under the correspondence inputs (DESIGN 1.3, "what the tie touched").
# sys.monitoring (CPython 3.12): every line location reports once and is then disabled, so the cost is negligible.
# The result is informational (never an alarm): it names the functions / lines of the modelled files that no
# correspondence case, oracle run or extra check executed in this run - the places where a change would be invisible.
class AnchorCoverage:
    def __init__(self, rel_files):
        self.files = {}
        for f in rel_files:
            p = (REPO / f)
            if p.is_file() and p.suffix == '.py':
                self.files[str(p.resolve())] = f
            elif p.is_dir():
                for q in sorted(p.rglob('*.py')):
                    self.files[str(q.resolve())] = str(q.relative_to(REPO))
        self.hits = {fn: set() for fn in self.files}
        self.active = False

    def start(self):
        mon = getattr(sys, 'monitoring', None)
        if mon is None or not self.files:
            return
        try:
            mon.use_tool_id(mon.COVERAGE_ID, 'verif-anchor-coverage')
        except ValueError:
            return
        files, hits, DISABLE = self.files, self.hits, mon.DISABLE

        def on_line(code, line):
            fn = code.co_filename
            if fn in files:
                hits[fn].add(line)
            return DISABLE
        mon.register_callback(mon.COVERAGE_ID, mon.events.LINE, on_line)
        mon.set_events(mon.COVERAGE_ID, mon.events.LINE)
        self.active = True

    def stop(self):
        if not self.active:
            return
        mon = sys.monitoring
        mon.set_events(mon.COVERAGE_ID, 0)
        mon.register_callback(mon.COVERAGE_ID, mon.events.LINE, None)
        mon.free_tool_id(mon.COVERAGE_ID)
        self.active = False

    @staticmethod
    def _functions(path):
        """qualname -> set of executable lines of every function/method body in the file (module and class level
        statements are import-time code and are left out)"""
        src = open(path, 'rb').read()
        top = compile(src, path, 'exec', dont_inherit=True)
        out = {}

        def walk(co, owner):
            is_func = bool(co.co_flags & 0x0001)          # CO_OPTIMIZED: function-like (not module / class body)
            if is_func:
                if not co.co_name.startswith('<'):
                    owner = co.co_qualname
                    lines = {l for _, _, l in co.co_lines() if l is not None and l != co.co_firstlineno}
                else:                                      # lambda / generator expression: counted with its function
                    lines = {l for _, _, l in co.co_lines() if l is not None}
                if owner and lines:
                    out.setdefault(owner, set()).update(lines)
            for k in co.co_consts:
                if hasattr(k, 'co_code'):
                    walk(k, owner if is_func else None)
        walk(top, None)
        return out

    def report(self):
        if not self.files:
            return None
        rep = {'files': {}, 'never_entered': [], 'partially_covered': {}}
        tot_e = tot_x = 0
        for path, rel in sorted(self.files.items(), key=lambda kv: kv[1]):
            try:
                funcs = self._functions(path)
            except Exception as e:
                rep['files'][rel] = {'error': repr(e)}
                continue
            hit = self.hits.get(path, set())
            ex = set().union(*funcs.values()) if funcs else set()
            got = ex & hit
            tot_e += len(got); tot_x += len(ex)
            rep['files'][rel] = {'function_lines': len(ex), 'executed': len(got),
                                 'pct': round(100.0 * len(got) / len(ex), 1) if ex else None}
            for q, ls in sorted(funcs.items()):
                g = ls & hit
                if not g:
                    rep['never_entered'].append('%s:%s' % (rel, q))
                elif g != ls:
                    rep['partially_covered']['%s:%s' % (rel, q)] = _ranges(sorted(ls - g))
        rep['function_lines'] = tot_x
        rep['executed'] = tot_e
        rep['pct'] = round(100.0 * tot_e / tot_x, 1) if tot_x else None
        rep['active'] = bool(getattr(sys, 'monitoring', None))
        return rep


def _ranges(ls):
    out, i = [], 0
    while i < len(ls):
        j = i
        while j + 1 < len(ls) and ls[j + 1] == ls[j] + 1:
            j += 1
        out.append(str(ls[i]) if i == j else '%d-%d' % (ls[i], ls[j]))
        i = j + 1
    return ','.join(out)


# ---------------------------------------------------------------------------------------------------------------
# Generated tie (DESIGN section 13): harness/gen_check.sh regenerates the Gallina text of the translated functions from the
# CURRENT source (harness/py2v.py, fail-closed) and re-checks in Coq that each equals the hand model (coq/gen/GenLinks.v).
GEN_TARGETS = {
    'C01': ['TcpConnection_has_buffer', 'TcpConnection_queue'],
    'C03': ['find_http_line', 'ChunkParser_process'],
    'C06': ['build_http_header', 'header_key', 'build_http_pkt', 'build_http_response'],
    'C08': ['AuthPlugin_before_upstream_connection'],
    'C14': ['Url_parse', 'Url_from_bytes'],
    'C16': ['apply_mask'],
    'C15': ['build_http_header', 'header_key', 'build_http_pkt', 'build_http_response', 'build_http_request', 'to_chunks',
            'find_http_line', 'ChunkParser_process'],
    'C20': ['HttpProtocolHandler_connection_inactive_for', 'HttpProtocolHandler_is_inactive'],
}


def gen_check_start(pid):
    """start harness/gen_check.sh in the background (it only reads /verif/coq and works in its own temp dir)"""
    if pid not in GEN_TARGETS or os.environ.get('VERIF_NO_GEN') or not (VERIF / 'harness' / 'gen_check.sh').exists():
        return None
    return subprocess.Popen(['bash', str(VERIF / 'harness' / 'gen_check.sh'), str(REPO)], stdout=subprocess.PIPE,
                            stderr=subprocess.STDOUT, text=True)


def gen_check_finish(pid, proc, timeout=1500):
    """-> dict(ok, targets (of this property), broken [(name, why)], summary line, differs)"""
    if proc is None:
        return None
    try:
        out, _ = proc.communicate(timeout=timeout)
        rc = proc.returncode
    except subprocess.TimeoutExpired:
        proc.kill()
        out, rc = 'GEN-BROKEN: gen_check.sh : timed out', 1
    mine = GEN_TARGETS[pid]
    broken = []
    for line in out.splitlines():
        if line.startswith('GEN-BROKEN:'):
            name, _, why = line[len('GEN-BROKEN:'):].partition(' : ')
            name = name.strip().split(' ')[0]
            # a problem that names another property's function does not concern this one; anything else
            # (translator, support library, preamble, audit, time-out) concerns every property that relies on the tie
            everyones = [t for ts in GEN_TARGETS.values() for t in ts]
            if name in mine or name not in everyones:
                broken.append((name, why.strip()[:300]))
    summary = next((l for l in out.splitlines() if l.startswith('GEN:')), '')
    m = re.search(r'regenerated_differs_from_committed=(\w+)', summary)
    ok = not broken and bool(summary) and (rc == 0 or all(False for _ in broken))
    if rc != 0 and not broken and not summary:
        broken.append(('gen_check.sh', out[-300:]))
        ok = False
    return dict(ok=ok, targets=mine, broken=broken, summary=summary, differs=(m.group(1) if m else None), rc=rc)
