#!/bin/bash
# Model coherence layer (coq/theories/Links/): rebuild Links/All.vo under the build lock and a timeout,
# re-compile All.v to capture the `Print Assumptions` output, and require that EVERY one of them says
# "Closed under the global context".  Also greps the Links sources for forbidden constructs.
# exit 0 = all link theorems build and are closed; exit 1 otherwise.   Usage: harness/links_check.sh [-v]
set -u
VERIF=/verif
COQ=$VERIF/coq
LOCK=$VERIF/build/.coq.lock
T=${LINKS_TIMEOUT:-1500}
cd "$COQ" || exit 1

# forbidden constructs (Hypothesis/Variable are allowed inside Sections only; the global audit in
# harness/common.py checks that, here only the unconditional ones)
if grep -nE '\b(Admitted|admit|Axiom|Axioms|Parameter|Parameters|Conjecture)\b|Unset Guard|bypass_check|type-in-type|impredicative-set' \
     theories/Links/*.v | grep -v '^\S*:[0-9]*:\s*(\*' ; then
  echo "LINKS: forbidden construct in theories/Links" ; exit 1
fi

# (re)generate the Makefile when _CoqProject is newer, then build the target with its dependencies
if [ ! -f Makefile ] || [ _CoqProject -nt Makefile ]; then
  flock "$LOCK" timeout 120 coq_makefile -f _CoqProject -o Makefile >/dev/null 2>&1 || { echo "LINKS: coq_makefile failed"; exit 1; }
fi
if ! flock "$LOCK" timeout "$T" make -j8 theories/Links/All.vo >/tmp/links_build.$$ 2>&1; then
  echo "LINKS: build of theories/Links/All.vo failed"; tail -30 /tmp/links_build.$$; rm -f /tmp/links_build.$$; exit 1
fi
rm -f /tmp/links_build.$$

# capture Print Assumptions (compile All.v once more into a scratch directory; dependencies are up to date)
OUT=$(mktemp -d /tmp/links_check.XXXXXX)
cp theories/Links/All.v "$OUT/LinksAllCheck.v"
if ! timeout 600 coqc -Q theories PM -Q "$OUT" LinksScratch "$OUT/LinksAllCheck.v" >"$OUT/out.txt" 2>&1; then
  echo "LINKS: re-compilation of All.v failed"; tail -20 "$OUT/out.txt"; rm -rf "$OUT"; exit 1
fi
WANT=$(grep -c '^Print Assumptions' theories/Links/All.v)
GOT=$(grep -c 'Closed under the global context' "$OUT/out.txt")
AX=$(grep -c '^Axioms:' "$OUT/out.txt")
[ "${1:-}" = "-v" ] && cat "$OUT/out.txt"
rm -rf "$OUT"
echo "LINKS: print_assumptions=$WANT closed=$GOT axiom_blocks=$AX"
if [ "$WANT" -gt 0 ] && [ "$WANT" -eq "$GOT" ] && [ "$AX" -eq 0 ]; then exit 0; else exit 1; fi
