#!/usr/bin/env python3
"""Records the digest of every property's anchored source files (harness/anchors.json) for change-triggered escalation.
Run (with PYTHONPATH=/repo /venv/bin/python) whenever the models have been brought in line with /repo."""
import sys, json, importlib, glob, os
sys.path.insert(0, '/verif/harness')
import common as C
out = {}
for f in sorted(glob.glob('/verif/harness/props/C[0-9][0-9].py')):
    pid = os.path.basename(f)[:-3]
    try:
        mod = importlib.import_module('props.' + pid)
        out[pid] = C.anchors_digest(getattr(mod, 'ANCHOR_FILES', []))
    except Exception as e:
        print('skip', pid, e)
json.dump(out, open('/verif/harness/anchors.json', 'w'), indent=1, sort_keys=True)
print(len(out), 'digests written')
