import json, sys, xml.etree.ElementTree as ET
base = set(json.load(open('/root/.vp/BASELINE.json'))['stable_pass'])
t = ET.parse(sys.argv[1]); passed=set()
for tc in t.iter('testcase'):
    if not any(c.tag in ('failure','error','skipped') for c in tc):
        passed.add(tc.get('classname') + '::' + tc.get('name'))
print('baseline', len(base), 'passed now', len(passed), 'missing from baseline:', sorted(base - passed))
