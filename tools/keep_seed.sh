#!/bin/bash
# usage: keep_seed.sh <Cxx> <n> <srcdir> "<detected_by text>"  — verifies the demo on original/patched trees and stores the seed
P=$1; N=$2; SRC=$3; BY=$4
D=$(mktemp -d /tmp/sd.XXXX); git -C /repo archive HEAD | tar -x -C $D
( cd /tmp && PYTHONPATH=$D timeout 300 /venv/bin/python $SRC/demo.py >/dev/null 2>&1 ); a=$?
( cd $D && git apply $SRC/patch.diff )
( cd /tmp && PYTHONPATH=$D timeout 300 /venv/bin/python $SRC/demo.py >/dev/null 2>&1 ); b=$?
rm -rf $D
echo "$P-$N demo: original exit=$a patched exit=$b"
if [ "$a" = 0 ] && [ "$b" != 0 ]; then
  mkdir -p /verif/seeded/$P-$N && cp $SRC/patch.diff $SRC/demo.py /verif/seeded/$P-$N/
  python3 - "$SRC/meta.json" "/verif/seeded/$P-$N/meta.json" "$P" "$N" "$BY" <<'PY'
import json,sys
m=json.load(open(sys.argv[1]))
m['confirmed_by_coordinator']={'demo_on_original':'exit 0','demo_on_patched':'exit != 0',
  'check':'tools/try_seed.sh %s seeded/%s-%s/patch.diff (quick tier, seed 0)' % (sys.argv[3],sys.argv[3],sys.argv[4]),'result':sys.argv[5]}
json.dump(m,open(sys.argv[2],'w'),indent=1)
PY
fi
