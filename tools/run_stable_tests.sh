#!/bin/bash
# Runs the 37 test files containing BASELINE.stable_pass (fast, ~15 s) and compares with the baseline.
# usage: run_stable_tests.sh [repo_dir]   (default /repo; must be run against /repo for exact test ids)
R=${1:-/repo}
OUT=$(mktemp /tmp/stable.XXXXXX.xml)
cd "$R" && env -u PYTHONPATH PYTHONPATH="$R" /venv/bin/python -m pytest -q -p no:cacheprovider --timeout=60 \
  --continue-on-collection-errors --junitxml="$OUT" $(cat /verif/tools/stable_test_files.txt) >/tmp/stable.log 2>&1
tail -1 /tmp/stable.log
/venv/bin/python /verif/tools/compare_junit_with_baseline.py "$OUT"
rm -f "$OUT"
