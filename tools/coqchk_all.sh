#!/bin/bash
# Re-checks every compiled Props library (and everything it depends on) with the independent checker and prints the axioms.
cd /verif/coq && timeout 3000 coqchk -silent -o -Q theories PM $(ls theories/Props/C*.v | sed 's#theories/Props/\(C[0-9]*\).v#PM.Props.\1#' | tr '\n' ' ')
