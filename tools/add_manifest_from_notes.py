#!/usr/bin/env python3
"""usage: add_manifest_from_notes.py Cxx — takes the MANIFEST snippet (last ```json block containing "technique") from notes/Cxx.md"""
import sys, re, json
pid = sys.argv[1]
txt = open('/verif/notes/%s.md' % pid).read()
blocks = re.findall(r"```(?:json)?\s*(.*?)```", txt, re.S)
blocks = [b for b in blocks if '"technique"' in b]
b = blocks[-1].strip()
if not b.startswith('{'):
    b = '{' + b + '}'
obj = json.loads(b)
if pid in obj:
    obj = obj[pid]
src = json.load(open('/verif/tools/manifest_src.json'))
src['checks'][pid] = {k: obj[k] for k in ('technique', 'level_text', 'level_note')}
json.dump(src, open('/verif/tools/manifest_src.json', 'w'), indent=1)
print('added', pid)
