#!/usr/bin/env python3
"""Regenerates MANIFEST.json from tools/manifest_src.json (claimed checks) — keeps it valid at all times."""
import json
src = json.load(open('/verif/tools/manifest_src.json'))
props = [json.loads(l) for l in open('/verif/properties.jsonl')]
checks = []
for pid, c in sorted(src['checks'].items()):
    checks.append(dict(
        property_id=pid,
        quick_cmd='./check %s --tier quick' % pid,
        thorough_cmd='./check %s --tier thorough' % pid,
        evidence_file='/verif/evidence/%s.json' % pid,
        replay_cmd_template='./check %s --replay {path}' % pid,
        engine='coq-model+correspondence',
        level_claimed=dict(category='proof', text=c['level_text'], design_ref=c.get('design_ref', 'DESIGN.md §3 ' + pid)),
        level_note=c['level_note'],
        technique=c['technique'],
    ))
na = [dict(property_id=p['id'], reason=src['not_applicable'].get(p['id'], 'model, theorems and correspondence check for this property are not built yet in this development (see DESIGN.md §4); not claimed rather than decided by another technique'))
      for p in props if p['id'] not in src['checks']]
m = dict(
    version=1,
    setup_cmd='cd /verif/coq && coq_makefile -f _CoqProject -o Makefile && (timeout 3000 make -k -j16; true)',
    hooks=dict(guard='PROXY_PY_VERIF', enable='none needed: all instrumentation is monkey-patching from /verif/harness; no guarded source changes exist',
               baseline_off_cmd='cd /repo && /venv/bin/python -m pytest -ra -q -p no:cacheprovider --timeout=900 --continue-on-collection-errors',
               source_commits=[], add_only=True),
    engines=[dict(name='coq-model+correspondence', path='/verif/check', serves_properties=sorted(src['checks']),
                  kind_free_text='Coq 8.16.1 theorems over a hand-written Gallina model (coq/theories), tied to /repo on every run by evaluating the model inside Coq (vm_compute) on generated cases next to the implementation imported from /repo')],
    checks=checks,
    notes=src.get('notes', ''),
    not_applicable=na,
)
json.dump(m, open('/verif/MANIFEST.json', 'w'), indent=1)
print('claimed:', sorted(src['checks']), 'not claimed:', [x['property_id'] for x in na])
