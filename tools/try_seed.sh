#!/bin/bash
# usage: try_seed.sh <Cxx> <patch.diff> [tier]   — runs ./check against a scratch copy of /repo with the patch applied
# (VERIF_REPO keeps /repo itself untouched while other work is using it). Prints the check's tail and exit status.
P=$1; PATCH=$(readlink -f "$2"); TIER=${3:-quick}
D=$(mktemp -d /tmp/seedrun.XXXXXX)
git -C /repo archive HEAD | tar -x -C "$D"
( cd "$D" && git init -q . 2>/dev/null; git apply "$PATCH" ) || { echo "patch does not apply"; rm -rf "$D"; exit 2; }
cd /verif && VERIF_REPO="$D" ./check "$P" --tier "$TIER" 2>&1 | grep -v "^\s*$" | tail -4
RC=${PIPESTATUS[0]}
rm -rf "$D"
echo "check exit=$RC"
exit $RC
