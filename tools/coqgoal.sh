#!/bin/bash
# usage: coqgoal.sh <file.v> <line>  -- prints the goal at the given line (before that line executes)
F=$1; L=$2
TMP=$(mktemp /tmp/goalXXXX.v)
head -n $((L-1)) "$F" > "$TMP"
echo "Show. " >> "$TMP"
cd /verif/coq && timeout 120 coqc -Q theories PM "$TMP" 2>&1 | tail -${3:-60}
rm -f "$TMP" "${TMP%.v}.vo" "${TMP%.v}.glob" "${TMP%.v}.vok" "${TMP%.v}.vos" /tmp/.$(basename ${TMP%.v}).aux
