#!/bin/bash
# runs the thorough tier of every claimed check, 3 at a time; one line per property in build/thorough_sweep.log
LOG=/verif/build/thorough_sweep.log; : > $LOG
PROPS=${@:-$(python3 -c "import json;print(' '.join(sorted(json.load(open('/verif/tools/manifest_src.json'))['checks'])))")}
run() { p=$1; s=$(date +%s); out=$(cd /verif && VERIF_SEED=11 ./check $p --tier thorough 2>&1 | grep -v "^KNOWN-FINDING" | tail -2 | tr '\n' ' '); echo "$p ($(( $(date +%s) - s ))s): $out" >> $LOG; }
export -f run; export LOG
echo $PROPS | tr ' ' '\n' | xargs -P 3 -I{} bash -c 'run {}'
echo DONE >> $LOG
