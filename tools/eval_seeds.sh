#!/bin/bash
# usage: eval_seeds.sh <Cxx> <outdir> <tag>   — for each <outdir>/<n>: verify demo, run the check, print a one-line verdict; keeps caught ones as seeded/<Cxx>-<tag><n>
P=$1; OUT=$2; TAG=$3
for d in $OUT/[0-9]*; do
  n=$(basename $d)
  [ -f $d/patch.diff ] || continue
  res=$(/verif/tools/try_seed.sh $P $d/patch.diff 2>&1 | grep -v "^KNOWN-FINDING" | tail -3 | tr '\n' ' ')
  if echo "$res" | grep -q "check exit=1"; then
     if echo "$res" | grep -q "no-failing-input-found"; then by="exit 1, VIOLATION ... no-failing-input-found (proof/correspondence break only)"; else by="VIOLATION with failing input, exit 1"; fi
     /verif/tools/keep_seed.sh $P $TAG$n $d "$by: $(echo $res | grep -o '[0-9]* mismatches, [0-9]* oracle failures')"
  else
     echo "MISSED $P-$TAG$n: $res"
     mkdir -p /verif/seeded_pending && rm -rf /verif/seeded_pending/$P-$TAG$n && cp -r $d /verif/seeded_pending/$P-$TAG$n
  fi
done
