#!/bin/bash
# usage: seed_sweep.sh "<seeds>" [props...]  — runs quick checks for several seeds on the unchanged tree, logs one line per run
SEEDS=${1:-"1 2"}; shift
PROPS=${@:-$(python3 -c "import json;print(' '.join(sorted(json.load(open('/verif/tools/manifest_src.json'))['checks'])))")}
LOG=/verif/build/seed_sweep.log; : > $LOG
for s in $SEEDS; do for p in $PROPS; do
  out=$(cd /verif && VERIF_SEED=$s ./check $p 2>&1 | grep -v "^KNOWN-FINDING" | tail -2 | tr '\n' ' ')
  echo "seed=$s $p: $out" >> $LOG
done; done
echo DONE >> $LOG
