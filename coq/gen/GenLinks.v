(* coq/gen/GenLinks.v -- HAND-WRITTEN link theorems: every definition of Generated.v (the output of the
   Python->Gallina translator harness/py2v.py for the current source) is proved EQUAL, for all arguments,
   to the hand-written model the property theorems of Props/Cxx.v are about.  Re-checked against the
   regenerated text on every run of harness/gen_check.sh.

   Layout: a preamble of facts about the translation scheme (GenSupport), then one block per target,
   introduced by a marker line  `(* @target <name> *)`  (gen_check.sh uses the markers to name the
   theorem that no longer compiles).  Every theorem is followed by Print Assumptions.

   Proof style: the proofs never mention a bound-variable name of the generated text and use only
   unfold / destruct on the same conditions / rewriting with lemmas, so that renaming a local, adding a
   comment or reordering independent assignments in the Python leaves them valid. *)
From PM Require Import Lib.Bytes Lib.BytesFacts Lib.PyStr Lib.PyStrFacts.
From PM Require Http.Parser Http.Builders Http.Chunk Http.Url Net.Auth Net.Conn Net.Handler Net.Reverse Links.Builders Ws.Frame.
From Coq Require Import ZArith Lia.
From PMG Require Import GenSupport Generated.

(* ------------------------------------------------------------------------------------------------ *)
(* preamble: facts about the translation scheme *)

(* literals: the translator writes printable constants as bs "..."; compute them to byte lists *)
Ltac norm_bs :=
  repeat match goal with
         | |- context [bs ?s] => let v := eval vm_compute in (bs s) in change (bs s) with v
         | |- context [bytes_of_string ?s] =>
             let v := eval vm_compute in (bytes_of_string s) in change (bytes_of_string s) with v
         end.

Lemma zlen_nil {A} : zlen (@nil A) = 0%Z.
Proof. reflexivity. Qed.
Lemma zlen_cons {A} (x : A) l : zlen (x :: l) = Z.succ (zlen l).
Proof. unfold zlen. cbn [length]. apply Nat2Z.inj_succ. Qed.
Lemma zlen_nonneg {A} (l : list A) : (0 <= zlen l)%Z.
Proof. unfold zlen. lia. Qed.
Lemma zlen_app {A} (l m : list A) : zlen (l ++ m) = (zlen l + zlen m)%Z.
Proof. unfold zlen. rewrite app_length. lia. Qed.

(* decide (zlen <concrete spine> =? n) *)
Ltac zlen_decide :=
  repeat rewrite ?zlen_cons, ?zlen_nil;
  repeat match goal with
         | |- context [zlen ?l] =>
             lazymatch goal with
             | H : (0 <= zlen l)%Z |- _ => fail
             | _ => pose proof (zlen_nonneg l)
             end
         end;
  repeat rewrite Z.geb_leb;
  repeat match goal with
         | |- context [(?a <=? ?b)%Z] =>
             first [ replace (a <=? b)%Z with true by (symmetry; apply Z.leb_le; lia)
                   | replace (a <=? b)%Z with false by (symmetry; apply Z.leb_gt; lia) ]
         end;
  repeat match goal with
         | |- context [(?a =? ?b)%Z] =>
             first [ replace (a =? b)%Z with true by (symmetry; apply Z.eqb_eq; lia)
                   | replace (a =? b)%Z with false by (symmetry; apply Z.eqb_neq; lia) ]
         end.

Lemma py_index_0 {A} (x : A) l : py_index (x :: l) 0 = Ok x.
Proof. reflexivity. Qed.
Lemma py_index_1 {A} (x y : A) l : py_index (x :: y :: l) 1 = Ok y.
Proof. reflexivity. Qed.
Lemma py_index_nil {A} i : py_index (@nil A) i = Err IndexError.
Proof.
  unfold py_index. cbv zeta.
  match goal with |- context [(?j <? 0)%Z] => destruct (j <? 0)%Z end; [reflexivity|].
  match goal with |- context [Z.to_nat ?j] => destruct (Z.to_nat j) end; reflexivity.
Qed.
(* l[-1] *)
Lemma py_index_m1 {A} (l : list A) d : l <> [] -> py_index l (-1) = Ok (last l d).
Proof.
  intros Hl. unfold py_index. cbn [Z.ltb Z.compare].
  destruct l as [|x t]; [congruence|].
  rewrite zlen_cons.
  replace (Z.succ (zlen t) + -1 <? 0)%Z with false by (symmetry; apply Z.ltb_ge; pose proof (zlen_nonneg t); lia).
  replace (Z.to_nat (Z.succ (zlen t) + -1)) with (length t) by (unfold zlen; lia).
  clear Hl. revert x. induction t as [|y t IH]; intros x; [reflexivity|].
  cbn [length nth_error]. rewrite IH. reflexivity.
Qed.
(* l[:-1] *)
Lemma py_slice_to_m1 {A} (l : list A) : py_slice_to (-1) l = removelast l.
Proof.
  unfold py_slice_to. cbn [Z.leb Z.compare].
  rewrite removelast_firstn_len. f_equal. lia.
Qed.

Lemma of_N_eqb a b : (Z.of_N a =? Z.of_N b)%Z = (a =? b)%N.
Proof.
  destruct (N.eqb_spec a b) as [->|H]; [apply Z.eqb_refl|].
  apply Z.eqb_neq. intros E. apply N2Z.inj in E. congruence.
Qed.

Lemma hex_of_Z_of_nat n : hex_of_Z (Z.of_nat n) = hex_of_N (N.of_nat n).
Proof. rewrite <- nat_N_Z. destruct (N.of_nat n); reflexivity. Qed.

Lemma opt_or_empty_eq {A} (x : option (list A)) : opt_or_empty x = match x with Some d => d | None => [] end.
Proof. destruct x as [[|a l]|]; reflexivity. Qed.
Lemma list_or_empty_eq {A} (x : list A) : list_or_empty x = x.
Proof. destruct x; reflexivity. Qed.

(* ------------------------------------------------------------------------------------------------ *)
(* @target build_http_header *)
Theorem gen_build_http_header_eq : forall k v,
  Generated.build_http_header k v = Builders.build_http_header k v.
Proof.
  intros k v. unfold Generated.build_http_header, Builders.build_http_header. norm_bs.
  rewrite <- !app_assoc. reflexivity.
Qed.
Print Assumptions gen_build_http_header_eq.

Example gen_build_http_header_ex1 :
  Generated.build_http_header (bs "Host") (bs "example.org") = Builders.build_http_header (bs "Host") (bs "example.org").
Proof. vm_compute. reflexivity. Qed.
Example gen_build_http_header_ex2 : Generated.build_http_header [] [0; 255] = Builders.build_http_header [] [0; 255].
Proof. vm_compute. reflexivity. Qed.

(* @target header_key *)
Theorem gen_header_key_eq : forall headers name,
  Generated.header_key headers name = Builders.header_key headers name.
Proof.
  intros headers name. unfold Generated.header_key. cbv zeta.
  induction headers as [|[k v] t IH]; [reflexivity|].
  cbn [dict_keys map fst for_ctl Builders.header_key] in *.
  destruct (bytes_eqb (lower k) (lower name)); [reflexivity|exact IH].
Qed.
Print Assumptions gen_header_key_eq.

Example gen_header_key_ex1 :
  Generated.header_key [(bs "Host", bs "a"); (bs "content-LENGTH", bs "3")] (bs "Content-Length")
  = Builders.header_key [(bs "Host", bs "a"); (bs "content-LENGTH", bs "3")] (bs "Content-Length").
Proof. vm_compute. reflexivity. Qed.
Example gen_header_key_ex2 : Generated.header_key [] (bs "Connection") = Builders.header_key [] (bs "Connection").
Proof. vm_compute. reflexivity. Qed.

(* @target build_http_pkt *)
Lemma gen_header_loop : forall (hs : dict bytes) acc,
  fold_left (fun pkt '(k, v) => pkt ++ (Generated.build_http_header k v ++ [13; 10])) hs acc
  = acc ++ Builders.header_lines hs.
Proof.
  induction hs as [|[k v] t IH]; intros acc; cbn [fold_left Builders.header_lines].
  - now rewrite app_nil_r.
  - rewrite IH, gen_build_http_header_eq. unfold CRLF. rewrite <- !app_assoc. reflexivity.
Qed.

Theorem gen_build_http_pkt_eq : forall line headers body conn_close,
  Generated.build_http_pkt line headers body conn_close = Builders.build_http_pkt line headers body conn_close.
Proof.
  intros line headers body conn_close.
  unfold Generated.build_http_pkt, Builders.build_http_pkt, Builders.pkt_headers. cbv zeta. norm_bs.
  rewrite opt_or_empty_eq, gen_header_key_eq.
  unfold Builders.H_CONNECTION, Builders.V_CLOSE. norm_bs.
  change CRLF with [13; 10]. change SP with 32.
  rewrite gen_header_loop.
  change (truthy_ob body) with (Builders.truthy body). change (or_empty body) with (Builders.or_empty body).
  destruct (Builders.truthy body); rewrite <- ?app_assoc; [reflexivity|].
  rewrite app_nil_r. reflexivity.
Qed.
Print Assumptions gen_build_http_pkt_eq.

Example gen_build_http_pkt_ex1 :
  Generated.build_http_pkt [bs "GET"; bs "/"; bs "HTTP/1.1"] (Some [(bs "connection", bs "keep-alive")]) (Some (bs "xy")) true
  = Builders.build_http_pkt [bs "GET"; bs "/"; bs "HTTP/1.1"] (Some [(bs "connection", bs "keep-alive")]) (Some (bs "xy")) true.
Proof. vm_compute. reflexivity. Qed.
Example gen_build_http_pkt_ex2 :
  Generated.build_http_pkt [bs "HTTP/1.1"; bs "200"] None None false = Builders.build_http_pkt [bs "HTTP/1.1"; bs "200"] None None false.
Proof. vm_compute. reflexivity. Qed.

(* @target build_http_response *)
Lemma gen_te_loop : forall (hs : dict bytes),
  for_brk (fun (st : bool) '(k, _) =>
             if bytes_eqb (lower k) [116; 114; 97; 110; 115; 102; 101; 114; 45; 101; 110; 99; 111; 100; 105; 110; 103]
             then (true, true) else (st, false)) hs false
  = Builders.has_key_ci Parser.TRANSFER_ENCODING hs.
Proof.
  unfold Builders.has_key_ci, Parser.TRANSFER_ENCODING. norm_bs.
  induction hs as [|[k v] t IH]; [reflexivity|].
  cbn [for_brk existsb fst].
  destruct (bytes_eqb (lower k) _); [reflexivity|]. cbn [orb]. exact IH.
Qed.

Theorem gen_build_http_response_eq : forall status_code protocol_version reason headers body conn_close no_cl,
  Generated.build_http_response status_code protocol_version reason headers body conn_close no_cl
  = Builders.build_http_response status_code protocol_version reason headers body conn_close no_cl.
Proof.
  intros status_code protocol_version reason headers body conn_close no_cl.
  unfold Generated.build_http_response, Builders.build_http_response, Builders.response_headers. cbv zeta. norm_bs.
  rewrite gen_build_http_pkt_eq, opt_or_empty_eq, gen_header_key_eq, gen_te_loop.
  unfold Builders.H_CONTENT_LENGTH, Builders.bytes_of_Z, Builders.bytes_of_N. norm_bs.
  change (truthy_ob reason) with (Builders.truthy reason). change (or_empty reason) with (Builders.or_empty reason).
  change (truthy_ob body) with (Builders.truthy body). change (or_empty body) with (Builders.or_empty body).
  replace (dec_of_Z (zlen (Builders.or_empty body))) with (dec_of_N (len (Builders.or_empty body)))
    by (unfold zlen, len; rewrite <- nat_N_Z; destruct (N.of_nat _); reflexivity).
  destruct (Builders.truthy reason); reflexivity.
Qed.
Print Assumptions gen_build_http_response_eq.

Example gen_build_http_response_ex1 :
  Generated.build_http_response 200 (bs "HTTP/1.1") (Some (bs "OK")) (Some [(bs "content-length", bs "9")]) (Some (bs "hello")) true false
  = Builders.build_http_response 200 (bs "HTTP/1.1") (Some (bs "OK")) (Some [(bs "content-length", bs "9")]) (Some (bs "hello")) true false.
Proof. vm_compute. reflexivity. Qed.
Example gen_build_http_response_ex2 :
  Generated.build_http_response 404 (bs "HTTP/1.0") None (Some [(bs "Transfer-Encoding", bs "chunked")]) None false false
  = Builders.build_http_response 404 (bs "HTTP/1.0") None (Some [(bs "Transfer-Encoding", bs "chunked")]) None false false.
Proof. vm_compute. reflexivity. Qed.

(* @target build_http_request *)
Lemma gen_te_ua_loop : forall (f : bool * bool -> bytes * bytes -> bool * bool),
  (forall te ua k v,
     f (te, ua) (k, v) =
     if bytes_eqb (lower k) [116; 114; 97; 110; 115; 102; 101; 114; 45; 101; 110; 99; 111; 100; 105; 110; 103]
     then (true, ua)
     else (te, if bytes_eqb (lower k) [117; 115; 101; 114; 45; 97; 103; 101; 110; 116] then true else ua)) ->
  forall (hs : dict bytes) a b,
  fold_left f hs (a, b)
  = (a || Builders.has_key_ci Parser.TRANSFER_ENCODING hs, b || Builders.has_key_ci Builders.L_USER_AGENT hs).
Proof.
  intros f Hf.
  unfold Builders.has_key_ci, Parser.TRANSFER_ENCODING, Builders.L_USER_AGENT. norm_bs.
  induction hs as [|[k v] t IH]; intros a b; cbn [fold_left existsb fst].
  - now rewrite !orb_false_r.
  - rewrite Hf.
    destruct (bytes_eqb (lower k) [116; 114; 97; 110; 115; 102; 101; 114; 45; 101; 110; 99; 111; 100; 105; 110; 103]) eqn:E.
    + apply bytes_eqb_eq in E. rewrite E. rewrite IH.
      replace (bytes_eqb _ [117; 115; 101; 114; 45; 97; 103; 101; 110; 116]) with false by reflexivity.
      cbn [orb]. now rewrite orb_true_r.
    + rewrite IH. cbn [orb].
      destruct (bytes_eqb (lower k) [117; 115; 101; 114; 45; 97; 103; 101; 110; 116]); cbn [orb];
        now rewrite ?orb_true_r.
Qed.

Theorem gen_build_http_request_eq : forall ua method url protocol_version content_type headers body conn_close no_ua,
  Generated.build_http_request ua method url protocol_version content_type headers body conn_close no_ua
  = Builders.build_http_request ua method url protocol_version content_type headers body conn_close no_ua.
Proof.
  intros ua method url protocol_version content_type headers body conn_close no_ua.
  unfold Generated.build_http_request. cbv zeta. norm_bs.
  rewrite opt_or_empty_eq.
  set (h0 := match headers with Some d => d | None => [] end).
  (* same case split as the Python: `if content_type is not None` *)
  destruct content_type as [ct|];
    (match goal with
     | |- context [fold_left ?f ?h1 (false, false)] =>
         replace (fold_left f h1 (false, false))
           with (Builders.has_key_ci Parser.TRANSFER_ENCODING h1, Builders.has_key_ci Builders.L_USER_AGENT h1)
           by (symmetry; apply (gen_te_ua_loop f); intros te0 ua0 k0 v0; cbv beta iota;
               destruct (bytes_eqb (lower k0) _); [|destruct (bytes_eqb (lower k0) _)]; reflexivity)
     end;
     cbv beta iota;
     rewrite gen_build_http_pkt_eq, !gen_header_key_eq;
     change (truthy_ob body) with (Builders.truthy body); change (or_empty body) with (Builders.or_empty body);
     replace (dec_of_Z (zlen (Builders.or_empty body))) with (dec_of_N (len (Builders.or_empty body)))
       by (unfold zlen, len; rewrite <- nat_N_Z; destruct (N.of_nat _); reflexivity);
     unfold Builders.build_http_request, Builders.request_headers; cbv zeta; fold h0;
     unfold Builders.H_CONTENT_LENGTH, Builders.H_CONTENT_TYPE, Builders.H_USER_AGENT, Builders.bytes_of_N; norm_bs;
     reflexivity).
Qed.
Print Assumptions gen_build_http_request_eq.

Example gen_build_http_request_ex1 :
  Generated.build_http_request (bs "proxy.py v1") (bs "POST") (bs "/x") (bs "HTTP/1.1") (Some (bs "text/plain"))
    (Some [(bs "Host", bs "h"); (bs "CONTENT-TYPE", bs "old")]) (Some (bs "body")) false false
  = Builders.build_http_request (bs "proxy.py v1") (bs "POST") (bs "/x") (bs "HTTP/1.1") (Some (bs "text/plain"))
    (Some [(bs "Host", bs "h"); (bs "CONTENT-TYPE", bs "old")]) (Some (bs "body")) false false.
Proof. vm_compute. reflexivity. Qed.
Example gen_build_http_request_ex2 :
  Generated.build_http_request (bs "ua") (bs "GET") (bs "/") (bs "HTTP/1.1") None
    (Some [(bs "User-agent", bs "curl"); (bs "transfer-encoding", bs "chunked")]) (Some (bs "zz")) true true
  = Builders.build_http_request (bs "ua") (bs "GET") (bs "/") (bs "HTTP/1.1") None
    (Some [(bs "User-agent", bs "curl"); (bs "transfer-encoding", bs "chunked")]) (Some (bs "zz")) true true.
Proof. vm_compute. reflexivity. Qed.

(* @target AuthPlugin_before_upstream_connection *)
(* The Python method returns the request or raises ProxyAuthenticationFailed; the hand model of C08 speaks
   of plugin-hook outcomes.  The mapping between the two is explicit: a returned request is Pass, the
   exception ProxyAuthenticationFailed (translated as HttpProtocolException 407) is the rejection whose
   response() is the canned 407 packet, any other exception is Raise. *)
Definition outcome_of_result (agent : bytes) (r : result Auth.request) : Auth.outcome Auth.request :=
  match r with
  | Ok q => Auth.Pass q
  | Err (HttpProtocolException k) =>
      if k =? 407 then Auth.Reject (Some (Auth.PROXY_AUTH_FAILED_RESPONSE_PKT agent)) else Auth.Raise (HttpProtocolException k)
  | Err e => Auth.Raise e
  end.

Lemma auth_set_headers_id r : Auth.set_headers r (Auth.rq_headers r) = r.
Proof. destruct r; reflexivity. Qed.

Theorem gen_AuthPlugin_before_upstream_connection_eq : forall agent auth_code request,
  outcome_of_result agent (Generated.AuthPlugin_before_upstream_connection auth_code request)
  = Auth.AuthPlugin_before_upstream_connection agent auth_code request.
Proof.
  intros agent auth_code request.
  unfold Generated.AuthPlugin_before_upstream_connection, Auth.AuthPlugin_before_upstream_connection, Auth.auth_ok.
  cbv zeta. norm_bs.
  change (truthy_ob auth_code) with (Auth.truthy auth_code).
  change (or_empty auth_code) with (Auth.body_or_empty auth_code).
  destruct (Auth.truthy auth_code); [|reflexivity].
  rewrite list_or_empty_eq, auth_set_headers_id.
  unfold dict_has, dict_index, Auth.PROXY_AUTHORIZATION, Auth.BASIC. norm_bs.
  destruct (dict_get _ (Auth.rq_headers request)) as [[n v]|]; cbn [negb bind snd]; [|reflexivity].
  destruct (split_ws v) as [|s [|c [|x l]]]; zlen_decide; cbn [negb bind]; try reflexivity.
  (* zero, one, three or more parts: rejected on both sides by computation; exactly two parts: *)
  rewrite py_index_0. cbn [bind]. rewrite py_index_1.
    destruct (bytes_eqb (lower s) _); cbn [negb bind andb]; [|reflexivity].
    destruct (bytes_eqb c _); reflexivity.
Qed.
Print Assumptions gen_AuthPlugin_before_upstream_connection_eq.

Definition ex_request (hs : Auth.headers) : Auth.request :=
  Auth.mkRequest (bs "GET") (Some (bs "h")) (Some 80%Z) (Some (bs "/")) (bs "HTTP/1.1") hs None false [].
Example gen_auth_ex1 :
  let r := ex_request [(bs "proxy-authorization", (bs "Proxy-Authorization", bs "bAsIc  dXNlcjpwYXNz"))] in
  outcome_of_result (bs "proxy.py v1") (Generated.AuthPlugin_before_upstream_connection (Some (bs "dXNlcjpwYXNz")) r)
  = Auth.AuthPlugin_before_upstream_connection (bs "proxy.py v1") (Some (bs "dXNlcjpwYXNz")) r
  /\ Generated.AuthPlugin_before_upstream_connection (Some (bs "dXNlcjpwYXNz")) r = Ok r.
Proof. vm_compute. split; reflexivity. Qed.
Example gen_auth_ex2 :
  let r := ex_request [(bs "proxy-authorization", (bs "Proxy-Authorization", bs "Basic dXNlcjpwYXNz extra"))] in
  outcome_of_result (bs "proxy.py v1") (Generated.AuthPlugin_before_upstream_connection (Some (bs "dXNlcjpwYXNz")) r)
  = Auth.AuthPlugin_before_upstream_connection (bs "proxy.py v1") (Some (bs "dXNlcjpwYXNz")) r
  /\ Generated.AuthPlugin_before_upstream_connection (Some (bs "dXNlcjpwYXNz")) r = Err (HttpProtocolException 407).
Proof. vm_compute. split; reflexivity. Qed.

(* @target to_chunks *)
(* Python: the list [hex(len c1), c1, hex(len c2), c2, ..., b'0', b''] joined by CRLF; the hand model
   Chunk.to_chunks concatenates directly.  Net/Reverse.v has the list form (cs : N, take/drop) and
   Links/Builders.v relates it to Chunk.v; here the generated range/slice loop is related to the list form. *)
Lemma range_count_step (i n k : Z) : (0 < k)%Z -> (i < n)%Z ->
  range_count i n k = S (range_count (i + k) n k).
Proof.
  intros Hk Hi. unfold range_count.
  replace (n <=? i)%Z with false by (symmetry; apply Z.leb_gt; lia).
  destruct (n <=? i + k)%Z eqn:E.
  - apply Z.leb_le in E.
    replace ((n - i + k - 1) / k)%Z with 1%Z; [reflexivity|].
    apply Z.div_unique with (r := (n - i - 1)%Z); [left; lia | lia].
  - apply Z.leb_gt in E.
    replace (n - i + k - 1)%Z with ((n - (i + k) + k - 1) + 1 * k)%Z by lia.
    rewrite Z.div_add by lia.
    rewrite Z2Nat.inj_add; [|apply Z.div_pos; lia|lia].
    cbn [Z.to_nat Pos.to_nat Pos.iter_op]. lia.
Qed.

Lemma py_slice_window (raw : bytes) (i k : nat) : (i <= length raw)%nat ->
  py_slice (Z.of_nat i) (Z.of_nat i + Z.of_nat k)%Z raw = firstn k (skipn i raw).
Proof.
  intros Hi. unfold py_slice, norm_bound, zlen.
  replace (Z.of_nat i <? 0)%Z with false by (symmetry; apply Z.ltb_ge; lia).
  replace (Z.of_nat i + Z.of_nat k <? 0)%Z with false by (symmetry; apply Z.ltb_ge; lia).
  rewrite (Z.min_l (Z.of_nat i)) by lia. rewrite (Z.max_r 0 (Z.of_nat i)) by lia.
  rewrite Nat2Z.id.
  destruct (Z.le_ge_cases (Z.of_nat i + Z.of_nat k) (Z.of_nat (length raw))) as [H|H].
  - rewrite Z.min_l by lia. rewrite Z.max_r by lia. f_equal. lia.
  - rewrite Z.min_r by lia. rewrite Z.max_r by lia.
    replace (Z.to_nat (Z.of_nat (length raw) - Z.of_nat i)) with (length (skipn i raw)) by (rewrite skipn_length; lia).
    rewrite firstn_all. symmetry. apply firstn_all2. rewrite skipn_length. lia.
Qed.

Lemma skipn_add {A} (l : list A) : forall b a, skipn a (skipn b l) = skipn (b + a) l.
Proof.
  intros b. revert l. induction b as [|b IH]; intros l a; [reflexivity|].
  destruct l as [|x t]; cbn [skipn Nat.add]; [now rewrite skipn_nil|apply IH].
Qed.

Lemma reverse_to_chunks_aux_nil fuel k : Reverse.to_chunks_aux fuel k [] = [].
Proof. destruct fuel; reflexivity. Qed.

Lemma gen_chunk_loop (raw : bytes) (k : N) : 0 < k ->
  forall (f : list bytes -> Z -> list bytes),
  (forall acc i, f acc i = (acc ++ [hex_of_Z (zlen (py_slice i (i + Z.of_N k)%Z raw))])
                           ++ [py_slice i (i + Z.of_N k)%Z raw]) ->
  forall fuel i acc, (length raw - i <= fuel)%nat ->
  fold_left f (range_from (Z.of_nat i) (Z.of_N k) (range_count (Z.of_nat i) (zlen raw) (Z.of_N k))) acc
  = acc ++ Reverse.to_chunks_aux fuel k (skipn i raw).
Proof.
  intros Hk f Hf. rewrite <- (N_nat_Z k) in *.
  assert (Hk' : (0 < N.to_nat k)%nat) by lia.
  induction fuel as [|fuel IH]; intros i acc Hfuel;
    (destruct (le_lt_dec (length raw) i) as [Hge|Hlt];
     [ unfold range_count, zlen;
       replace (Z.of_nat (length raw) <=? Z.of_nat i)%Z with true by (symmetry; apply Z.leb_le; lia);
       rewrite skipn_all2 by lia; rewrite reverse_to_chunks_aux_nil;
       cbn [range_from fold_left]; now rewrite app_nil_r
     | ]); [lia|].
  rewrite range_count_step by (unfold zlen; lia).
  cbn [range_from fold_left]. rewrite Hf.
  rewrite py_slice_window by lia.
  rewrite <- Nat2Z.inj_add.
  rewrite IH by lia.
  cbn [Reverse.to_chunks_aux].
  destruct (skipn i raw) as [|x rest] eqn:Esk.
  { exfalso. assert (L : length (skipn i raw) = 0%nat) by now rewrite Esk.
    rewrite skipn_length in L. lia. }
  rewrite <- Esk. cbv zeta.
  rewrite take_firstn, drop_skipn, skipn_add.
  unfold zlen, len. rewrite hex_of_Z_of_nat.
  rewrite <- !app_assoc. reflexivity.
Qed.

Theorem gen_to_chunks_eq : forall raw (chunk_size : N),
  Generated.to_chunks raw (Z.of_N chunk_size) = Chunk.to_chunks raw chunk_size.
Proof.
  intros raw k. unfold Generated.to_chunks, Chunk.to_chunks. cbv zeta. norm_bs.
  unfold py_range.
  destruct (N.eqb_spec k 0) as [->|Hk]; [reflexivity|].
  replace (Z.of_N k =? 0)%Z with false by (symmetry; apply Z.eqb_neq; lia).
  replace (0 <? Z.of_N k)%Z with true by (symmetry; apply Z.ltb_lt; lia).
  cbn [bind].
  match goal with
  | |- context [fold_left ?f ?l []] =>
      pose proof (gen_chunk_loop raw k ltac:(lia) f ltac:(intros; reflexivity) (length raw) 0%nat [] ltac:(lia)) as L;
      change (Z.of_nat 0) with 0%Z in L; rewrite L; clear L
  end.
  cbn [skipn app].
  pose proof (Links.Builders.reverse_to_chunks_eq k raw Hk) as E.
  unfold Chunk.to_chunks in E. rewrite <- N.eqb_neq in Hk. rewrite Hk in E.
  unfold Reverse.to_chunks in E. injection E as E.
  change (hex_of_Z 0) with (hex_of_N 0). change [13; 10] with CRLF.
  rewrite <- !app_assoc. cbn [app]. rewrite <- E. reflexivity.
Qed.
Print Assumptions gen_to_chunks_eq.

(* a negative chunk_size is outside the hand model's domain (N); Python's range() is then empty *)
Example gen_to_chunks_ex1 : Generated.to_chunks (bs "hello world") 4 = Chunk.to_chunks (bs "hello world") 4.
Proof. vm_compute. reflexivity. Qed.
Example gen_to_chunks_ex2 : Generated.to_chunks [] 7 = Chunk.to_chunks [] 7 /\ Generated.to_chunks (bs "ab") 0 = Chunk.to_chunks (bs "ab") 0.
Proof. vm_compute. split; reflexivity. Qed.

(* @target Url_parse *)
Lemma int10_err_value x e : int10 x = Err e -> e = ValueError.
Proof.
  unfold int10, py_int. intros H.
  repeat match type of H with
         | context [let '(_, _) := ?p in _] => destruct p
         | context [if ?c then _ else _] => destruct c
         | context [match ?x with _ => _ end] => destruct x
         end; congruence.
Qed.

Lemma split_all_nonempty sep l : split_all sep l <> [].
Proof. unfold split_all. cbn [splitn]. destruct (split_once sep l) as [[a r]|]; discriminate. Qed.

Lemma text_ok h x : text_ h = Ok x -> x = h.
Proof. unfold text_. destruct (utf8_valid h); congruence. Qed.

(* host.decode(); ':' in rhost and rhost[0] != '[' and rhost[-1] != ']'  -- both sides, any host term *)
Ltac url_patch :=
  match goal with
  | |- context [text_ ?H] =>
      let hh := fresh "hh" in let E := fresh "E" in
      remember H as hh eqn:E; clear E;
      let Et := fresh "Et" in let h := fresh "h" in
      destruct (text_ hh) as [h|?] eqn:Et; cbn [bind]; [|reflexivity];
      apply text_ok in Et; subst h;
      replace (text_ [58]) with (@Ok bytes [58]) by reflexivity; cbn [bind];
      unfold str_has_ascii;
      let x := fresh "x" in let t := fresh "t" in
      destruct hh as [|x t]; [reflexivity|];
      destruct (mem_byte 58 (x :: t)); cbn [bind]; [|reflexivity];
      rewrite py_index_0; cbn [bind];
      destruct (x =? 91); cbn [negb bind andb]; [reflexivity|];
      rewrite (py_index_m1 (x :: t) 0) by discriminate; cbn [bind];
      destruct (last (x :: t) 0 =? 93); cbn [negb]; rewrite <- ?app_assoc; reflexivity
  end.

(* everything after the userinfo: parts = hostport.split(b':', 2) and its three shapes *)
Ltac url_tail :=
  match goal with
  | |- context [split_once [58] ?hp] =>
      let a := fresh "a" in let r1 := fresh "r1" in let c := fresh "c" in let r2 := fresh "r2" in
      destruct (split_once [58] hp) as [[a r1]|]; [destruct (split_once [58] r1) as [[c r2]|]|];
      zlen_decide; cbn [bind];
      [ (* three parts: the IPv6 scenario with try / except ValueError *)
        rewrite (py_index_m1 [a; c; r2] []) by discriminate; cbn [last bind];
        rewrite (py_index_m1 (split_all [58] r2) []) by apply split_all_nonempty; cbn [bind];
        rewrite !py_slice_to_m1; cbn [removelast];
        let E := fresh "E" in
        destruct (int10 (last (split_all [58] r2) [])) as [?|?] eqn:E;
        [ cbn [bind try_except]; cbv beta iota; rewrite <- ?app_assoc; url_patch
        | apply int10_err_value in E; subst; cbn [bind try_except exn_is_a]; cbv beta iota; url_patch ]
      | (* two parts: host and port *)
        rewrite (py_index_m1 [a; r1] []) by discriminate; cbn [last bind];
        rewrite py_slice_to_m1; cbn [removelast join];
        destruct (int10 r1); reflexivity
      | (* one part: no port *)
        rewrite py_index_0; reflexivity ]
  end.

Theorem gen_Url_parse_eq : forall raw, Generated.Url_parse raw = Url.parse_authority raw.
Proof.
  intros raw. unfold Generated.Url_parse, Url.parse_authority, Url.patch_ipv6. cbv zeta. norm_bs.
  unfold Url.AT, COLON, Url.LBRACKET, Url.RBRACKET.
  cbn [splitn].
  (* userinfo: raw.split(b'@', 1) and userinfo.split(b':', 1) *)
  destruct (split_once [64] raw) as [[ui rest]|].
  - zlen_decide. rewrite py_index_0. cbn [bind].
    destruct (split_once [58] ui) as [[u p]|]; zlen_decide; rewrite ?py_index_0, ?py_index_1; cbn [bind];
      (rewrite (py_index_m1 [ui; rest] []) by discriminate); cbn [last bind]; url_tail.
  - zlen_decide. cbn [bind]. rewrite (py_index_m1 [raw] []) by discriminate. cbn [last bind]. url_tail.
Qed.
Print Assumptions gen_Url_parse_eq.

Example gen_Url_parse_ex1 : Generated.Url_parse (bs "user:pa:ss@example.org:8080") = Url.parse_authority (bs "user:pa:ss@example.org:8080").
Proof. vm_compute. reflexivity. Qed.
Example gen_Url_parse_ex2 :
  Generated.Url_parse (bs "2001:db8::1:443") = Url.parse_authority (bs "2001:db8::1:443")
  /\ Generated.Url_parse (bs "[::1]:x") = Url.parse_authority (bs "[::1]:x")
  /\ Generated.Url_parse (bs "h:12a") = Url.parse_authority (bs "h:12a").
Proof. vm_compute. repeat split; reflexivity. Qed.

(* @target Url_from_bytes *)
Lemma list_bytes_mem_eq x l : list_bytes_mem x l = Url.mem_bytes x l.
Proof. induction l as [|y t IH]; [reflexivity|]. cbn [list_bytes_mem Url.mem_bytes]. now rewrite IH. Qed.

Lemma py_slice_from_2 {A} (a b : A) l : py_slice_from 2 (a :: b :: l) = l.
Proof.
  unfold py_slice_from. cbn [Z.leb Z.compare length].
  rewrite Z.min_l by lia. reflexivity.
Qed.

(* parts = rest.split(SLASH, 1); Url._parse(parts[0]); cls(...)  -- the same on both sides *)
Ltac fb_tail :=
  cbn [splitn];
  match goal with
  | |- context [split_once [47] ?r] =>
      let a := fresh "a" in let p := fresh "p" in
      destruct (split_once [47] r) as [[a p]|]; zlen_decide; rewrite ?py_index_0; cbn [bind];
      rewrite gen_Url_parse_eq;
      match goal with
      | |- context [Url.parse_authority ?x] => destruct (Url.parse_authority x) as [[[[? ?] ?] ?]|]
      end; cbn [bind]; rewrite ?py_index_1; reflexivity
  end.

(* allowed_url_schemes=None stands for DEFAULT_ALLOWED_URL_SCHEMES (and so does an empty list: `or`) *)
Theorem gen_Url_from_bytes_eq : forall raw allowed_url_schemes,
  Generated.Url_from_bytes raw allowed_url_schemes
  = Url.from_bytes (opt_or allowed_url_schemes Url.DEFAULT_ALLOWED_URL_SCHEMES) raw.
Proof.
  intros raw allowed.
  unfold Generated.Url_from_bytes, Url.from_bytes. cbv zeta. norm_bs.
  unfold Url.SLASH, Url.DEFAULT_ALLOWED_URL_SCHEMES, Url.HTTP_PROTO, Url.HTTPS_PROTO. norm_bs.
  set (al := opt_or allowed _).
  destruct raw as [|c0 t]; [rewrite py_index_nil; reflexivity|].
  rewrite py_index_0. cbn [bind].
  change 47%Z with (Z.of_N 47). rewrite !of_N_eqb.
  destruct (c0 =? 47) eqn:E0; cbn [andb negb bind].
  - (* starts with a slash *)
    destruct t as [|c1 t']; zlen_decide; cbn [bind andb negb]; [reflexivity|].
    rewrite py_index_1. cbn [bind]. rewrite of_N_eqb.
    destruct (c1 =? 47) eqn:E1; cbn [andb negb bind orb is_none]; [|reflexivity].
    (* network-path reference //host/path *)
    cbn [app]. change (zlen [47; 47]) with 2%Z. rewrite py_slice_from_2. cbn [skipn].
    fb_tail.
  - (* no leading slash: look for a scheme *)
    cbn [splitn].
    destruct (split_once [58; 47; 47] (c0 :: t)) as [[s r]|]; zlen_decide; cbn [bind].
    + rewrite py_index_0, py_index_1. cbn [bind]. rewrite list_bytes_mem_eq.
      destruct (Url.mem_bytes s al); cbn [negb bind is_none orb]; [|reflexivity].
      fb_tail.
    + cbn [is_none negb orb]. rewrite gen_Url_parse_eq.
      destruct (Url.parse_authority (c0 :: t)) as [[[[? ?] ?] ?]|]; reflexivity.
Qed.
Print Assumptions gen_Url_from_bytes_eq.

Example gen_Url_from_bytes_ex1 :
  Generated.Url_from_bytes (bs "http://u:p@example.org:8080/a/b?c") None
  = Url.from_bytes Url.DEFAULT_ALLOWED_URL_SCHEMES (bs "http://u:p@example.org:8080/a/b?c").
Proof. vm_compute. reflexivity. Qed.
Example gen_Url_from_bytes_ex2 :
  Generated.Url_from_bytes (bs "//host/x") None = Url.from_bytes Url.DEFAULT_ALLOWED_URL_SCHEMES (bs "//host/x")
  /\ Generated.Url_from_bytes (bs "ftp://h/") None = Url.from_bytes Url.DEFAULT_ALLOWED_URL_SCHEMES (bs "ftp://h/")
  /\ Generated.Url_from_bytes (bs "example.org:443") (Some [bs "icap"]) = Url.from_bytes [bs "icap"] (bs "example.org:443")
  /\ Generated.Url_from_bytes [] None = Url.from_bytes Url.DEFAULT_ALLOWED_URL_SCHEMES [].
Proof. vm_compute. repeat split; reflexivity. Qed.

(* @target TcpConnection_has_buffer *)
(* The Python object keeps a counter `_num_buffer` beside the list `buffer`; the hand model Net/Conn.v keeps
   the list only and tests it.  Abstraction relation (an invariant of the Python class, established by
   __init__ and preserved by queue -- proved below -- and by flush/reset, which are not translated):
   the generated record's buffer is the model's buffer and the counter is its length. *)
Definition conn_rel (g : Generated.TcpConnection) (c : Conn.conn) : Prop :=
  Generated.TcpConnection_buffer g = Conn.buffer c /\
  Generated.TcpConnection_num_buffer g = zlen (Conn.buffer c).

Theorem gen_TcpConnection_has_buffer_eq : forall g c, conn_rel g c ->
  Generated.TcpConnection_has_buffer g = Conn.has_buffer c.
Proof.
  intros g c [Hb Hn]. unfold Generated.TcpConnection_has_buffer, Conn.has_buffer. rewrite Hn.
  destruct (Conn.buffer c) as [|x t]; [reflexivity|].
  rewrite zlen_cons. pose proof (zlen_nonneg t).
  replace (Z.succ (zlen t) =? 0)%Z with false by (symmetry; apply Z.eqb_neq; lia). reflexivity.
Qed.
Print Assumptions gen_TcpConnection_has_buffer_eq.

Example gen_conn_rel_init : conn_rel (Generated.mk_TcpConnection [] 0) Conn.new_conn.
Proof. split; reflexivity. Qed.
Example gen_has_buffer_ex1 :
  Generated.TcpConnection_has_buffer (Generated.mk_TcpConnection [] 0) = Conn.has_buffer Conn.new_conn.
Proof. vm_compute. reflexivity. Qed.
Example gen_has_buffer_ex2 :
  Generated.TcpConnection_has_buffer (Generated.mk_TcpConnection [bs "a"; bs "bc"] 2)
  = Conn.has_buffer (Conn.mkConn [bs "a"; bs "bc"] false []).
Proof. vm_compute. reflexivity. Qed.

(* @target TcpConnection_queue *)
Theorem gen_TcpConnection_queue_eq : forall g c mv, conn_rel g c ->
  conn_rel (Generated.TcpConnection_queue g mv) (Conn.queue mv c).
Proof.
  intros g c mv [Hb Hn]. unfold Generated.TcpConnection_queue, Conn.queue. cbv zeta.
  unfold Generated.set_TcpConnection_buffer, Generated.set_TcpConnection_num_buffer.
  split; cbn [Generated.TcpConnection_buffer Generated.TcpConnection_num_buffer Conn.buffer].
  - now rewrite Hb.
  - rewrite Hn, zlen_app, zlen_cons, zlen_nil. reflexivity.
Qed.
Print Assumptions gen_TcpConnection_queue_eq.

Example gen_queue_ex1 :
  Generated.TcpConnection_queue (Generated.mk_TcpConnection [] 0) (bs "x") = Generated.mk_TcpConnection [bs "x"] 1
  /\ Conn.buffer (Conn.queue (bs "x") Conn.new_conn) = [bs "x"].
Proof. vm_compute. split; reflexivity. Qed.
Example gen_queue_ex2 :
  Generated.TcpConnection_buffer (Generated.TcpConnection_queue (Generated.mk_TcpConnection [bs "a"] 1) [])
  = Conn.buffer (Conn.queue [] (Conn.mkConn [bs "a"] false [])).
Proof. vm_compute. reflexivity. Qed.

(* @target HttpProtocolHandler_connection_inactive_for *)
(* time.time() is the input `now`; the clock and self.last_activity are integers in clock units, as in
   Net/Handler.v (Python: floats).  Of HttpProtocolHandler only .work and .last_activity are read. *)
Definition handler_rel (g : Generated.HttpProtocolHandler) (s : Handler.hstate) : Prop :=
  conn_rel (Generated.HttpProtocolHandler_work g) (Handler.work s) /\
  Generated.HttpProtocolHandler_last_activity g = Handler.last_activity s.

Theorem gen_HttpProtocolHandler_connection_inactive_for_eq : forall now g s, handler_rel g s ->
  Generated.HttpProtocolHandler_connection_inactive_for now g = (now - Handler.last_activity s)%Z.
Proof. intros now g s [_ Hl]. unfold Generated.HttpProtocolHandler_connection_inactive_for. now rewrite Hl. Qed.
Print Assumptions gen_HttpProtocolHandler_connection_inactive_for_eq.

(* @target HttpProtocolHandler_is_inactive *)
Theorem gen_HttpProtocolHandler_is_inactive_eq : forall c now g s, handler_rel g s ->
  Generated.HttpProtocolHandler_is_inactive now (Handler.timeout c) g = Handler.is_inactive c s now.
Proof.
  intros c now g s H. pose proof H as [Hw Hl].
  unfold Generated.HttpProtocolHandler_is_inactive, Handler.is_inactive.
  rewrite (gen_TcpConnection_has_buffer_eq _ _ Hw), (gen_HttpProtocolHandler_connection_inactive_for_eq now _ _ H).
  rewrite Z.gtb_ltb.
  destruct (negb (Conn.has_buffer (Handler.work s)) && (Handler.timeout c <? now - Handler.last_activity s)%Z); reflexivity.
Qed.
Print Assumptions gen_HttpProtocolHandler_is_inactive_eq.

Example gen_is_inactive_ex1 :
  Generated.HttpProtocolHandler_is_inactive 111 10 (Generated.mk_HttpProtocolHandler (Generated.mk_TcpConnection [] 0) 100)
  = Handler.is_inactive (Handler.mkCfg 65536 [] 10 true) (Handler.init 100) 111.
Proof. vm_compute. reflexivity. Qed.
Example gen_is_inactive_ex2 :
  Generated.HttpProtocolHandler_is_inactive 110 10 (Generated.mk_HttpProtocolHandler (Generated.mk_TcpConnection [] 0) 100)
  = Handler.is_inactive (Handler.mkCfg 65536 [] 10 true) (Handler.init 100) 110
  /\ Generated.HttpProtocolHandler_connection_inactive_for 110 (Generated.mk_HttpProtocolHandler (Generated.mk_TcpConnection [] 0) 100) = 10%Z.
Proof. vm_compute. split; reflexivity. Qed.

(* @target find_http_line *)
(* utils.find_http_line has no definition of its own in the hand models: Http/Chunk.v and Http/Parser.v
   inline it as `split_once CRLF`.  The link states exactly that reading. *)
Theorem gen_find_http_line_eq : forall raw,
  Generated.find_http_line raw
  = Ok (match split_once CRLF raw with Some (line, rest) => (Some line, rest) | None => (None, raw) end).
Proof.
  intros raw. unfold Generated.find_http_line. cbv zeta. cbn [splitn]. change [13; 10] with CRLF.
  destruct (split_once CRLF raw) as [[line rest]|]; zlen_decide; rewrite ?py_index_0, ?py_index_1; reflexivity.
Qed.
Print Assumptions gen_find_http_line_eq.

Example gen_find_http_line_ex1 : Generated.find_http_line (bs "ab" ++ CRLF ++ bs "cd") = Ok (Some (bs "ab"), bs "cd").
Proof. vm_compute. reflexivity. Qed.
Example gen_find_http_line_ex2 : Generated.find_http_line (bs "abc") = Ok (None, bs "abc").
Proof. vm_compute. reflexivity. Qed.

(* @target ChunkParser_process *)
(* state passing: the generated record carries the four attributes of ChunkParser, self.state as the int
   of chunkParserStates; the hand model Http/Chunk.v uses an enumeration.  conc maps a model state to the
   object state (every object state whose .state is one of the four constants is in its image). *)
Definition conc (c : Chunk.chunkp) : Generated.ChunkParser :=
  Generated.mk_ChunkParser (Z.of_N (Chunk.cstate_code (Chunk.cst c))) (Chunk.cbody c) (Chunk.cchunk c) (Chunk.csize c).

Lemma zlen_gtb_0 {A} (l : list A) : (zlen l >? 0)%Z = negb (Nat.eqb (length l) 0).
Proof.
  destruct l as [|x t]; [reflexivity|]. rewrite zlen_cons. pose proof (zlen_nonneg t).
  rewrite Z.gtb_ltb. replace (0 <? Z.succ (zlen t))%Z with true by (symmetry; apply Z.ltb_lt; lia). reflexivity.
Qed.

Theorem gen_ChunkParser_process_eq : forall c raw,
  Generated.ChunkParser_process (conc c) raw
  = match Chunk.chunk_process c raw with
    | Ok (more, raw', c') => Ok (conc c', (more, raw'))
    | Err e => Err e
    end.
Proof.
  intros [st body chunk size] raw.
  unfold Generated.ChunkParser_process, Chunk.chunk_process, conc. cbv zeta. norm_bs.
  unfold Generated.set_ChunkParser_chunk, Generated.set_ChunkParser_state, Generated.set_ChunkParser_size,
    Generated.set_ChunkParser_body.
  cbn [Generated.ChunkParser_state Generated.ChunkParser_body Generated.ChunkParser_chunk Generated.ChunkParser_size
       Chunk.cst Chunk.cbody Chunk.cchunk Chunk.csize].
  destruct st; cbn [Chunk.cstate_code Z.of_N Z.eqb Pos.eqb bind].
  - (* WAITING_FOR_SIZE *)
    rewrite gen_find_http_line_eq. cbn [bind].
    destruct (split_once CRLF (chunk ++ raw)) as [[line rest]|]; cbv beta iota; cbn [bind]; [|reflexivity].
    destruct (strip line) as [|x0 l0]; cbn [bytes_eqb bind]; cbv beta iota.
    + rewrite zlen_gtb_0. reflexivity.
    + cbn [splitn]. unfold Chunk.before_semi, Chunk.SEMI.
      destruct (split_once [59] line) as [[a b]|]; rewrite py_index_0; cbn [bind];
        (match goal with |- context [int16 ?x] => destruct (int16 x) as [sz|e] end); cbn [bind]; try reflexivity;
        rewrite zlen_gtb_0, Z.gtb_ltb; destruct (0 <? sz)%Z; reflexivity.
  - (* WAITING_FOR_DATA *)
    destruct size as [sz|]; [|reflexivity].
    unfold zlen.
    match goal with |- context [(?a =? sz)%Z] => destruct (a =? sz)%Z end; cbn [bind]; cbv beta iota;
      (match goal with |- context [(Z.of_nat (length ?l) >? 0)%Z] => change (Z.of_nat (length l)) with (zlen l) end);
      rewrite zlen_gtb_0; reflexivity.
  - (* COMPLETE *)
    rewrite zlen_gtb_0. reflexivity.
  - (* WAITING_FOR_TRAILER *)
    rewrite gen_find_http_line_eq. cbn [bind].
    destruct (split_once CRLF (chunk ++ raw)) as [[line rest]|]; cbv beta iota; cbn [bind]; [|reflexivity].
    destruct line as [|x0 l0]; cbn [bytes_eqb]; rewrite zlen_gtb_0; reflexivity.
Qed.
Print Assumptions gen_ChunkParser_process_eq.

Example gen_ChunkParser_process_ex1 :
  Generated.ChunkParser_process (conc Chunk.new_chunkp) (bs "5;ext=1" ++ CRLF ++ bs "hello" ++ CRLF)
  = match Chunk.chunk_process Chunk.new_chunkp (bs "5;ext=1" ++ CRLF ++ bs "hello" ++ CRLF) with
    | Ok (more, raw', c') => Ok (conc c', (more, raw')) | Err e => Err e end.
Proof. vm_compute. reflexivity. Qed.
Example gen_ChunkParser_process_ex2 :
  let c := {| Chunk.cst := Chunk.WAITING_FOR_DATA; Chunk.cbody := bs "ab"; Chunk.cchunk := bs "he"; Chunk.csize := Some 5%Z |} in
  Generated.ChunkParser_process (conc c) (bs "llo" ++ CRLF ++ bs "0")
  = match Chunk.chunk_process c (bs "llo" ++ CRLF ++ bs "0") with
    | Ok (more, raw', c') => Ok (conc c', (more, raw')) | Err e => Err e end
  /\ Generated.ChunkParser_process (conc Chunk.new_chunkp) (bs "zz" ++ CRLF) = Err ValueError.
Proof. vm_compute. split; reflexivity. Qed.

(* @target apply_mask *)
Lemma lxor_of_N a b : Z.lxor (Z.of_N a) (Z.of_N b) = Z.of_N (N.lxor a b).
Proof. destruct a, b; reflexivity. Qed.

(* the xor of two bytes is a byte: finite sweep over 256 x 256, the bound is in the statement *)
Lemma lxor_byte_sweep :
  forallb (fun a => forallb (fun b => N.lxor a b <? 256) (map N.of_nat (seq 0 256))) (map N.of_nat (seq 0 256)) = true.
Proof. vm_compute. reflexivity. Qed.
Lemma byte_in_sweep a : a < 256 -> In a (map N.of_nat (seq 0 256)).
Proof.
  intros H. rewrite <- (N2Nat.id a). apply in_map. apply in_seq. lia.
Qed.
Lemma lxor_byte a b : a < 256 -> b < 256 -> N.lxor a b < 256.
Proof.
  intros Ha Hb. pose proof lxor_byte_sweep as S.
  rewrite forallb_forall in S. specialize (S a (byte_in_sweep a Ha)).
  rewrite forallb_forall in S. specialize (S b (byte_in_sweep b Hb)).
  now apply N.ltb_lt in S.
Qed.

Lemma py_index_nonneg {A} (l : list A) i : (0 <= i)%Z ->
  py_index l i = match nth_error l (Z.to_nat i) with Some x => Ok x | None => Err IndexError end.
Proof.
  intros H. unfold py_index. replace (i <? 0)%Z with false by (symmetry; apply Z.ltb_ge; lia).
  replace (i <? 0)%Z with false by (symmetry; apply Z.ltb_ge; lia). reflexivity.
Qed.

Lemma nth_error_mid {A} (pre : list A) x t : nth_error (pre ++ x :: t) (length pre) = Some x.
Proof. induction pre as [|y p IH]; [reflexivity|exact IH]. Qed.

Lemma setitem_mid (pre : bytes) x t v : v < 256 ->
  py_setitem_byte (pre ++ x :: t) (Z.of_nat (length pre)) (Z.of_N v) = Ok ((pre ++ [v]) ++ t).
Proof.
  intros Hv. unfold py_setitem_byte. cbv zeta.
  replace (Z.of_nat (length pre) <? 0)%Z with false by (symmetry; apply Z.ltb_ge; lia).
  replace (Z.of_nat (length pre) <? 0)%Z with false by (symmetry; apply Z.ltb_ge; lia).
  unfold zlen. rewrite app_length. cbn [length orb].
  replace (Z.of_nat (length pre + S (length t)) <=? Z.of_nat (length pre))%Z with false by (symmetry; apply Z.leb_gt; lia).
  replace (Z.of_N v <? 0)%Z with false by (symmetry; apply Z.ltb_ge; lia).
  replace (255 <? Z.of_N v)%Z with false by (symmetry; apply Z.ltb_ge; lia).
  cbn [orb]. rewrite Nat2Z.id, N2Z.id.
  rewrite firstn_app, firstn_all, Nat.sub_diag. cbn [firstn]. rewrite app_nil_r.
  replace (S (length pre)) with (length pre + 1)%nat by lia.
  rewrite skipn_app, skipn_all2 by lia.
  replace (length pre + 1 - length pre)%nat with 1%nat by lia. cbn [skipn app].
  rewrite <- app_assoc. reflexivity.
Qed.

Lemma wf_nth (m : bytes) n k : wf_bytes m = true -> nth_error m n = Some k -> k < 256.
Proof.
  intros Hm Hn. unfold wf_bytes in Hm. rewrite forallb_forall in Hm.
  apply nth_error_In in Hn. apply Hm in Hn. now apply N.ltb_lt in Hn.
Qed.

Lemma gen_mask_loop (m : bytes) : wf_bytes m = true ->
  forall (f : bytes -> Z -> result bytes),
  (forall raw i, f raw i =
     (do a <- py_index raw i; do k <- py_index m (i mod 4)%Z;
      do r <- py_setitem_byte raw i (Z.lxor (Z.of_N a) (Z.of_N k)); Ok r)) ->
  forall suf pre, wf_bytes suf = true ->
  for_r f (range_from (Z.of_nat (length pre)) 1 (length suf)) (pre ++ suf)
  = match Frame.apply_mask_from (N.of_nat (length pre)) suf m with
    | Ok r => Ok (pre ++ r)
    | Err e => Err e
    end.
Proof.
  intros Hm f Hf. induction suf as [|x t IH]; intros pre Hs.
  - reflexivity.
  - cbn [length range_from for_r Frame.apply_mask_from]. rewrite Hf.
    apply andb_prop in Hs as [Hx Ht]. apply N.ltb_lt in Hx.
    rewrite py_index_nonneg by lia. rewrite Nat2Z.id, nth_error_mid. cbn [bind].
    change 4%Z with (Z.of_nat 4). rewrite <- Nat2Z.inj_mod.
    rewrite py_index_nonneg by lia. rewrite Nat2Z.id.
    change 4 with (N.of_nat 4). rewrite <- Nat2N.inj_mod, Nat2N.id.
    destruct (nth_error m (length pre mod 4)) as [k|] eqn:Ek; cbn [bind]; [|reflexivity].
    pose proof (wf_nth m _ k Hm Ek) as Hk.
    rewrite lxor_of_N, setitem_mid by (apply lxor_byte; assumption). cbn [bind].
    specialize (IH (pre ++ [N.lxor x k]) Ht).
    rewrite app_length in IH. cbn [length] in IH.
    replace (Z.of_nat (length pre) + 1)%Z with (Z.of_nat (length pre + 1)) by lia.
    rewrite IH.
    replace (N.of_nat (length pre) + 1) with (N.of_nat (length pre + 1)) by lia.
    destruct (Frame.apply_mask_from (N.of_nat (length pre + 1)) t m); cbn [bind]; [|reflexivity].
    rewrite <- app_assoc. reflexivity.
Qed.

(* precondition visible: both arguments are byte strings (every element < 256); the hand model Ws/Frame.v
   xors unbounded naturals, the Python bytearray rejects a value outside range(256) *)
Theorem gen_apply_mask_eq : forall data mask, wf_bytes data = true -> wf_bytes mask = true ->
  Generated.apply_mask data mask = Frame.apply_mask data mask.
Proof.
  intros data mask Hd Hm. unfold Generated.apply_mask, Frame.apply_mask. cbv zeta.
  unfold py_range. cbn [Z.eqb Z.ltb Z.compare bind].
  replace (range_count 0 (zlen data) 1) with (length data); cycle 1.
  { unfold range_count, zlen. destruct data as [|x t]; [reflexivity|].
    replace (Z.of_nat (length (x :: t)) <=? 0)%Z with false by (symmetry; apply Z.leb_gt; cbn [length]; lia).
    rewrite Z.div_1_r. lia. }
  match goal with
  | |- context [for_r ?f _ data] =>
      assert (L : for_r f (range_from 0 1 (length data)) data
                  = match Frame.apply_mask_from 0 data mask with Ok r => Ok r | Err e => Err e end)
        by exact (gen_mask_loop mask Hm f ltac:(intros; reflexivity) data [] Hd)
  end.
  rewrite L.
  destruct (Frame.apply_mask_from 0 data mask); reflexivity.
Qed.
Print Assumptions gen_apply_mask_eq.

Example gen_apply_mask_ex1 : Generated.apply_mask (bs "hello world") [1; 2; 3; 255] = Frame.apply_mask (bs "hello world") [1; 2; 3; 255].
Proof. vm_compute. reflexivity. Qed.
Example gen_apply_mask_ex2 :
  Generated.apply_mask (bs "abcde") [7; 7] = Frame.apply_mask (bs "abcde") [7; 7] /\ Generated.apply_mask [] [] = Frame.apply_mask [] [].
Proof. vm_compute. split; reflexivity. Qed.
