(* GENERATED - do not edit.
   Output of harness/py2v.py (targets: harness/py2v_targets.py) for the repository it was run against.
   Each definition below is the translation of ONE Python function; the comment above it names the source
   file, the function and the sha1 of the function's source text.  The link theorems of GenLinks.v prove
   each definition equal to the hand-written model the property theorems are about.
   Refresh the committed copy with:  python3 harness/py2v.py --write *)
From PM Require Import Lib.Bytes Lib.PyStr.
From Coq Require Import ZArith.
From PMG Require Import GenSupport.

From PM Require Net.Auth Http.Url.

(* the attributes of class TcpConnection that the translated methods read or write (attribute environment) *)
Record TcpConnection := mk_TcpConnection {
  TcpConnection_buffer : (list bytes);
  TcpConnection_num_buffer : Z }.
Definition set_TcpConnection_buffer (o : TcpConnection) (x : (list bytes)) : TcpConnection := mk_TcpConnection x (TcpConnection_num_buffer o).
Definition set_TcpConnection_num_buffer (o : TcpConnection) (x : Z) : TcpConnection := mk_TcpConnection (TcpConnection_buffer o) x.

(* the attributes of class ChunkParser that the translated methods read or write (attribute environment) *)
Record ChunkParser := mk_ChunkParser {
  ChunkParser_state : Z;
  ChunkParser_body : bytes;
  ChunkParser_chunk : bytes;
  ChunkParser_size : (option Z) }.
Definition set_ChunkParser_state (o : ChunkParser) (x : Z) : ChunkParser := mk_ChunkParser x (ChunkParser_body o) (ChunkParser_chunk o) (ChunkParser_size o).
Definition set_ChunkParser_body (o : ChunkParser) (x : bytes) : ChunkParser := mk_ChunkParser (ChunkParser_state o) x (ChunkParser_chunk o) (ChunkParser_size o).
Definition set_ChunkParser_chunk (o : ChunkParser) (x : bytes) : ChunkParser := mk_ChunkParser (ChunkParser_state o) (ChunkParser_body o) x (ChunkParser_size o).
Definition set_ChunkParser_size (o : ChunkParser) (x : (option Z)) : ChunkParser := mk_ChunkParser (ChunkParser_state o) (ChunkParser_body o) (ChunkParser_chunk o) x.

(* the attributes of class HttpProtocolHandler that the translated methods read or write (attribute environment) *)
Record HttpProtocolHandler := mk_HttpProtocolHandler {
  HttpProtocolHandler_work : TcpConnection;
  HttpProtocolHandler_last_activity : Z }.
Definition set_HttpProtocolHandler_work (o : HttpProtocolHandler) (x : TcpConnection) : HttpProtocolHandler := mk_HttpProtocolHandler x (HttpProtocolHandler_last_activity o).
Definition set_HttpProtocolHandler_last_activity (o : HttpProtocolHandler) (x : Z) : HttpProtocolHandler := mk_HttpProtocolHandler (HttpProtocolHandler_work o) x.

(* source: proxy/common/utils.py  function: build_http_header  lines 173-175  sha1: 137d12f427cd0ba063853890789414a3aecb9c44 *)
Definition build_http_header (v_k : bytes) (v_v : bytes)
  : bytes :=
  (((v_k ++ (bs ":")) ++ (bs " ")) ++ v_v).

(* source: proxy/common/utils.py  function: _header_key  lines 106-113  sha1: 60b6c180f438b1338d0478e5b93f7e9d9e631c16 *)
Definition header_key (v_headers : (dict bytes)) (v_name : bytes)
  : bytes :=
  let v_lname := lower (v_name) in
  match for_ctl (fun _ v_k =>
      if bytes_eqb (lower (v_k)) (v_lname) then
        Ret (v_k)
      else
        Cont (tt))
    (dict_keys (v_headers)) (tt) with
  | Ret r_1 => r_1
  | Cont st_2 | Brk st_2 =>
    v_name
  end.

(* source: proxy/common/utils.py  function: build_http_pkt  lines 178-194  sha1: d4e64338bf11a3661d141d23c9584461da8c326e *)
Definition build_http_pkt (v_line : (list bytes)) (v_headers : (option (dict bytes))) (v_body : (option bytes)) (v_conn_close : bool)
  : bytes :=
  let v_pkt := (join ((bs " ")) (v_line) ++ [13; 10]) in
  let v_headers := opt_or_empty (v_headers) in
  let v_headers := (if v_conn_close then
    let v_headers := dict_set ((header_key (v_headers) ((bs "Connection")))) ((bs "close")) (v_headers) in
    v_headers
  else
    v_headers) in
  let v_pkt := (fold_left (fun v_pkt '(v_k, v_v) =>
      let v_pkt := (v_pkt ++ ((build_http_header (v_k) (v_v)) ++ [13; 10])) in
      v_pkt)
    (v_headers) (v_pkt)) in
  let v_pkt := (v_pkt ++ [13; 10]) in
  let v_pkt := (if truthy_ob (v_body) then
    let v_pkt := (v_pkt ++ or_empty (v_body)) in
    v_pkt
  else
    v_pkt) in
  v_pkt.

(* source: proxy/common/utils.py  function: build_http_response  lines 148-170  sha1: 6048cdb7519a9fb2c3f69ec73a41edfdc13d594e *)
Definition build_http_response (v_status_code : Z) (v_protocol_version : bytes) (v_reason : (option bytes)) (v_headers : (option (dict bytes))) (v_body : (option bytes)) (v_conn_close : bool) (v_no_cl : bool)
  : bytes :=
  let v_line := [v_protocol_version; dec_of_Z (v_status_code)] in
  let v_line := (if truthy_ob (v_reason) then
    let v_line := (v_line ++ [or_empty (v_reason)]) in
    v_line
  else
    v_line) in
  let v_headers := opt_or_empty (v_headers) in
  let v_has_transfer_encoding := false in
  let v_has_transfer_encoding := (for_brk (fun v_has_transfer_encoding '(v_k, _) =>
      if bytes_eqb (lower (v_k)) ((bs "transfer-encoding")) then
        let v_has_transfer_encoding := true in
        (v_has_transfer_encoding, true)
      else
        (v_has_transfer_encoding, false))
    (v_headers) (v_has_transfer_encoding)) in
  let v_headers := (if (negb (v_has_transfer_encoding)) && (negb (v_no_cl)) then
    let v_headers := dict_set ((header_key (v_headers) ((bs "Content-Length")))) ((if truthy_ob (v_body) then dec_of_Z (zlen (or_empty (v_body))) else (bs "0"))) (v_headers) in
    v_headers
  else
    v_headers) in
  (build_http_pkt (v_line) (Some (v_headers)) (v_body) (v_conn_close)).

(* source: proxy/common/utils.py  function: build_http_request  lines 116-145  sha1: 78d198d0abd68431e4387d27e9a1d50e050af00a *)
Definition build_http_request (ua : bytes) (v_method : bytes) (v_url : bytes) (v_protocol_version : bytes) (v_content_type : (option bytes)) (v_headers : (option (dict bytes))) (v_body : (option bytes)) (v_conn_close : bool) (v_no_ua : bool)
  : bytes :=
  let v_headers := opt_or_empty (v_headers) in
  let v_headers := (match v_content_type with
  | None =>
    v_headers
  | Some v_content_type_1 =>
    let v_headers := dict_set ((header_key (v_headers) ((bs "Content-Type")))) (v_content_type_1) (v_headers) in
    v_headers
  end) in
  let v_has_transfer_encoding := false in
  let v_has_user_agent := false in
  let '(v_has_transfer_encoding, v_has_user_agent) := (fold_left (fun '(v_has_transfer_encoding, v_has_user_agent) '(v_k, _) =>
      let '(v_has_transfer_encoding, v_has_user_agent) := (if bytes_eqb (lower (v_k)) ((bs "transfer-encoding")) then
        let v_has_transfer_encoding := true in
        (v_has_transfer_encoding, v_has_user_agent)
      else
        let v_has_user_agent := (if bytes_eqb (lower (v_k)) ((bs "user-agent")) then
          let v_has_user_agent := true in
          v_has_user_agent
        else
          v_has_user_agent) in
        (v_has_transfer_encoding, v_has_user_agent)) in
      (v_has_transfer_encoding, v_has_user_agent))
    (v_headers) ((v_has_transfer_encoding, v_has_user_agent))) in
  let v_headers := (if (truthy_ob (v_body)) && (negb (v_has_transfer_encoding)) then
    let v_headers := dict_set ((header_key (v_headers) ((bs "Content-Length")))) (dec_of_Z (zlen (or_empty (v_body)))) (v_headers) in
    v_headers
  else
    v_headers) in
  let v_headers := (if (negb (v_has_user_agent)) && (negb (v_no_ua)) then
    let v_headers := dict_set ((bs "User-Agent")) (ua) (v_headers) in
    v_headers
  else
    v_headers) in
  (build_http_pkt ([v_method; v_url; v_protocol_version]) (Some (v_headers)) (v_body) (v_conn_close)).

(* source: proxy/http/proxy/auth.py  function: AuthPlugin.before_upstream_connection  lines 27-39  sha1: e035daca7ab7cd28c9ef100f52c1bd46735e5401 *)
Definition AuthPlugin_before_upstream_connection (auth_code : (option bytes)) (v_request : Auth.request)
  : result Auth.request :=
  do v_request <- (if truthy_ob (auth_code) then
    let v_request := Auth.set_headers (v_request) (list_or_empty (Auth.rq_headers (v_request))) in
    if negb (dict_has ((bs "proxy-authorization")) (Auth.rq_headers (v_request))) then
      Err (HttpProtocolException 407)
    else
      do t_6 <- dict_index ((bs "proxy-authorization")) (Auth.rq_headers (v_request));
      let v_parts := split_ws (snd (t_6)) in
      do c_8 <- (if (negb ((zlen (v_parts) =? 2%Z)%Z)) then Ok true else
        (do t_7 <- py_index (v_parts) (0%Z);
        Ok (negb (bytes_eqb (lower (t_7)) ((bs "basic"))))));
      do c_10 <- (if c_8 then Ok true else
        (do t_9 <- py_index (v_parts) (1%Z);
        Ok (negb (bytes_eqb (t_9) (or_empty (auth_code))))));
      if c_10 then
        Err (HttpProtocolException 407)
      else
        Ok (v_request)
  else
    Ok (v_request));
  Ok (v_request).

(* source: proxy/http/parser/chunk.py  function: ChunkParser.to_chunks  lines 89-97  sha1: 0282b0c74f3b03794ee96846c19e164df885d7b8 *)
Definition to_chunks (v_raw : bytes) (v_chunk_size : Z)
  : result bytes :=
  let v_chunks : (list bytes) := [] in
  do rng_1 <- py_range (0%Z) (zlen (v_raw)) (v_chunk_size);
  let v_chunks := (fold_left (fun v_chunks v_i =>
      let v_chunk := py_slice (v_i) ((v_i + v_chunk_size)%Z) (v_raw) in
      let v_chunks := (v_chunks ++ [hex_of_Z (zlen (v_chunk))]) in
      let v_chunks := (v_chunks ++ [v_chunk]) in
      v_chunks)
    (rng_1) (v_chunks)) in
  let v_chunks := (v_chunks ++ [hex_of_Z (0%Z)]) in
  let v_chunks := (v_chunks ++ [[]]) in
  Ok ((join ([13; 10]) (v_chunks) ++ [13; 10])).

(* source: proxy/http/url.py  function: Url._parse  lines 123-162  sha1: 2b17e689bd7c32c4acb10958514489630c537662 *)
Definition Url_parse (v_raw : bytes)
  : result ((option bytes) * (option bytes) * bytes * (option Z))%type :=
  let v_split_at := splitn ((bs "@")) 1%nat (v_raw) in
  let '(v_username, v_password) := (None, None) in
  do '(v_username, v_password) <- (if (zlen (v_split_at) =? 2%Z)%Z then
    do t_6 <- py_index (v_split_at) (0%Z);
    let v_userinfo := splitn ((bs ":")) 1%nat (t_6) in
    do t_7 <- py_index (v_userinfo) (0%Z);
    let v_username := t_7 in
    do t_10 <- (if (zlen (v_userinfo) =? 2%Z)%Z then
      (do t_9 <- py_index (v_userinfo) (1%Z);
      Ok (Some (t_9)))
    else
      Ok (None));
    let v_password := t_10 in
    Ok ((Some (v_username), v_password))
  else
    Ok ((v_username, v_password)));
  do t_11 <- py_index (v_split_at) ((-1)%Z);
  let v_parts := splitn ((bs ":")) 2%nat (t_11) in
  let v_num_parts := zlen (v_parts) in
  let v_port : (option Z) := None in
  if (v_num_parts =? 1%Z)%Z then
    do t_12 <- py_index (v_parts) (0%Z);
    Ok ((v_username, v_password, t_12, None))
  else
    if (v_num_parts =? 2%Z)%Z then
      do t_13 <- py_index (v_parts) ((-1)%Z);
      do t_14 <- int10 (t_13);
      Ok ((v_username, v_password, join ((bs ":")) (py_slice_to ((-1)%Z) (v_parts)), Some (t_14)))
    else
      do '(v_port, v_host) <- (try_except
        (do t_19 <- py_index (v_parts) ((-1)%Z);
        let v_last_token := split_all ((bs ":")) (t_19) in
        do t_20 <- py_index (v_last_token) ((-1)%Z);
        do t_21 <- int10 (t_20);
        let v_port := t_21 in
        let v_host := ((join ((bs ":")) (py_slice_to ((-1)%Z) (v_parts)) ++ (bs ":")) ++ join ((bs ":")) (py_slice_to ((-1)%Z) (v_last_token))) in
        Ok ((Some (v_port), v_host)))
        CValueError
        (do t_22 <- py_index (v_split_at) ((-1)%Z);
        let '(v_host, v_port) := (t_22, None) in
        Ok ((v_port, v_host))));
      do t_23 <- text_ (v_host);
      let v_rhost := t_23 in
      do t_24 <- text_ ((bs ":"));
      do c_26 <- (if (str_has_ascii 58 (v_rhost)) then
        (do t_25 <- py_index (v_rhost) (0%Z);
        Ok (negb ((t_25 =? 91)%N)))
      else Ok false);
      do c_28 <- (if c_26 then
        (do t_27 <- py_index (v_rhost) ((-1)%Z);
        Ok (negb ((t_27 =? 93)%N)))
      else Ok false);
      let v_host := (if c_28 then
        let v_host := (((bs "[") ++ v_host) ++ (bs "]")) in
        v_host
      else
        v_host) in
      Ok ((v_username, v_password, v_host, v_port)).

(* source: proxy/http/url.py  function: Url.from_bytes  lines 63-120  sha1: 74a2f5f27ff9af6092bb96c182b82f73468e6060 *)
Definition Url_from_bytes (v_raw : bytes) (v_allowed_url_schemes : (option (list bytes)))
  : result Url.url :=
  do t_1 <- py_index (v_raw) (0%Z);
  let v_starts_with_single_slash := (Z.of_N t_1 =? 47%Z)%Z in
  do c_3 <- (if (v_starts_with_single_slash) && ((zlen (v_raw) >=? 2%Z)%Z) then
    (do t_2 <- py_index (v_raw) (1%Z);
    Ok ((Z.of_N t_2 =? 47%Z)%Z))
  else Ok false);
  let v_starts_with_double_slash := (c_3) in
  if (v_starts_with_single_slash) && (negb (v_starts_with_double_slash)) then
    Ok ((Url.Build_url None None None None None (Some (v_raw))))
  else
    let v_scheme := None in
    let v_rest := None in
    do '(v_scheme, v_rest) <- (if negb (v_starts_with_double_slash) then
      let v_parts := splitn ((bs "://")) 1%nat (v_raw) in
      do '(v_scheme, v_rest) <- (if (zlen (v_parts) =? 2%Z)%Z then
        do t_11 <- py_index (v_parts) (0%Z);
        let v_scheme := t_11 in
        do t_12 <- py_index (v_parts) (1%Z);
        let v_rest := t_12 in
        if negb (list_bytes_mem (v_scheme) (opt_or (v_allowed_url_schemes) ([(bs "http"); (bs "https")]))) then
          Err (HttpProtocolException 1)
        else
          Ok ((Some (v_scheme), Some (v_rest)))
      else
        Ok ((v_scheme, v_rest)));
      Ok ((v_scheme, v_rest))
    else
      let v_rest := py_slice_from (zlen (((bs "/") ++ (bs "/")))) (v_raw) in
      Ok ((v_scheme, Some (v_rest))));
    if (negb (is_none (v_scheme))) || (v_starts_with_double_slash) then
      match v_rest with
      | None => Err AssertionError
      | Some v_rest_13 =>
        let v_parts := splitn ((bs "/")) 1%nat (v_rest_13) in
        do t_14 <- py_index (v_parts) (0%Z);
        do t_15 <- Url_parse (t_14);
        let '(v_username, v_password, v_host, v_port) := t_15 in
        do t_17 <- (if (zlen (v_parts) =? 1%Z)%Z then
          Ok (None)
        else
          (do t_16 <- py_index (v_parts) (1%Z);
          Ok (Some (((bs "/") ++ t_16)))));
        Ok ((Url.Build_url ((if negb (v_starts_with_double_slash) then v_scheme else Some ((bs "http")))) (v_username) (v_password) (Some (v_host)) (v_port) (t_17)))
      end
    else
      do t_18 <- Url_parse (v_raw);
      let '(v_username, v_password, v_host, v_port) := t_18 in
      Ok ((Url.Build_url None (v_username) (v_password) (Some (v_host)) (v_port) None)).

(* source: proxy/core/connection/connection.py  function: TcpConnection.has_buffer  lines 74-75  sha1: 72c009c9a42306238661766f68347a2878f991f7 *)
Definition TcpConnection_has_buffer (v_self : TcpConnection)
  : bool :=
  negb ((TcpConnection_num_buffer (v_self) =? 0%Z)%Z).

(* source: proxy/core/connection/connection.py  function: TcpConnection.queue  lines 77-79  sha1: 040c8cc0f1e0731d8e02d27d9707bcbb5a83cf0c *)
Definition TcpConnection_queue (v_self : TcpConnection) (v_mv : bytes)
  : TcpConnection :=
  let v_self := set_TcpConnection_buffer (v_self) ((TcpConnection_buffer (v_self) ++ [v_mv])) in
  let v_self := set_TcpConnection_num_buffer (v_self) ((TcpConnection_num_buffer (v_self) + 1%Z)%Z) in
  v_self.

(* source: proxy/http/handler.py  function: HttpProtocolHandler._connection_inactive_for  lines 332-333  sha1: 8f15cba30f4a24bdaf126e5fa75d4a79d47ad12a *)
Definition HttpProtocolHandler_connection_inactive_for (now : Z) (v_self : HttpProtocolHandler)
  : Z :=
  (now - HttpProtocolHandler_last_activity (v_self))%Z.

(* source: proxy/http/handler.py  function: HttpProtocolHandler.is_inactive  lines 72-76  sha1: 6f15f5340f3975bea8db002215819e2d6daaf8b8 *)
Definition HttpProtocolHandler_is_inactive (now : Z) (timeout : Z) (v_self : HttpProtocolHandler)
  : bool :=
  if (negb ((TcpConnection_has_buffer (HttpProtocolHandler_work (v_self))))) && (((HttpProtocolHandler_connection_inactive_for now (v_self)) >? timeout)%Z) then
    true
  else
    false.

(* source: proxy/common/utils.py  function: find_http_line  lines 238-245  sha1: f580a77b42aeced5926d54f20fec6240fa42c557 *)
Definition find_http_line (v_raw : bytes)
  : result ((option bytes) * bytes)%type :=
  let v_parts := splitn ([13; 10]) 1%nat (v_raw) in
  do t_3 <- (if (zlen (v_parts) =? 1%Z)%Z then
    Ok ((None, v_raw))
  else
    (do t_1 <- py_index (v_parts) (0%Z);
    do t_2 <- py_index (v_parts) (1%Z);
    Ok ((Some (t_1), t_2))));
  Ok (t_3).

(* source: proxy/http/parser/chunk.py  function: ChunkParser.process  lines 44-86  sha1: 020fd71fe43914ce64283cf82870afd7bffe8ed3 *)
Definition ChunkParser_process (v_self : ChunkParser) (v_raw : bytes)
  : result (ChunkParser * (bool * bytes)%type)%type :=
  do '(v_raw, v_self) <- (if (ChunkParser_state (v_self) =? 1%Z)%Z then
    let v_raw := (ChunkParser_chunk (v_self) ++ v_raw) in
    let v_self := set_ChunkParser_chunk (v_self) ([]) in
    do t_21 <- find_http_line (v_raw);
    let '(v_line, v_raw) := t_21 in
    do '(v_self, v_raw) <- (match v_line with
    | None =>
      let v_self := set_ChunkParser_chunk (v_self) (v_raw) in
      let v_raw : bytes := [] in
      Ok ((v_self, v_raw))
    | Some v_line_22 =>
      do v_self <- (if bytes_eqb (strip (v_line_22)) ([]) then
        Ok (v_self)
      else
        do t_29 <- py_index (splitn ((bs ";")) 1%nat (v_line_22)) (0%Z);
        do t_30 <- int16 (t_29);
        let v_self := set_ChunkParser_size (v_self) (Some (t_30)) in
        let v_self := set_ChunkParser_state (v_self) ((if (t_30 >? 0%Z)%Z then 2%Z else 4%Z)) in
        Ok (v_self));
      Ok ((v_self, v_raw))
    end);
    Ok ((v_raw, v_self))
  else
    do '(v_self, v_raw) <- (if (ChunkParser_state (v_self) =? 2%Z)%Z then
      match ChunkParser_size (v_self) with
      | None => Err AssertionError
      | Some v_self_size_36 =>
        let v_remaining := (v_self_size_36 - zlen (ChunkParser_chunk (v_self)))%Z in
        let v_self := set_ChunkParser_chunk (v_self) ((ChunkParser_chunk (v_self) ++ py_slice_to (v_remaining) (v_raw))) in
        let v_raw := py_slice_from (v_remaining) (v_raw) in
        let v_self := (if (zlen (ChunkParser_chunk (v_self)) =? v_self_size_36)%Z then
          let v_self := set_ChunkParser_body (v_self) ((ChunkParser_body (v_self) ++ ChunkParser_chunk (v_self))) in
          let v_self := set_ChunkParser_state (v_self) (1%Z) in
          let v_self := set_ChunkParser_chunk (v_self) ([]) in
          let v_self := set_ChunkParser_size (v_self) (None) in
          v_self
        else
          v_self) in
        Ok ((v_self, v_raw))
      end
    else
      do '(v_raw, v_self) <- (if (ChunkParser_state (v_self) =? 4%Z)%Z then
        let v_raw := (ChunkParser_chunk (v_self) ++ v_raw) in
        let v_self := set_ChunkParser_chunk (v_self) ([]) in
        do t_39 <- find_http_line (v_raw);
        let '(v_line, v_raw) := t_39 in
        let '(v_self, v_raw) := (match v_line with
        | None =>
          let v_self := set_ChunkParser_chunk (v_self) (v_raw) in
          let v_raw : bytes := [] in
          (v_self, v_raw)
        | Some v_line_40 =>
          let v_self := (if bytes_eqb (v_line_40) ([]) then
            let v_self := set_ChunkParser_state (v_self) (3%Z) in
            let v_self := set_ChunkParser_size (v_self) (None) in
            v_self
          else
            v_self) in
          (v_self, v_raw)
        end) in
        Ok ((v_raw, v_self))
      else
        Ok ((v_raw, v_self)));
      Ok ((v_self, v_raw)));
    Ok ((v_raw, v_self)));
  Ok ((v_self, ((zlen (v_raw) >? 0%Z)%Z, v_raw))).

(* source: proxy/http/websocket/frame.py  function: WebsocketFrame.apply_mask  lines 176-180  sha1: 9bd939fc4ac0a62ae6a2d8f44cf4d0615e9729e8 *)
Definition apply_mask (v_data : bytes) (v_mask : bytes)
  : result bytes :=
  let v_raw := v_data in
  do rng_1 <- py_range (0%Z) (zlen (v_raw)) (1%Z);
  do v_raw <- (for_r (fun v_raw v_i =>
      do t_5 <- py_index (v_raw) (v_i);
      do t_6 <- py_index (v_mask) ((v_i mod 4%Z)%Z);
      do t_7 <- py_setitem_byte (v_raw) (v_i) (Z.lxor (Z.of_N t_5) (Z.of_N t_6));
      let v_raw := t_7 in
      Ok (v_raw))
    (rng_1) (v_raw));
  Ok (v_raw).
