(* coq/gen/GenSupport.v -- support library of the Python->Gallina translator harness/py2v.py.

   HAND-WRITTEN, small, definitions only (plus three one-line unfolding lemmas).  It contains ONLY the
   translation scheme itself: how a Python construct that has no counterpart in Lib/ is rendered.  Every
   Python *builtin* is rendered by the EXISTING function of the Python-semantics layer PM.Lib (split_once,
   splitn, split_all, split_ws, join, lower, strip, int10, int16, text_, dict_get/dict_set, py_slice_to, py_slice_from).

   Scheme (see notes/Gen.md):
     partiality      result / bind of Lib/Bytes.v  (Ok / Err exn)
     x[i]            py_index (IndexError), negative indices from the end
     x[a:b]          py_slice
     range(a,b,s)    py_range (ValueError for s = 0) -> the list of indices
     for             fold_left, or for_ctl when the body contains break / return
     try/except E    try_except with exn_is_a (subclass relation of the builtin exceptions used)
     truthiness      truthy_* per static type
     str             a str obtained by .decode('utf-8') / text_() is represented by its (validated) UTF-8
                     bytes; only operations that commute with that representation are translated
                     (see py2v.py: comparisons of s[0] / s[-1] with an ASCII character, ASCII `in`). *)
From PM Require Import Lib.Bytes Lib.PyStr.
From Coq Require Import ZArith.

(* ---- truthiness, per static type ---- *)
Definition truthy_ob (b : option bytes) : bool := match b with Some (_ :: _) => true | _ => false end.
Definition truthy_b (b : bytes) : bool := match b with [] => false | _ :: _ => true end.
Definition truthy_l {A} (l : list A) : bool := match l with [] => false | _ :: _ => true end.
Definition truthy_ol {A} (l : option (list A)) : bool := match l with Some (_ :: _) => true | _ => false end.
Definition truthy_z (z : Z) : bool := negb (z =? 0)%Z.
Definition truthy_oz (z : option Z) : bool := match z with Some v => negb (v =? 0)%Z | None => false end.

(* value of an Optional[...] variable inside a branch guarded by its truthiness *)
Definition or_empty {A} (b : option (list A)) : list A := match b with Some x => x | None => [] end.
Definition or_zero (z : option Z) : Z := match z with Some v => v | None => 0%Z end.

(* `x or {}` / `x or []` / `x or b''`  for x : Optional[dict/list/bytes] and for x : dict/list/bytes *)
Definition opt_or_empty {A} (x : option (list A)) : list A := if truthy_ol x then or_empty x else [].
Definition list_or_empty {A} (x : list A) : list A := if truthy_l x then x else [].
(* `x or y` for x : Optional[list-like], y : list-like *)
Definition opt_or {A} (x : option (list A)) (y : list A) : list A := if truthy_ol x then or_empty x else y.
(* `x or y` for x : Optional[int] (hand models often use 0 for None) *)
Definition oz_or (x : option Z) (y : Z) : Z := if truthy_oz x then or_zero x else y.
Definition z_or (x y : Z) : Z := if truthy_z x then x else y.

Definition is_none {A} (x : option A) : bool := match x with None => true | Some _ => false end.

(* ---- == on the static types used ---- *)
Definition opt_eqb {A} (eqb : A -> A -> bool) (x y : option A) : bool :=
  match x, y with None, None => true | Some a, Some c => eqb a c | _, _ => false end.
Fixpoint list_bytes_mem (x : bytes) (l : list bytes) : bool :=
  match l with [] => false | y :: t => bytes_eqb x y || list_bytes_mem x t end.

(* ---- indexing and slicing ---- *)
Definition zlen {A} (l : list A) : Z := Z.of_nat (length l).

(* l[i] : IndexError when out of range; negative i counts from the end *)
Definition py_index {A} (l : list A) (i : Z) : result A :=
  let j := if (i <? 0)%Z then (zlen l + i)%Z else i in
  if (j <? 0)%Z then Err IndexError else
  match nth_error l (Z.to_nat j) with Some x => Ok x | None => Err IndexError end.

(* d[k] : KeyError when absent *)
Definition dict_index {V} (k : bytes) (d : dict V) : result V :=
  match dict_get k d with Some v => Ok v | None => Err KeyError end.

(* l[a:b] *)
Definition norm_bound {A} (l : list A) (i : Z) : Z :=
  let n := zlen l in
  let j := if (i <? 0)%Z then (n + i)%Z else i in
  Z.max 0 (Z.min j n).
Definition py_slice {A} (a b : Z) (l : list A) : list A :=
  let a' := norm_bound l a in
  let b' := norm_bound l b in
  firstn (Z.to_nat (b' - a')) (skipn (Z.to_nat a') l).

(* ba[i] = v on a bytearray: IndexError when i is out of range (checked first), ValueError unless v in range(256) *)
Definition py_setitem_byte (l : bytes) (i v : Z) : result bytes :=
  let j := if (i <? 0)%Z then (zlen l + i)%Z else i in
  if (j <? 0)%Z || (zlen l <=? j)%Z then Err IndexError
  else if (v <? 0)%Z || (255 <? v)%Z then Err ValueError
  else Ok (firstn (Z.to_nat j) l ++ Z.to_N v :: skipn (S (Z.to_nat j)) l).

(* '{:x}'.format(n) for an int *)
Definition hex_of_Z (z : Z) : bytes :=
  match z with Zneg p => 45 :: hex_of_N (Npos p) | _ => hex_of_N (Z.to_N z) end.

(* ---- range ---- *)
(* number of elements of range(a, b, s), s > 0 : ceil((b-a)/s) clamped at 0 *)
Definition range_count (a b s : Z) : nat :=
  if (b <=? a)%Z then O else Z.to_nat ((b - a + s - 1) / s).
Fixpoint range_from (a s : Z) (n : nat) : list Z :=
  match n with O => [] | S m => a :: range_from (a + s)%Z s m end.
Definition py_range (a b s : Z) : result (list Z) :=
  if (s =? 0)%Z then Err ValueError
  else if (0 <? s)%Z then Ok (range_from a s (range_count a b s))
  else Ok (range_from a s (range_count (- a) (- b) (- s))).

(* ---- for loops whose body contains break / return ---- *)
Inductive ctl (S R : Type) := Cont (s : S) | Brk (s : S) | Ret (r : R).
Arguments Cont {S R} s.
Arguments Brk {S R} s.
Arguments Ret {S R} r.
Fixpoint for_ctl {A S R} (body : S -> A -> ctl S R) (l : list A) (s : S) : ctl S R :=
  match l with
  | [] => Cont s
  | x :: t => match body s x with Cont s' => for_ctl body t s' | Brk s' => Brk s' | Ret r => Ret r end
  end.
(* the same with a partial body: the first Err aborts the loop *)
Fixpoint for_ctl_r {A S R} (body : S -> A -> result (ctl S R)) (l : list A) (s : S) : result (ctl S R) :=
  match l with
  | [] => Ok (Cont s)
  | x :: t => match body s x with
              | Ok (Cont s') => for_ctl_r body t s'
              | Ok (Brk s') => Ok (Brk s')
              | Ok (Ret r) => Ok (Ret r)
              | Err e => Err e
              end
  end.
(* body with break but no return: the body yields (state, broke?) *)
Fixpoint for_brk {A S} (body : S -> A -> S * bool) (l : list A) (s : S) : S :=
  match l with
  | [] => s
  | x :: t => let '(s', b) := body s x in if b then s' else for_brk body t s'
  end.
Fixpoint for_brk_r {A S} (body : S -> A -> result (S * bool)) (l : list A) (s : S) : result S :=
  match l with
  | [] => Ok s
  | x :: t => match body s x with
              | Ok (s', b) => if b then Ok s' else for_brk_r body t s'
              | Err e => Err e
              end
  end.
(* plain loop (no break / return) with a partial body *)
Fixpoint for_r {A S} (body : S -> A -> result S) (l : list A) (s : S) : result S :=
  match l with
  | [] => Ok s
  | x :: t => match body s x with Ok s' => for_r body t s' | Err e => Err e end
  end.

(* ---- try / except ---- *)
(* the subclass relation among the builtin exceptions of Lib/Bytes.v: UnicodeDecodeError is a ValueError *)
Inductive exn_class := CValueError | CIndexError | CKeyError | CAssertionError | CUnicodeDecodeError | CTypeError | CException.
Definition exn_is_a (c : exn_class) (e : exn) : bool :=
  match c, e with
  | CValueError, ValueError | CValueError, UnicodeDecodeError => true
  | CIndexError, IndexError => true
  | CKeyError, KeyError => true
  | CAssertionError, AssertionError => true
  | CUnicodeDecodeError, UnicodeDecodeError => true
  | CTypeError, TypeError => true
  | CException, OutOfFuel => false
  | CException, _ => true
  | _, _ => false
  end.
Definition try_except {A} (body : result A) (c : exn_class) (handler : result A) : result A :=
  match body with
  | Ok a => Ok a
  | Err e => if exn_is_a c e then handler else Err e
  end.

(* ---- str represented by its UTF-8 bytes ---- *)
(* `c in s` for a one-character ASCII string c (c < 128): bytes below 128 occur in valid UTF-8 only as themselves *)
Definition str_has_ascii (c : N) (s : bytes) : bool := mem_byte c s.
