(* Model of the steps between the parsed request-target and the socket layer (C14):
     HttpParser.set_url + _set_line_attributes            (parser.py)         -> derive
     HttpProxyPlugin.connect_upstream                      (http/proxy/server.py)
     TcpServerConnection.__init__/connect                  (core/connection/server.py)
     new_socket_connection                                 (common/utils.py)
   The socket layer itself (ipaddress.ip_address, socket.socket().connect, socket.create_connection,
   DNS, the kernel) is outside: [ip_literal_version] is an oracle (Section variable) and the result of
   the model is the CALL handed to the socket layer.  Definitions only. *)
From PM Require Import Lib.Bytes Lib.PyStr Http.Url.
From Coq Require Import ZArith.

(* request-target -> (HttpParser.host, .port, .path); is_connect = (method == CONNECT) *)
Definition derive (is_connect : bool) (raw : bytes) : result (option bytes * option Z * option bytes) :=
  do u <- from_bytes DEFAULT_ALLOWED_URL_SCHEMES raw;
  Ok (line_attributes is_connect u).

Definition AF_INET : N := 2.
Definition AF_INET6 : N := 10.

(* what reaches the socket layer *)
Inductive sockcall :=
| SockConnect (family : N) (host : bytes) (port : Z)      (* socket.socket(family, SOCK_STREAM).connect((host, port[, 0, 0])) *)
| CreateConnection (host : bytes) (port : Z).             (* socket.create_connection((host, port)): resolver + dual stack *)

Definition call_addr (c : sockcall) : bytes * Z :=
  match c with SockConnect _ h p => (h, p) | CreateConnection h p => (h, p) end.

(* addr[0].startswith('[') and addr[0].endswith(']')  ->  addr[0][1:-1] *)
Definition strip_brackets (h : bytes) : bytes :=
  if startswith h [LBRACKET] && endswith h [RBRACKET] then removelast (tl h) else h.

Section Connect.
  (* ipaddress.ip_address(s).version; None = ValueError ("does not appear to be an IPv4 or IPv6 address") *)
  Variable ip_literal_version : bytes -> option N.

  (* proxy.common.utils.new_socket_connection(addr) *)
  Definition new_socket_connection (addr : bytes * Z) : sockcall :=
    let h := strip_brackets (fst addr) in
    match ip_literal_version h with
    | Some v => if v =? 4 then SockConnect AF_INET h (snd addr) else SockConnect AF_INET6 h (snd addr)
    | None => CreateConnection h (snd addr)
    end.

  (* TcpServerConnection(host, port).connect(addr=None): addr or self.addr *)
  Definition tcp_server_connect (self_addr : bytes * Z) (addr : option (bytes * Z)) : sockcall :=
    new_socket_connection (match addr with Some a => a | None => self_addr end).

  (* HttpProxyPlugin.connect_upstream with no plugin overriding resolve_dns (upstream_ip = source_addr = None),
     connection pool off.  `if host and port` is Python truthiness: None, b'' and 0 are false.
     `if not 0 < port <= 65535: raise HttpProtocolException('Invalid port')` (fix: C14-port-range; the resolver
     behind socket.create_connection reduces larger numbers modulo 65536).
     text_(host) raises UnicodeDecodeError inside the try AND again inside the except handler, so it escapes. *)
  Definition connect_upstream (host : option bytes) (port : option Z) : result sockcall :=
    match host, port with
    | Some h, Some p =>
        if negb (Nat.eqb (length h) 0) && negb (p =? 0)%Z then
          if (0 <? p)%Z && (p <=? 65535)%Z then
            do t <- text_ h;
            Ok (tcp_server_connect (t, p) None)
          else Err (HttpProtocolException 4)        (* 'Invalid port' *)
        else Err (HttpProtocolException 3)          (* 'Both host and port must exist' *)
    | _, _ => Err (HttpProtocolException 3)
    end.

  (* request-target -> socket call *)
  Definition route (is_connect : bool) (raw : bytes) : result sockcall :=
    do '(h, p, _) <- derive is_connect raw;
    connect_upstream h p.
End Connect.
