(* Round-trip proofs for property C15. *)
From PM Require Import Lib.Bytes Lib.BytesFacts Lib.PyStr Lib.PyStrFacts Lib.PyStrFacts2 Http.Url Http.Chunk Http.ChunkFacts
  Http.Parser Http.Builders Http.BuildersFacts Http.Grammar.
From Coq Require Import ZArith.
From Coq Require Import Lia.

(* ------------------------------------------------------------------------------------- *)
(* character classes                                                                      *)
Lemma is_hex_range x : is_hex x = true -> (48 <= x <= 57) \/ (97 <= x <= 102) \/ (65 <= x <= 70).
Proof.
  unfold is_hex, is_digit. intros H.
  apply orb_true_iff in H as [H|H]; [apply orb_true_iff in H as [H|H]|];
    apply andb_true_iff in H as [H1 H2]; apply N.leb_le in H1, H2; lia.
Qed.

Lemma is_hex_not_ws x : is_hex x = true -> is_ws x = false.
Proof.
  intros H. apply is_hex_range in H. unfold is_ws.
  destruct (N.eqb_spec x 32); [lia|]. destruct (N.leb_spec 9 x); destruct (N.leb_spec x 13); try reflexivity; lia.
Qed.

Lemma is_ows_ws x : is_ows x = true -> is_ws x = true.
Proof.
  unfold is_ows, is_ws. intros H. apply orb_true_iff in H as [H|H]; apply N.eqb_eq in H; subst; reflexivity.
Qed.

Lemma digit_val_hex x : is_hex x = true -> digit_val 16 x = Some (hex_digit_val x).
Proof.
  intros H. apply is_hex_range in H. unfold digit_val, hex_digit_val, is_digit.
  destruct H as [H|[H|H]].
  - replace ((48 <=? x) && (x <=? 57)) with true
      by (symmetry; apply andb_true_iff; split; apply N.leb_le; lia).
    destruct (N.ltb_spec (x - 48) 16); [reflexivity|lia].
  - replace ((48 <=? x) && (x <=? 57)) with false
      by (symmetry; apply andb_false_iff; right; apply N.leb_gt; lia).
    replace ((97 <=? x) && (x <=? 122)) with true
      by (symmetry; apply andb_true_iff; split; apply N.leb_le; lia).
    replace (97 <=? x) with true by (symmetry; apply N.leb_le; lia).
    destruct (N.ltb_spec (x - 87) 16); [reflexivity|lia].
  - replace ((48 <=? x) && (x <=? 57)) with false
      by (symmetry; apply andb_false_iff; right; apply N.leb_gt; lia).
    replace ((97 <=? x) && (x <=? 122)) with false
      by (symmetry; apply andb_false_iff; left; apply N.leb_gt; lia).
    replace ((65 <=? x) && (x <=? 90)) with true
      by (symmetry; apply andb_true_iff; split; apply N.leb_le; lia).
    replace (97 <=? x) with false by (symmetry; apply N.leb_gt; lia).
    destruct (N.ltb_spec (x - 55) 16); [reflexivity|lia].
Qed.

Definition hex_step (a x : N) : N := a * 16 + hex_digit_val x.
Lemma hexval_fold l : hexval l = fold_left hex_step l 0.
Proof. reflexivity. Qed.

Lemma parse_digits_hex l : forall acc b, forallb is_hex l = true -> (l <> [] \/ b = true) ->
  parse_digits 16 l acc b = Some (fold_left hex_step l acc).
Proof.
  induction l as [|x t IH]; intros acc b Hd Hne.
  - destruct Hne as [Hne| ->]; [congruence|reflexivity].
  - cbn [forallb] in Hd. apply andb_true_iff in Hd as [Hx Ht].
    cbn [parse_digits fold_left].
    pose proof (is_hex_range _ Hx) as Hr.
    destruct (N.eqb_spec x 95) as [E|_]; [lia|].
    rewrite (digit_val_hex _ Hx). apply IH; [exact Ht|now right].
Qed.

(* int(b'1f  ', 16): hex digits in any case with leading zeros, optional trailing blanks *)
Lemma int16_hex sz pad : sz <> [] -> forallb is_hex sz = true -> forallb is_ows pad = true ->
  int16 (sz ++ pad) = Ok (Z.of_N (hexval sz)).
Proof.
  intros Hne Hh Hp. unfold int16, py_int.
  assert (Hws : forall x, In x sz -> is_ws x = false).
  { intros x Hx. apply is_hex_not_ws. rewrite forallb_forall in Hh. now apply Hh. }
  assert (Hpw : forallb is_ws pad = true).
  { apply forallb_forall. intros x Hx. apply is_ows_ws. rewrite forallb_forall in Hp. now apply Hp. }
  rewrite (strip_app_ws _ _ Hws Hpw).
  destruct sz as [|x t]; [congruence|].
  assert (Hx : is_hex x = true) by (cbn [forallb] in Hh; now apply andb_true_iff in Hh as [? _]).
  pose proof (is_hex_range _ Hx) as Hr.
  destruct (N.eqb_spec x 45) as [E|_]; [lia|]. destruct (N.eqb_spec x 43) as [E|_]; [lia|].
  change (16 =? 16) with true. cbv iota. cbn [negb]. rewrite andb_false_r.
  destruct t as [|y t'].
  - rewrite (parse_digits_hex [x] 0 false Hh) by (left; discriminate). reflexivity.
  - assert (Hy : is_hex y = true).
    { cbn [forallb] in Hh. apply andb_true_iff in Hh as [_ Hh]. now apply andb_true_iff in Hh as [? _]. }
    apply is_hex_range in Hy.
    destruct (N.eqb_spec y 120) as [E|_]; [lia|]. destruct (N.eqb_spec y 88) as [E|_]; [lia|].
    rewrite andb_false_r.
    rewrite (parse_digits_hex (x :: y :: t') 0 false Hh) by (left; discriminate). reflexivity.
Qed.

(* ------------------------------------------------------------------------------------- *)
(* the RFC 7230 chunked grammar of Grammar.v, seen as a stream of Http/ChunkFacts.v        *)

Lemma crlf_free_no_lf l : ~ In LF l -> crlf_free l.
Proof.
  intros H. unfold crlf_free. pose proof (split_once_crlf_no_lf l [] H) as E.
  change (CRLF ++ []) with CRLF in E. exact E.
Qed.

Lemma forallb_In {A} (f : A -> bool) l x : forallb f l = true -> In x l -> f x = true.
Proof. intros H Hi. rewrite forallb_forall in H. now apply H. Qed.

Lemma ext_ok_no_lf e : ext_ok e = true -> ~ In LF e.
Proof.
  unfold ext_ok. intros H Hi. apply orb_true_iff in H as [H|H].
  - pose proof (forallb_In _ _ _ H Hi) as C. discriminate C.
  - apply andb_true_iff in H as [_ H]. pose proof (forallb_In _ _ _ H Hi) as C. discriminate C.
Qed.

Lemma hex_no_lf sz : forallb is_hex sz = true -> ~ In LF sz.
Proof. intros H Hi. pose proof (forallb_In _ _ _ H Hi) as C. discriminate C. Qed.

Lemma before_semi_size sz e : forallb is_hex sz = true -> ext_ok e = true ->
  exists pad, before_semi (sz ++ e) = sz ++ pad /\ forallb is_ows pad = true.
Proof.
  intros Hh He. unfold before_semi.
  assert (Hs : ~ In SEMI sz) by (intros Hi; pose proof (forallb_In _ _ _ Hh Hi) as C; discriminate C).
  unfold ext_ok in He. apply orb_true_iff in He as [He|He].
  - exists e. split; [|exact He].
    rewrite split_once_byte_none; [reflexivity|].
    intros Hi. apply in_app_or in Hi as [Hi|Hi]; [now apply Hs|].
    pose proof (forallb_In _ _ _ He Hi) as C. discriminate C.
  - exists []. split; [|reflexivity]. apply andb_true_iff in He as [He _].
    destruct e as [|x e']; [discriminate|]. apply N.eqb_eq in He. subst x.
    rewrite (split_once_byte_notin SEMI sz e' Hs). now rewrite app_nil_r.
Qed.

Lemma size_line_int16 sz e : sz <> [] -> forallb is_hex sz = true -> ext_ok e = true ->
  int16 (before_semi (sz ++ e)) = Ok (Z.of_N (hexval sz)).
Proof.
  intros Hne Hh He. destruct (before_semi_size sz e Hh He) as (pad & -> & Hp).
  now apply int16_hex.
Qed.

Lemma size_line_strip sz e : sz <> [] -> forallb is_hex sz = true -> strip (sz ++ e) <> [].
Proof.
  intros Hne Hh. destruct sz as [|x t]; [congruence|].
  apply (strip_nonempty_of_nws x); [now left|]. apply is_hex_not_ws.
  cbn [forallb] in Hh. now apply andb_true_iff in Hh as [? _].
Qed.

Lemma size_line_crlf_free sz e : forallb is_hex sz = true -> ext_ok e = true -> crlf_free (sz ++ e).
Proof.
  intros Hh He. apply crlf_free_no_lf. intros Hi. apply in_app_or in Hi as [Hi|Hi].
  - now apply (hex_no_lf sz).
  - now apply (ext_ok_no_lf e).
Qed.

Lemma nonempty_ne l : nonempty l = true -> l <> [].
Proof. destruct l; [discriminate|discriminate]. Qed.

Definition item_of (c : chunk) : chunk_item :=
  {| ci_line := ck_size c ++ ck_ext c; ci_data := ck_data c |}.

Lemma wf_chunk_item c : wf_chunk c = true -> item_ok (item_of c).
Proof.
  unfold wf_chunk. intros H.
  apply andb_true_iff in H as [H Hlen]. apply andb_true_iff in H as [H Hd].
  apply andb_true_iff in H as [H He]. apply andb_true_iff in H as [Hn Hh].
  apply nonempty_ne in Hn, Hd. apply N.eqb_eq in Hlen.
  unfold item_ok, item_of. cbn [ci_line ci_data]. repeat split.
  - now apply size_line_crlf_free.
  - now apply size_line_strip.
  - exact Hd.
  - rewrite size_line_int16 by assumption. rewrite Hlen. unfold len. now rewrite nat_N_Z.
Qed.

Lemma hexval_zeros l : forallb (fun x => x =? 48) l = true -> forallb is_hex l = true /\ hexval l = 0.
Proof.
  unfold hexval. induction l as [|x t IH]; intros H; [split; reflexivity|].
  cbn [forallb] in H. apply andb_true_iff in H as [Hx Ht]. apply N.eqb_eq in Hx. subst x.
  destruct (IH Ht) as [I1 I2]. split.
  - cbn [forallb]. now rewrite I1.
  - cbn [fold_left]. exact I2.
Qed.

Lemma is_tchar_not_lf x : is_tchar x = true -> x <> LF.
Proof. intros H E. subst. discriminate H. Qed.
Lemma is_field_byte_not_lf x : is_field_byte x = true -> x <> LF.
Proof. intros H E. subst. discriminate H. Qed.

Lemma parse_field_line_inv line name v :
  parse_field_line line = Some (name, v) ->
  exists v0, line = name ++ COLON :: v0 /\ is_token name = true /\ forallb is_field_byte v0 = true /\
             v = trim_ows v0.
Proof.
  unfold parse_field_line. destruct (split_once [COLON] line) as [[n v0]|] eqn:E; [|discriminate].
  destruct (is_token n && forallb is_field_byte v0) eqn:C; [|discriminate].
  intros H. inversion H; subst. apply andb_true_iff in C as [C1 C2].
  exists v0. repeat split; try assumption. apply split_once_sound in E. exact E.
Qed.

Lemma wf_field_line_trailer t : wf_field_line t = true -> trailer_ok t.
Proof.
  unfold wf_field_line. destruct (parse_field_line t) as [[n v]|] eqn:E; [|discriminate]. intros _.
  destruct (parse_field_line_inv _ _ _ E) as (v0 & -> & Ht & Hv & _).
  unfold is_token in Ht. apply andb_true_iff in Ht as [_ Ht].
  split.
  - apply crlf_free_no_lf. intros Hi. apply in_app_or in Hi as [Hi|[Hi|Hi]].
    + now apply (is_tchar_not_lf LF (forallb_In _ _ _ Ht Hi)).
    + discriminate Hi.
    + now apply (is_field_byte_not_lf LF (forallb_In _ _ _ Hv Hi)).
  - intros C. apply app_eq_nil in C. destruct C as [_ C]. discriminate C.
Qed.

Definition stream_of (s : chunked) : chunk_stream :=
  {| cs_items := map item_of (ch_chunks s);
     cs_last := ch_last_size s ++ ch_last_ext s;
     cs_trailers := ch_trailers s |}.

Lemma render_stream_of s : render_stream (stream_of s) = render_chunked s.
Proof.
  unfold render_stream, render_chunked, stream_of, render_items, render_trailers.
  cbn [cs_items cs_last cs_trailers]. rewrite map_map.
  rewrite (map_ext (fun x => render_item (item_of x)) render_chunk).
  - now rewrite <- !app_assoc.
  - intros c. unfold render_item, item_of, render_chunk. cbn [ci_line ci_data]. now rewrite <- !app_assoc.
Qed.

Lemma stream_body_of s : stream_body (stream_of s) = ref_dechunk s.
Proof. unfold stream_body, stream_of, ref_dechunk. cbn [cs_items]. now rewrite map_map. Qed.

Lemma wf_chunked_stream_ok s : wf_chunked s = true -> stream_ok (stream_of s).
Proof.
  unfold wf_chunked. intros H.
  apply andb_true_iff in H as [H Ht]. apply andb_true_iff in H as [H He].
  apply andb_true_iff in H as [H Hz]. apply andb_true_iff in H as [Hc Hn].
  apply nonempty_ne in Hn. destruct (hexval_zeros _ Hz) as [Hh Hv].
  unfold stream_ok, stream_of. cbn [cs_items cs_last cs_trailers]. repeat split.
  - apply Forall_forall. intros it Hi. apply in_map_iff in Hi as (c & <- & Hc').
    apply wf_chunk_item. exact (forallb_In _ _ _ Hc Hc').
  - now apply size_line_crlf_free.
  - now apply size_line_strip.
  - rewrite size_line_int16 by assumption. now rewrite Hv.
  - apply Forall_forall. intros t Hi. apply wf_field_line_trailer. exact (forallb_In _ _ _ Ht Hi).
Qed.

(* C15_dechunk_agrees_ref, on the abstract syntax: the model decoder returns the reference body and
   hands back whatever follows the stream, for every valid chunked stream *)
Theorem dechunk_agrees_ref s t : wf_chunked s = true ->
  chunk_parse new_chunkp (render_chunked s ++ t) = Ok (t, complete_state (ref_dechunk s)).
Proof.
  intros H. rewrite <- render_stream_of, <- stream_body_of.
  apply chunk_complete_at_end. now apply wf_chunked_stream_ok.
Qed.

(* ------------------------------------------------------------------------------------- *)
(* the executable recogniser is sound for the grammar                                     *)

Lemma span_hex_spec l a r : span_hex l = (a, r) -> l = a ++ r /\ forallb is_hex a = true.
Proof.
  revert a r; induction l as [|x t IH]; intros a r; cbn [span_hex].
  - intros H. inversion H. split; reflexivity.
  - destruct (is_hex x) eqn:E.
    + destruct (span_hex t) as [a' r']. intros H. inversion H; subst.
      destruct (IH a' r eq_refl) as [-> Ha]. split; [reflexivity|]. cbn [forallb]. now rewrite E.
    + intros H. inversion H. split; reflexivity.
Qed.

Lemma parse_size_line_inv line n sz ext : parse_size_line line = Some (n, sz, ext) ->
  line = sz ++ ext /\ nonempty sz = true /\ forallb is_hex sz = true /\ ext_ok ext = true /\ n = hexval sz.
Proof.
  unfold parse_size_line. destruct (span_hex line) as [a r] eqn:E.
  destruct (nonempty a && ext_ok r) eqn:C; [|discriminate].
  intros H. inversion H; subst. apply andb_true_iff in C as [C1 C2].
  destruct (span_hex_spec _ _ _ E) as [-> Ha]. repeat split; assumption.
Qed.

Lemma parse_trailers_sound f : forall raw ts r, parse_trailers f raw = Some (ts, r) ->
  forallb wf_field_line ts = true /\ raw = concat (map (fun t => t ++ CRLF) ts) ++ CRLF ++ r.
Proof.
  induction f as [|f IH]; intros raw ts r; cbn [parse_trailers]; [discriminate|].
  destruct (split_once CRLF raw) as [[line rest]|] eqn:E; [|discriminate].
  apply split_once_sound in E. destruct line as [|x l'].
  - intros H. inversion H; subst. split; reflexivity.
  - destruct (wf_field_line (x :: l')) eqn:W; [|discriminate].
    destruct (parse_trailers f rest) as [[ts' r']|] eqn:P; [|discriminate].
    intros H. inversion H; subst. destruct (IH _ _ _ P) as [I1 I2]. split.
    + cbn [forallb]. now rewrite W, I1.
    + cbn [map concat]. rewrite I2. now rewrite <- !app_assoc.
Qed.

Lemma hex_step_zero l : forall a, forallb is_hex l = true -> fold_left hex_step l a = 0 ->
  a = 0 /\ forallb (fun x => x =? 48) l = true.
Proof.
  induction l as [|x t IH]; intros a Hh Hz; [split; [exact Hz|reflexivity]|].
  cbn [forallb] in Hh. apply andb_true_iff in Hh as [Hx Ht]. cbn [fold_left] in Hz.
  destruct (IH _ Ht Hz) as [I1 I2]. unfold hex_step in I1.
  assert (a = 0 /\ hex_digit_val x = 0) as [Ha Hd] by lia. split; [exact Ha|].
  cbn [forallb]. rewrite I2, andb_true_r. apply N.eqb_eq.
  pose proof (is_hex_range _ Hx) as Hr. unfold hex_digit_val, is_digit in Hd.
  destruct Hr as [Hr|[Hr|Hr]].
  - replace ((48 <=? x) && (x <=? 57)) with true in Hd
      by (symmetry; apply andb_true_iff; split; apply N.leb_le; lia). lia.
  - replace ((48 <=? x) && (x <=? 57)) with false in Hd
      by (symmetry; apply andb_false_iff; right; apply N.leb_gt; lia).
    replace (97 <=? x) with true in Hd by (symmetry; apply N.leb_le; lia). lia.
  - replace ((48 <=? x) && (x <=? 57)) with false in Hd
      by (symmetry; apply andb_false_iff; right; apply N.leb_gt; lia).
    replace (97 <=? x) with false in Hd by (symmetry; apply N.leb_gt; lia). lia.
Qed.

Lemma parse_chunked_sound f : forall raw s r, parse_chunked f raw = Some (s, r) ->
  wf_chunked s = true /\ raw = render_chunked s ++ r.
Proof.
  induction f as [|f IH]; intros raw s r; cbn [parse_chunked]; [discriminate|].
  destruct (split_once CRLF raw) as [[line rest]|] eqn:E; [|discriminate].
  apply split_once_sound in E.
  destruct (parse_size_line line) as [[[n sz] ext]|] eqn:P; [|discriminate].
  destruct (parse_size_line_inv _ _ _ _ P) as (-> & Hn & Hh & He & ->).
  destruct (N.eqb_spec (hexval sz) 0) as [Z|NZ].
  - destruct (parse_trailers (S (length rest)) rest) as [[ts r']|] eqn:T; [|discriminate].
    intros H. inversion H; subst. destruct (parse_trailers_sound _ _ _ _ T) as [T1 T2]. split.
    + unfold wf_chunked. cbn [ch_chunks ch_last_size ch_last_ext ch_trailers forallb].
      rewrite Hn, He, T1. cbn [andb]. rewrite andb_true_r.
      unfold hexval in Z. now destruct (hex_step_zero _ _ Hh Z) as [_ ->].
    + unfold render_chunked. cbn [ch_chunks ch_last_size ch_last_ext ch_trailers map concat app].
      rewrite T2. now rewrite <- !app_assoc.
  - destruct (N.leb_spec (hexval sz) (len rest)) as [L|L]; [|discriminate].
    destruct (is_prefix CRLF (drop (hexval sz) rest)) eqn:Pfx; [|discriminate].
    destruct (parse_chunked f (skipn 2 (drop (hexval sz) rest))) as [[s' r']|] eqn:R; [|discriminate].
    intros H. inversion H; subst. destruct (IH _ _ _ R) as [I1 I2].
    assert (Hlen : len (take (hexval sz) rest) = hexval sz).
    { rewrite take_firstn. unfold len. rewrite firstn_length. unfold len in L. lia. }
    split.
    + unfold wf_chunked in *. cbn [ch_chunks ch_last_size ch_last_ext ch_trailers forallb].
      unfold wf_chunk at 1. cbn [ck_size ck_ext ck_data]. rewrite Hn, Hh, He, Hlen, N.eqb_refl.
      replace (nonempty (take (hexval sz) rest)) with true; [exact I1|].
      symmetry. destruct (take (hexval sz) rest); [|reflexivity]. cbn in Hlen. congruence.
    + unfold render_chunked. cbn [ch_chunks ch_last_size ch_last_ext ch_trailers map concat].
      unfold render_chunk at 1. cbn [ck_size ck_ext ck_data].
      apply is_prefix_skipn in Pfx. change (length CRLF) with 2%nat in Pfx.
      rewrite <- (take_drop (hexval sz) rest) at 1. rewrite Pfx, I2.
      unfold render_chunked. now rewrite <- !app_assoc.
Qed.

(* C15_dechunk_agrees_ref, on bytes: wherever the executable reference decoder accepts a prefix of
   the input, the model decoder completes with the same body and the same remainder *)
Theorem dechunk_agrees_ref_bytes raw body rest : ref_dechunk_bytes raw = Some (body, rest) ->
  chunk_parse new_chunkp raw = Ok (rest, complete_state body).
Proof.
  unfold ref_dechunk_bytes. destruct (parse_chunked (S (length raw)) raw) as [[s r]|] eqn:E; [|discriminate].
  intros H. inversion H; subst. destruct (parse_chunked_sound _ _ _ _ E) as [W ->].
  now apply dechunk_agrees_ref.
Qed.

Lemma is_chunked_body_inv raw : is_chunked_body raw = true ->
  exists s, wf_chunked s = true /\ raw = render_chunked s /\ ref_dechunk_bytes raw = Some (ref_dechunk s, []).
Proof.
  unfold is_chunked_body, ref_dechunk_bytes.
  destruct (parse_chunked (S (length raw)) raw) as [[s r]|] eqn:E; [|discriminate].
  destruct r; [|discriminate]. intros _. destruct (parse_chunked_sound _ _ _ _ E) as [W R].
  exists s. rewrite app_nil_r in R. repeat split; assumption.
Qed.

(* ------------------------------------------------------------------------------------- *)
(* to_chunks emits a stream of the grammar                                                *)

Fixpoint chunks_of_aux (fuel k : nat) (raw : bytes) : list chunk :=
  match fuel with
  | O => []
  | S f => match raw with
           | [] => []
           | _ => {| ck_size := hex_of_N (len (firstn k raw)); ck_ext := []; ck_data := firstn k raw |}
                  :: chunks_of_aux f k (skipn k raw)
           end
  end.
Definition chunks_of (raw : bytes) (k : N) : chunked :=
  {| ch_chunks := chunks_of_aux (length raw) (N.to_nat k) raw;
     ch_last_size := [48]; ch_last_ext := []; ch_trailers := [] |}.

Lemma to_chunks_aux_render f k : forall raw,
  to_chunks_aux f k raw = concat (map render_chunk (chunks_of_aux f k raw)).
Proof.
  induction f as [|f IH]; intros raw; [reflexivity|].
  cbn [to_chunks_aux chunks_of_aux]. destruct raw as [|x t]; [reflexivity|].
  cbn [map concat]. rewrite IH. unfold render_chunk. cbn [ck_size ck_ext ck_data app].
  now rewrite <- !app_assoc.
Qed.

Lemma to_chunks_render raw k : 0 < k -> to_chunks raw k = Ok (render_chunked (chunks_of raw k)).
Proof.
  intros Hk. unfold to_chunks. destruct (N.eqb_spec k 0); [lia|].
  unfold render_chunked, chunks_of. cbn [ch_chunks ch_last_size ch_last_ext ch_trailers map concat app].
  now rewrite to_chunks_aux_render.
Qed.

Lemma base_digit_16_hex x : base_digit 16 x -> is_hex x = true /\ hex_digit_val x = char_val x.
Proof.
  intros (d & Hd & ->). unfold digit_char, is_hex, hex_digit_val, char_val, is_digit.
  destruct (N.ltb_spec d 10) as [L|L].
  - replace ((48 <=? 48 + d) && (48 + d <=? 57)) with true
      by (symmetry; apply andb_true_iff; split; apply N.leb_le; lia). split; reflexivity.
  - replace ((48 <=? 87 + d) && (87 + d <=? 57)) with false
      by (symmetry; apply andb_false_iff; right; apply N.leb_gt; lia).
    replace ((97 <=? 87 + d) && (87 + d <=? 102)) with true
      by (symmetry; apply andb_true_iff; split; apply N.leb_le; lia).
    replace (97 <=? 87 + d) with true by (symmetry; apply N.leb_le; lia).
    split; reflexivity.
Qed.

Lemma hex_of_N_spec n :
  hex_of_N n <> [] /\ forallb is_hex (hex_of_N n) = true /\ hexval (hex_of_N n) = n.
Proof.
  destruct (to_base_spec 16 n ltac:(lia) ltac:(lia)) as (ds & E & Hne & Hd & Hv).
  unfold hex_of_N. rewrite E. repeat split; [exact Hne| |].
  - apply forallb_forall. intros x Hx. rewrite Forall_forall in Hd. now apply base_digit_16_hex, Hd.
  - rewrite <- Hv. unfold hexval, base_val. clear Hv Hne E.
    generalize 0. induction ds as [|x t IH]; intros a; [reflexivity|].
    inversion Hd; subst. cbn [fold_left].
    destruct (base_digit_16_hex x) as [_ ->]; [assumption|]. now apply IH.
Qed.

Lemma chunks_of_aux_wf f k : (0 < k)%nat -> forall raw,
  forallb wf_chunk (chunks_of_aux f k raw) = true.
Proof.
  intros Hk. induction f as [|f IH]; intros raw; [reflexivity|].
  cbn [chunks_of_aux]. destruct raw as [|x t]; [reflexivity|].
  cbn [forallb]. rewrite IH, andb_true_r.
  unfold wf_chunk. cbn [ck_size ck_ext ck_data].
  destruct (hex_of_N_spec (len (firstn k (x :: t)))) as (H1 & H2 & H3).
  rewrite H2, H3, N.eqb_refl.
  destruct (hex_of_N (len (firstn k (x :: t)))); [congruence|].
  destruct k as [|k']; [lia|]. reflexivity.
Qed.

Lemma chunks_of_aux_data f k : (0 < k)%nat -> forall raw, (length raw <= f)%nat ->
  concat (map ck_data (chunks_of_aux f k raw)) = raw.
Proof.
  intros Hk. induction f as [|f IH]; intros raw Hl.
  - destruct raw; [reflexivity|cbn in Hl; lia].
  - cbn [chunks_of_aux]. destruct raw as [|x t]; [reflexivity|].
    cbn [map concat ck_data]. rewrite IH.
    + apply firstn_skipn.
    + rewrite skipn_length. cbn [length] in *. lia.
Qed.

Lemma chunks_of_wf raw k : 0 < k -> wf_chunked (chunks_of raw k) = true.
Proof.
  intros Hk. unfold wf_chunked, chunks_of. cbn [ch_chunks ch_last_size ch_last_ext ch_trailers].
  rewrite chunks_of_aux_wf by lia. reflexivity.
Qed.

Lemma chunks_of_dechunk raw k : 0 < k -> ref_dechunk (chunks_of raw k) = raw.
Proof.
  intros Hk. unfold ref_dechunk, chunks_of. cbn [ch_chunks]. apply chunks_of_aux_data; lia.
Qed.

(* C15_chunks_roundtrip: encoder and decoder are inverses for every body (empty included) and every
   chunk size, and the decoder stops exactly at the end of the encoding *)
Theorem chunks_roundtrip body k t : 0 < k ->
  exists w, to_chunks body k = Ok w /\
            chunk_parse new_chunkp (w ++ t) = Ok (t, complete_state body).
Proof.
  intros Hk. exists (render_chunked (chunks_of body k)). split; [now apply to_chunks_render|].
  rewrite dechunk_agrees_ref by now apply chunks_of_wf. now rewrite chunks_of_dechunk.
Qed.

(* the encoder's output is a chunked stream for the reference grammar too *)
Theorem to_chunks_valid body k : 0 < k ->
  exists s, wf_chunked s = true /\ to_chunks body k = Ok (render_chunked s) /\ ref_dechunk s = body.
Proof.
  intros Hk. exists (chunks_of body k).
  repeat split; [now apply chunks_of_wf|now apply to_chunks_render|now apply chunks_of_dechunk].
Qed.

(* ===================================================================================== *)
(* header maps: the builders against their specification                                  *)
From PM Require Import Http.ParserFacts.

Definition lkeys (h : bdict) : list bytes := map (fun kv => lower (fst kv)) h.

Lemma lower_header_key h name : lower (header_key h name) = lower name.
Proof.
  induction h as [|[k v] t IH]; cbn [header_key]; [reflexivity|].
  destruct (bytes_eqb (lower k) (lower name)) eqn:E; [now apply bytes_eqb_eq in E|exact IH].
Qed.

(* assignment through _header_key is "set this header, whatever its spelling" *)
Lemma dict_set_header_key h name v : dict_set (header_key h name) v h = put_ci name v h.
Proof.
  induction h as [|[k v'] t IH]; cbn [header_key dict_set put_ci].
  - now rewrite bytes_eqb_refl.
  - destruct (bytes_eqb (lower k) (lower name)) eqn:E.
    + cbn [dict_set]. now rewrite bytes_eqb_refl.
    + cbn [dict_set].
      destruct (bytes_eqb (header_key t name) k) eqn:E2.
      * apply bytes_eqb_eq in E2. rewrite <- E2, lower_header_key, bytes_eqb_refl in E. discriminate.
      * now rewrite IH.
Qed.

Lemma has_key_ci_lkeys ln h : has_key_ci ln h = true <-> In ln (lkeys h).
Proof.
  unfold has_key_ci, lkeys. rewrite existsb_exists, in_map_iff. split.
  - intros (kv & Hi & E). apply bytes_eqb_eq in E. exists kv. now split.
  - intros (kv & E & Hi). exists kv. split; [exact Hi|]. rewrite E. apply bytes_eqb_refl.
Qed.

Lemma has_key_ci_false ln h : has_key_ci ln h = false <-> ~ In ln (lkeys h).
Proof.
  rewrite <- has_key_ci_lkeys. destruct (has_key_ci ln h); split; congruence.
Qed.

Lemma put_ci_new name v h : ~ In (lower name) (lkeys h) -> put_ci name v h = h ++ [(name, v)].
Proof.
  induction h as [|[k v'] t IH]; cbn [put_ci lkeys map fst In app]; intros H; [reflexivity|].
  destruct (bytes_eqb (lower k) (lower name)) eqn:E.
  - apply bytes_eqb_eq in E. exfalso. apply H. now left.
  - rewrite IH; [reflexivity|]. intros C. apply H. now right.
Qed.

Lemma dict_set_new_ci name v h : ~ In (lower name) (lkeys h) -> dict_set name v h = h ++ [(name, v)].
Proof.
  intros H. apply dict_set_new. unfold dict_keys. intros C. apply H. unfold lkeys.
  apply in_map_iff in C as (kv & E & Hi). apply in_map_iff. exists kv. split; [now rewrite E|exact Hi].
Qed.

Lemma lkeys_put_ci name v h :
  lkeys (put_ci name v h) = if has_key_ci (lower name) h then lkeys h else lkeys h ++ [lower name].
Proof.
  induction h as [|[k v'] t IH]; cbn [put_ci lkeys map fst has_key_ci existsb]; [reflexivity|].
  destruct (bytes_eqb (lower k) (lower name)) eqn:E; cbn [orb map fst]; [reflexivity|].
  fold (lkeys (put_ci name v t)). rewrite IH. fold (has_key_ci (lower name) t).
  destruct (has_key_ci (lower name) t); reflexivity.
Qed.

Lemma bytes_eqb_spec x y : reflect (x = y) (bytes_eqb x y).
Proof.
  destruct (bytes_eqb x y) eqn:E; constructor.
  - now apply bytes_eqb_eq.
  - intros C. apply bytes_eqb_eq in C. congruence.
Qed.

Lemma get_ci_cons ln k v t :
  get_ci ln ((k, v) :: t) = if bytes_eqb (lower k) ln then Some v else get_ci ln t.
Proof. unfold get_ci. cbn [find fst]. destruct (bytes_eqb (lower k) ln); reflexivity. Qed.

Lemma get_ci_put_ci ln name v h :
  get_ci ln (put_ci name v h) = if bytes_eqb ln (lower name) then Some v else get_ci ln h.
Proof.
  induction h as [|[k v'] t IH]; cbn [put_ci].
  - rewrite get_ci_cons. destruct (bytes_eqb_spec (lower name) ln), (bytes_eqb_spec ln (lower name));
      try reflexivity; congruence.
  - destruct (bytes_eqb_spec (lower k) (lower name)) as [E|E]; rewrite !get_ci_cons.
    + rewrite E. destruct (bytes_eqb_spec (lower name) ln), (bytes_eqb_spec ln (lower name));
        try reflexivity; congruence.
    + rewrite IH. destruct (bytes_eqb_spec (lower k) ln), (bytes_eqb_spec ln (lower name));
        try reflexivity; congruence.
Qed.

Lemma get_ci_none ln h : get_ci ln h = None <-> ~ In ln (lkeys h).
Proof.
  induction h as [|[k v] t IH]; [cbn; tauto|]. rewrite get_ci_cons. cbn [lkeys map fst In].
  destruct (bytes_eqb_spec (lower k) ln) as [E|E].
  - split; [discriminate|]. intros H. exfalso. apply H. now left.
  - rewrite IH. unfold lkeys. tauto.
Qed.

Lemma get_ci_some_in ln h v : get_ci ln h = Some v -> In ln (lkeys h).
Proof.
  intros H. destruct (in_dec (list_eq_dec N.eq_dec) ln (lkeys h)) as [Hi|Hn]; [exact Hi|].
  apply get_ci_none in Hn. congruence.
Qed.

(* nodup_ci is NoDup of the lower-cased names *)
Lemma nodup_ci_NoDup (h : bdict) : nodup_ci (map fst h) = true <-> NoDup (lkeys h).
Proof.
  induction h as [|[k v] t IH]; cbn [map fst nodup_ci lkeys]; [split; [constructor|reflexivity]|].
  fold (lkeys t). rewrite andb_true_iff, negb_true_iff, IH. split.
  - intros [H1 H2]. constructor; [|exact H2]. intros C. unfold lkeys in C.
    apply in_map_iff in C as ([k2 v2] & E & Hi). cbn [fst] in E.
    assert (X : existsb (fun k0 => bytes_eqb (lower k0) (lower k)) (map fst t) = true).
    { apply existsb_exists. exists k2. split; [apply in_map_iff; exists (k2, v2); now split|].
      rewrite E. apply bytes_eqb_refl. }
    congruence.
  - intros H. inversion H as [|? ? Hn Hd]; subst. split; [|assumption].
    destruct (existsb _ (map fst t)) eqn:X; [|reflexivity]. exfalso.
    apply existsb_exists in X as (k2 & Hi & E). apply bytes_eqb_eq in E.
    apply in_map_iff in Hi as ([k3 v3] & E2 & Hi). cbn [fst] in E2. subst k3.
    apply Hn. unfold lkeys. apply in_map_iff. exists (k2, v3). now split.
Qed.

(* a header map the parser reads back as it is *)
Definition wfh (h : bdict) : Prop := forallb ok_header h = true /\ NoDup (lkeys h).

Lemma wfh_put_ci name v h : wfh h -> ok_name name = true -> ok_value v = true -> wfh (put_ci name v h).
Proof.
  intros [H1 H2] Hn Hv. split.
  - clear H2. induction h as [|[k v0] t IH]; cbn [put_ci forallb].
    + unfold ok_header. cbn [fst snd]. now rewrite Hn, Hv.
    + cbn [forallb] in H1. apply andb_true_iff in H1 as [Hk Ht].
      destruct (bytes_eqb (lower k) (lower name)); cbn [forallb].
      * rewrite Ht, andb_true_r. unfold ok_header in *. cbn [fst snd] in *.
        apply andb_true_iff in Hk as [Hk _]. now rewrite Hk, Hv.
      * now rewrite Hk, IH.
  - rewrite lkeys_put_ci. destruct (has_key_ci (lower name) h) eqn:E; [exact H2|].
    apply NoDup_snoc; [exact H2|]. now apply has_key_ci_false.
Qed.

(* splitting a header map at its only header of a given name *)
Lemma split_at_ci ln h v : NoDup (lkeys h) -> get_ci ln h = Some v ->
  exists h1 hn h2, h = h1 ++ (hn, v) :: h2 /\ lower hn = ln /\ ~ In ln (lkeys h1) /\ ~ In ln (lkeys h2).
Proof.
  induction h as [|[k v0] t IH]; intros Hnd Hg; [discriminate|].
  rewrite get_ci_cons in Hg. cbn [lkeys map fst] in Hnd. fold (lkeys t) in Hnd.
  inversion Hnd as [|? ? Hn Hd]; subst.
  destruct (bytes_eqb_spec (lower k) ln) as [E|E].
  - inversion Hg; subst. exists [], k, t. repeat split; [intros []|assumption].
  - destruct (IH Hd Hg) as (h1 & hn & h2 & -> & E1 & N1 & N2).
    exists ((k, v0) :: h1), hn, h2. repeat split; try assumption.
    cbn [lkeys map fst In]. fold (lkeys h1). tauto.
Qed.
