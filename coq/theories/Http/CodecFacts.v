(* Round-trip proofs for property C15. *)
From PM Require Import Lib.Bytes Lib.BytesFacts Lib.PyStr Lib.PyStrFacts Lib.PyStrFacts2 Http.Url Http.Chunk Http.ChunkFacts
  Http.Parser Http.Builders Http.BuildersFacts Http.Grammar.
From Coq Require Import ZArith.
