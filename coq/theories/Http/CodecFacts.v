(* Round-trip proofs for property C15. *)
From PM Require Import Lib.Bytes Lib.BytesFacts Lib.PyStr Lib.PyStrFacts Lib.PyStrFacts2 Http.Url Http.Chunk Http.ChunkFacts
  Http.Parser Http.Builders Http.BuildersFacts Http.Grammar.
From Coq Require Import ZArith.
From Coq Require Import Lia.

(* ------------------------------------------------------------------------------------- *)
(* character classes                                                                      *)
Lemma is_hex_range x : is_hex x = true -> (48 <= x <= 57) \/ (97 <= x <= 102) \/ (65 <= x <= 70).
Proof.
  unfold is_hex, is_digit. intros H.
  apply orb_true_iff in H as [H|H]; [apply orb_true_iff in H as [H|H]|];
    apply andb_true_iff in H as [H1 H2]; apply N.leb_le in H1, H2; lia.
Qed.

Lemma is_hex_not_ws x : is_hex x = true -> is_ws x = false.
Proof.
  intros H. apply is_hex_range in H. unfold is_ws.
  destruct (N.eqb_spec x 32); [lia|]. destruct (N.leb_spec 9 x); destruct (N.leb_spec x 13); try reflexivity; lia.
Qed.

Lemma is_ows_ws x : is_ows x = true -> is_ws x = true.
Proof.
  unfold is_ows, is_ws. intros H. apply orb_true_iff in H as [H|H]; apply N.eqb_eq in H; subst; reflexivity.
Qed.

Lemma digit_val_hex x : is_hex x = true -> digit_val 16 x = Some (hex_digit_val x).
Proof.
  intros H. apply is_hex_range in H. unfold digit_val, hex_digit_val, is_digit.
  destruct H as [H|[H|H]].
  - replace ((48 <=? x) && (x <=? 57)) with true
      by (symmetry; apply andb_true_iff; split; apply N.leb_le; lia).
    destruct (N.ltb_spec (x - 48) 16); [reflexivity|lia].
  - replace ((48 <=? x) && (x <=? 57)) with false
      by (symmetry; apply andb_false_iff; right; apply N.leb_gt; lia).
    replace ((97 <=? x) && (x <=? 122)) with true
      by (symmetry; apply andb_true_iff; split; apply N.leb_le; lia).
    replace (97 <=? x) with true by (symmetry; apply N.leb_le; lia).
    destruct (N.ltb_spec (x - 87) 16); [reflexivity|lia].
  - replace ((48 <=? x) && (x <=? 57)) with false
      by (symmetry; apply andb_false_iff; right; apply N.leb_gt; lia).
    replace ((97 <=? x) && (x <=? 122)) with false
      by (symmetry; apply andb_false_iff; left; apply N.leb_gt; lia).
    replace ((65 <=? x) && (x <=? 90)) with true
      by (symmetry; apply andb_true_iff; split; apply N.leb_le; lia).
    replace (97 <=? x) with false by (symmetry; apply N.leb_gt; lia).
    destruct (N.ltb_spec (x - 55) 16); [reflexivity|lia].
Qed.

Definition hex_step (a x : N) : N := a * 16 + hex_digit_val x.
Lemma hexval_fold l : hexval l = fold_left hex_step l 0.
Proof. reflexivity. Qed.

Lemma parse_digits_hex l : forall acc b, forallb is_hex l = true -> (l <> [] \/ b = true) ->
  parse_digits 16 l acc b = Some (fold_left hex_step l acc).
Proof.
  induction l as [|x t IH]; intros acc b Hd Hne.
  - destruct Hne as [Hne| ->]; [congruence|reflexivity].
  - cbn [forallb] in Hd. apply andb_true_iff in Hd as [Hx Ht].
    cbn [parse_digits fold_left].
    pose proof (is_hex_range _ Hx) as Hr.
    destruct (N.eqb_spec x 95) as [E|_]; [lia|].
    rewrite (digit_val_hex _ Hx). apply IH; [exact Ht|now right].
Qed.

(* int(b'1f  ', 16): hex digits in any case with leading zeros, optional trailing blanks *)
Lemma int16_hex sz pad : sz <> [] -> forallb is_hex sz = true -> forallb is_ows pad = true ->
  int16 (sz ++ pad) = Ok (Z.of_N (hexval sz)).
Proof.
  intros Hne Hh Hp. unfold int16, py_int.
  assert (Hws : forall x, In x sz -> is_ws x = false).
  { intros x Hx. apply is_hex_not_ws. rewrite forallb_forall in Hh. now apply Hh. }
  assert (Hpw : forallb is_ws pad = true).
  { apply forallb_forall. intros x Hx. apply is_ows_ws. rewrite forallb_forall in Hp. now apply Hp. }
  rewrite (strip_app_ws _ _ Hws Hpw).
  destruct sz as [|x t]; [congruence|].
  assert (Hx : is_hex x = true) by (cbn [forallb] in Hh; now apply andb_true_iff in Hh as [? _]).
  pose proof (is_hex_range _ Hx) as Hr.
  destruct (N.eqb_spec x 45) as [E|_]; [lia|]. destruct (N.eqb_spec x 43) as [E|_]; [lia|].
  change (16 =? 16) with true. cbv iota. cbn [negb]. rewrite andb_false_r.
  destruct t as [|y t'].
  - rewrite (parse_digits_hex [x] 0 false Hh) by (left; discriminate). reflexivity.
  - assert (Hy : is_hex y = true).
    { cbn [forallb] in Hh. apply andb_true_iff in Hh as [_ Hh]. now apply andb_true_iff in Hh as [? _]. }
    apply is_hex_range in Hy.
    destruct (N.eqb_spec y 120) as [E|_]; [lia|]. destruct (N.eqb_spec y 88) as [E|_]; [lia|].
    rewrite andb_false_r.
    rewrite (parse_digits_hex (x :: y :: t') 0 false Hh) by (left; discriminate). reflexivity.
Qed.

(* ------------------------------------------------------------------------------------- *)
(* the RFC 7230 chunked grammar of Grammar.v, seen as a stream of Http/ChunkFacts.v        *)

Lemma crlf_free_no_lf l : ~ In LF l -> crlf_free l.
Proof.
  intros H. unfold crlf_free. pose proof (split_once_crlf_no_lf l [] H) as E.
  change (CRLF ++ []) with CRLF in E. exact E.
Qed.

Lemma forallb_In {A} (f : A -> bool) l x : forallb f l = true -> In x l -> f x = true.
Proof. intros H Hi. rewrite forallb_forall in H. now apply H. Qed.

Lemma ext_ok_no_lf e : ext_ok e = true -> ~ In LF e.
Proof.
  unfold ext_ok. intros H Hi. apply orb_true_iff in H as [H|H].
  - pose proof (forallb_In _ _ _ H Hi) as C. discriminate C.
  - apply andb_true_iff in H as [_ H]. pose proof (forallb_In _ _ _ H Hi) as C. discriminate C.
Qed.

Lemma hex_no_lf sz : forallb is_hex sz = true -> ~ In LF sz.
Proof. intros H Hi. pose proof (forallb_In _ _ _ H Hi) as C. discriminate C. Qed.

Lemma before_semi_size sz e : forallb is_hex sz = true -> ext_ok e = true ->
  exists pad, before_semi (sz ++ e) = sz ++ pad /\ forallb is_ows pad = true.
Proof.
  intros Hh He. unfold before_semi.
  assert (Hs : ~ In SEMI sz) by (intros Hi; pose proof (forallb_In _ _ _ Hh Hi) as C; discriminate C).
  unfold ext_ok in He. apply orb_true_iff in He as [He|He].
  - exists e. split; [|exact He].
    rewrite split_once_byte_none; [reflexivity|].
    intros Hi. apply in_app_or in Hi as [Hi|Hi]; [now apply Hs|].
    pose proof (forallb_In _ _ _ He Hi) as C. discriminate C.
  - exists []. split; [|reflexivity]. apply andb_true_iff in He as [He _].
    destruct e as [|x e']; [discriminate|]. apply N.eqb_eq in He. subst x.
    rewrite (split_once_byte_notin SEMI sz e' Hs). now rewrite app_nil_r.
Qed.

Lemma size_line_int16 sz e : sz <> [] -> forallb is_hex sz = true -> ext_ok e = true ->
  int16 (before_semi (sz ++ e)) = Ok (Z.of_N (hexval sz)).
Proof.
  intros Hne Hh He. destruct (before_semi_size sz e Hh He) as (pad & -> & Hp).
  now apply int16_hex.
Qed.

Lemma size_line_strip sz e : sz <> [] -> forallb is_hex sz = true -> strip (sz ++ e) <> [].
Proof.
  intros Hne Hh. destruct sz as [|x t]; [congruence|].
  apply (strip_nonempty_of_nws x); [now left|]. apply is_hex_not_ws.
  cbn [forallb] in Hh. now apply andb_true_iff in Hh as [? _].
Qed.

Lemma size_line_crlf_free sz e : forallb is_hex sz = true -> ext_ok e = true -> crlf_free (sz ++ e).
Proof.
  intros Hh He. apply crlf_free_no_lf. intros Hi. apply in_app_or in Hi as [Hi|Hi].
  - now apply (hex_no_lf sz).
  - now apply (ext_ok_no_lf e).
Qed.

Lemma nonempty_ne l : nonempty l = true -> l <> [].
Proof. destruct l; [discriminate|discriminate]. Qed.

Definition item_of (c : chunk) : chunk_item :=
  {| ci_line := ck_size c ++ ck_ext c; ci_data := ck_data c |}.

Lemma wf_chunk_item c : wf_chunk c = true -> item_ok (item_of c).
Proof.
  unfold wf_chunk. intros H.
  apply andb_true_iff in H as [H Hlen]. apply andb_true_iff in H as [H Hd].
  apply andb_true_iff in H as [H He]. apply andb_true_iff in H as [Hn Hh].
  apply nonempty_ne in Hn, Hd. apply N.eqb_eq in Hlen.
  unfold item_ok, item_of. cbn [ci_line ci_data]. repeat split.
  - now apply size_line_crlf_free.
  - now apply size_line_strip.
  - exact Hd.
  - rewrite size_line_int16 by assumption. rewrite Hlen. unfold len. now rewrite nat_N_Z.
Qed.

Lemma hexval_zeros l : forallb (fun x => x =? 48) l = true -> forallb is_hex l = true /\ hexval l = 0.
Proof.
  unfold hexval. induction l as [|x t IH]; intros H; [split; reflexivity|].
  cbn [forallb] in H. apply andb_true_iff in H as [Hx Ht]. apply N.eqb_eq in Hx. subst x.
  destruct (IH Ht) as [I1 I2]. split.
  - cbn [forallb]. now rewrite I1.
  - cbn [fold_left]. exact I2.
Qed.

Lemma is_tchar_not_lf x : is_tchar x = true -> x <> LF.
Proof. intros H E. subst. discriminate H. Qed.
Lemma is_field_byte_not_lf x : is_field_byte x = true -> x <> LF.
Proof. intros H E. subst. discriminate H. Qed.

Lemma parse_field_line_inv line name v :
  parse_field_line line = Some (name, v) ->
  exists v0, line = name ++ COLON :: v0 /\ is_token name = true /\ forallb is_field_byte v0 = true /\
             v = trim_ows v0.
Proof.
  unfold parse_field_line. destruct (split_once [COLON] line) as [[n v0]|] eqn:E; [|discriminate].
  destruct (is_token n && forallb is_field_byte v0) eqn:C; [|discriminate].
  intros H. inversion H; subst. apply andb_true_iff in C as [C1 C2].
  exists v0. repeat split; try assumption. apply split_once_sound in E. exact E.
Qed.

Lemma wf_field_line_trailer t : wf_field_line t = true -> trailer_ok t.
Proof.
  unfold wf_field_line. destruct (parse_field_line t) as [[n v]|] eqn:E; [|discriminate]. intros _.
  destruct (parse_field_line_inv _ _ _ E) as (v0 & -> & Ht & Hv & _).
  unfold is_token in Ht. apply andb_true_iff in Ht as [_ Ht].
  split.
  - apply crlf_free_no_lf. intros Hi. apply in_app_or in Hi as [Hi|[Hi|Hi]].
    + now apply (is_tchar_not_lf LF (forallb_In _ _ _ Ht Hi)).
    + discriminate Hi.
    + now apply (is_field_byte_not_lf LF (forallb_In _ _ _ Hv Hi)).
  - intros C. apply app_eq_nil in C. destruct C as [_ C]. discriminate C.
Qed.

Definition stream_of (s : chunked) : chunk_stream :=
  {| cs_items := map item_of (ch_chunks s);
     cs_last := ch_last_size s ++ ch_last_ext s;
     cs_trailers := ch_trailers s |}.

Lemma render_stream_of s : render_stream (stream_of s) = render_chunked s.
Proof.
  unfold render_stream, render_chunked, stream_of, render_items, render_trailers.
  cbn [cs_items cs_last cs_trailers]. rewrite map_map.
  rewrite (map_ext (fun x => render_item (item_of x)) render_chunk).
  - now rewrite <- !app_assoc.
  - intros c. unfold render_item, item_of, render_chunk. cbn [ci_line ci_data]. now rewrite <- !app_assoc.
Qed.

Lemma stream_body_of s : stream_body (stream_of s) = ref_dechunk s.
Proof. unfold stream_body, stream_of, ref_dechunk. cbn [cs_items]. now rewrite map_map. Qed.

Lemma wf_chunked_stream_ok s : wf_chunked s = true -> stream_ok (stream_of s).
Proof.
  unfold wf_chunked. intros H.
  apply andb_true_iff in H as [H Ht]. apply andb_true_iff in H as [H He].
  apply andb_true_iff in H as [H Hz]. apply andb_true_iff in H as [Hc Hn].
  apply nonempty_ne in Hn. destruct (hexval_zeros _ Hz) as [Hh Hv].
  unfold stream_ok, stream_of. cbn [cs_items cs_last cs_trailers]. repeat split.
  - apply Forall_forall. intros it Hi. apply in_map_iff in Hi as (c & <- & Hc').
    apply wf_chunk_item. exact (forallb_In _ _ _ Hc Hc').
  - now apply size_line_crlf_free.
  - now apply size_line_strip.
  - rewrite size_line_int16 by assumption. now rewrite Hv.
  - apply Forall_forall. intros t Hi. apply wf_field_line_trailer. exact (forallb_In _ _ _ Ht Hi).
Qed.

(* C15_dechunk_agrees_ref, on the abstract syntax: the model decoder returns the reference body and
   hands back whatever follows the stream, for every valid chunked stream *)
Theorem dechunk_agrees_ref s t : wf_chunked s = true ->
  chunk_parse new_chunkp (render_chunked s ++ t) = Ok (t, complete_state (ref_dechunk s)).
Proof.
  intros H. rewrite <- render_stream_of, <- stream_body_of.
  apply chunk_complete_at_end. now apply wf_chunked_stream_ok.
Qed.

(* ------------------------------------------------------------------------------------- *)
(* the executable recogniser is sound for the grammar                                     *)

Lemma span_hex_spec l a r : span_hex l = (a, r) -> l = a ++ r /\ forallb is_hex a = true.
Proof.
  revert a r; induction l as [|x t IH]; intros a r; cbn [span_hex].
  - intros H. inversion H. split; reflexivity.
  - destruct (is_hex x) eqn:E.
    + destruct (span_hex t) as [a' r']. intros H. inversion H; subst.
      destruct (IH a' r eq_refl) as [-> Ha]. split; [reflexivity|]. cbn [forallb]. now rewrite E.
    + intros H. inversion H. split; reflexivity.
Qed.

Lemma parse_size_line_inv line n sz ext : parse_size_line line = Some (n, sz, ext) ->
  line = sz ++ ext /\ nonempty sz = true /\ forallb is_hex sz = true /\ ext_ok ext = true /\ n = hexval sz.
Proof.
  unfold parse_size_line. destruct (span_hex line) as [a r] eqn:E.
  destruct (nonempty a && ext_ok r) eqn:C; [|discriminate].
  intros H. inversion H; subst. apply andb_true_iff in C as [C1 C2].
  destruct (span_hex_spec _ _ _ E) as [-> Ha]. repeat split; assumption.
Qed.

Lemma parse_trailers_sound f : forall raw ts r, parse_trailers f raw = Some (ts, r) ->
  forallb wf_field_line ts = true /\ raw = concat (map (fun t => t ++ CRLF) ts) ++ CRLF ++ r.
Proof.
  induction f as [|f IH]; intros raw ts r; cbn [parse_trailers]; [discriminate|].
  destruct (split_once CRLF raw) as [[line rest]|] eqn:E; [|discriminate].
  apply split_once_sound in E. destruct line as [|x l'].
  - intros H. inversion H; subst. split; reflexivity.
  - destruct (wf_field_line (x :: l')) eqn:W; [|discriminate].
    destruct (parse_trailers f rest) as [[ts' r']|] eqn:P; [|discriminate].
    intros H. inversion H; subst. destruct (IH _ _ _ P) as [I1 I2]. split.
    + cbn [forallb]. now rewrite W, I1.
    + cbn [map concat]. rewrite I2. now rewrite <- !app_assoc.
Qed.

Lemma hex_step_zero l : forall a, forallb is_hex l = true -> fold_left hex_step l a = 0 ->
  a = 0 /\ forallb (fun x => x =? 48) l = true.
Proof.
  induction l as [|x t IH]; intros a Hh Hz; [split; [exact Hz|reflexivity]|].
  cbn [forallb] in Hh. apply andb_true_iff in Hh as [Hx Ht]. cbn [fold_left] in Hz.
  destruct (IH _ Ht Hz) as [I1 I2]. unfold hex_step in I1.
  assert (a = 0 /\ hex_digit_val x = 0) as [Ha Hd] by lia. split; [exact Ha|].
  cbn [forallb]. rewrite I2, andb_true_r. apply N.eqb_eq.
  pose proof (is_hex_range _ Hx) as Hr. unfold hex_digit_val, is_digit in Hd.
  destruct Hr as [Hr|[Hr|Hr]].
  - replace ((48 <=? x) && (x <=? 57)) with true in Hd
      by (symmetry; apply andb_true_iff; split; apply N.leb_le; lia). lia.
  - replace ((48 <=? x) && (x <=? 57)) with false in Hd
      by (symmetry; apply andb_false_iff; right; apply N.leb_gt; lia).
    replace (97 <=? x) with true in Hd by (symmetry; apply N.leb_le; lia). lia.
  - replace ((48 <=? x) && (x <=? 57)) with false in Hd
      by (symmetry; apply andb_false_iff; right; apply N.leb_gt; lia).
    replace (97 <=? x) with false in Hd by (symmetry; apply N.leb_gt; lia). lia.
Qed.

Lemma parse_chunked_sound f : forall raw s r, parse_chunked f raw = Some (s, r) ->
  wf_chunked s = true /\ raw = render_chunked s ++ r.
Proof.
  induction f as [|f IH]; intros raw s r; cbn [parse_chunked]; [discriminate|].
  destruct (split_once CRLF raw) as [[line rest]|] eqn:E; [|discriminate].
  apply split_once_sound in E.
  destruct (parse_size_line line) as [[[n sz] ext]|] eqn:P; [|discriminate].
  destruct (parse_size_line_inv _ _ _ _ P) as (-> & Hn & Hh & He & ->).
  destruct (N.eqb_spec (hexval sz) 0) as [Z|NZ].
  - destruct (parse_trailers (S (length rest)) rest) as [[ts r']|] eqn:T; [|discriminate].
    intros H. inversion H; subst. destruct (parse_trailers_sound _ _ _ _ T) as [T1 T2]. split.
    + unfold wf_chunked. cbn [ch_chunks ch_last_size ch_last_ext ch_trailers forallb].
      rewrite Hn, He, T1. cbn [andb]. rewrite andb_true_r.
      unfold hexval in Z. now destruct (hex_step_zero _ _ Hh Z) as [_ ->].
    + unfold render_chunked. cbn [ch_chunks ch_last_size ch_last_ext ch_trailers map concat app].
      rewrite T2. now rewrite <- !app_assoc.
  - destruct (N.leb_spec (hexval sz) (len rest)) as [L|L]; [|discriminate].
    destruct (is_prefix CRLF (drop (hexval sz) rest)) eqn:Pfx; [|discriminate].
    destruct (parse_chunked f (skipn 2 (drop (hexval sz) rest))) as [[s' r']|] eqn:R; [|discriminate].
    intros H. inversion H; subst. destruct (IH _ _ _ R) as [I1 I2].
    assert (Hlen : len (take (hexval sz) rest) = hexval sz).
    { rewrite take_firstn. unfold len. rewrite firstn_length. unfold len in L. lia. }
    split.
    + unfold wf_chunked in *. cbn [ch_chunks ch_last_size ch_last_ext ch_trailers forallb].
      unfold wf_chunk at 1. cbn [ck_size ck_ext ck_data]. rewrite Hn, Hh, He, Hlen, N.eqb_refl.
      replace (nonempty (take (hexval sz) rest)) with true; [exact I1|].
      symmetry. destruct (take (hexval sz) rest); [|reflexivity]. cbn in Hlen. congruence.
    + unfold render_chunked. cbn [ch_chunks ch_last_size ch_last_ext ch_trailers map concat].
      unfold render_chunk at 1. cbn [ck_size ck_ext ck_data].
      apply is_prefix_skipn in Pfx. change (length CRLF) with 2%nat in Pfx.
      rewrite <- (take_drop (hexval sz) rest) at 1. rewrite Pfx, I2.
      unfold render_chunked. now rewrite <- !app_assoc.
Qed.

(* C15_dechunk_agrees_ref, on bytes: wherever the executable reference decoder accepts a prefix of
   the input, the model decoder completes with the same body and the same remainder *)
Theorem dechunk_agrees_ref_bytes raw body rest : ref_dechunk_bytes raw = Some (body, rest) ->
  chunk_parse new_chunkp raw = Ok (rest, complete_state body).
Proof.
  unfold ref_dechunk_bytes. destruct (parse_chunked (S (length raw)) raw) as [[s r]|] eqn:E; [|discriminate].
  intros H. inversion H; subst. destruct (parse_chunked_sound _ _ _ _ E) as [W ->].
  now apply dechunk_agrees_ref.
Qed.

Lemma is_chunked_body_inv raw : is_chunked_body raw = true ->
  exists s, wf_chunked s = true /\ raw = render_chunked s /\ ref_dechunk_bytes raw = Some (ref_dechunk s, []).
Proof.
  unfold is_chunked_body, ref_dechunk_bytes.
  destruct (parse_chunked (S (length raw)) raw) as [[s r]|] eqn:E; [|discriminate].
  destruct r; [|discriminate]. intros _. destruct (parse_chunked_sound _ _ _ _ E) as [W R].
  exists s. rewrite app_nil_r in R. repeat split; assumption.
Qed.

(* ------------------------------------------------------------------------------------- *)
(* to_chunks emits a stream of the grammar                                                *)

Fixpoint chunks_of_aux (fuel k : nat) (raw : bytes) : list chunk :=
  match fuel with
  | O => []
  | S f => match raw with
           | [] => []
           | _ => {| ck_size := hex_of_N (len (firstn k raw)); ck_ext := []; ck_data := firstn k raw |}
                  :: chunks_of_aux f k (skipn k raw)
           end
  end.
Definition chunks_of (raw : bytes) (k : N) : chunked :=
  {| ch_chunks := chunks_of_aux (length raw) (N.to_nat k) raw;
     ch_last_size := [48]; ch_last_ext := []; ch_trailers := [] |}.

Lemma to_chunks_aux_render f k : forall raw,
  to_chunks_aux f k raw = concat (map render_chunk (chunks_of_aux f k raw)).
Proof.
  induction f as [|f IH]; intros raw; [reflexivity|].
  cbn [to_chunks_aux chunks_of_aux]. destruct raw as [|x t]; [reflexivity|].
  cbn [map concat]. rewrite IH. unfold render_chunk. cbn [ck_size ck_ext ck_data app].
  now rewrite <- !app_assoc.
Qed.

Lemma to_chunks_render raw k : 0 < k -> to_chunks raw k = Ok (render_chunked (chunks_of raw k)).
Proof.
  intros Hk. unfold to_chunks. destruct (N.eqb_spec k 0); [lia|].
  unfold render_chunked, chunks_of. cbn [ch_chunks ch_last_size ch_last_ext ch_trailers map concat app].
  now rewrite to_chunks_aux_render.
Qed.

Lemma base_digit_16_hex x : base_digit 16 x -> is_hex x = true /\ hex_digit_val x = char_val x.
Proof.
  intros (d & Hd & ->). unfold digit_char, is_hex, hex_digit_val, char_val, is_digit.
  destruct (N.ltb_spec d 10) as [L|L].
  - replace ((48 <=? 48 + d) && (48 + d <=? 57)) with true
      by (symmetry; apply andb_true_iff; split; apply N.leb_le; lia). split; reflexivity.
  - replace ((48 <=? 87 + d) && (87 + d <=? 57)) with false
      by (symmetry; apply andb_false_iff; right; apply N.leb_gt; lia).
    replace ((97 <=? 87 + d) && (87 + d <=? 102)) with true
      by (symmetry; apply andb_true_iff; split; apply N.leb_le; lia).
    replace (97 <=? 87 + d) with true by (symmetry; apply N.leb_le; lia).
    split; reflexivity.
Qed.

Lemma hex_of_N_spec n :
  hex_of_N n <> [] /\ forallb is_hex (hex_of_N n) = true /\ hexval (hex_of_N n) = n.
Proof.
  destruct (to_base_spec 16 n ltac:(lia) ltac:(lia)) as (ds & E & Hne & Hd & Hv).
  unfold hex_of_N. rewrite E. repeat split; [exact Hne| |].
  - apply forallb_forall. intros x Hx. rewrite Forall_forall in Hd. now apply base_digit_16_hex, Hd.
  - rewrite <- Hv. unfold hexval, base_val. clear Hv Hne E.
    generalize 0. induction ds as [|x t IH]; intros a; [reflexivity|].
    inversion Hd; subst. cbn [fold_left].
    destruct (base_digit_16_hex x) as [_ ->]; [assumption|]. now apply IH.
Qed.

Lemma chunks_of_aux_wf f k : (0 < k)%nat -> forall raw,
  forallb wf_chunk (chunks_of_aux f k raw) = true.
Proof.
  intros Hk. induction f as [|f IH]; intros raw; [reflexivity|].
  cbn [chunks_of_aux]. destruct raw as [|x t]; [reflexivity|].
  cbn [forallb]. rewrite IH, andb_true_r.
  unfold wf_chunk. cbn [ck_size ck_ext ck_data].
  destruct (hex_of_N_spec (len (firstn k (x :: t)))) as (H1 & H2 & H3).
  rewrite H2, H3, N.eqb_refl.
  destruct (hex_of_N (len (firstn k (x :: t)))); [congruence|].
  destruct k as [|k']; [lia|]. reflexivity.
Qed.

Lemma chunks_of_aux_data f k : (0 < k)%nat -> forall raw, (length raw <= f)%nat ->
  concat (map ck_data (chunks_of_aux f k raw)) = raw.
Proof.
  intros Hk. induction f as [|f IH]; intros raw Hl.
  - destruct raw; [reflexivity|cbn in Hl; lia].
  - cbn [chunks_of_aux]. destruct raw as [|x t]; [reflexivity|].
    cbn [map concat ck_data]. rewrite IH.
    + apply firstn_skipn.
    + rewrite skipn_length. cbn [length] in *. lia.
Qed.

Lemma chunks_of_wf raw k : 0 < k -> wf_chunked (chunks_of raw k) = true.
Proof.
  intros Hk. unfold wf_chunked, chunks_of. cbn [ch_chunks ch_last_size ch_last_ext ch_trailers].
  rewrite chunks_of_aux_wf by lia. reflexivity.
Qed.

Lemma chunks_of_dechunk raw k : 0 < k -> ref_dechunk (chunks_of raw k) = raw.
Proof.
  intros Hk. unfold ref_dechunk, chunks_of. cbn [ch_chunks]. apply chunks_of_aux_data; lia.
Qed.

(* C15_chunks_roundtrip: encoder and decoder are inverses for every body (empty included) and every
   chunk size, and the decoder stops exactly at the end of the encoding *)
Theorem chunks_roundtrip body k t : 0 < k ->
  exists w, to_chunks body k = Ok w /\
            chunk_parse new_chunkp (w ++ t) = Ok (t, complete_state body).
Proof.
  intros Hk. exists (render_chunked (chunks_of body k)). split; [now apply to_chunks_render|].
  rewrite dechunk_agrees_ref by now apply chunks_of_wf. now rewrite chunks_of_dechunk.
Qed.

(* the encoder's output is a chunked stream for the reference grammar too *)
Theorem to_chunks_valid body k : 0 < k ->
  exists s, wf_chunked s = true /\ to_chunks body k = Ok (render_chunked s) /\ ref_dechunk s = body.
Proof.
  intros Hk. exists (chunks_of body k).
  repeat split; [now apply chunks_of_wf|now apply to_chunks_render|now apply chunks_of_dechunk].
Qed.

(* ===================================================================================== *)
(* header maps: the builders against their specification                                  *)
From PM Require Import Http.ParserFacts.

Definition lkeys (h : bdict) : list bytes := map (fun kv => lower (fst kv)) h.

Lemma lower_header_key h name : lower (header_key h name) = lower name.
Proof.
  induction h as [|[k v] t IH]; cbn [header_key]; [reflexivity|].
  destruct (bytes_eqb (lower k) (lower name)) eqn:E; [now apply bytes_eqb_eq in E|exact IH].
Qed.

(* assignment through _header_key is "set this header, whatever its spelling" *)
Lemma dict_set_header_key h name v : dict_set (header_key h name) v h = put_ci name v h.
Proof.
  induction h as [|[k v'] t IH]; cbn [header_key dict_set put_ci].
  - reflexivity.
  - destruct (bytes_eqb (lower k) (lower name)) eqn:E.
    + cbn [dict_set]. now rewrite bytes_eqb_refl.
    + cbn [dict_set].
      destruct (bytes_eqb (header_key t name) k) eqn:E2.
      * apply bytes_eqb_eq in E2. rewrite <- E2, lower_header_key, bytes_eqb_refl in E. discriminate.
      * now rewrite IH.
Qed.

Lemma has_key_ci_lkeys ln h : has_key_ci ln h = true <-> In ln (lkeys h).
Proof.
  unfold has_key_ci, lkeys. rewrite existsb_exists, in_map_iff. split.
  - intros (kv & Hi & E). apply bytes_eqb_eq in E. exists kv. now split.
  - intros (kv & E & Hi). exists kv. split; [exact Hi|]. rewrite E. apply bytes_eqb_refl.
Qed.

Lemma has_key_ci_false ln h : has_key_ci ln h = false <-> ~ In ln (lkeys h).
Proof.
  rewrite <- has_key_ci_lkeys. destruct (has_key_ci ln h); split; congruence.
Qed.

Lemma put_ci_new name v h : ~ In (lower name) (lkeys h) -> put_ci name v h = h ++ [(name, v)].
Proof.
  induction h as [|[k v'] t IH]; cbn [put_ci lkeys map fst In app]; intros H; [reflexivity|].
  destruct (bytes_eqb (lower k) (lower name)) eqn:E.
  - apply bytes_eqb_eq in E. exfalso. apply H. now left.
  - rewrite IH; [reflexivity|]. intros C. apply H. now right.
Qed.

Lemma dict_set_new_ci name v h : ~ In (lower name) (lkeys h) -> dict_set name v h = h ++ [(name, v)].
Proof.
  intros H. apply dict_set_new. unfold dict_keys. intros C. apply H. unfold lkeys.
  apply in_map_iff in C as (kv & E & Hi). apply in_map_iff. exists kv. split; [now rewrite E|exact Hi].
Qed.

Lemma lkeys_put_ci name v h :
  lkeys (put_ci name v h) = if has_key_ci (lower name) h then lkeys h else lkeys h ++ [lower name].
Proof.
  induction h as [|[k v'] t IH]; cbn [put_ci lkeys map fst has_key_ci existsb]; [reflexivity|].
  destruct (bytes_eqb (lower k) (lower name)) eqn:E; cbn [orb map fst]; [reflexivity|].
  fold (lkeys (put_ci name v t)). rewrite IH. fold (has_key_ci (lower name) t).
  destruct (has_key_ci (lower name) t); reflexivity.
Qed.

Lemma bytes_eqb_spec x y : reflect (x = y) (bytes_eqb x y).
Proof.
  destruct (bytes_eqb x y) eqn:E; constructor.
  - now apply bytes_eqb_eq.
  - intros C. apply bytes_eqb_eq in C. congruence.
Qed.

Lemma get_ci_cons ln k v t :
  get_ci ln ((k, v) :: t) = if bytes_eqb (lower k) ln then Some v else get_ci ln t.
Proof. unfold get_ci. cbn [find fst]. destruct (bytes_eqb (lower k) ln); reflexivity. Qed.

Lemma get_ci_put_ci ln name v h :
  get_ci ln (put_ci name v h) = if bytes_eqb ln (lower name) then Some v else get_ci ln h.
Proof.
  induction h as [|[k v'] t IH]; cbn [put_ci].
  - rewrite get_ci_cons. destruct (bytes_eqb_spec (lower name) ln), (bytes_eqb_spec ln (lower name));
      try reflexivity; congruence.
  - destruct (bytes_eqb_spec (lower k) (lower name)) as [E|E]; rewrite !get_ci_cons.
    + rewrite E. destruct (bytes_eqb_spec (lower name) ln), (bytes_eqb_spec ln (lower name));
        try reflexivity; congruence.
    + rewrite IH. destruct (bytes_eqb_spec (lower k) ln), (bytes_eqb_spec ln (lower name));
        try reflexivity; congruence.
Qed.

Lemma get_ci_none ln h : get_ci ln h = None <-> ~ In ln (lkeys h).
Proof.
  induction h as [|[k v] t IH]; [cbn; tauto|]. rewrite get_ci_cons. cbn [lkeys map fst In].
  destruct (bytes_eqb_spec (lower k) ln) as [E|E].
  - split; [discriminate|]. intros H. exfalso. apply H. now left.
  - rewrite IH. unfold lkeys. tauto.
Qed.

Lemma get_ci_some_in ln h v : get_ci ln h = Some v -> In ln (lkeys h).
Proof.
  intros H. destruct (in_dec (list_eq_dec N.eq_dec) ln (lkeys h)) as [Hi|Hn]; [exact Hi|].
  apply get_ci_none in Hn. congruence.
Qed.

(* nodup_ci is NoDup of the lower-cased names *)
Lemma nodup_ci_NoDup (h : bdict) : nodup_ci (map fst h) = true <-> NoDup (lkeys h).
Proof.
  induction h as [|[k v] t IH]; cbn [map fst nodup_ci lkeys]; [split; [constructor|reflexivity]|].
  fold (lkeys t). rewrite andb_true_iff, negb_true_iff, IH. split.
  - intros [H1 H2]. constructor; [|exact H2]. intros C. unfold lkeys in C.
    apply in_map_iff in C as ([k2 v2] & E & Hi). cbn [fst] in E.
    assert (X : existsb (fun k0 => bytes_eqb (lower k0) (lower k)) (map fst t) = true).
    { apply existsb_exists. exists k2. split; [apply in_map_iff; exists (k2, v2); now split|].
      rewrite E. apply bytes_eqb_refl. }
    congruence.
  - intros H. inversion H as [|? ? Hn Hd]; subst. split; [|assumption].
    destruct (existsb _ (map fst t)) eqn:X; [|reflexivity]. exfalso.
    apply existsb_exists in X as (k2 & Hi & E). apply bytes_eqb_eq in E.
    apply in_map_iff in Hi as ([k3 v3] & E2 & Hi). cbn [fst] in E2. subst k3.
    apply Hn. unfold lkeys. apply in_map_iff. exists (k2, v3). now split.
Qed.

(* a header map the parser reads back as it is *)
Definition wfh (h : bdict) : Prop := forallb ok_header h = true /\ NoDup (lkeys h).

Lemma wfh_put_ci name v h : wfh h -> ok_name name = true -> ok_value v = true -> wfh (put_ci name v h).
Proof.
  intros [H1 H2] Hn Hv. split.
  - clear H2. induction h as [|[k v0] t IH]; cbn [put_ci forallb].
    + unfold ok_header. cbn [fst snd]. now rewrite Hn, Hv.
    + cbn [forallb] in H1. apply andb_true_iff in H1 as [Hk Ht].
      destruct (bytes_eqb (lower k) (lower name)); cbn [forallb].
      * rewrite Ht, andb_true_r. unfold ok_header in *. cbn [fst snd] in *.
        apply andb_true_iff in Hk as [Hk _]. now rewrite Hk, Hv.
      * now rewrite Hk, IH.
  - rewrite lkeys_put_ci. destruct (has_key_ci (lower name) h) eqn:E; [exact H2|].
    apply NoDup_snoc; [exact H2|]. now apply has_key_ci_false.
Qed.

(* splitting a header map at its only header of a given name *)
Lemma split_at_ci ln h v : NoDup (lkeys h) -> get_ci ln h = Some v ->
  exists h1 hn h2, h = h1 ++ (hn, v) :: h2 /\ lower hn = ln /\ ~ In ln (lkeys h1) /\ ~ In ln (lkeys h2).
Proof.
  induction h as [|[k v0] t IH]; intros Hnd Hg; [discriminate|].
  rewrite get_ci_cons in Hg. cbn [lkeys map fst] in Hnd. fold (lkeys t) in Hnd.
  inversion Hnd as [|? ? Hn Hd]; subst.
  destruct (bytes_eqb_spec (lower k) ln) as [E|E].
  - inversion Hg; subst. exists [], k, t. repeat split; [intros []|assumption].
  - destruct (IH Hd Hg) as (h1 & hn & h2 & -> & E1 & N1 & N2).
    exists ((k, v0) :: h1), hn, h2. repeat split; try assumption.
    cbn [lkeys map fst In]. fold (lkeys h1). tauto.
Qed.

(* ---- the builders put on the wire exactly the header map of their specification ---- *)
Lemma req_tail_spec (ua : bytes) (h1 : bdict) (bd : option bytes) (noua close : bool) :
  (let h2 := if truthy bd && negb (has_key_ci TRANSFER_ENCODING h1)
             then dict_set (header_key h1 H_CONTENT_LENGTH) (bytes_of_N (len (or_empty bd))) h1 else h1 in
   let h3 := if negb (has_key_ci L_USER_AGENT h1) && negb noua then dict_set H_USER_AGENT ua h2 else h2 in
   if close then dict_set (header_key h3 H_CONNECTION) V_CLOSE h3 else h3) =
  (let h2 := if truthy bd && negb (has_key_ci TRANSFER_ENCODING h1)
             then put_ci H_CONTENT_LENGTH (dec_of_N (len (or_empty bd))) h1 else h1 in
   let h3 := if negb (has_key_ci L_USER_AGENT h1) && negb noua then h2 ++ [(H_USER_AGENT, ua)] else h2 in
   if close then put_ci H_CONNECTION V_CLOSE h3 else h3).
Proof.
  cbv zeta. unfold bytes_of_N.
  assert (UAnew : forall v, has_key_ci L_USER_AGENT h1 = false ->
            ~ In (lower H_USER_AGENT) (lkeys h1) /\ ~ In (lower H_USER_AGENT) (lkeys (put_ci H_CONTENT_LENGTH v h1))).
  { intros v U. apply has_key_ci_false in U. change (lower H_USER_AGENT) with L_USER_AGENT. split; [exact U|].
    rewrite lkeys_put_ci. destruct (has_key_ci (lower H_CONTENT_LENGTH) h1); [exact U|].
    intros C. apply in_app_or in C as [C|[C|[]]]; [now apply U|discriminate C]. }
  destruct (truthy bd && negb (has_key_ci TRANSFER_ENCODING h1)) eqn:B;
    destruct (has_key_ci L_USER_AGENT h1) eqn:U; destruct noua; destruct close; cbn [negb andb];
    rewrite ?dict_set_header_key; try reflexivity;
    destruct (UAnew (dec_of_N (len (or_empty bd))) eq_refl) as [U1 U2];
    rewrite dict_set_new_ci by assumption; reflexivity.
Qed.

Lemma request_headers_spec ua a :
  pkt_headers (Some (request_headers ua (ra_ctype a) (ra_headers a) (ra_body a) (ra_noua a))) (ra_close a)
  = expected_request_headers ua a.
Proof.
  unfold pkt_headers, request_headers, expected_request_headers, arg_headers.
  set (h0 := match ra_headers a with Some d => d | None => [] end).
  destruct (ra_ctype a) as [ct|].
  - rewrite (dict_set_header_key h0 H_CONTENT_TYPE ct).
    exact (req_tail_spec ua (put_ci H_CONTENT_TYPE ct h0) (ra_body a) (ra_noua a) (ra_close a)).
  - exact (req_tail_spec ua h0 (ra_body a) (ra_noua a) (ra_close a)).
Qed.

Lemma response_headers_spec a :
  pkt_headers (Some (response_headers (sa_headers a) (sa_body a) (sa_nocl a))) (sa_close a)
  = expected_response_headers a.
Proof.
  unfold pkt_headers, response_headers, expected_response_headers, arg_headers.
  set (h0 := match sa_headers a with Some d => d | None => [] end). unfold bytes_of_N.
  destruct (negb (has_key_ci TRANSFER_ENCODING h0) && negb (sa_nocl a)); destruct (sa_close a);
    rewrite ?dict_set_header_key; reflexivity.
Qed.

Lemma header_lines_render hs : header_lines hs = render_hdrs hs.
Proof.
  unfold render_hdrs. induction hs as [|[k v] t IH]; [reflexivity|].
  cbn [header_lines map concat]. rewrite IH. unfold build_http_header, render_hdr. cbn [fst snd app].
  now rewrite <- !app_assoc.
Qed.

(* ---- from the boolean domain to the hypotheses of the parser lemmas ---- *)
Lemma no_cr_cr l : no_cr l = true -> ~ In CR l.
Proof. intros H Hi. pose proof (forallb_In _ _ _ H Hi) as C. discriminate C. Qed.
Lemma no_sp_sp l : no_sp l = true -> ~ In SP l.
Proof. intros H Hi. pose proof (forallb_In _ _ _ H Hi) as C. discriminate C. Qed.

Lemma stripped_strip l : stripped l = true -> strip l = l.
Proof.
  intros H. apply strip_ends. destruct l as [|x t]; [exact I|].
  unfold stripped in H. apply andb_true_iff in H as [H1 H2]. now apply negb_true_iff in H1, H2.
Qed.

Lemma ok_header_hdr_ok kv : ok_header kv = true -> hdr_ok kv.
Proof.
  unfold ok_header, ok_name, ok_value, hdr_ok. intros H.
  apply andb_true_iff in H as [Hn Hv]. apply andb_true_iff in Hv as [Hv1 Hv2].
  apply andb_true_iff in Hn as [Hn Hn4]. apply andb_true_iff in Hn as [Hn Hn3].
  apply andb_true_iff in Hn as [Hn1 Hn2].
  repeat apply conj.
  - now apply nonempty_ne.
  - now apply stripped_strip.
  - now apply stripped_strip.
  - intros Hi. pose proof (forallb_In _ _ _ Hn3 Hi) as C. discriminate C.
  - now apply no_cr_cr.
  - now apply no_cr_cr.
Qed.

Definition lift1 (kv : bytes * bytes) : bytes * (bytes * bytes) := (lower (fst kv), (fst kv, snd kv)).

Lemma fold_hd_add hs : forall acc, NoDup (dict_keys acc ++ lkeys hs) ->
  fold_left hd_add hs acc = acc ++ map lift1 hs.
Proof.
  induction hs as [|[k v] t IH]; intros acc H; cbn [fold_left map]; [now rewrite app_nil_r|].
  unfold hd_add at 2. cbn [fst].
  assert (Hn : ~ In (lower k) (dict_keys acc)).
  { cbn [lkeys map fst] in H. intros C. apply NoDup_remove_2 in H. apply H. apply in_or_app. now left. }
  rewrite dict_set_new by exact Hn. rewrite IH.
  - unfold lift1 at 2. cbn [fst snd]. now rewrite <- app_assoc.
  - unfold dict_keys in *. rewrite map_app. cbn [map fst]. rewrite <- app_assoc. exact H.
Qed.

Lemma add_all_lift hs : NoDup (lkeys hs) -> add_all None hs = lift_headers hs.
Proof.
  intros H. rewrite add_all_spec. unfold lift_headers. destruct hs as [|kv t]; [reflexivity|].
  rewrite fold_hd_add by exact H. reflexivity.
Qed.

(* how the header map frames the bytes that follow the blank line *)
Definition framing_rel (hs : bdict) (wire decoded : bytes) : Prop :=
  match get_ci TRANSFER_ENCODING hs with
  | Some te => lower te = CHUNKED /\ get_ci CONTENT_LENGTH hs = None /\
               exists s, wf_chunked s = true /\ wire = render_chunked s /\ decoded = ref_dechunk s
  | None => match get_ci CONTENT_LENGTH hs with
            | Some cl => int10 cl = Ok (Z.of_nat (length wire)) /\ decoded = wire
            | None => wire = [] /\ decoded = []
            end
  end.

Lemma others_ok (h : bdict) : Forall hdr_ok h ->
  ~ In CONTENT_LENGTH (lkeys h) -> ~ In TRANSFER_ENCODING (lkeys h) -> Forall other_ok h.
Proof.
  intros H N1 N2. apply Forall_forall. intros kv Hi. split; [rewrite Forall_forall in H; now apply H|].
  split; intros C; [apply N1|apply N2]; rewrite <- C; unfold lkeys; apply in_map_iff; exists kv; now split.
Qed.

Lemma forallb_app_inv {A} (f : A -> bool) a b : forallb f (a ++ b) = true -> forallb f a = true /\ forallb f b = true.
Proof. rewrite forallb_app. apply andb_true_iff. Qed.

Lemma lkeys_app a b : lkeys (a ++ b) = lkeys a ++ lkeys b.
Proof. unfold lkeys. apply map_app. Qed.

(* the same, with the parser-side (Prop) header conditions of Http/ParserFacts.v *)
Definition wfhP (h : bdict) : Prop := Forall hdr_ok h /\ NoDup (lkeys h).
Lemma wfh_wfhP h : wfh h -> wfhP h.
Proof.
  intros [H1 H2]. split; [|exact H2]. apply Forall_forall. intros kv Hi.
  apply ok_header_hdr_ok. exact (forallb_In _ _ _ H1 Hi).
Qed.

(* every framed header map + body is a message of Http/ParserFacts.v *)
Lemma to_message sl hs wire decoded : wfhP hs -> framing_rel hs wire decoded ->
  exists m, m_start m = sl /\ all_hdrs m = hs /\ framing_bytes (m_framing m) = wire /\
            Forall other_ok (m_hs1 m) /\ ParserFacts.framing_ok (m_framing m) /\ Forall other_ok (m_hs2 m) /\
            match m_framing m with
            | FNone => decoded = [] /\ get_ci TRANSFER_ENCODING hs = None
            | FLength _ _ bd => decoded = bd /\ get_ci TRANSFER_ENCODING hs = None
            | FChunked _ _ s => decoded = stream_body s /\ get_ci TRANSFER_ENCODING hs <> None
            end.
Proof.
  intros [Hok Hnd] Hf. unfold framing_rel in Hf.
  destruct (get_ci TRANSFER_ENCODING hs) as [te|] eqn:TE.
  - destruct Hf as (Hte & Hcl & s & Ws & -> & ->).
    destruct (split_at_ci _ _ _ Hnd TE) as (h1 & hn & h2 & -> & E1 & N1 & N2).
    apply get_ci_none in Hcl. rewrite lkeys_app in Hcl. cbn [lkeys map fst] in Hcl. fold (lkeys h2) in Hcl.
    apply Forall_app in Hok as [Ho1 Ho2]. inversion Ho2 as [|? ? Hoh Ho2']; subst. clear Ho2. rename Ho2' into Ho2.
    exists {| m_start := sl; m_hs1 := h1; m_framing := FChunked hn te (stream_of s); m_hs2 := h2 |}.
    cbn [m_start m_hs1 m_framing m_hs2 framing_bytes].
    refine (conj _ (conj _ (conj _ (conj _ (conj _ (conj _ _)))))).
    + reflexivity.
    + reflexivity.
    + apply render_stream_of.
    + apply others_ok; [exact Ho1| |exact N1]. intros C. apply Hcl. apply in_or_app. now left.
    + cbn [ParserFacts.framing_ok]. refine (conj _ (conj _ (conj _ _)));
        [exact Hoh|exact E1|exact Hte|now apply wf_chunked_stream_ok].
    + apply others_ok; [exact Ho2| |exact N2]. intros C. apply Hcl. apply in_or_app. right. now right.
    + split; [symmetry; apply stream_body_of|congruence].
  - destruct (get_ci CONTENT_LENGTH hs) as [cl|] eqn:CL.
    + destruct Hf as (Hi & ->).
      destruct (split_at_ci _ _ _ Hnd CL) as (h1 & hn & h2 & -> & E1 & N1 & N2).
      apply get_ci_none in TE. rewrite lkeys_app in TE. cbn [lkeys map fst] in TE. fold (lkeys h2) in TE.
      apply Forall_app in Hok as [Ho1 Ho2]. inversion Ho2 as [|? ? Hoh Ho2']; subst. clear Ho2. rename Ho2' into Ho2.
      exists {| m_start := sl; m_hs1 := h1; m_framing := FLength hn cl wire; m_hs2 := h2 |}.
      cbn [m_start m_hs1 m_framing m_hs2 framing_bytes].
    refine (conj _ (conj _ (conj _ (conj _ (conj _ (conj _ _)))))).
      * reflexivity.
      * reflexivity.
      * reflexivity.
      * apply others_ok; [exact Ho1|exact N1|]. intros C. apply TE. apply in_or_app. now left.
      * cbn [ParserFacts.framing_ok]. refine (conj _ (conj _ _)); [exact Hoh|exact E1|exact Hi].
      * apply others_ok; [exact Ho2|exact N2|]. intros C. apply TE. apply in_or_app. right. now right.
      * split; reflexivity.
    + destruct Hf as (-> & ->). pose proof TE as TE0. apply get_ci_none in TE, CL.
      exists {| m_start := sl; m_hs1 := hs; m_framing := FNone; m_hs2 := [] |}.
      cbn [m_start m_hs1 m_framing m_hs2 framing_bytes].
      refine (conj _ (conj _ (conj _ (conj _ (conj _ (conj _ _)))))); try reflexivity.
      * unfold all_hdrs. cbn [m_hs1 m_framing m_hs2 framing_hdrs app]. apply app_nil_r.
      * now apply others_ok.
      * constructor.
      * split; reflexivity.
Qed.

Definition sl_type (sl : start_line) : ptype :=
  match sl with ReqLine _ _ _ _ => REQUEST_PARSER | StatusLine _ _ _ => RESPONSE_PARSER end.

(* the start-line fields a parser must report *)
Definition start_fields (sl : start_line) (p : parser) : Prop :=
  match sl with
  | ReqLine mt tg v u =>
      let tn := bytes_eqb mt CONNECT in
      method p = Some mt /\ purl p = Some u /\ version p = Some v /\ is_https_tunnel p = tn /\
      (host p, port p, path p) = line_attributes tn u /\ code p = None /\ reason p = None
  | StatusLine v c rs =>
      version p = Some v /\ code p = Some c /\ reason p = rs /\ method p = None /\
      host p = None /\ port p = None /\ path p = None
  end.

(* KEY LEMMA: a rendered start line + header map + framed body parses, in one piece, to a COMPLETE
   message with exactly these fields, and nothing is left over *)
Lemma parse_rendered sl hs wire decoded :
  start_ok DEFAULT_ALLOWED_URL_SCHEMES sl -> wfhP hs -> framing_rel hs wire decoded ->
  exists p, parse (new_parser (sl_type sl)) (render_start sl ++ CRLF ++ render_hdrs hs ++ CRLF ++ wire) = Ok p /\
            state p = COMPLETE /\ buffer p = None /\ start_fields sl p /\
            headers p = lift_headers hs /\ bodyb p = decoded /\
            is_chunked_encoded p = match get_ci TRANSFER_ENCODING hs with Some _ => true | None => false end.
Proof.
  intros Hs Hw Hf. destruct (to_message sl hs wire decoded Hw Hf) as (m & E1 & E2 & E3 & O1 & Of & O2 & Hb).
  assert (Hm : message_ok DEFAULT_ALLOWED_URL_SCHEMES m) by (unfold message_ok; rewrite E1; tauto).
  assert (Ht : tail_ok m []) by (unfold tail_ok; destruct (m_start m); destruct (m_framing m); exact I || reflexivity).
  pose proof (complete_at_end _ m [] Hm Ht) as P.
  assert (Er : render m ++ [] = render_start sl ++ CRLF ++ render_hdrs hs ++ CRLF ++ wire).
  { rewrite app_nil_r. unfold render. now rewrite E1, E2, E3. }
  rewrite Er in P. assert (Ety : msg_type m = sl_type sl) by (unfold msg_type; now rewrite E1).
  rewrite Ety in P. exists (expected m []). split; [exact P|].
  destruct (expected_fields m []) as (F1 & F2 & _ & F4 & F5 & F6).
  split; [exact F1|]. split; [exact F2|]. split; [unfold start_fields; rewrite <- E1; exact F6|].
  split; [rewrite F4, E2; apply add_all_lift, Hw|].
  split.
  - unfold bodyb. rewrite F5. destruct (m_framing m) as [|hn hv bd|hn hv s]; destruct Hb as [-> _]; try reflexivity.
    apply optb_inv.
  - unfold expected, final_of.
    destruct (m_framing m) as [|hn hv [|b0 bd]|hn hv s]; destruct Hb as [_ Hb];
      cbn [set_buffer_size set_state set_headers set_body set_chunk is_chunked_encoded];
      try (rewrite Hb; reflexivity).
    destruct (get_ci TRANSFER_ENCODING hs); [reflexivity|congruence].
Qed.

(* ===================================================================================== *)
(* parse (build args) = args                                                              *)

Definition cond_put (b : bool) (name v : bytes) (h : bdict) : bdict := if b then put_ci name v h else h.

Lemma wfh_cond_put b name v h : wfh h -> ok_name name = true -> (b = true -> ok_value v = true) -> wfh (cond_put b name v h).
Proof. intros H Hn Hv. destruct b; [apply wfh_put_ci; auto|exact H]. Qed.

Lemma get_ci_cond_put ln b name v h :
  get_ci ln (cond_put b name v h) = if b && bytes_eqb ln (lower name) then Some v else get_ci ln h.
Proof. destruct b; cbn [cond_put andb]; [apply get_ci_put_ci|reflexivity]. Qed.

Lemma has_key_ci_get ln h : has_key_ci ln h = match get_ci ln h with Some _ => true | None => false end.
Proof.
  destruct (get_ci ln h) eqn:E.
  - apply has_key_ci_lkeys. eapply get_ci_some_in; eassumption.
  - apply has_key_ci_false. now apply get_ci_none.
Qed.

(* the specification header map as a sequence of conditional "set header" steps *)
Lemma expected_request_headers_puts ua a :
  let h0 := arg_headers (ra_headers a) in
  let h1 := match ra_ctype a with Some ct => put_ci H_CONTENT_TYPE ct h0 | None => h0 end in
  expected_request_headers ua a =
  cond_put (ra_close a) H_CONNECTION V_CLOSE
    (cond_put (negb (has_key_ci L_USER_AGENT h1) && negb (ra_noua a)) H_USER_AGENT ua
       (cond_put (truthy (ra_body a) && negb (has_key_ci TRANSFER_ENCODING h1)) H_CONTENT_LENGTH
                 (dec_of_N (len (or_empty (ra_body a)))) h1)).
Proof.
  cbv zeta. unfold expected_request_headers.
  set (h1 := match ra_ctype a with Some ct => put_ci H_CONTENT_TYPE ct (arg_headers (ra_headers a)) | None => _ end).
  fold (cond_put (truthy (ra_body a) && negb (has_key_ci TRANSFER_ENCODING h1)) H_CONTENT_LENGTH
                 (dec_of_N (len (or_empty (ra_body a)))) h1).
  set (h2 := cond_put _ H_CONTENT_LENGTH _ h1).
  assert (E : (if negb (has_key_ci L_USER_AGENT h1) && negb (ra_noua a) then h2 ++ [(H_USER_AGENT, ua)] else h2) =
              cond_put (negb (has_key_ci L_USER_AGENT h1) && negb (ra_noua a)) H_USER_AGENT ua h2).
  { unfold cond_put at 1. destruct (has_key_ci L_USER_AGENT h1) eqn:U; [reflexivity|]. cbn [negb andb].
    destruct (ra_noua a); [reflexivity|]. cbn [negb]. symmetry. apply put_ci_new.
    change (lower H_USER_AGENT) with L_USER_AGENT. apply get_ci_none. unfold h2.
    rewrite get_ci_cond_put. change (bytes_eqb L_USER_AGENT (lower H_CONTENT_LENGTH)) with false.
    rewrite andb_false_r. apply get_ci_none. now apply has_key_ci_false. }
  rewrite E. reflexivity.
Qed.

Lemma all_digits_ok_value l : l <> [] -> all_digits l = true -> ok_value l = true.
Proof.
  intros Hne Hd. unfold ok_value. apply andb_true_iff. split.
  - apply forallb_forall. intros x Hx. pose proof (is_digit_range _ (forallb_In _ _ _ Hd Hx)) as R.
    unfold CR. destruct (N.eqb_spec x 13); [lia|]. reflexivity.
  - destruct l as [|x t]; [congruence|]. unfold stripped. apply andb_true_iff. split; apply negb_true_iff, digit_not_ws.
    + cbn [all_digits forallb] in Hd. now apply andb_true_iff in Hd as [? _].
    + apply (forallb_In _ _ _ Hd). destruct (exists_last (l := x :: t)) as (l' & y & E); [discriminate|].
      rewrite E, last_last. apply in_or_app. right. now left.
Qed.

Lemma dec_ok_value n : ok_value (dec_of_N n) = true.
Proof. destruct (dec_of_N_spec n) as (H1 & H2 & _). now apply all_digits_ok_value. Qed.

Lemma wire_or_empty (b : option bytes) : (if truthy b then or_empty b else []) = or_empty b.
Proof. destruct b as [[|x t]|]; reflexivity. Qed.

Lemma len_Z (l : bytes) : Z.of_N (len l) = Z.of_nat (length l).
Proof. unfold len. apply nat_N_Z. Qed.

(* from the boolean framing guard on the caller's arguments to the framing of the final header map *)
Lemma framing_from_args h0 hs bd builder_cl :
  args_framing_ok h0 bd builder_cl = true ->
  get_ci TRANSFER_ENCODING hs = get_ci TRANSFER_ENCODING h0 ->
  get_ci CONTENT_LENGTH hs =
    (if builder_cl && negb (has_key_ci TRANSFER_ENCODING h0)
     then Some (if truthy bd then dec_of_N (len (or_empty bd)) else [48]) else get_ci CONTENT_LENGTH h0) ->
  (builder_cl = true -> truthy bd = false -> bd = bd) ->
  framing_rel hs (or_empty bd) (Grammar.expected_body hs bd).
Proof.
  intros Ha Hte Hcl _. unfold framing_rel, Grammar.expected_body. rewrite Hte, Hcl.
  unfold args_framing_ok in Ha. rewrite has_key_ci_get.
  destruct (get_ci TRANSFER_ENCODING h0) as [te|] eqn:TE.
  - rewrite andb_false_r.
    apply andb_true_iff in Ha as [Ha Hn]. apply andb_true_iff in Ha as [Ha Hc].
    apply bytes_eqb_eq in Ha. apply negb_true_iff in Hn. rewrite has_key_ci_get in Hn.
    destruct (get_ci CONTENT_LENGTH h0); [discriminate|].
    destruct (is_chunked_body_inv _ Hc) as (s & Ws & Er & Ed).
    split; [exact Ha|]. split; [reflexivity|]. exists s. rewrite Ed. now repeat split.
  - rewrite andb_true_r. destruct builder_cl.
    + destruct (truthy bd) eqn:T.
      * split; [|reflexivity]. rewrite int10_dec_of_N.
        -- now rewrite len_Z.
        -- unfold len_ok in Ha. now apply Nat.leb_le.
      * split; [|reflexivity]. destruct bd as [[|x t]|]; try discriminate; reflexivity.
    + destruct (get_ci CONTENT_LENGTH h0) as [cl|].
      * unfold cl_announces in Ha. destruct (int10 cl) as [z|] eqn:I; [|discriminate].
        split; [|reflexivity]. destruct (truthy bd) eqn:T.
        -- apply Z.eqb_eq in Ha. subst z. now rewrite len_Z.
        -- apply Z.eqb_eq in Ha. subst z. destruct bd as [[|x t]|]; try discriminate; reflexivity.
      * apply negb_true_iff in Ha. destruct bd as [[|x t]|]; try discriminate; split; reflexivity.
Qed.

Lemma join_sp3 a b c : join [SP] [a; b; c] = a ++ SP :: b ++ SP :: c.
Proof. reflexivity. Qed.
Lemma join_sp2 a b : join [SP] [a; b] = a ++ SP :: b.
Proof. reflexivity. Qed.

Lemma wf_arg_headers (h : option bdict) :
  forallb ok_header (arg_headers h) = true -> nodup_ci (map fst (arg_headers h)) = true -> wfh (arg_headers h).
Proof. intros H1 H2. split; [exact H1|now apply nodup_ci_NoDup]. Qed.

(* C15_parse_build_request *)
Theorem parse_build_request ua a u :
  wf_req_args ua a = true -> from_bytes DEFAULT_ALLOWED_URL_SCHEMES (ra_url a) = Ok u ->
  exists p, parse (new_parser REQUEST_PARSER) (build_request ua a) = Ok p /\
    state p = COMPLETE /\ buffer p = None /\
    method p = Some (ra_method a) /\ version p = Some (ra_version a) /\ purl p = Some u /\
    is_https_tunnel p = bytes_eqb (ra_method a) CONNECT /\
    (host p, port p, path p) = line_attributes (bytes_eqb (ra_method a) CONNECT) u /\
    headers p = lift_headers (expected_request_headers ua a) /\
    bodyb p = Grammar.expected_body (expected_request_headers ua a) (ra_body a).
Proof.
  intros W Hu. unfold wf_req_args in W.
  repeat (apply andb_true_iff in W as [W ?]).
  match goal with H : args_framing_ok _ _ _ = true |- _ => rename H into Hfr end.
  match goal with H : (ra_noua a || ok_value ua) = true |- _ => rename H into Hua end.
  match goal with H : match ra_ctype a with Some _ => _ | None => _ end = true |- _ => rename H into Hct end.
  match goal with H : nodup_ci _ = true |- _ => rename H into Hnd end.
  match goal with H : forallb ok_header _ = true |- _ => rename H into Hok end.
  set (sl := ReqLine (ra_method a) (ra_url a) (ra_version a) u).
  set (hs := expected_request_headers ua a).
  assert (Eb : build_request ua a = render_start sl ++ CRLF ++ render_hdrs hs ++ CRLF ++ or_empty (ra_body a)).
  { unfold build_request, build_http_request, build_http_pkt.
    rewrite request_headers_spec, header_lines_render, join_sp3, wire_or_empty.
    unfold sl, render_start. now rewrite <- !app_assoc. }
  assert (Hs : start_ok DEFAULT_ALLOWED_URL_SCHEMES sl).
  { unfold sl, start_ok, tok. repeat split; auto using no_sp_sp, no_cr_cr. }
  pose proof (wf_arg_headers _ Hok Hnd) as W0.
  set (h0 := arg_headers (ra_headers a)) in *.
  set (h1 := match ra_ctype a with Some ct => put_ci H_CONTENT_TYPE ct h0 | None => h0 end).
  assert (W1 : wfh h1).
  { unfold h1. destruct (ra_ctype a) as [ct|]; [apply wfh_put_ci; [exact W0|reflexivity|exact Hct]|exact W0]. }
  assert (TE1 : get_ci TRANSFER_ENCODING h1 = get_ci TRANSFER_ENCODING h0).
  { unfold h1. destruct (ra_ctype a); [|reflexivity]. now rewrite get_ci_put_ci. }
  assert (CL1 : get_ci CONTENT_LENGTH h1 = get_ci CONTENT_LENGTH h0).
  { unfold h1. destruct (ra_ctype a); [|reflexivity]. now rewrite get_ci_put_ci. }
  pose proof (expected_request_headers_puts ua a) as Ep. cbv zeta in Ep. fold h0 h1 hs in Ep.
  assert (Hw : wfh hs).
  { rewrite Ep. apply wfh_cond_put; [|reflexivity|reflexivity].
    apply wfh_cond_put; [|reflexivity|].
    - apply wfh_cond_put; [exact W1|reflexivity|intros _; apply dec_ok_value].
    - intros B. apply andb_true_iff in B as [_ B]. apply negb_true_iff in B. rewrite B in Hua. exact Hua. }
  assert (Hf : framing_rel hs (or_empty (ra_body a)) (Grammar.expected_body hs (ra_body a))).
  { apply (framing_from_args h0 hs (ra_body a) (truthy (ra_body a))); [exact Hfr| | |auto].
    - rewrite Ep, !get_ci_cond_put.
      change (bytes_eqb TRANSFER_ENCODING (lower H_CONNECTION)) with false.
      change (bytes_eqb TRANSFER_ENCODING (lower H_USER_AGENT)) with false.
      change (bytes_eqb TRANSFER_ENCODING (lower H_CONTENT_LENGTH)) with false.
      rewrite !andb_false_r. exact TE1.
    - rewrite Ep, !get_ci_cond_put.
      change (bytes_eqb CONTENT_LENGTH (lower H_CONNECTION)) with false.
      change (bytes_eqb CONTENT_LENGTH (lower H_USER_AGENT)) with false.
      change (bytes_eqb CONTENT_LENGTH (lower H_CONTENT_LENGTH)) with true.
      rewrite !andb_false_r, andb_true_r.
      rewrite (has_key_ci_get TRANSFER_ENCODING h1), TE1, <- (has_key_ci_get TRANSFER_ENCODING h0).
      destruct (truthy (ra_body a)) eqn:T; cbn [andb]; [|exact CL1].
      destruct (has_key_ci TRANSFER_ENCODING h0); cbn [negb]; [exact CL1|reflexivity]. }
  destruct (parse_rendered sl hs _ _ Hs (wfh_wfhP _ Hw) Hf) as (p & P & S1 & S2 & S3 & S4 & S5 & _).
  exists p. rewrite Eb. split; [exact P|].
  unfold start_fields, sl in S3. destruct S3 as (F1 & F2 & F3 & F4 & F5 & _ & _).
  repeat apply conj; assumption.
Qed.

Lemma dec_of_Z_tok z : tok (dec_of_Z z).
Proof.
  assert (G : forall n, ~ In SP (dec_of_N n) /\ ~ In CR (dec_of_N n)).
  { intros n. destruct (dec_of_N_spec n) as (_ & Hd & _).
    split; intros Hi; pose proof (is_digit_range _ (forallb_In _ _ _ Hd Hi)) as R; unfold SP, CR in R; lia. }
  unfold tok, dec_of_Z. destruct z as [|q|q]; try apply G.
  destruct (G (N.pos q)) as [G1 G2]. split; intros [C|C]; try discriminate C; auto.
Qed.

(* C15_parse_build_response *)
Theorem parse_build_response a :
  wf_resp_args a = true ->
  exists p, parse (new_parser RESPONSE_PARSER) (build_response_of a) = Ok p /\
    state p = COMPLETE /\ buffer p = None /\
    version p = Some (sa_version a) /\ code p = Some (dec_of_Z (sa_status a)) /\
    reason p = (if truthy (sa_reason a) then sa_reason a else None) /\
    headers p = lift_headers (expected_response_headers a) /\
    bodyb p = Grammar.expected_body (expected_response_headers a) (sa_body a).
Proof.
  intros W. unfold wf_resp_args in W.
  repeat (apply andb_true_iff in W as [W ?]).
  match goal with H : args_framing_ok _ _ _ = true |- _ => rename H into Hfr end.
  match goal with H : nodup_ci _ = true |- _ => rename H into Hnd end.
  match goal with H : forallb ok_header _ = true |- _ => rename H into Hok end.
  match goal with H : no_cr (or_empty _) = true |- _ => rename H into Hrs end.
  match goal with H : no_cr (sa_version a) = true |- _ => rename H into Hv2 end.
  rename W into Hv1.
  set (rs := if truthy (sa_reason a) then Some (or_empty (sa_reason a)) else None).
  set (sl := StatusLine (sa_version a) (dec_of_Z (sa_status a)) rs).
  set (hs := expected_response_headers a).
  assert (Eb : build_response_of a = render_start sl ++ CRLF ++ render_hdrs hs ++ CRLF ++ or_empty (sa_body a)).
  { unfold build_response_of, build_http_response, build_http_pkt.
    rewrite response_headers_spec, header_lines_render, wire_or_empty.
    unfold sl, rs, render_start, bytes_of_Z. destruct (truthy (sa_reason a)); cbn [app].
    - rewrite join_sp3. now rewrite <- !app_assoc.
    - rewrite join_sp2. now rewrite <- !app_assoc. }
  assert (Hs : start_ok DEFAULT_ALLOWED_URL_SCHEMES sl).
  { unfold sl, start_ok. split; [split; auto using no_sp_sp, no_cr_cr|]. split; [apply dec_of_Z_tok|].
    unfold rs. destruct (truthy (sa_reason a)); [now apply no_cr_cr|exact I]. }
  pose proof (wf_arg_headers _ Hok Hnd) as W0.
  set (h0 := arg_headers (sa_headers a)) in *.
  set (clv := if truthy (sa_body a) then dec_of_N (len (or_empty (sa_body a))) else [48]).
  assert (Ep : hs = cond_put (sa_close a) H_CONNECTION V_CLOSE
                      (cond_put (negb (has_key_ci TRANSFER_ENCODING h0) && negb (sa_nocl a)) H_CONTENT_LENGTH clv h0))
    by reflexivity.
  assert (Hw : wfh hs).
  { rewrite Ep. apply wfh_cond_put; [|reflexivity|reflexivity].
    apply wfh_cond_put; [exact W0|reflexivity|]. intros _. unfold clv.
    destruct (truthy (sa_body a)); [apply dec_ok_value|reflexivity]. }
  assert (Hf : framing_rel hs (or_empty (sa_body a)) (Grammar.expected_body hs (sa_body a))).
  { apply (framing_from_args h0 hs (sa_body a) (negb (sa_nocl a))); [exact Hfr| | |auto].
    - rewrite Ep, !get_ci_cond_put.
      change (bytes_eqb TRANSFER_ENCODING (lower H_CONNECTION)) with false.
      change (bytes_eqb TRANSFER_ENCODING (lower H_CONTENT_LENGTH)) with false.
      now rewrite !andb_false_r.
    - rewrite Ep, !get_ci_cond_put.
      change (bytes_eqb CONTENT_LENGTH (lower H_CONNECTION)) with false.
      change (bytes_eqb CONTENT_LENGTH (lower H_CONTENT_LENGTH)) with true.
      rewrite andb_false_r, andb_true_r. rewrite (andb_comm (negb (sa_nocl a))). reflexivity. }
  destruct (parse_rendered sl hs _ _ Hs (wfh_wfhP _ Hw) Hf) as (p & P & S1 & S2 & S3 & S4 & S5 & _).
  exists p. rewrite Eb. split; [exact P|].
  unfold start_fields, sl in S3. destruct S3 as (F1 & F2 & F3 & _).
  repeat apply conj; try assumption.
  rewrite F3. unfold rs. destruct (sa_reason a) as [[|x t]|]; reflexivity.
Qed.

(* what the builders emit, byte for byte, in terms of the specification header map *)
Theorem build_request_wire ua a :
  build_request ua a =
  ra_method a ++ [SP] ++ ra_url a ++ [SP] ++ ra_version a ++ CRLF ++
  header_lines (expected_request_headers ua a) ++ CRLF ++ or_empty (ra_body a).
Proof.
  unfold build_request, build_http_request, build_http_pkt.
  rewrite request_headers_spec, join_sp3, wire_or_empty. cbn [app].
  repeat (rewrite <- app_assoc || rewrite <- app_comm_cons). reflexivity.
Qed.

Theorem build_response_wire a :
  build_response_of a =
  sa_version a ++ [SP] ++ dec_of_Z (sa_status a) ++
  (if truthy (sa_reason a) then [SP] ++ or_empty (sa_reason a) else []) ++ CRLF ++
  header_lines (expected_response_headers a) ++ CRLF ++ or_empty (sa_body a).
Proof.
  unfold build_response_of, build_http_response, build_http_pkt.
  rewrite response_headers_spec, wire_or_empty. unfold bytes_of_Z.
  destruct (truthy (sa_reason a)); cbn [app].
  - rewrite join_sp3. cbn [app]. repeat (rewrite <- app_assoc || rewrite <- app_comm_cons). reflexivity.
  - rewrite join_sp2. cbn [app]. repeat (rewrite <- app_assoc || rewrite <- app_comm_cons). reflexivity.
Qed.

(* ===================================================================================== *)
(* parse, rebuild, parse again                                                            *)

Lemma lkeys_map_fst hs : lkeys hs = map lower (map fst hs).
Proof. unfold lkeys. now rewrite map_map. Qed.

Lemma NoDup_names hs : NoDup (lkeys hs) -> NoDup (map fst hs).
Proof. rewrite lkeys_map_fst. apply NoDup_map_inv. Qed.

Lemma rebuilt_request_headers_lift hs : forall acc, NoDup (map fst acc ++ map fst hs) ->
  rebuilt_request_headers [] None (map lift1 hs) acc = acc ++ hs.
Proof.
  induction hs as [|[k v] t IH]; intros acc H; cbn [map rebuilt_request_headers lift1 fst snd]; [now rewrite app_nil_r|].
  cbn [mem_bytes]. rewrite dict_set_new.
  - rewrite IH.
    + now rewrite <- app_assoc.
    + rewrite map_app. cbn [map fst]. rewrite <- app_assoc. exact H.
  - unfold dict_keys. cbn [map fst] in H. intros C. apply NoDup_remove_2 in H. apply H. apply in_or_app. now left.
Qed.

Lemma rebuilt_response_headers_lift hs : forall acc, NoDup (map fst acc ++ map fst hs) ->
  rebuilt_response_headers (map lift1 hs) acc = acc ++ hs.
Proof.
  induction hs as [|[k v] t IH]; intros acc H; cbn [map rebuilt_response_headers lift1 fst snd]; [now rewrite app_nil_r|].
  rewrite IH.
  - rewrite dict_set_new; [now rewrite <- app_assoc|].
    unfold dict_keys. cbn [map fst] in H. intros C. apply NoDup_remove_2 in H. apply H. apply in_or_app. now left.
  - assert (Hn : ~ In k (dict_keys acc)).
    { unfold dict_keys. cbn [map fst] in H. intros C. apply NoDup_remove_2 in H. apply H. apply in_or_app. now left. }
    rewrite dict_set_new by exact Hn. rewrite map_app. cbn [map fst]. rewrite <- app_assoc. exact H.
Qed.

(* the header map build() / build_response() hand to the builders *)
Lemma rebuilt_headers_of p hs : headers p = lift_headers hs -> NoDup (lkeys hs) ->
  match headers p with
  | Some ((_ :: _) as h) => rebuilt_request_headers [] None h []
  | _ => []
  end = hs /\
  match headers p with
  | Some ((_ :: _) as h) => rebuilt_response_headers h []
  | _ => []
  end = hs.
Proof.
  intros E Hn. rewrite E. unfold lift_headers. destruct hs as [|kv t]; [split; reflexivity|].
  fold (map lift1 (kv :: t)). cbn [map]. fold (map lift1 t).
  change (lift1 kv :: map lift1 t) with (map lift1 (kv :: t)).
  split.
  - apply (rebuilt_request_headers_lift (kv :: t) []). cbn [map app]. exact (NoDup_names (kv :: t) Hn).
  - apply (rebuilt_response_headers_lift (kv :: t) []). cbn [map app]. exact (NoDup_names (kv :: t) Hn).
Qed.

Definition path0 (p : parser) : bytes := if truthy (path p) then or_empty (path p) else [SLASH].

Definition rebuilt_req_args (p : parser) (hs : bdict) (bd : option bytes) : req_args :=
  {| ra_method := or_empty (method p); ra_url := path0 p; ra_version := or_empty (version p);
     ra_ctype := None; ra_headers := Some hs; ra_body := bd; ra_close := false; ra_noua := true |}.

Lemma build_as_builder ua p hs :
  ty p = REQUEST_PARSER -> truthy (method p) = true -> truthy (version p) = true ->
  headers p = lift_headers hs -> NoDup (lkeys hs) ->
  build ua p [] false None =
  do bd <- get_body_or_chunks p; Ok (build_request ua (rebuilt_req_args p hs bd)).
Proof.
  intros Ht Hm Hv Hh Hn. unfold build. rewrite Hm, Hv, Ht. cbn [is_request andb negb].
  destruct (get_body_or_chunks p) as [bd|e]; cbn [bind]; [|reflexivity].
  destruct (rebuilt_headers_of p hs Hh Hn) as [-> _]. reflexivity.
Qed.

Lemma put_ci_same name v h : get_ci (lower name) h = Some v -> put_ci name v h = h.
Proof.
  induction h as [|[k v0] t IH]; [discriminate|]. rewrite get_ci_cons. cbn [put_ci].
  destruct (bytes_eqb (lower k) (lower name)).
  - intros H. now inversion H.
  - intros H. now rewrite IH.
Qed.

Lemma from_bytes_origin al t : match t with x :: _ => x <> SLASH | [] => True end ->
  from_bytes al (SLASH :: t) =
  Ok {| u_scheme := None; u_username := None; u_password := None; u_hostname := None; u_port := None;
        u_remainder := Some (SLASH :: t) |}.
Proof.
  intros H. unfold from_bytes. rewrite N.eqb_refl. destruct t as [|x t']; [reflexivity|].
  destruct (N.eqb_spec x SLASH); [contradiction|]. reflexivity.
Qed.

(* the part of a parsed request that must be well-behaved for build() to make sense *)
Definition framing_consistent (p : parser) (hs : bdict) : Prop :=
  match get_ci TRANSFER_ENCODING hs with
  | Some te => lower te = CHUNKED /\ is_chunked_encoded p = true /\ get_ci CONTENT_LENGTH hs = None /\
               body p <> None
  | None => is_chunked_encoded p = false /\
            match get_ci CONTENT_LENGTH hs with
            | Some cl => if truthy (body p)
                         then cl = dec_of_N (len (bodyb p)) /\ len_ok (bodyb p) = true
                         else int10 cl = Ok 0%Z
            | None => truthy (body p) = false
            end
  end.

(* the framing of what get_body_or_chunks hands to the builder *)
Lemma rebuilt_framing p hs : framing_consistent p hs ->
  exists bd, get_body_or_chunks p = Ok bd /\
    let hs' := cond_put (truthy bd && negb (has_key_ci TRANSFER_ENCODING hs)) H_CONTENT_LENGTH
                        (dec_of_N (len (or_empty bd))) hs in
    hs' = hs /\ framing_rel hs (or_empty bd) (bodyb p).
Proof.
  unfold framing_consistent, get_body_or_chunks, framing_rel. rewrite has_key_ci_get.
  destruct (get_ci TRANSFER_ENCODING hs) as [te|] eqn:TE.
  - intros (Hte & Hc & Hcl & Hb). rewrite Hc. destruct (body p) as [b|] eqn:B; [|congruence].
    assert (Hk : 0 < DEFAULT_BUFFER_SIZE) by reflexivity.
    rewrite (to_chunks_render b _ Hk). cbn [bind]. eexists. split; [reflexivity|]. cbv zeta.
    rewrite andb_false_r. split; [reflexivity|]. split; [exact Hte|]. split; [exact Hcl|].
    exists (chunks_of b DEFAULT_BUFFER_SIZE). cbn [or_empty]. repeat split.
    + now apply chunks_of_wf.
    + unfold bodyb. rewrite B. symmetry. now apply chunks_of_dechunk.
  - intros (Hc & Hcl). rewrite Hc.
    assert (E : match body p with Some b => Ok (Some b) | None => Ok None end = Ok (body p)) by (destruct (body p); reflexivity).
    rewrite E. exists (body p). split; [reflexivity|]. cbv zeta. rewrite andb_true_r.
    assert (Eb : or_empty (body p) = bodyb p) by reflexivity. rewrite Eb.
    destruct (get_ci CONTENT_LENGTH hs) as [cl|] eqn:CL.
    + destruct (truthy (body p)) eqn:T.
      * destruct Hcl as [-> Hl]. cbn [cond_put]. split; [now apply put_ci_same|].
        split; [|reflexivity]. rewrite int10_dec_of_N by (now apply Nat.leb_le). now rewrite len_Z.
      * cbn [cond_put]. split; [reflexivity|].
        assert (bodyb p = []) as -> by (unfold bodyb; destruct (body p) as [[|x t]|]; try discriminate; reflexivity).
        split; [exact Hcl|reflexivity].
    + rewrite Hcl. cbn [cond_put]. split; [reflexivity|].
      assert (bodyb p = []) as -> by (unfold bodyb; destruct (body p) as [[|x t]|]; try discriminate; reflexivity).
      split; reflexivity.
Qed.

Lemma truthy_some (o : option bytes) x : o = Some x -> x <> [] -> truthy o = true /\ or_empty o = x.
Proof. intros -> H. destruct x; [congruence|]. split; reflexivity. Qed.

(* C15_rebuild_stable, requests, on parser states *)
Theorem rebuild_stable_request_state ua p m v hs :
  ty p = REQUEST_PARSER ->
  method p = Some m -> m <> [] -> tok m ->
  version p = Some v -> v <> [] -> ~ In CR v ->
  (truthy (path p) = false \/
   exists t, path p = Some (SLASH :: t) /\ tok (SLASH :: t) /\ match t with x :: _ => x <> SLASH | [] => True end) ->
  headers p = lift_headers hs -> wfhP hs -> framing_consistent p hs ->
  exists raw p', build ua p [] false None = Ok raw /\
    parse (new_parser REQUEST_PARSER) raw = Ok p' /\
    state p' = COMPLETE /\ buffer p' = None /\
    method p' = Some m /\ version p' = Some v /\ path p' = Some (path0 p) /\ host p' = None /\
    headers p' = headers p /\ bodyb p' = bodyb p /\ is_chunked_encoded p' = is_chunked_encoded p.
Proof.
  intros Ht Hm Hm1 Hm2 Hv Hv1 Hv2 Hp Hh Hw Hf.
  destruct (truthy_some _ _ Hm Hm1) as [Tm Em]. destruct (truthy_some _ _ Hv Hv1) as [Tv Ev].
  rewrite (build_as_builder ua p hs Ht Tm Tv Hh (proj2 Hw)).
  destruct (rebuilt_framing p hs Hf) as (bd & -> & Ehs & Hfr). cbn [bind]. cbv zeta in Ehs.
  eexists. (* raw *)
  assert (Hpath : exists t, path0 p = SLASH :: t /\ tok (SLASH :: t) /\ match t with x :: _ => x <> SLASH | [] => True end).
  { unfold path0. destruct Hp as [Hp|(t & Hp & Hp1 & Hp2)].
    - rewrite Hp. exists []. repeat split; intros [C|[]]; discriminate C.
    - rewrite Hp. cbn [truthy or_empty]. exists t. repeat split; assumption || apply Hp1. }
  destruct Hpath as (t & Ep & Tp & Sp).
  set (u := {| u_scheme := None; u_username := None; u_password := None; u_hostname := None; u_port := None;
               u_remainder := Some (SLASH :: t) |}).
  set (sl := ReqLine m (SLASH :: t) v u).
  assert (Eb : build_request ua (rebuilt_req_args p hs bd) =
               render_start sl ++ CRLF ++ render_hdrs hs ++ CRLF ++ or_empty bd).
  { unfold build_request, build_http_request, build_http_pkt, rebuilt_req_args.
    cbn [ra_method ra_url ra_version ra_ctype ra_headers ra_body ra_close ra_noua].
    pose proof (request_headers_spec ua (rebuilt_req_args p hs bd)) as S.
    unfold rebuilt_req_args in S. cbn [ra_method ra_url ra_version ra_ctype ra_headers ra_body ra_close ra_noua] in S.
    rewrite S. clear S.
    pose proof (expected_request_headers_puts ua (rebuilt_req_args p hs bd)) as Pp. cbv zeta in Pp.
    unfold rebuilt_req_args in Pp. cbn [ra_method ra_url ra_version ra_ctype ra_headers ra_body ra_close ra_noua arg_headers] in Pp.
    rewrite Pp. clear Pp. rewrite andb_false_r. cbn [cond_put]. fold (cond_put (truthy bd && negb (has_key_ci TRANSFER_ENCODING hs)) H_CONTENT_LENGTH (dec_of_N (len (or_empty bd))) hs).
    rewrite Ehs, header_lines_render, join_sp3, wire_or_empty, Em, Ev, Ep.
    unfold sl, render_start. now rewrite <- !app_assoc. }
  assert (Hs : start_ok DEFAULT_ALLOWED_URL_SCHEMES sl).
  { unfold sl, start_ok. repeat split; try apply Hm2; try apply Tp; try assumption. now apply from_bytes_origin. }
  destruct (parse_rendered sl hs _ _ Hs Hw Hfr) as (p' & P & S1 & S2 & S3 & S4 & S5 & S6).
  exists p'. split; [reflexivity|]. rewrite Eb. split; [exact P|].
  unfold start_fields, sl in S3. destruct S3 as (F1 & F2 & F3 & F4 & F5 & _ & _).
  assert (Hla : (host p', port p', path p') = (None, Some (if bytes_eqb m CONNECT then 443%Z else 80%Z), Some (SLASH :: t)))
    by (rewrite F5; reflexivity).
  pose proof (f_equal snd Hla) as Hpa'. cbn [snd] in Hpa'.
  pose proof (f_equal (fun x => fst (fst x)) Hla) as Hh'. cbn [fst] in Hh'.
  repeat apply conj; try assumption.
  - now rewrite Ep.
  - now rewrite S4.
  - rewrite S6. unfold framing_consistent in Hf. destruct (get_ci TRANSFER_ENCODING hs); [symmetry; apply Hf|symmetry; apply Hf].
Qed.

(* ---- responses ---- *)
Lemma dict_has_lift k hs : dict_has k (map lift1 hs) = has_key_ci k hs.
Proof.
  unfold dict_has, has_key_ci. induction hs as [|[k0 v] t IH]; [reflexivity|].
  cbn [map lift1 fst snd dict_get existsb].
  destruct (bytes_eqb_spec k (lower k0)), (bytes_eqb_spec (lower k0) k); try congruence; try reflexivity.
  exact IH.
Qed.

Lemma has_header_lift p hs key : headers p = lift_headers hs -> has_header p key = has_key_ci (lower key) hs.
Proof.
  intros E. unfold has_header. rewrite E. unfold lift_headers. destruct hs as [|kv t]; [reflexivity|].
  apply (dict_has_lift (lower key) (kv :: t)).
Qed.

Definition framing_consistent_resp (p : parser) (hs : bdict) : Prop :=
  match get_ci TRANSFER_ENCODING hs with
  | Some te => lower te = CHUNKED /\ is_chunked_encoded p = true /\ get_ci CONTENT_LENGTH hs = None /\
               body p <> None
  | None => is_chunked_encoded p = false /\
            match get_ci CONTENT_LENGTH hs with
            | Some cl => if truthy (body p)
                         then cl = dec_of_N (len (bodyb p)) /\ len_ok (bodyb p) = true
                         else cl = [48]
            | None => truthy (body p) = false
            end
  end.

Lemma rebuilt_framing_resp p hs : headers p = lift_headers hs -> framing_consistent_resp p hs ->
  exists bd, get_body_or_chunks p = Ok bd /\
    let no_cl := negb (truthy (body p)) && negb (has_header p CONTENT_LENGTH) in
    let hs' := cond_put (negb (has_key_ci TRANSFER_ENCODING hs) && negb no_cl) H_CONTENT_LENGTH
                        (if truthy bd then dec_of_N (len (or_empty bd)) else [48]) hs in
    hs' = hs /\ framing_rel hs (or_empty bd) (bodyb p).
Proof.
  intros Hh. unfold framing_consistent_resp, get_body_or_chunks, framing_rel.
  rewrite (has_header_lift p hs _ Hh). change (lower CONTENT_LENGTH) with CONTENT_LENGTH.
  rewrite !has_key_ci_get.
  destruct (get_ci TRANSFER_ENCODING hs) as [te|] eqn:TE.
  - intros (Hte & Hc & Hcl & Hb). rewrite Hc. destruct (body p) as [b|] eqn:B; [|congruence].
    assert (Hk : 0 < DEFAULT_BUFFER_SIZE) by reflexivity.
    rewrite (to_chunks_render b _ Hk). cbn [bind]. eexists. split; [reflexivity|]. cbv zeta.
    cbn [negb andb cond_put]. split; [reflexivity|]. split; [exact Hte|]. split; [exact Hcl|].
    exists (chunks_of b DEFAULT_BUFFER_SIZE). cbn [or_empty]. repeat split.
    + now apply chunks_of_wf.
    + unfold bodyb. rewrite B. symmetry. now apply chunks_of_dechunk.
  - intros (Hc & Hcl). rewrite Hc.
    assert (E : match body p with Some b => Ok (Some b) | None => Ok None end = Ok (body p)) by (destruct (body p); reflexivity).
    rewrite E. exists (body p). split; [reflexivity|]. cbv zeta. cbn [negb andb].
    assert (Eb : or_empty (body p) = bodyb p) by reflexivity. rewrite Eb.
    destruct (get_ci CONTENT_LENGTH hs) as [cl|] eqn:CL.
    + destruct (truthy (body p)) eqn:T; cbn [negb andb cond_put].
      * destruct Hcl as [-> Hl]. split; [now apply put_ci_same|].
        split; [|reflexivity]. rewrite int10_dec_of_N by (now apply Nat.leb_le). now rewrite len_Z.
      * subst cl. split; [now apply put_ci_same|].
        assert (bodyb p = []) as -> by (unfold bodyb; destruct (body p) as [[|x t]|]; try discriminate; reflexivity).
        split; reflexivity.
    + rewrite Hcl. cbn [negb andb cond_put]. split; [reflexivity|].
      assert (bodyb p = []) as -> by (unfold bodyb; destruct (body p) as [[|x t]|]; try discriminate; reflexivity).
      split; reflexivity.
Qed.

(* C15_rebuild_stable, responses, on parser states *)
Theorem rebuild_stable_response_state p c z v hs :
  ty p = RESPONSE_PARSER ->
  code p = Some c -> c <> [] -> int10 c = Ok z -> dec_of_Z z = c ->
  version p = Some v -> v <> [] -> tok v ->
  ~ In CR (or_empty (reason p)) ->
  headers p = lift_headers hs -> wfhP hs -> framing_consistent_resp p hs ->
  exists raw p', build_response p = Ok raw /\
    parse (new_parser RESPONSE_PARSER) raw = Ok p' /\
    state p' = COMPLETE /\ buffer p' = None /\
    version p' = Some v /\ code p' = Some c /\ or_empty (reason p') = or_empty (reason p) /\
    headers p' = headers p /\ bodyb p' = bodyb p /\ is_chunked_encoded p' = is_chunked_encoded p.
Proof.
  intros Ht Hc Hc1 Hc2 Hc3 Hv Hv1 Hv2 Hr Hh Hw Hf.
  destruct (truthy_some _ _ Hc Hc1) as [Tc Ec]. destruct (truthy_some _ _ Hv Hv1) as [Tv Ev].
  unfold build_response. rewrite Tc, Tv, Ht. cbn [is_request negb andb]. rewrite Ec, Hc2. cbn [bind].
  destruct (rebuilt_headers_of p hs Hh (proj2 Hw)) as [_ ->].
  destruct (rebuilt_framing_resp p hs Hh Hf) as (bd & -> & Ehs & Hfr). cbn [bind]. cbv zeta in Ehs.
  set (nocl := negb (truthy (body p)) && negb (has_header p CONTENT_LENGTH)) in *.
  set (rs := if truthy (reason p) then Some (or_empty (reason p)) else None).
  set (sl := StatusLine v c rs).
  set (a := {| sa_status := z; sa_version := or_empty (version p); sa_reason := reason p; sa_headers := Some hs;
              sa_body := bd; sa_close := false; sa_nocl := nocl |}).
  assert (Eb : build_http_response z (or_empty (version p)) (reason p) (Some hs) bd false nocl =
               render_start sl ++ CRLF ++ render_hdrs hs ++ CRLF ++ or_empty bd).
  { change (build_http_response z (or_empty (version p)) (reason p) (Some hs) bd false nocl) with (build_response_of a).
    unfold build_response_of, build_http_response, build_http_pkt.
    rewrite (response_headers_spec a). unfold expected_response_headers, a.
    cbn [sa_status sa_version sa_reason sa_headers sa_body sa_close sa_nocl arg_headers].
    fold (cond_put (negb (has_key_ci TRANSFER_ENCODING hs) && negb nocl) H_CONTENT_LENGTH
                   (if truthy bd then dec_of_N (len (or_empty bd)) else [48]) hs).
    rewrite Ehs, header_lines_render, wire_or_empty, Ev.
    unfold sl, rs, render_start, bytes_of_Z. rewrite Hc3. destruct (truthy (reason p)); cbn [app].
    - rewrite join_sp3. now rewrite <- !app_assoc.
    - rewrite join_sp2. now rewrite <- !app_assoc. }
  assert (Hs : start_ok DEFAULT_ALLOWED_URL_SCHEMES sl).
  { unfold sl, start_ok. split; [exact Hv2|]. split; [rewrite <- Hc3; apply dec_of_Z_tok|].
    unfold rs. destruct (truthy (reason p)); [exact Hr|exact I]. }
  destruct (parse_rendered sl hs _ _ Hs Hw Hfr) as (p' & P & S1 & S2 & S3 & S4 & S5 & S6).
  exists (render_start sl ++ CRLF ++ render_hdrs hs ++ CRLF ++ or_empty bd), p'.
  split; [f_equal; exact Eb|]. split; [exact P|].
  unfold start_fields, sl in S3. destruct S3 as (F1 & F2 & F3 & _).
  repeat apply conj; try assumption.
  - rewrite F3. unfold rs. destruct (reason p) as [[|x t]|]; reflexivity.
  - now rewrite S4.
  - rewrite S6. unfold framing_consistent_resp in Hf. destruct (get_ci TRANSFER_ENCODING hs); symmetry; apply Hf.
Qed.

(* ---- the same for every well-formed message on the wire (abstract syntax of Http/ParserFacts.v) ---- *)
Lemma get_ci_app ln a b :
  get_ci ln (a ++ b) = match get_ci ln a with Some v => Some v | None => get_ci ln b end.
Proof.
  induction a as [|[k v] t IH]; [reflexivity|]. cbn [app]. rewrite !get_ci_cons.
  destruct (bytes_eqb (lower k) ln); [reflexivity|exact IH].
Qed.

Lemma get_ci_others ln hs : Forall other_ok hs -> ln = CONTENT_LENGTH \/ ln = TRANSFER_ENCODING -> get_ci ln hs = None.
Proof.
  intros F Hl. apply get_ci_none. intros C. unfold lkeys in C. apply in_map_iff in C as (kv & E & Hi).
  rewrite Forall_forall in F. destruct (F kv Hi) as (_ & N1 & N2). destruct Hl; subst; contradiction.
Qed.

Lemma all_hdrs_wfhP al msg : message_ok al msg -> NoDup (lkeys (all_hdrs msg)) -> wfhP (all_hdrs msg).
Proof.
  intros (_ & F1 & Ff & F2) Hn. split; [|exact Hn]. unfold all_hdrs.
  apply Forall_app. split; [eapply Forall_impl; [|exact F1]; intros kv H; apply H|].
  apply Forall_app. split; [|eapply Forall_impl; [|exact F2]; intros kv H; apply H].
  destruct (m_framing msg); cbn [framing_hdrs ParserFacts.framing_ok] in *; [constructor| |];
    (constructor; [apply Ff|constructor]).
Qed.

Lemma get_ci_all_hdrs msg ln al : message_ok al msg -> ln = CONTENT_LENGTH \/ ln = TRANSFER_ENCODING ->
  get_ci ln (all_hdrs msg) = get_ci ln (framing_hdrs (m_framing msg)).
Proof.
  intros (_ & F1 & _ & F2) Hl. unfold all_hdrs. rewrite !get_ci_app.
  rewrite (get_ci_others ln _ F1 Hl), (get_ci_others ln _ F2 Hl).
  destruct (get_ci ln (framing_hdrs (m_framing msg))); reflexivity.
Qed.

Lemma expected_chunked msg tail :
  is_chunked_encoded (expected msg tail) = match m_framing msg with FChunked _ _ _ => true | _ => false end.
Proof.
  unfold expected, final_of. destruct (m_framing msg) as [|hn hv [|b0 bd]|hn hv s]; reflexivity.
Qed.

Lemma expected_ty msg tail : ty (expected msg tail) = msg_type msg.
Proof.
  unfold expected, final_of. destruct (m_framing msg) as [|hn hv [|b0 bd]|hn hv s]; destruct (m_start msg); reflexivity.
Qed.

(* the Content-Length of the message is the canonical decimal of its body length (strict: also "0") *)
Definition canonical_length (strict0 : bool) (msg : message) : Prop :=
  match m_framing msg with
  | FLength _ hv bd =>
      match bd with
      | [] => if strict0 then hv = [48] else True
      | _ => hv = dec_of_N (len bd) /\ len_ok bd = true
      end
  | _ => True
  end.

Lemma lower_eq_get_ci hn hv ln : lower hn = ln -> get_ci ln [(hn, hv)] = Some hv.
Proof. intros E. rewrite get_ci_cons, E, bytes_eqb_refl. reflexivity. Qed.
Lemma lower_ne_get_ci hn hv ln : lower hn <> ln -> get_ci ln [(hn, hv)] = None.
Proof. intros E. rewrite get_ci_cons. destruct (bytes_eqb_spec (lower hn) ln); [contradiction|reflexivity]. Qed.

Lemma expected_framing_consistent al msg :
  message_ok al msg -> canonical_length false msg ->
  framing_consistent (expected msg []) (all_hdrs msg).
Proof.
  intros Hm Hc. unfold framing_consistent.
  rewrite (get_ci_all_hdrs msg _ al Hm (or_intror eq_refl)), (get_ci_all_hdrs msg _ al Hm (or_introl eq_refl)).
  rewrite expected_chunked. unfold bodyb. rewrite ParserFacts.expected_body.
  destruct Hm as (_ & _ & Ff & _). unfold canonical_length in Hc.
  destruct (m_framing msg) as [|hn hv bd|hn hv s]; cbn [framing_hdrs ParserFacts.framing_ok] in *.
  - cbn. split; reflexivity.
  - destruct Ff as (_ & E & Hi).
    rewrite (lower_ne_get_ci hn hv TRANSFER_ENCODING) by (rewrite E; discriminate).
    rewrite (lower_eq_get_ci hn hv _ E). split; [reflexivity|].
    destruct bd as [|x t]; cbn [optb truthy]; [exact Hi|exact Hc].
  - destruct Ff as (_ & E & E2 & _).
    rewrite (lower_eq_get_ci hn hv _ E).
    rewrite (lower_ne_get_ci hn hv CONTENT_LENGTH) by (rewrite E; discriminate).
    repeat split; [exact E2|discriminate].
Qed.

Lemma expected_framing_consistent_resp al msg :
  message_ok al msg -> canonical_length true msg ->
  framing_consistent_resp (expected msg []) (all_hdrs msg).
Proof.
  intros Hm Hc. unfold framing_consistent_resp.
  rewrite (get_ci_all_hdrs msg _ al Hm (or_intror eq_refl)), (get_ci_all_hdrs msg _ al Hm (or_introl eq_refl)).
  rewrite expected_chunked. unfold bodyb. rewrite ParserFacts.expected_body.
  destruct Hm as (_ & _ & Ff & _). unfold canonical_length in Hc.
  destruct (m_framing msg) as [|hn hv bd|hn hv s]; cbn [framing_hdrs ParserFacts.framing_ok] in *.
  - cbn. split; reflexivity.
  - destruct Ff as (_ & E & Hi).
    rewrite (lower_ne_get_ci hn hv TRANSFER_ENCODING) by (rewrite E; discriminate).
    rewrite (lower_eq_get_ci hn hv _ E). split; [reflexivity|].
    destruct bd as [|x t]; cbn [optb truthy]; exact Hc.
  - destruct Ff as (_ & E & E2 & _).
    rewrite (lower_eq_get_ci hn hv _ E).
    rewrite (lower_ne_get_ci hn hv CONTENT_LENGTH) by (rewrite E; discriminate).
    repeat split; [exact E2|discriminate].
Qed.

(* C15_rebuild_stable for requests: every well-formed request on the wire — any header spelling and
   order, Content-Length or any chunk layout with extensions and trailers, the empty chunked body
   included — parsed, rebuilt with build() and parsed again gives the same method, version, path,
   header map (names as spelled, values, order), decoded body and framing *)
Theorem rebuild_stable_request ua msg m t v u :
  message_ok DEFAULT_ALLOWED_URL_SCHEMES msg -> m_start msg = ReqLine m t v u ->
  NoDup (lkeys (all_hdrs msg)) -> m <> [] -> v <> [] ->
  (u_remainder u = None \/ u_remainder u = Some [] \/
   exists r, u_remainder u = Some (SLASH :: r) /\ tok (SLASH :: r) /\ match r with x :: _ => x <> SLASH | [] => True end) ->
  canonical_length false msg ->
  exists p raw p',
    parse (new_parser REQUEST_PARSER) (render msg) = Ok p /\ state p = COMPLETE /\
    build ua p [] false None = Ok raw /\
    parse (new_parser REQUEST_PARSER) raw = Ok p' /\ state p' = COMPLETE /\ buffer p' = None /\
    method p' = method p /\ version p' = version p /\ path p' = Some (path0 p) /\
    headers p' = headers p /\ bodyb p' = bodyb p /\ is_chunked_encoded p' = is_chunked_encoded p.
Proof.
  intros Hm Hs Hn Hm1 Hv1 Hp Hc.
  assert (Ht : tail_ok msg []) by (unfold tail_ok; destruct (m_start msg); destruct (m_framing msg); exact I || reflexivity).
  pose proof (complete_at_end _ msg [] Hm Ht) as P. rewrite app_nil_r in P.
  assert (Ety : msg_type msg = REQUEST_PARSER) by (unfold msg_type; now rewrite Hs).
  rewrite Ety in P. set (p := expected msg []) in *.
  destruct (expected_fields msg []) as (F1 & F2 & _ & F4 & F5 & F6). fold p in F1, F2, F4, F5, F6.
  rewrite Hs in F6. cbv zeta in F6. destruct F6 as (G1 & G2 & G3 & G4 & G5 & _ & _).
  assert (Hso : start_ok DEFAULT_ALLOWED_URL_SCHEMES (ReqLine m t v u)) by (rewrite <- Hs; apply Hm).
  destruct Hso as (Tm & Tt & Tv & Hu).
  assert (Hpath : path p = u_remainder u).
  { pose proof (f_equal snd G5) as X. cbn [snd] in X. rewrite X. reflexivity. }
  pose proof (all_hdrs_wfhP _ msg Hm Hn) as Hw.
  assert (Hh : headers p = lift_headers (all_hdrs msg)) by (rewrite F4; apply add_all_lift, Hn).
  destruct (rebuild_stable_request_state ua p m v (all_hdrs msg)) as (raw & p' & B & P' & R1 & R2 & R3 & R4 & R5 & _ & R7 & R8 & R9);
    try assumption.
  - unfold p. rewrite expected_ty. exact Ety.
  - rewrite Hpath. destruct Hp as [Hp|[Hp|(r & Hp & Hp1 & Hp2)]]; rewrite Hp; [now left|now left|].
    right. exists r. repeat split; assumption || apply Hp1.
  - now apply (expected_framing_consistent DEFAULT_ALLOWED_URL_SCHEMES).
  - exists p, raw, p'. repeat apply conj; try assumption; congruence.
Qed.

(* C15_rebuild_stable for responses (build_response) *)
Theorem rebuild_stable_response msg v c rs z :
  message_ok DEFAULT_ALLOWED_URL_SCHEMES msg -> m_start msg = StatusLine v c rs ->
  NoDup (lkeys (all_hdrs msg)) -> v <> [] -> c <> [] ->
  int10 c = Ok z -> dec_of_Z z = c ->
  canonical_length true msg ->
  exists p raw p',
    parse (new_parser RESPONSE_PARSER) (render msg) = Ok p /\ state p = COMPLETE /\
    build_response p = Ok raw /\
    parse (new_parser RESPONSE_PARSER) raw = Ok p' /\ state p' = COMPLETE /\ buffer p' = None /\
    version p' = version p /\ code p' = code p /\ or_empty (reason p') = or_empty (reason p) /\
    headers p' = headers p /\ bodyb p' = bodyb p /\ is_chunked_encoded p' = is_chunked_encoded p.
Proof.
  intros Hm Hs Hn Hv1 Hc1 Hc2 Hc3 Hc.
  assert (Ht : tail_ok msg []) by (unfold tail_ok; destruct (m_start msg); destruct (m_framing msg); exact I || reflexivity).
  pose proof (complete_at_end _ msg [] Hm Ht) as P. rewrite app_nil_r in P.
  assert (Ety : msg_type msg = RESPONSE_PARSER) by (unfold msg_type; now rewrite Hs).
  rewrite Ety in P. set (p := expected msg []) in *.
  destruct (expected_fields msg []) as (F1 & F2 & _ & F4 & F5 & F6). fold p in F1, F2, F4, F5, F6.
  rewrite Hs in F6. cbv zeta in F6. destruct F6 as (G1 & G2 & G3 & _).
  assert (Hso : start_ok DEFAULT_ALLOWED_URL_SCHEMES (StatusLine v c rs)) by (rewrite <- Hs; apply Hm).
  destruct Hso as (Tv & Tc & Tr).
  pose proof (all_hdrs_wfhP _ msg Hm Hn) as Hw.
  assert (Hh : headers p = lift_headers (all_hdrs msg)) by (rewrite F4; apply add_all_lift, Hn).
  destruct (rebuild_stable_response_state p c z v (all_hdrs msg)) as (raw & p' & B & P' & R1 & R2 & R3 & R4 & R5 & R6 & R7 & R8);
    try assumption.
  - unfold p. rewrite expected_ty. exact Ety.
  - rewrite G3. destruct rs as [r|]; [exact Tr|intros []].
  - now apply (expected_framing_consistent_resp DEFAULT_ALLOWED_URL_SCHEMES).
  - exists p, raw, p'. repeat apply conj; try assumption; congruence.
Qed.

(* ---- the decidable hypotheses (rebuildable_req, rebuildable_resp of Grammar.v) imply those of the _state theorems ---- *)
Lemma lift_unlift h : hdict_canonical h = true -> h = lift_headers (unlift h).
Proof.
  destruct h as [d|]; [|reflexivity]. cbn [hdict_canonical unlift]. destruct d as [|e0 d0]; [discriminate|].
  set (d := e0 :: d0). intros H.
  assert (E : d = map lift1 (map (fun e => (fst (snd e), snd (snd e))) d)).
  { clearbody d. induction d as [|[k [o v]] t IH]; [reflexivity|].
    cbn [forallb fst snd] in H. apply andb_true_iff in H as [Hk Ht]. apply bytes_eqb_eq in Hk. subst k.
    cbn [map lift1 fst snd]. f_equal. now apply IH. }
  unfold lift_headers. unfold d at 2. cbn [map]. fold (map (fun e : bytes * (bytes * bytes) => (fst (snd e), snd (snd e))) d0).
  rewrite E at 1. reflexivity.
Qed.

Lemma tokb_tok l : tokb l = true -> tok l.
Proof. unfold tokb, tok. intros H. apply andb_true_iff in H as [H1 H2]. split; [now apply no_sp_sp|now apply no_cr_cr]. Qed.

Lemma framing_consistent_b_req p hs : framing_consistent_b false p hs = true -> framing_consistent p hs.
Proof.
  unfold framing_consistent_b, framing_consistent. destruct (get_ci TRANSFER_ENCODING hs) as [te|].
  - intros H. apply andb_true_iff in H as [H Hb]. apply andb_true_iff in H as [H Hc]. apply andb_true_iff in H as [Ht Hk].
    apply bytes_eqb_eq in Ht. apply negb_true_iff in Hc. rewrite has_key_ci_get in Hc.
    repeat apply conj; [exact Ht|exact Hk| |].
    + destruct (get_ci CONTENT_LENGTH hs); [discriminate|reflexivity].
    + destruct (body p); [discriminate|discriminate].
  - intros H. apply andb_true_iff in H as [Hk H]. apply negb_true_iff in Hk. split; [exact Hk|].
    destruct (get_ci CONTENT_LENGTH hs) as [cl|].
    + destruct (truthy (body p)).
      * apply andb_true_iff in H as [H1 H2]. apply bytes_eqb_eq in H1. split; assumption.
      * destruct (int10 cl) as [z|]; [|discriminate]. apply Z.eqb_eq in H. now subst.
    + now apply negb_true_iff in H.
Qed.

Lemma framing_consistent_b_resp p hs : framing_consistent_b true p hs = true -> framing_consistent_resp p hs.
Proof.
  unfold framing_consistent_b, framing_consistent_resp. destruct (get_ci TRANSFER_ENCODING hs) as [te|].
  - intros H. apply andb_true_iff in H as [H Hb]. apply andb_true_iff in H as [H Hc]. apply andb_true_iff in H as [Ht Hk].
    apply bytes_eqb_eq in Ht. apply negb_true_iff in Hc. rewrite has_key_ci_get in Hc.
    repeat apply conj; [exact Ht|exact Hk| |].
    + destruct (get_ci CONTENT_LENGTH hs); [discriminate|reflexivity].
    + destruct (body p); [discriminate|discriminate].
  - intros H. apply andb_true_iff in H as [Hk H]. apply negb_true_iff in Hk. split; [exact Hk|].
    destruct (get_ci CONTENT_LENGTH hs) as [cl|].
    + destruct (truthy (body p)).
      * apply andb_true_iff in H as [H1 H2]. apply bytes_eqb_eq in H1. split; assumption.
      * now apply bytes_eqb_eq in H.
    + now apply negb_true_iff in H.
Qed.

Lemma truthy_inv (o : option bytes) : truthy o = true -> exists x, o = Some x /\ x <> [] /\ or_empty o = x.
Proof. destruct o as [[|a t]|]; try discriminate. intros _. exists (a :: t). repeat split. discriminate. Qed.

Theorem rebuild_stable_request_bool ua p : rebuildable_req p = true ->
  exists raw p', build ua p [] false None = Ok raw /\
    parse (new_parser REQUEST_PARSER) raw = Ok p' /\
    state p' = COMPLETE /\ buffer p' = None /\
    method p' = method p /\ version p' = version p /\ path p' = Some (path0 p) /\ host p' = None /\
    headers p' = headers p /\ bodyb p' = bodyb p /\ is_chunked_encoded p' = is_chunked_encoded p.
Proof.
  unfold rebuildable_req. cbv zeta. intros H.
  repeat (apply andb_true_iff in H as [H ?]).
  match goal with X : framing_consistent_b _ _ _ = true |- _ => apply framing_consistent_b_req in X; rename X into Hf end.
  match goal with X : nodup_ci _ = true |- _ => apply nodup_ci_NoDup in X; rename X into Hn end.
  match goal with X : forallb ok_header _ = true |- _ => rename X into Hok end.
  match goal with X : hdict_canonical _ = true |- _ => apply lift_unlift in X; rename X into Hh end.
  match goal with X : path_ok_b _ = true |- _ => rename X into Hp end.
  match goal with X : no_cr (or_empty (version p)) = true |- _ => rename X into Hv2 end.
  match goal with X : truthy (version p) = true |- _ => destruct (truthy_inv _ X) as (v & Ev & Hv1 & Ev') end.
  match goal with X : tokb (or_empty (method p)) = true |- _ => rename X into Hm2 end.
  match goal with X : truthy (method p) = true |- _ => destruct (truthy_inv _ X) as (m & Em & Hm1 & Em') end.
  assert (Ht : ty p = REQUEST_PARSER) by (destruct (ty p); [reflexivity|discriminate]).
  rewrite Em' in Hm2. rewrite Ev' in Hv2.
  destruct (rebuild_stable_request_state ua p m v (unlift (headers p))) as (raw & p' & R); try assumption.
  - now apply tokb_tok.
  - now apply no_cr_cr.
  - unfold path_ok_b in Hp. apply orb_true_iff in Hp as [Hp|Hp]; [left; now apply negb_true_iff in Hp|].
    right. destruct (path p) as [[|x t]|]; try discriminate.
    apply andb_true_iff in Hp as [Hp H3]. apply andb_true_iff in Hp as [H1 H2]. apply N.eqb_eq in H1. subst x.
    exists t. repeat split; try apply (tokb_tok _ H2).
    destruct t as [|y t']; [exact I|]. apply negb_true_iff in H3. now apply N.eqb_neq in H3.
  - apply wfh_wfhP. split; assumption.
  - exists raw, p'. destruct R as (R1 & R2 & R3 & R4 & R5 & R6 & R7 & R8 & R9 & R10 & R11).
    repeat apply conj; try assumption; congruence.
Qed.

Theorem rebuild_stable_response_bool p : rebuildable_resp p = true ->
  exists raw p', build_response p = Ok raw /\
    parse (new_parser RESPONSE_PARSER) raw = Ok p' /\
    state p' = COMPLETE /\ buffer p' = None /\
    version p' = version p /\ code p' = code p /\ or_empty (reason p') = or_empty (reason p) /\
    headers p' = headers p /\ bodyb p' = bodyb p /\ is_chunked_encoded p' = is_chunked_encoded p.
Proof.
  unfold rebuildable_resp. cbv zeta. intros H.
  repeat (apply andb_true_iff in H as [H ?]).
  match goal with X : framing_consistent_b _ _ _ = true |- _ => apply framing_consistent_b_resp in X; rename X into Hf end.
  match goal with X : nodup_ci _ = true |- _ => apply nodup_ci_NoDup in X; rename X into Hn end.
  match goal with X : forallb ok_header _ = true |- _ => rename X into Hok end.
  match goal with X : hdict_canonical _ = true |- _ => apply lift_unlift in X; rename X into Hh end.
  match goal with X : no_cr (or_empty (reason p)) = true |- _ => rename X into Hr end.
  match goal with X : tokb (or_empty (version p)) = true |- _ => rename X into Hv2 end.
  match goal with X : truthy (version p) = true |- _ => destruct (truthy_inv _ X) as (v & Ev & Hv1 & Ev') end.
  match goal with X : match int10 _ with Ok _ => _ | Err _ => _ end = true |- _ => rename X into Hc2 end.
  match goal with X : truthy (code p) = true |- _ => destruct (truthy_inv _ X) as (c & Ec & Hc1 & Ec') end.
  assert (Ht : ty p = RESPONSE_PARSER) by (destruct (ty p); [discriminate|reflexivity]).
  rewrite Ec' in Hc2. rewrite Ev' in Hv2.
  destruct (int10 c) as [z|] eqn:Iz; [|discriminate]. apply bytes_eqb_eq in Hc2.
  destruct (rebuild_stable_response_state p c z v (unlift (headers p))) as (raw & p' & R); try assumption.
  - now apply tokb_tok.
  - now apply no_cr_cr.
  - apply wfh_wfhP. split; assumption.
  - exists raw, p'. destruct R as (R1 & R2 & R3 & R4 & R5 & R6 & R7 & R8 & R9 & R10).
    repeat apply conj; try assumption; congruence.
Qed.

(* ===================================================================================== *)
(* what the builders emit is well-formed for the RFC 7230-level recogniser                *)

Lemma is_token_props k : is_token k = true ->
  k <> [] /\ ~ In COLON k /\ ~ In SP k /\ ~ In LF k.
Proof.
  unfold is_token. intros H. apply andb_true_iff in H as [H1 H2]. split; [now apply nonempty_ne|].
  repeat split; intros Hi; pose proof (forallb_In _ _ _ H2 Hi) as C; discriminate C.
Qed.

Lemma field_bytes_no_lf v : forallb is_field_byte v = true -> ~ In LF v.
Proof. intros H Hi. pose proof (forallb_In _ _ _ H Hi) as C. discriminate C. Qed.

Lemma ltrim_ows_noop l : match l with [] => True | x :: _ => is_ows x = false end -> ltrim_ows l = l.
Proof. destruct l as [|x t]; intros H; [reflexivity|]. cbn [ltrim_ows]. now rewrite H. Qed.

Lemma not_ws_not_ows x : is_ws x = false -> is_ows x = false.
Proof. intros H. destruct (is_ows x) eqn:E; [|reflexivity]. apply is_ows_ws in E. congruence. Qed.

Lemma trim_ows_sp_stripped v : stripped v = true -> trim_ows (SP :: v) = v.
Proof.
  intros H. unfold trim_ows. change (ltrim_ows (SP :: v)) with (ltrim_ows v).
  destruct v as [|x t]; [reflexivity|].
  unfold stripped in H. apply andb_true_iff in H as [H1 H2]. apply negb_true_iff in H1, H2.
  rewrite (ltrim_ows_noop (x :: t)) by (now apply not_ws_not_ows).
  destruct (exists_last (l := x :: t)) as (l' & y & E); [discriminate|]. rewrite E in *.
  rewrite last_last in H2. rewrite rev_app_distr. cbn [rev app].
  rewrite ltrim_ows_noop by (now apply not_ws_not_ows).
  change (y :: rev l') with ([y] ++ rev l'). rewrite rev_app_distr, rev_involutive. reflexivity.
Qed.

Lemma rfc_header_line kv : rfc_header kv = true ->
  parse_field_line (fst kv ++ COLON :: SP :: snd kv) = Some (fst kv, snd kv) /\
  ~ In LF (fst kv ++ COLON :: SP :: snd kv) /\ fst kv ++ COLON :: SP :: snd kv <> [].
Proof.
  destruct kv as [k v]. unfold rfc_header, rfc_name, rfc_value. cbn [fst snd]. intros H.
  apply andb_true_iff in H as [Hk Hv]. apply andb_true_iff in Hv as [Hv1 Hv2].
  destruct (is_token_props k Hk) as (K1 & K2 & K3 & K4).
  split; [|split].
  - unfold parse_field_line. rewrite (split_once_byte_notin COLON k (SP :: v) K2).
    rewrite Hk. cbn [forallb]. rewrite Hv1. cbn [andb is_field_byte].
    change (is_field_byte SP) with true. cbn [andb]. now rewrite trim_ows_sp_stripped.
  - intros Hi. apply in_app_or in Hi as [Hi|[Hi|[Hi|Hi]]]; try discriminate Hi; [now apply K4|].
    now apply (field_bytes_no_lf v).
  - intros C. apply app_eq_nil in C. destruct C as [_ C]. discriminate C.
Qed.

Lemma parse_fields_lines hs : forall f body, forallb rfc_header hs = true -> (length hs < f)%nat ->
  parse_fields f (header_lines hs ++ CRLF ++ body) = Some (hs, body).
Proof.
  induction hs as [|[k v] t IH]; intros f body H Hf; (destruct f as [|f]; [cbn [length] in Hf; lia|]).
  - cbn [header_lines app parse_fields]. change (13 :: 10 :: body) with (CRLF ++ body).
    rewrite split_once_crlf_head. reflexivity.
  - cbn [forallb] in H. apply andb_true_iff in H as [Hh Ht].
    destruct (rfc_header_line (k, v) Hh) as (P1 & P2 & P3). cbn [fst snd] in P1, P2, P3.
    cbn [header_lines parse_fields]. unfold build_http_header. cbn [app]. rewrite <- !app_assoc.
    change (k ++ COLON :: SP :: v ++ CRLF ++ header_lines t ++ CRLF ++ body)
      with (k ++ (COLON :: SP :: v) ++ CRLF ++ header_lines t ++ CRLF ++ body).
    rewrite app_assoc. rewrite split_once_crlf_no_lf by exact P2.
    rewrite P1, IH; [|exact Ht|cbn [length] in Hf; lia].
    destruct (k ++ COLON :: SP :: v); [congruence|reflexivity].
Qed.

Lemma fields_named_nodup ln hs : NoDup (lkeys hs) ->
  fields_named ln hs = match get_ci ln hs with Some v => [v] | None => [] end.
Proof.
  unfold fields_named. induction hs as [|[k v] t IH]; intros Hn; [reflexivity|].
  cbn [lkeys map fst] in Hn. fold (lkeys t) in Hn. inversion Hn as [|? ? Hk Ht]; subst.
  rewrite get_ci_cons. cbn [filter fst]. destruct (bytes_eqb_spec (lower k) ln) as [E|E].
  - cbn [map snd]. rewrite IH by exact Ht. subst ln.
    replace (get_ci (lower k) t) with (@None bytes); [reflexivity|]. symmetry. now apply get_ci_none.
  - now apply IH.
Qed.

Lemma decval_digits l : forall a, fold_left (fun a x => a * 10 + (x - 48)) l a = digits_val_aux l a.
Proof. induction l as [|x t IH]; intros a; [reflexivity|]. cbn [fold_left digits_val_aux]. apply IH. Qed.

Lemma dec_of_N_rfc n : is_dec (dec_of_N n) = true /\ decval (dec_of_N n) = n.
Proof.
  destruct (dec_of_N_spec n) as (H1 & H2 & H3). split.
  - unfold is_dec. unfold all_digits in H2. rewrite H2, andb_true_r. destruct (dec_of_N n); [congruence|reflexivity].
  - unfold decval. rewrite decval_digits. exact H3.
Qed.

Lemma is_chunked_body_nil : is_chunked_body [] = false.
Proof. reflexivity. Qed.

(* framing of the final header map for the recogniser, from the rfc guard on the arguments *)
Lemma rfc_framing_from_args h0 hs bd builder_cl allow_close is_req bodyless :
  rfc_framing_args h0 bd builder_cl allow_close = true ->
  NoDup (lkeys hs) ->
  get_ci TRANSFER_ENCODING hs = get_ci TRANSFER_ENCODING h0 ->
  get_ci CONTENT_LENGTH hs =
    (if builder_cl && negb (has_key_ci TRANSFER_ENCODING h0)
     then Some (if truthy bd then dec_of_N (len (or_empty bd)) else [48]) else get_ci CONTENT_LENGTH h0) ->
  (allow_close = true -> is_req = false) ->
  (bodyless = true -> truthy bd = false) ->
  Grammar.framing_ok is_req bodyless hs (or_empty bd) = true.
Proof.
  intros Ha Hn Hte Hcl Hac Hbl. unfold Grammar.framing_ok. rewrite !fields_named_nodup by exact Hn.
  rewrite Hte, Hcl. unfold rfc_framing_args in Ha. rewrite has_key_ci_get.
  assert (Hempty : truthy bd = false -> or_empty bd = []) by (destruct bd as [[|x t]|]; try discriminate; reflexivity).
  destruct (get_ci TRANSFER_ENCODING h0) as [te|] eqn:TE.
  - rewrite andb_false_r. apply andb_true_iff in Ha as [Ha Hnc]. apply andb_true_iff in Ha as [Ha Hc].
    apply negb_true_iff in Hnc. rewrite has_key_ci_get in Hnc.
    destruct (get_ci CONTENT_LENGTH h0); [discriminate|]. rewrite Ha. cbn [andb].
    destruct bodyless; [|exact Hc]. rewrite (Hempty (Hbl eq_refl)) in Hc. discriminate Hc.
  - rewrite andb_true_r. destruct builder_cl.
    + destruct (truthy bd) eqn:T.
      * destruct (dec_of_N_rfc (len (or_empty bd))) as [D1 D2]. rewrite D1, D2, N.eqb_refl.
        destruct bodyless; [specialize (Hbl eq_refl); congruence|reflexivity].
      * rewrite (Hempty eq_refl). destruct bodyless; reflexivity.
    + destruct (get_ci CONTENT_LENGTH h0) as [cl|].
      * apply andb_true_iff in Ha as [Ha Hz]. apply andb_true_iff in Ha as [Hd He]. rewrite Hd. cbn [andb].
        destruct bodyless; [|exact He]. rewrite (Hempty (Hbl eq_refl)). reflexivity.
      * destruct (truthy bd) eqn:T.
        -- rewrite orb_false_r in Ha. rewrite (Hac Ha). destruct bodyless; [specialize (Hbl eq_refl); congruence|reflexivity].
        -- rewrite (Hempty eq_refl). destruct (is_req || bodyless); reflexivity.
Qed.

Lemma nodup_cond_put b name v h : NoDup (lkeys h) -> NoDup (lkeys (cond_put b name v h)).
Proof.
  intros H. destruct b; [|exact H]. cbn [cond_put]. rewrite lkeys_put_ci.
  destruct (has_key_ci (lower name) h) eqn:E; [exact H|]. apply NoDup_snoc; [exact H|]. now apply has_key_ci_false.
Qed.

Lemma rfc_put_ci name v h : forallb rfc_header h = true -> rfc_name name = true -> rfc_value v = true ->
  forallb rfc_header (put_ci name v h) = true.
Proof.
  intros H Hn Hv. induction h as [|[k v0] t IH]; cbn [put_ci forallb].
  - unfold rfc_header. cbn [fst snd]. now rewrite Hn, Hv.
  - cbn [forallb] in H. apply andb_true_iff in H as [Hk Ht].
    destruct (bytes_eqb (lower k) (lower name)); cbn [forallb].
    + rewrite Ht, andb_true_r. unfold rfc_header in *. cbn [fst snd] in *.
      apply andb_true_iff in Hk as [Hk _]. now rewrite Hk, Hv.
    + now rewrite Hk, IH.
Qed.

Lemma rfc_cond_put b name v h : forallb rfc_header h = true -> rfc_name name = true ->
  (b = true -> rfc_value v = true) -> forallb rfc_header (cond_put b name v h) = true.
Proof. intros H Hn Hv. destruct b; [apply rfc_put_ci; auto|exact H]. Qed.

Lemma dec_rfc_value n : rfc_value (dec_of_N n) = true.
Proof.
  destruct (dec_of_N_spec n) as (H1 & H2 & _). unfold rfc_value. apply andb_true_iff. split.
  - apply forallb_forall. intros x Hx. pose proof (is_digit_range _ (forallb_In _ _ _ H2 Hx)) as R.
    unfold is_field_byte. destruct (N.eqb_spec x 0); [lia|]. destruct (N.leb_spec 10 x); destruct (N.leb_spec x 13); try reflexivity; lia.
  - pose proof (all_digits_ok_value _ H1 H2) as O. unfold ok_value in O. now apply andb_true_iff in O as [_ ?].
Qed.

Lemma header_lines_length hs : (length hs <= length (header_lines hs))%nat.
Proof.
  induction hs as [|[k v] t IH]; [cbn; lia|]. cbn [header_lines length]. unfold build_http_header.
  rewrite !app_length. cbn [length]. lia.
Qed.

Lemma is_http_version_inv v : is_http_version v = true ->
  exists a c, v = HTTP_SLASH ++ [a; 46; c] /\ is_digit a = true /\ is_digit c = true.
Proof.
  unfold is_http_version. intros H. apply andb_true_iff in H as [H1 H2].
  apply is_prefix_skipn in H1. change (length HTTP_SLASH) with 5%nat in H1.
  destruct (skipn 5 v) as [|a [|d [|c [|e t]]]] eqn:E; try discriminate.
  apply andb_true_iff in H2 as [H2 Hc]. apply andb_true_iff in H2 as [Ha Hd]. apply N.eqb_eq in Hd. subst d.
  exists a, c. repeat split; assumption.
Qed.

Lemma is_http_version_chars v : is_http_version v = true -> ~ In LF v /\ ~ In SP v.
Proof.
  intros H. destruct (is_http_version_inv v H) as (a & c & -> & Ha & Hc).
  apply is_digit_range in Ha, Hc. unfold LF, SP.
  split; intros Hi; cbn in Hi; repeat (destruct Hi as [Hi|Hi]; [try discriminate Hi; lia|]); exact Hi.
Qed.

Lemma vchars_no_sp_lf t : forallb is_vchar t = true -> ~ In SP t /\ ~ In LF t.
Proof. intros H. split; intros Hi; pose proof (forallb_In _ _ _ H Hi) as C; discriminate C. Qed.

(* C15_build_wellformed, requests *)
Theorem build_wellformed_request ua a :
  rfc_req_args ua a = true -> wf_message REQUEST_PARSER (build_request ua a) = true.
Proof.
  intros W. unfold rfc_req_args in W.
  apply andb_true_iff in W as [W Hfin]. apply andb_true_iff in W as [W Hua]. apply andb_true_iff in W as [W Hct].
  apply andb_true_iff in W as [W Hnd]. apply andb_true_iff in W as [W Hok]. apply andb_true_iff in W as [W Hver].
  apply andb_true_iff in W as [W Hurl]. apply andb_true_iff in W as [Hm Hune].
  rewrite request_headers_spec in Hfin. apply andb_true_iff in Hfin as [Hfr Hhost].
  set (hs := expected_request_headers ua a) in *.
  set (h0 := arg_headers (ra_headers a)) in *.
  set (h1 := match ra_ctype a with Some ct => put_ci H_CONTENT_TYPE ct h0 | None => h0 end).
  pose proof (expected_request_headers_puts ua a) as Ep. cbv zeta in Ep. fold h0 h1 hs in Ep.
  apply nodup_ci_NoDup in Hnd. fold h0 in Hnd.
  assert (N1 : NoDup (lkeys h1)).
  { unfold h1. destruct (ra_ctype a); [|exact Hnd]. apply (nodup_cond_put true). exact Hnd. }
  assert (R1 : forallb rfc_header h1 = true).
  { unfold h1. destruct (ra_ctype a); [|exact Hok]. apply rfc_put_ci; [exact Hok|reflexivity|exact Hct]. }
  assert (Hn : NoDup (lkeys hs)) by (rewrite Ep; now repeat apply nodup_cond_put).
  assert (Hr : forallb rfc_header hs = true).
  { rewrite Ep. apply rfc_cond_put; [|reflexivity|reflexivity].
    apply rfc_cond_put; [|reflexivity|].
    - apply rfc_cond_put; [exact R1|reflexivity|intros _; apply dec_rfc_value].
    - intros B. apply andb_true_iff in B as [_ B]. apply negb_true_iff in B. rewrite B in Hua. exact Hua. }
  assert (TE1 : get_ci TRANSFER_ENCODING h1 = get_ci TRANSFER_ENCODING h0).
  { unfold h1. destruct (ra_ctype a); [|reflexivity]. now rewrite get_ci_put_ci. }
  assert (CL1 : get_ci CONTENT_LENGTH h1 = get_ci CONTENT_LENGTH h0).
  { unfold h1. destruct (ra_ctype a); [|reflexivity]. now rewrite get_ci_put_ci. }
  assert (TEf : get_ci TRANSFER_ENCODING hs = get_ci TRANSFER_ENCODING h0).
  { rewrite Ep, !get_ci_cond_put.
    change (bytes_eqb TRANSFER_ENCODING (lower H_CONNECTION)) with false.
    change (bytes_eqb TRANSFER_ENCODING (lower H_USER_AGENT)) with false.
    change (bytes_eqb TRANSFER_ENCODING (lower H_CONTENT_LENGTH)) with false.
    rewrite !andb_false_r. exact TE1. }
  assert (CLf : get_ci CONTENT_LENGTH hs =
                (if truthy (ra_body a) && negb (has_key_ci TRANSFER_ENCODING h0)
                 then Some (if truthy (ra_body a) then dec_of_N (len (or_empty (ra_body a))) else [48])
                 else get_ci CONTENT_LENGTH h0)).
  { rewrite Ep, !get_ci_cond_put.
    change (bytes_eqb CONTENT_LENGTH (lower H_CONNECTION)) with false.
    change (bytes_eqb CONTENT_LENGTH (lower H_USER_AGENT)) with false.
    change (bytes_eqb CONTENT_LENGTH (lower H_CONTENT_LENGTH)) with true.
    rewrite !andb_false_r, andb_true_r.
    rewrite (has_key_ci_get TRANSFER_ENCODING h1), TE1, <- (has_key_ci_get TRANSFER_ENCODING h0).
    destruct (truthy (ra_body a)) eqn:T; cbn [andb]; [|exact CL1].
    destruct (has_key_ci TRANSFER_ENCODING h0); cbn [negb]; [exact CL1|reflexivity]. }
  pose proof (rfc_framing_from_args h0 hs (ra_body a) (truthy (ra_body a)) false true false Hfr Hn TEf CLf
                ltac:(discriminate) ltac:(discriminate)) as Hframe.
  destruct (is_token_props _ Hm) as (_ & _ & Msp & Mlf).
  destruct (vchars_no_sp_lf _ Hurl) as [Usp Ulf]. destruct (is_http_version_chars _ Hver) as [Vlf Vsp].
  rewrite build_request_wire. fold hs.
  pose (line := ra_method a ++ SP :: ra_url a ++ SP :: ra_version a).
  pose (rest := header_lines hs ++ CRLF ++ or_empty (ra_body a)).
  assert (Er : ra_method a ++ [SP] ++ ra_url a ++ [SP] ++ ra_version a ++ CRLF ++ header_lines hs ++ CRLF ++ or_empty (ra_body a)
               = line ++ CRLF ++ rest).
  { unfold line, rest. cbn [app]. repeat (rewrite <- app_assoc || rewrite <- app_comm_cons). reflexivity. }
  rewrite Er. unfold wf_message.
  assert (Ll : ~ In LF line).
  { unfold line. intros Hi. apply in_app_or in Hi as [Hi|[Hi|Hi]]; [now apply Mlf|discriminate Hi|].
    apply in_app_or in Hi as [Hi|[Hi|Hi]]; [now apply Ulf|discriminate Hi|now apply Vlf]. }
  rewrite (split_once_crlf_no_lf line rest Ll).
  unfold rest at 1 2. rewrite parse_fields_lines; [|exact Hr|].
  2:{ fold rest. unfold rest. rewrite app_length. pose proof (header_lines_length hs). lia. }
  cbn [is_request]. unfold parse_request_line, line.
  rewrite (ParserFacts.splitn2_three _ _ _ Msp Usp). rewrite Hm, Hune, Hurl, Hver. cbn [andb].
  rewrite (fields_named_nodup L_HOST hs Hn). rewrite Hframe, andb_true_r.
  rewrite has_key_ci_get in Hhost.
  destruct (bytes_eqb (ra_version a) HTTP_1_1); destruct (get_ci L_HOST hs); try reflexivity; discriminate Hhost.
Qed.

Lemma dec3_sweep : forallb (fun n => Nat.eqb (length (dec_of_N n)) 3) (map N.of_nat (seq 100 900)) = true.
Proof. vm_compute. reflexivity. Qed.

Lemma status_code_digits z : (100 <=? z)%Z = true -> (z <=? 999)%Z = true ->
  exists d1 d2 d3, dec_of_Z z = [d1; d2; d3] /\ forallb is_digit [d1; d2; d3] = true /\
                   decval [d1; d2; d3] = Z.to_N z.
Proof.
  intros H1 H2. apply Z.leb_le in H1, H2.
  assert (Ez : dec_of_Z z = dec_of_N (Z.to_N z)) by (unfold dec_of_Z; destruct z; try reflexivity; lia).
  set (n := Z.to_N z) in *.
  assert (Hin : In n (map N.of_nat (seq 100 900))).
  { apply in_map_iff. exists (N.to_nat n). split; [apply N2Nat.id|]. apply in_seq. unfold n. lia. }
  pose proof (forallb_In _ _ _ dec3_sweep Hin) as L. cbv beta in L. apply Nat.eqb_eq in L.
  destruct (dec_of_N_rfc n) as [D1 D2]. destruct (dec_of_N_spec n) as (_ & D3 & _).
  rewrite Ez. destruct (dec_of_N n) as [|d1 [|d2 [|d3 [|d4 t]]]]; try discriminate L.
  exists d1, d2, d3. repeat split; assumption.
Qed.

(* C15_build_wellformed, responses *)
Theorem build_wellformed_response a :
  rfc_resp_args a = true -> wf_message RESPONSE_PARSER (build_response_of a) = true.
Proof.
  intros W. unfold rfc_resp_args in W.
  apply andb_true_iff in W as [W Hbl]. apply andb_true_iff in W as [W Hfr]. apply andb_true_iff in W as [W Hnd].
  apply andb_true_iff in W as [W Hok]. apply andb_true_iff in W as [W Hrs]. apply andb_true_iff in W as [W Hs2].
  apply andb_true_iff in W as [Hver Hs1].
  set (hs := expected_response_headers a).
  set (h0 := arg_headers (sa_headers a)) in *.
  set (clv := if truthy (sa_body a) then dec_of_N (len (or_empty (sa_body a))) else [48]).
  assert (Ep : hs = cond_put (sa_close a) H_CONNECTION V_CLOSE
                      (cond_put (negb (has_key_ci TRANSFER_ENCODING h0) && negb (sa_nocl a)) H_CONTENT_LENGTH clv h0))
    by reflexivity.
  apply nodup_ci_NoDup in Hnd. fold h0 in Hnd.
  assert (Hn : NoDup (lkeys hs)) by (rewrite Ep; now repeat apply nodup_cond_put).
  assert (Hr : forallb rfc_header hs = true).
  { rewrite Ep. apply rfc_cond_put; [|reflexivity|reflexivity].
    apply rfc_cond_put; [exact Hok|reflexivity|]. intros _. unfold clv.
    destruct (truthy (sa_body a)); [apply dec_rfc_value|reflexivity]. }
  assert (TEf : get_ci TRANSFER_ENCODING hs = get_ci TRANSFER_ENCODING h0).
  { rewrite Ep, !get_ci_cond_put.
    change (bytes_eqb TRANSFER_ENCODING (lower H_CONNECTION)) with false.
    change (bytes_eqb TRANSFER_ENCODING (lower H_CONTENT_LENGTH)) with false.
    now rewrite !andb_false_r. }
  assert (CLf : get_ci CONTENT_LENGTH hs =
                (if negb (sa_nocl a) && negb (has_key_ci TRANSFER_ENCODING h0) then Some clv else get_ci CONTENT_LENGTH h0)).
  { rewrite Ep, !get_ci_cond_put.
    change (bytes_eqb CONTENT_LENGTH (lower H_CONNECTION)) with false.
    change (bytes_eqb CONTENT_LENGTH (lower H_CONTENT_LENGTH)) with true.
    rewrite andb_false_r, andb_true_r. rewrite (andb_comm (negb (sa_nocl a))). reflexivity. }
  set (bl := bodyless_status (Z.to_N (sa_status a))) in *.
  assert (Hbl' : bl = true -> truthy (sa_body a) = false).
  { intros E. rewrite E in Hbl. now apply negb_true_iff in Hbl. }
  pose proof (rfc_framing_from_args h0 hs (sa_body a) (negb (sa_nocl a)) true false bl Hfr Hn TEf CLf
                ltac:(reflexivity) Hbl') as Hframe.
  destruct (status_code_digits _ Hs1 Hs2) as (d1 & d2 & d3 & Ec & Hd & Hval).
  destruct (is_http_version_chars _ Hver) as [Vlf Vsp].
  rewrite build_response_wire. fold hs. rewrite Ec.
  pose (tl := if truthy (sa_reason a) then SP :: or_empty (sa_reason a) else []).
  pose (line := sa_version a ++ SP :: [d1; d2; d3] ++ tl).
  pose (rest := header_lines hs ++ CRLF ++ or_empty (sa_body a)).
  assert (Er : sa_version a ++ [SP] ++ [d1; d2; d3] ++
               (if truthy (sa_reason a) then [SP] ++ or_empty (sa_reason a) else []) ++ CRLF ++
               header_lines hs ++ CRLF ++ or_empty (sa_body a) = line ++ CRLF ++ rest).
  { unfold line, rest, tl. destruct (truthy (sa_reason a)); cbn [app];
      repeat (rewrite <- app_assoc || rewrite <- app_comm_cons); reflexivity. }
  rewrite Er. unfold wf_message.
  assert (Hrl : ~ In LF (or_empty (sa_reason a))) by (now apply field_bytes_no_lf).
  assert (Dl : ~ In LF [d1; d2; d3]).
  { intros Hi. pose proof (is_digit_range _ (forallb_In _ _ _ Hd Hi)) as R. unfold LF in R. lia. }
  assert (Ll : ~ In LF line).
  { unfold line, tl. intros Hi. apply in_app_or in Hi as [Hi|[Hi|Hi]]; [now apply Vlf|discriminate Hi|].
    apply in_app_or in Hi as [Hi|Hi]; [now apply Dl|].
    destruct (truthy (sa_reason a)); [|destruct Hi]. destruct Hi as [Hi|Hi]; [discriminate Hi|now apply Hrl]. }
  rewrite (split_once_crlf_no_lf line rest Ll).
  unfold rest at 1 2. rewrite parse_fields_lines; [|exact Hr|].
  2:{ rewrite app_length. pose proof (header_lines_length hs). lia. }
  cbn [is_request]. unfold parse_status_line, line.
  rewrite (split_once_byte_notin SP _ _ Vsp). rewrite Hver. cbn [app firstn skipn length Nat.eqb andb].
  rewrite Hd. cbn [andb].
  assert (Htl : match tl with [] => true | x :: reason => (x =? SP) && forallb is_field_byte reason end = true).
  { unfold tl. destruct (truthy (sa_reason a)); [|reflexivity]. now rewrite N.eqb_refl. }
  rewrite Htl. rewrite Hval. exact Hframe.
Qed.

(* ===================================================================================== *)
(* concrete witnesses: non-vacuity of the hypotheses, and refutations of unguarded forms  *)

Definition ex_ua : bytes := bs "proxy.py v2".

(* a request the builders are given: differently spelled Content-Length already present, body *)
Definition ex_req_args : req_args :=
  {| ra_method := bs "POST"; ra_url := bs "/upload?x=1"; ra_version := bs "HTTP/1.1";
     ra_ctype := Some (bs "application/json");
     ra_headers := Some [(bs "Host", bs "example.org"); (bs "content-length", bs "999"); (bs "X-Id", bs "7")];
     ra_body := Some (bs "{""k"": 1}"); ra_close := true; ra_noua := false |}.

Lemma ex_req_args_ok : wf_req_args ex_ua ex_req_args = true /\ rfc_req_args ex_ua ex_req_args = true /\
  exists u, from_bytes DEFAULT_ALLOWED_URL_SCHEMES (ra_url ex_req_args) = Ok u.
Proof. split; [vm_compute; reflexivity|]. split; [vm_compute; reflexivity|]. vm_compute. eexists. reflexivity. Qed.

(* a chunked response handed to build_http_response with an already encoded body *)
Definition ex_resp_args : resp_args :=
  {| sa_status := 200%Z; sa_version := bs "HTTP/1.1"; sa_reason := Some (bs "OK");
     sa_headers := Some [(bs "transfer-encoding", bs "Chunked"); (bs "Server", bs "x")];
     sa_body := Some (bs "3;a=b" ++ CRLF ++ bs "abc" ++ CRLF ++ bs "000" ++ CRLF ++ bs "T: 1" ++ CRLF ++ CRLF);
     sa_close := false; sa_nocl := false |}.

Lemma ex_resp_args_ok : wf_resp_args ex_resp_args = true /\ rfc_resp_args ex_resp_args = true.
Proof. split; vm_compute; reflexivity. Qed.

(* the fixed defect: a parsed chunked request with an EMPTY body is rebuilt WITH its terminator,
   and the rebuilt bytes parse back to a complete message with the empty body *)
Definition ex_empty_chunked : bytes :=
  bs "POST /u HTTP/1.1" ++ CRLF ++ bs "Host: a" ++ CRLF ++ bs "transfer-encoding: Chunked" ++ CRLF ++ CRLF ++
  bs "0" ++ CRLF ++ CRLF.

Lemma ex_empty_chunked_rebuild :
  exists p p', parse (new_parser REQUEST_PARSER) ex_empty_chunked = Ok p /\ state p = COMPLETE /\
    build ex_ua p [] false None = Ok ex_empty_chunked /\
    parse (new_parser REQUEST_PARSER) ex_empty_chunked = Ok p' /\ body p' = Some [] /\ state p' = COMPLETE.
Proof.
  do 2 eexists. repeat apply conj.
  all: try (lazy; reflexivity).
Qed.

(* the hypotheses of the state-level rebuild theorem hold of that parsed request *)
Lemma ex_rebuild_hypotheses :
  exists p hs, parse (new_parser REQUEST_PARSER) ex_empty_chunked = Ok p /\
    headers p = lift_headers hs /\ forallb ok_header hs = true /\ NoDup (lkeys hs) /\ framing_consistent p hs.
Proof.
  eexists. exists [(bs "Host", bs "a"); (bs "transfer-encoding", bs "Chunked")].
  split; [vm_compute; reflexivity|]. split; [vm_compute; reflexivity|]. split; [vm_compute; reflexivity|].
  split.
  - apply nodup_ci_NoDup. vm_compute. reflexivity.
  - unfold framing_consistent. vm_compute. repeat split; discriminate.
Qed.

(* update_body as it was before the repair: after update_body(b"hello") on a chunked request, build()
   chunk-encodes the already encoded body a second time; the recipient decodes "5 CRLF hello ..." *)
Definition ex_chunked_post : bytes :=
  bs "POST /x HTTP/1.1" ++ CRLF ++ bs "Host: a" ++ CRLF ++ bs "Transfer-Encoding: chunked" ++ CRLF ++ CRLF ++
  bs "3" ++ CRLF ++ bs "abc" ++ CRLF ++ bs "0" ++ CRLF ++ CRLF.

Lemma update_body_old_refuted :
  exists p p1 raw p2,
    parse (new_parser REQUEST_PARSER) ex_chunked_post = Ok p /\ state p = COMPLETE /\
    update_body_old (fun x => x) p (bs "hello") (bs "text/plain") = Ok p1 /\
    build ex_ua p1 [] false None = Ok raw /\
    parse (new_parser REQUEST_PARSER) raw = Ok p2 /\ state p2 = COMPLETE /\
    body p2 = Some (bs "5" ++ CRLF ++ bs "hello" ++ CRLF ++ bs "0" ++ CRLF ++ CRLF).
Proof.
  do 4 eexists. repeat apply conj.
  all: try (lazy; reflexivity).
Qed.

Lemma update_body_new_ok :
  exists p p1 raw p2,
    parse (new_parser REQUEST_PARSER) ex_chunked_post = Ok p /\ state p = COMPLETE /\
    update_body (fun x => x) p (bs "hello") (bs "text/plain") = Ok p1 /\
    build ex_ua p1 [] false None = Ok raw /\
    parse (new_parser REQUEST_PARSER) raw = Ok p2 /\ state p2 = COMPLETE /\ body p2 = Some (bs "hello").
Proof.
  do 4 eexists. repeat apply conj.
  all: try (lazy; reflexivity).
Qed.

(* the guards of C15_rebuild_stable are needed: without them the statement is false of the model
   (and of the implementation: replayed in corpus/C15) *)
(* (1) a path starting with "//" is re-read as a network-path reference *)
Definition ex_double_slash : bytes := bs "GET http://h//x HTTP/1.1" ++ CRLF ++ CRLF.
Lemma rebuild_double_slash_refuted :
  exists p raw p', parse (new_parser REQUEST_PARSER) ex_double_slash = Ok p /\ state p = COMPLETE /\
    path p = Some (bs "//x") /\
    build ex_ua p [] false None = Ok raw /\ parse (new_parser REQUEST_PARSER) raw = Ok p' /\
    host p' = Some (bs "x") /\ path p' = None.
Proof.
  do 3 eexists. repeat apply conj.
  all: try (lazy; reflexivity).
Qed.

(* (2) a Content-Length that is not the canonical decimal comes back canonical: same number, other text *)
Definition ex_cl05 : bytes :=
  bs "POST /x HTTP/1.1" ++ CRLF ++ bs "host: a" ++ CRLF ++ bs "content-length: 05" ++ CRLF ++ CRLF ++ bs "hello".
Lemma rebuild_noncanonical_length_refuted :
  exists p raw p', parse (new_parser REQUEST_PARSER) ex_cl05 = Ok p /\ state p = COMPLETE /\
    build ex_ua p [] false None = Ok raw /\ parse (new_parser REQUEST_PARSER) raw = Ok p' /\
    state p' = COMPLETE /\ body p' = body p /\ headers p' <> headers p /\
    header p' CONTENT_LENGTH = Ok (bs "5") /\ header p CONTENT_LENGTH = Ok (bs "05").
Proof.
  do 3 eexists. repeat apply conj.
  all: try (lazy; reflexivity).
  lazy. discriminate.
Qed.

(* (3) a status code that is not a canonical decimal is rebuilt through int() *)
Definition ex_status_plus : bytes := bs "HTTP/1.1 +200 OK" ++ CRLF ++ bs "Content-Length: 0" ++ CRLF ++ CRLF.
Lemma rebuild_noncanonical_status_refuted :
  exists p raw p', parse (new_parser RESPONSE_PARSER) ex_status_plus = Ok p /\ state p = COMPLETE /\
    build_response p = Ok raw /\ parse (new_parser RESPONSE_PARSER) raw = Ok p' /\
    code p = Some (bs "+200") /\ code p' = Some (bs "200").
Proof.
  do 3 eexists. repeat apply conj.
  all: try (lazy; reflexivity).
Qed.

(* ===================================================================================== *)
(* update_body, then re-serialise, then parse                                             *)
(* ---- header dicts of parser states: canonical keys, ok entries ---- *)
Definition entry_ok (e : bytes * (bytes * bytes)) : bool :=
  bytes_eqb (fst e) (lower (fst (snd e))) && ok_header (snd e).
Definition hd_ok (d : hdict) : Prop := forallb entry_ok d = true /\ dict_wf d.

Lemma hd_ok_set d k v : hd_ok d -> ok_header (k, v) = true -> hd_ok (dict_set (lower k) (k, v) d).
Proof.
  intros [H1 H2] Ho. split; [|now apply dict_wf_set].
  clear H2. induction d as [|[k0 e0] t IH]; cbn [dict_set forallb].
  - unfold entry_ok. cbn [fst snd]. now rewrite bytes_eqb_refl, Ho.
  - cbn [forallb] in H1. apply andb_true_iff in H1 as [Hk Ht].
    destruct (bytes_eqb (lower k) k0); cbn [forallb].
    + rewrite Ht, andb_true_r. unfold entry_ok. cbn [fst snd]. now rewrite bytes_eqb_refl, Ho.
    + now rewrite Hk, IH.
Qed.

Lemma hd_ok_del d k : hd_ok d -> hd_ok (dict_del k d).
Proof.
  intros [H1 H2]. split; [|now apply dict_wf_del].
  clear H2. induction d as [|[k0 e0] t IH]; [reflexivity|]. cbn [dict_del].
  cbn [forallb] in H1. apply andb_true_iff in H1 as [Hk Ht].
  destruct (bytes_eqb k k0); [exact Ht|]. cbn [forallb]. now rewrite Hk, IH.
Qed.

Definition hdo_ok (h : option hdict) : Prop := match h with Some d => hd_ok d | None => True end.

Lemma hdo_ok_add p k v : hdo_ok (headers p) -> ok_header (k, v) = true -> hdo_ok (headers (add_header p k v)).
Proof.
  unfold add_header, add_header_d. cbn [headers set_headers hdo_ok]. intros H Ho.
  destruct (headers p) as [d|]; [now apply hd_ok_set|].
  apply (hd_ok_set [] k v); [split; [reflexivity|apply dict_wf_nil]|exact Ho].
Qed.

Lemma hdo_ok_del p k : hdo_ok (headers p) -> hdo_ok (headers (del_header p k)).
Proof.
  unfold del_header. destruct (headers p) as [[|e t]|] eqn:E; intros H; try (rewrite E; exact H).
  destruct (dict_has (lower k) (e :: t)); [|rewrite E; exact H].
  cbn [headers set_headers hdo_ok]. now apply hd_ok_del.
Qed.

(* the boolean view used by rebuildable_* *)
Lemma unlift_props d : hd_ok d -> d <> [] ->
  hdict_canonical (Some d) = true /\ forallb ok_header (unlift (Some d)) = true /\
  nodup_ci (map fst (unlift (Some d))) = true.
Proof.
  intros [H1 H2] Hne.
  assert (Hc : forallb (fun e => bytes_eqb (fst e) (lower (fst (snd e)))) d = true).
  { apply forallb_forall. intros e He. pose proof (forallb_In _ _ _ H1 He) as X. unfold entry_ok in X.
    now apply andb_true_iff in X as [? _]. }
  split; [destruct d; [congruence|exact Hc]|]. split.
  - cbn [unlift]. apply forallb_forall. intros kv Hi. apply in_map_iff in Hi as (e & <- & He).
    pose proof (forallb_In _ _ _ H1 He) as X. unfold entry_ok in X. apply andb_true_iff in X as [_ X].
    destruct e as [k [o v]]. exact X.
  - apply nodup_ci_NoDup. cbn [unlift]. unfold lkeys. rewrite map_map. cbn [fst].
    unfold dict_wf, dict_keys in H2.
    rewrite (map_ext_in _ fst); [exact H2|]. intros e He.
    pose proof (forallb_In _ _ _ Hc He) as X. apply bytes_eqb_eq in X. now rewrite X.
Qed.

Lemma props_unlift h : hdict_canonical h = true -> forallb ok_header (unlift h) = true ->
  nodup_ci (map fst (unlift h)) = true -> hdo_ok h.
Proof.
  destruct h as [d|]; [|intros; exact I]. cbn [hdo_ok]. intros Hc Ho Hn.
  assert (Hc' : forallb (fun e => bytes_eqb (fst e) (lower (fst (snd e)))) d = true).
  { cbn [hdict_canonical] in Hc. destruct d; [discriminate|exact Hc]. }
  split.
  - apply forallb_forall. intros e He. unfold entry_ok. rewrite (forallb_In _ _ _ Hc' He). cbn [andb].
    cbn [unlift] in Ho. apply (forallb_In _ _ _ Ho). apply in_map_iff. exists e. destruct e as [k [o v]]. now split.
  - apply nodup_ci_NoDup in Hn. cbn [unlift] in Hn. unfold lkeys in Hn. rewrite map_map in Hn. cbn [fst] in Hn.
    unfold dict_wf, dict_keys. rewrite (map_ext_in fst (fun e => lower (fst (snd e)))); [exact Hn|].
    intros e He. pose proof (forallb_In _ _ _ Hc' He) as X. now apply bytes_eqb_eq in X.
Qed.

(* header lookup through the unlifted map *)
Lemma get_ci_unlift d ln : forallb (fun e => bytes_eqb (fst e) (lower (fst (snd e)))) d = true ->
  get_ci ln (unlift (Some d)) = match dict_get ln d with Some (_, v) => Some v | None => None end.
Proof.
  cbn [unlift]. induction d as [|[k [o v]] t IH]; intros H; [reflexivity|].
  cbn [forallb fst snd] in H. apply andb_true_iff in H as [Hk Ht]. apply bytes_eqb_eq in Hk. subst k.
  cbn [map fst snd]. rewrite get_ci_cons. cbn [dict_get].
  destruct (bytes_eqb_spec (lower o) ln), (bytes_eqb_spec ln (lower o)); try congruence; try reflexivity.
  now apply IH.
Qed.

Lemma get_ci_unlift_p p ln : hdict_canonical (headers p) = true ->
  get_ci ln (unlift (headers p)) =
  match (match headers p with Some d => dict_get ln d | None => None end) with Some (_, v) => Some v | None => None end.
Proof.
  destruct (headers p) as [d|]; [|reflexivity]. intros H. apply get_ci_unlift.
  cbn [hdict_canonical] in H. destruct d; [discriminate|exact H].
Qed.

(* ---- update_body leaves everything but headers and body alone ---- *)
Lemma del_header_fields p k :
  ty (del_header p k) = ty p /\ method (del_header p k) = method p /\ version (del_header p k) = version p /\
  path (del_header p k) = path p /\ code (del_header p k) = code p /\ reason (del_header p k) = reason p /\
  body (del_header p k) = body p.
Proof.
  unfold del_header. destruct (headers p) as [[|e t]|]; try (repeat split; reflexivity).
  destruct (dict_has (lower k) (e :: t)); repeat split; reflexivity.
Qed.

Lemma update_body_fields gz p data ct p1 : update_body gz p data ct = Ok p1 ->
  ty p1 = ty p /\ method p1 = method p /\ version p1 = version p /\ path p1 = path p /\
  code p1 = code p /\ reason p1 = reason p.
Proof.
  unfold update_body. rewrite has_header_hget, header_hget.
  destruct (hget p L_CONTENT_ENCODING) as [[o v]|]; cbn [bind].
  - destruct (bytes_eqb v V_GZIP); cbn [bind]; intros H; inversion H; subst; clear H.
    + destruct (is_chunked_encoded p).
      * destruct (del_header_fields p CONTENT_LENGTH) as (A & B & C & D & E & F & _). repeat split; assumption.
      * repeat split; reflexivity.
    + destruct (del_header_fields p L_CONTENT_ENCODING) as (A & B & C & D & E & F & _).
      rewrite chunked_del. destruct (is_chunked_encoded p).
      * destruct (del_header_fields (del_header p L_CONTENT_ENCODING) CONTENT_LENGTH) as (A' & B' & C' & D' & E' & F' & _).
        repeat split; cbn [add_header set_body set_headers ty method version path code reason]; congruence.
      * repeat split; cbn [add_header set_body set_headers ty method version path code reason]; assumption.
  - intros H; inversion H; subst; clear H. destruct (is_chunked_encoded p).
    + destruct (del_header_fields p CONTENT_LENGTH) as (A & B & C & D & E & F & _). repeat split; assumption.
    + repeat split; reflexivity.
Qed.

Lemma dict_set_ne {V} k (v : V) d : dict_set k v d <> [].
Proof. destruct d as [|[k0 v0] t]; cbn [dict_set]; [discriminate|]. destruct (bytes_eqb k k0); discriminate. Qed.

Lemma update_body_hdo gz p data ct p1 : hdo_ok (headers p) -> ok_value ct = true ->
  update_body gz p data ct = Ok p1 ->
  hdo_ok (headers p1) /\ exists d, headers p1 = Some d /\ d <> [].
Proof.
  intros H Hct. unfold update_body. rewrite has_header_hget, header_hget.
  assert (Hcl : forall n, ok_header (H_CONTENT_LENGTH, bytes_of_N n) = true).
  { intros n. unfold ok_header. cbn [fst snd]. unfold bytes_of_N. now rewrite dec_ok_value. }
  assert (Hty : ok_header (H_CONTENT_TYPE, ct) = true) by (unfold ok_header; cbn [fst snd]; now rewrite Hct).
  assert (Hne : forall q k v, exists d, headers (add_header q k v) = Some d /\ d <> []).
  { intros q k v. unfold add_header, add_header_d. cbn [headers set_headers]. eexists. split; [reflexivity|].
    apply dict_set_ne. }
  destruct (hget p L_CONTENT_ENCODING) as [[o v]|]; cbn [bind].
  - destruct (bytes_eqb v V_GZIP); cbn [bind]; intros E; inversion E; subst; clear E; (split; [|apply Hne]).
    + apply hdo_ok_add; [|exact Hty]. cbn [set_body headers].
      destruct (is_chunked_encoded p); [now apply hdo_ok_del|now apply hdo_ok_add].
    + apply hdo_ok_add; [|exact Hty]. cbn [set_body headers].
      destruct (is_chunked_encoded (del_header p L_CONTENT_ENCODING));
        [apply hdo_ok_del; now apply hdo_ok_del|apply hdo_ok_add; [now apply hdo_ok_del|apply Hcl]].
  - intros E; inversion E; subst; clear E. split; [|apply Hne].
    apply hdo_ok_add; [|exact Hty]. cbn [set_body headers].
    destruct (is_chunked_encoded p); [now apply hdo_ok_del|now apply hdo_ok_add].
Qed.

Lemma update_body_te gz p data ct p1 : update_body gz p data ct = Ok p1 ->
  hget p1 TRANSFER_ENCODING = hget p TRANSFER_ENCODING.
Proof.
  unfold update_body. rewrite has_header_hget, header_hget.
  destruct (hget p L_CONTENT_ENCODING) as [[o v]|]; cbn [bind].
  - destruct (bytes_eqb v V_GZIP); cbn [bind]; intros E; inversion E; subst; clear E;
      rewrite hget_add_other by discriminate; rewrite hget_set_body.
    + destruct (is_chunked_encoded p); [now rewrite hget_del_other by discriminate|now rewrite hget_add_other by discriminate].
    + destruct (is_chunked_encoded (del_header p L_CONTENT_ENCODING));
        [rewrite hget_del_other by discriminate|rewrite hget_add_other by discriminate];
        now rewrite hget_del_other by discriminate.
  - intros E; inversion E; subst; clear E. rewrite hget_add_other by discriminate. rewrite hget_set_body.
    destruct (is_chunked_encoded p); [now rewrite hget_del_other by discriminate|now rewrite hget_add_other by discriminate].
Qed.

Lemma get_ci_hget p key : hdict_canonical (headers p) = true -> lower key = key ->
  get_ci key (unlift (headers p)) = match hget p key with Some (_, v) => Some v | None => None end.
Proof. intros H E. rewrite get_ci_unlift_p by exact H. unfold hget. now rewrite E. Qed.

Lemma dec_zero : dec_of_N 0 = [48].
Proof. reflexivity. Qed.

(* update_body keeps a state inside the domain of the rebuild theorems *)
Lemma update_body_framing strict gz gunz p data ct p1 : (forall x, gunz (gz x) = x) ->
  hdict_canonical (headers p) = true -> hdo_ok (headers p) -> ok_value ct = true ->
  framing_consistent_b strict p (unlift (headers p)) = true ->
  len_ok (stored_body gz p data) = true ->
  update_body gz p data ct = Ok p1 ->
  hdict_canonical (headers p1) = true /\ forallb ok_header (unlift (headers p1)) = true /\
  nodup_ci (map fst (unlift (headers p1))) = true /\
  framing_consistent_b strict p1 (unlift (headers p1)) = true /\ body p1 = Some (stored_body gz p data).
Proof.
  intros Hg Hc Hd Hct Hf Hl E.
  destruct (update_body_hdo gz p data ct p1 Hd Hct E) as (Hd1 & d1 & Eh1 & Hne1).
  assert (W : headers_wf p) by (unfold headers_wf; destruct (headers p); [apply Hd|exact I]).
  destruct (update_body_consistent gz gunz Hg p data ct p1 W E) as (B1 & _ & _ & _ & B5 & B6 & _).
  rewrite Eh1 in Hd1. cbn [hdo_ok] in Hd1.
  destruct (unlift_props d1 Hd1 Hne1) as (U1 & U2 & U3). rewrite <- Eh1 in U1, U2, U3.
  split; [exact U1|]. split; [exact U2|]. split; [exact U3|]. split; [|exact B1].
  unfold framing_consistent_b in *.
  rewrite (get_ci_hget p1 TRANSFER_ENCODING U1 eq_refl), (update_body_te gz p data ct p1 E),
          <- (get_ci_hget p TRANSFER_ENCODING Hc eq_refl).
  rewrite B5, B1.
  destruct (get_ci TRANSFER_ENCODING (unlift (headers p))) as [te|].
  - apply andb_true_iff in Hf as [Hf _]. apply andb_true_iff in Hf as [Hf _]. apply andb_true_iff in Hf as [Ht Hk].
    rewrite Ht, Hk. cbn [andb]. rewrite Hk in B6. rewrite andb_true_r.
    rewrite has_key_ci_get, (get_ci_hget p1 CONTENT_LENGTH U1 eq_refl).
    rewrite has_header_hget in B6. destruct (hget p1 CONTENT_LENGTH) as [[o v]|]; [discriminate|reflexivity].
  - apply andb_true_iff in Hf as [Hk _]. rewrite Hk. cbn [andb]. apply negb_true_iff in Hk. rewrite Hk in B6.
    rewrite (get_ci_hget p1 CONTENT_LENGTH U1 eq_refl). rewrite header_hget in B6.
    destruct (hget p1 CONTENT_LENGTH) as [[o v]|]; [|discriminate]. inversion B6; subst v. clear B6.
    unfold bytes_of_N. cbn [or_empty].
    destruct (truthy (Some (stored_body gz p data))) eqn:T.
    + now rewrite bytes_eqb_refl, Hl.
    + assert (Es : stored_body gz p data = []) by (destruct (stored_body gz p data); [reflexivity|discriminate]).
      rewrite Es. change (len []) with 0. rewrite dec_zero. destruct strict; reflexivity.
Qed.

Lemma rebuildable_req_hdo p : rebuildable_req p = true ->
  hdict_canonical (headers p) = true /\ hdo_ok (headers p) /\ framing_consistent_b false p (unlift (headers p)) = true.
Proof.
  unfold rebuildable_req. cbv zeta. intros H. repeat (apply andb_true_iff in H as [H ?]).
  repeat split; try assumption. now apply props_unlift.
Qed.
Lemma rebuildable_resp_hdo p : rebuildable_resp p = true ->
  hdict_canonical (headers p) = true /\ hdo_ok (headers p) /\ framing_consistent_b true p (unlift (headers p)) = true.
Proof.
  unfold rebuildable_resp. cbv zeta. intros H. repeat (apply andb_true_iff in H as [H ?]).
  repeat split; try assumption. now apply props_unlift.
Qed.

Lemma update_body_rebuildable_req gz gunz p data ct p1 : (forall x, gunz (gz x) = x) ->
  rebuildable_req p = true -> ok_value ct = true -> len_ok (stored_body gz p data) = true ->
  update_body gz p data ct = Ok p1 -> rebuildable_req p1 = true /\ body p1 = Some (stored_body gz p data).
Proof.
  intros Hg R Hct Hl E. destruct (rebuildable_req_hdo p R) as (Hc & Hd & Hf).
  destruct (update_body_framing false gz gunz p data ct p1 Hg Hc Hd Hct Hf Hl E) as (U1 & U2 & U3 & U4 & U5).
  destruct (update_body_fields gz p data ct p1 E) as (F1 & F2 & F3 & F4 & F5 & F6).
  split; [|exact U5].
  unfold rebuildable_req in *. cbv zeta in *. unfold path_ok_b in *. rewrite F1, F2, F3, F4, U1, U2, U3, U4.
  repeat (apply andb_true_iff in R as [R ?]).
  repeat match goal with X : _ = true |- _ => rewrite X end. reflexivity.
Qed.

Lemma update_body_rebuildable_resp gz gunz p data ct p1 : (forall x, gunz (gz x) = x) ->
  rebuildable_resp p = true -> ok_value ct = true -> len_ok (stored_body gz p data) = true ->
  update_body gz p data ct = Ok p1 -> rebuildable_resp p1 = true /\ body p1 = Some (stored_body gz p data).
Proof.
  intros Hg R Hct Hl E. destruct (rebuildable_resp_hdo p R) as (Hc & Hd & Hf).
  destruct (update_body_framing true gz gunz p data ct p1 Hg Hc Hd Hct Hf Hl E) as (U1 & U2 & U3 & U4 & U5).
  destruct (update_body_fields gz p data ct p1 E) as (F1 & F2 & F3 & F4 & F5 & F6).
  split; [|exact U5].
  unfold rebuildable_resp in *. cbv zeta in *. rewrite F1, F3, F5, F6, U1, U2, U3, U4.
  repeat (apply andb_true_iff in R as [R ?]).
  repeat match goal with X : _ = true |- _ => rewrite X end. reflexivity.
Qed.

(* update_body, then re-serialise, then parse: the new (possibly gzip-compressed) body comes back *)
Theorem update_body_rebuild_request gz gunz ua p data ct : (forall x, gunz (gz x) = x) ->
  rebuildable_req p = true -> ok_value ct = true -> len_ok (stored_body gz p data) = true ->
  exists p1 raw p',
    update_body gz p data ct = Ok p1 /\ build ua p1 [] false None = Ok raw /\
    parse (new_parser REQUEST_PARSER) raw = Ok p' /\ state p' = COMPLETE /\ buffer p' = None /\
    method p' = method p /\ version p' = version p /\
    bodyb p' = stored_body gz p data /\
    (says_gzip p = true -> gunz (bodyb p') = data) /\ (says_gzip p = false -> bodyb p' = data) /\
    header p' H_CONTENT_TYPE = Ok ct /\ is_chunked_encoded p' = is_chunked_encoded p.
Proof.
  intros Hg R Hct Hl. destruct (update_body_ok gz p data ct) as [p1 E].
  destruct (update_body_rebuildable_req gz gunz p data ct p1 Hg R Hct Hl E) as [R1 B1].
  destruct (rebuild_stable_request_bool ua p1 R1) as (raw & p' & S1 & S2 & S3 & S4 & S5 & S6 & _ & _ & S9 & S10 & S11).
  destruct (update_body_fields gz p data ct p1 E) as (F1 & F2 & F3 & _).
  destruct (rebuildable_req_hdo p R) as (_ & Hd & _).
  assert (W : headers_wf p) by (unfold headers_wf; destruct (headers p); [apply Hd|exact I]).
  destruct (update_body_consistent gz gunz Hg p data ct p1 W E) as (_ & C2 & _ & C4 & C5 & _).
  assert (Eb : bodyb p' = stored_body gz p data) by (rewrite S10; unfold bodyb; now rewrite B1).
  exists p1, raw, p'. repeat apply conj; try assumption; try congruence.
  - rewrite Eb. exact C2.
  - intros G. rewrite Eb. unfold stored_body. now rewrite G.
  - unfold header in *. now rewrite S9.
Qed.

Theorem update_body_rebuild_response gz gunz p data ct : (forall x, gunz (gz x) = x) ->
  rebuildable_resp p = true -> ok_value ct = true -> len_ok (stored_body gz p data) = true ->
  exists p1 raw p',
    update_body gz p data ct = Ok p1 /\ build_response p1 = Ok raw /\
    parse (new_parser RESPONSE_PARSER) raw = Ok p' /\ state p' = COMPLETE /\ buffer p' = None /\
    version p' = version p /\ code p' = code p /\
    bodyb p' = stored_body gz p data /\
    (says_gzip p = true -> gunz (bodyb p') = data) /\ (says_gzip p = false -> bodyb p' = data) /\
    header p' H_CONTENT_TYPE = Ok ct /\ is_chunked_encoded p' = is_chunked_encoded p.
Proof.
  intros Hg R Hct Hl. destruct (update_body_ok gz p data ct) as [p1 E].
  destruct (update_body_rebuildable_resp gz gunz p data ct p1 Hg R Hct Hl E) as [R1 B1].
  destruct (rebuild_stable_response_bool p1 R1) as (raw & p' & S1 & S2 & S3 & S4 & S5 & S6 & _ & S8 & S9 & S10).
  destruct (update_body_fields gz p data ct p1 E) as (F1 & F2 & F3 & _ & F5 & _).
  destruct (rebuildable_resp_hdo p R) as (_ & Hd & _).
  assert (W : headers_wf p) by (unfold headers_wf; destruct (headers p); [apply Hd|exact I]).
  destruct (update_body_consistent gz gunz Hg p data ct p1 W E) as (_ & C2 & _ & C4 & C5 & _).
  assert (Eb : bodyb p' = stored_body gz p data) by (rewrite S9; unfold bodyb; now rewrite B1).
  exists p1, raw, p'. repeat apply conj; try assumption; try congruence.
  - rewrite Eb. exact C2.
  - intros G. rewrite Eb. unfold stored_body. now rewrite G.
  - unfold header in *. now rewrite S8.
Qed.
