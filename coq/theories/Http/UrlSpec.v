(* C14 reference: the abstract syntax of the request-targets a proxy has to route (RFC 9112 §3.2
   origin-form, absolute-form restricted to the http scheme, authority-form; RFC 3986 §3.2 authority),
   how such a target is written on the wire, and what must be derived from it.
   Independent of the implementation model: of Http/Url.v only the byte constants SLASH, AT, LBRACKET,
   RBRACKET are used; render/expected mention no split/join/int().
   Definitions only. *)
From PM Require Import Lib.Bytes Lib.PyStr Lib.PyStrFacts Http.Url.
From Coq Require Import ZArith.

Definition QMARK : N := 63.
Definition HASH : N := 35.
Definition DOT : N := 46.

(* host = reg-name / IPv4address / "[" IPv6address "]"; the IPv6 constructor carries the text BETWEEN the brackets *)
Inductive host := RegName (b : bytes) | IPv4 (b : bytes) | IPv6 (b : bytes).

(* userinfo = user [ ":" password ] *)
Definition userinfo := (bytes * option bytes)%type.

(* ports are kept as their digit text (so that "080" and "65535" are both covered) *)
Inductive target :=
| Origin (path : bytes)                                                              (* GET /p?q *)
| Absolute (ui : option userinfo) (h : host) (port : option bytes) (path : option bytes)   (* GET http://u:p@h:80/p?q *)
| Authority (h : host) (port : bytes).                                               (* CONNECT h:443 *)

(* ---- character classes (boolean side conditions) ---- *)
Definition none_of (bad l : bytes) : bool := forallb (fun x => negb (mem_byte x bad)) l.

Definition is_hex (x : N) : bool := is_digit x || ((97 <=? x) && (x <=? 102)) || ((65 <=? x) && (x <=? 70)).

(* delimiters that end or structure an authority: a reg-name / IPv4 literal contains none of them *)
Definition HOST_EXCLUDED : bytes := [COLON; SLASH; AT; LBRACKET; RBRACKET; QMARK; HASH].
Definition USER_EXCLUDED : bytes := [AT; SLASH; COLON; QMARK; HASH].
Definition PASS_EXCLUDED : bytes := [AT; SLASH; QMARK; HASH].

Definition wf_host (h : host) : bool :=
  match h with
  | RegName b => negb (Nat.eqb (length b) 0) && none_of HOST_EXCLUDED b && utf8_valid b      (* incl. IDNA / UTF-8 names *)
  | IPv4 b => negb (Nat.eqb (length b) 0) && forallb (fun x => is_digit x || (x =? DOT)) b
  | IPv6 b => forallb (fun x => is_hex x || (x =? COLON) || (x =? DOT)) b && (2 <=? count_byte COLON b)%nat
  end.

Definition wf_port (p : bytes) : bool :=
  negb (Nat.eqb (length p) 0) && all_digits p && (length p <=? int_limit)%nat.

Definition wf_userinfo (ui : userinfo) : bool :=
  none_of USER_EXCLUDED (fst ui) && match snd ui with Some pw => none_of PASS_EXCLUDED pw | None => true end.

Definition starts_with_slash (p : bytes) : bool := match p with x :: _ => x =? SLASH | [] => false end.

Definition wf_target (t : target) : bool :=
  match t with
  | Origin p => starts_with_slash p && negb (starts_with_slash (tl p))     (* "//x" is a network-path reference *)
  | Absolute ui h pt pa =>
      match ui with Some u => wf_userinfo u | None => true end && wf_host h &&
      match pt with Some p => wf_port p | None => true end &&
      match pa with Some p => starts_with_slash p | None => true end
  | Authority h p => wf_host h && wf_port p
  end.

(* ---- the wire form ---- *)
Definition host_text (h : host) : bytes :=
  match h with RegName b => b | IPv4 b => b | IPv6 b => [LBRACKET] ++ b ++ [RBRACKET] end.
(* what a socket address wants: no brackets *)
Definition host_unbracketed (h : host) : bytes :=
  match h with RegName b => b | IPv4 b => b | IPv6 b => b end.

Definition render_userinfo (ui : option userinfo) : bytes :=
  match ui with
  | None => []
  | Some (u, None) => u ++ [AT]
  | Some (u, Some pw) => u ++ COLON :: pw ++ [AT]
  end.
Definition render_port (pt : option bytes) : bytes := match pt with None => [] | Some p => COLON :: p end.
Definition render_path (pa : option bytes) : bytes := match pa with None => [] | Some p => p end.

Definition HTTP_SCHEME_PREFIX : bytes := bytes_of_string "http://".

Definition render_target (t : target) : bytes :=
  match t with
  | Origin p => p
  | Absolute ui h pt pa => HTTP_SCHEME_PREFIX ++ render_userinfo ui ++ host_text h ++ render_port pt ++ render_path pa
  | Authority h p => host_text h ++ COLON :: p
  end.

(* ---- what has to be derived ---- *)
Definition default_port (is_connect : bool) : Z := if is_connect then 443%Z else 80%Z.
Definition port_value (p : bytes) : Z := Z.of_N (digits_val p).
Definition port_or_default (is_connect : bool) (pt : option bytes) : Z :=
  match pt with Some p => port_value p | None => default_port is_connect end.

(* (host as HttpParser keeps it — brackets included, pinned by the test-suite —, port, path) *)
Definition expected (is_connect : bool) (t : target) : option bytes * option Z * option bytes :=
  match t with
  | Origin p => (None, Some (default_port is_connect), Some p)
  | Absolute _ h pt pa => (Some (host_text h), Some (port_or_default is_connect pt), pa)
  | Authority h p => (Some (host_text h), Some (port_value p), None)
  end.

(* the socket address the proxy has to connect to; None: origin-form names no host *)
Definition expected_addr (is_connect : bool) (t : target) : option (bytes * Z) :=
  match t with
  | Origin _ => None
  | Absolute _ h pt _ => Some (host_unbracketed h, port_or_default is_connect pt)
  | Authority h p => Some (host_unbracketed h, port_value p)
  end.

(* ---- reference reading of an arbitrary (possibly damaged) host[:port] text:
        the port is what follows the LAST colon, provided it is a number ---- *)
Definition is_int_text (t : bytes) : bool := match int10 t with Ok _ => true | Err _ => false end.
Definition ref_hostport (hp : bytes) : bytes * option Z :=
  match rsplit_byte COLON hp with
  | Some (a, p) => match int10 p with Ok n => (a, Some n) | Err _ => (hp, None) end
  | None => (hp, None)
  end.
Definition last_token (hp : bytes) : bytes :=
  match rsplit_byte COLON hp with Some (_, t) => t | None => hp end.

(* the shape on which proxy.py's "patch up invalid ipv6" leniency acts (and the degenerate two-colon spelling
   whose trailing colon it keeps): two or more colons and either no opening bracket, or exactly two colons
   the last of which is followed by a number *)
Definition starts_with_bracket (hp : bytes) : bool := match hp with x :: _ => x =? LBRACKET | [] => false end.
Definition lenient_ipv6_shape (hp : bytes) : bool :=
  (2 <=? count_byte COLON hp)%nat &&
  (negb (starts_with_bracket hp) || (Nat.eqb (count_byte COLON hp) 2 && is_int_text (last_token hp))).

(* the host[:port] text of a raw request-target as far as it can be located without interpreting it:
   what lies between "://" (or a leading "//") and the next "/", after the first "@";
   the whole target when it carries no scheme (authority-form); None for origin-form *)
Definition after_at (auth : bytes) : bytes :=
  match split_once [AT] auth with Some (_, r) => r | None => auth end.
Definition ref_authority (raw : bytes) : option bytes :=
  if starts_with_slash raw && negb (starts_with_slash (tl raw)) then None
  else if starts_with_slash raw then
    let rest := skipn 2 raw in
    Some (match split_once [SLASH] rest with Some (a, _) => a | None => rest end)
  else match split_once (bytes_of_string "://") raw with
       | Some (_, rest) => Some (match split_once [SLASH] rest with Some (a, _) => a | None => rest end)
       | None => Some raw
       end.
Definition ref_hostport_text (raw : bytes) : option bytes := option_map after_at (ref_authority raw).
