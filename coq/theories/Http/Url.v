(* Model of proxy/http/url.py (Url.from_bytes, Url._parse) after the Python, function by
   function, with its leniencies.  Definitions only. *)
From PM Require Import Lib.Bytes Lib.PyStr.
From Coq Require Import ZArith.

Record url := {
  u_scheme : option bytes; u_username : option bytes; u_password : option bytes;
  u_hostname : option bytes; u_port : option Z; u_remainder : option bytes }.

Definition SLASH : N := 47.
Definition AT : N := 64.
Definition LBRACKET : N := 91.
Definition RBRACKET : N := 93.

Definition HTTP_PROTO : bytes := bytes_of_string "http".
Definition HTTPS_PROTO : bytes := bytes_of_string "https".
Definition DEFAULT_ALLOWED_URL_SCHEMES : list bytes := [HTTP_PROTO; HTTPS_PROTO].

Fixpoint mem_bytes (x : bytes) (l : list bytes) : bool :=
  match l with [] => false | y :: t => bytes_eqb x y || mem_bytes x t end.

Definition last_or (d : bytes) (l : list bytes) : bytes := last l d.

(* host.decode('utf-8'); ':' in rhost and rhost[0] != '[' and rhost[-1] != ']' *)
Definition patch_ipv6 (host : bytes) : result bytes :=
  do h <- text_ host;
  if mem_byte COLON h then
    match h with
    | [] => Ok host
    | x :: _ => if negb (x =? LBRACKET) && negb (last h 0 =? RBRACKET)
                then Ok ([LBRACKET] ++ host ++ [RBRACKET]) else Ok host
    end
  else Ok host.

(* Url._parse : (username, password, host, port) *)
Definition parse_authority (raw : bytes)
  : result (option bytes * option bytes * bytes * option Z) :=
  let split_at := split_once [AT] raw in
  let '(user, pass, hostport) :=
    match split_at with
    | None => (None, None, raw)
    | Some (ui, rest) =>
        match split_once [COLON] ui with
        | None => (Some ui, None, rest)
        | Some (u, p) => (Some u, Some p, rest)
        end
    end in
  match splitn [COLON] 2 hostport with
  | [h] => Ok (user, pass, h, None)
  | [h; p] => do n <- int10 p; Ok (user, pass, h, Some n)
  | [a; c; rest] =>
      (* more than a single COLON i.e. IPv6 scenario *)
      let last_token := split_all [COLON] rest in
      let '(host, port) :=
        match int10 (last last_token []) with
        | Ok n => (join [COLON] [a; c] ++ [COLON] ++ join [COLON] (removelast last_token), Some n)
        | Err _ => (hostport, None)      (* except ValueError: host, port = split_at[-1], None *)
        end in
      do host' <- patch_ipv6 host;
      Ok (user, pass, host', port)
  | _ => Err OutOfFuel   (* unreachable: splitn with maxsplit 2 yields 1..3 parts *)
  end.

Definition from_bytes (allowed : list bytes) (raw : bytes) : result url :=
  match raw with
  | [] => Err IndexError
  | c0 :: _ =>
      let single := c0 =? SLASH in
      let double := single && match raw with _ :: c1 :: _ => c1 =? SLASH | _ => false end in
      if single && negb double then
        Ok {| u_scheme := None; u_username := None; u_password := None; u_hostname := None; u_port := None;
              u_remainder := Some raw |}
      else
        do '(sch, rest) <-
          (if negb double then
             match split_once (bytes_of_string "://") raw with
             | Some (s, r) => if mem_bytes s allowed then Ok (Some s, Some r)
                              else Err (HttpProtocolException 1)
             | None => Ok (None, None)
             end
           else Ok (None, Some (skipn 2 raw)));
        match rest with
        | Some rest' =>
            let '(auth, rem) :=
              match split_once [SLASH] rest' with
              | None => (rest', None)
              | Some (a, p) => (a, Some (SLASH :: p))
              end in
            do '(u, p, h, pt) <- parse_authority auth;
            Ok {| u_scheme := if double then Some HTTP_PROTO else sch; u_username := u; u_password := p;
                  u_hostname := Some h; u_port := pt; u_remainder := rem |}
        | None =>
            do '(u, p, h, pt) <- parse_authority raw;
            Ok {| u_scheme := None; u_username := u; u_password := p; u_hostname := Some h; u_port := pt;
                  u_remainder := None |}
        end
  end.

(* HttpParser._set_line_attributes for a request: (host, port, path) *)
Definition line_attributes (is_tunnel : bool) (u : url) : option bytes * option Z * option bytes :=
  let pt := match u_port u with
            | Some n => Some n
            | None => Some (if is_tunnel then 443%Z else 80%Z)
            end in
  (u_hostname u, pt, u_remainder u).

(* ---- observable equality, for the correspondence ---- *)
Definition Z_opt_eqb := option_eqb Z.eqb.
Definition url_eqb (x y : url) : bool :=
  option_eqb bytes_eqb (u_scheme x) (u_scheme y) && option_eqb bytes_eqb (u_username x) (u_username y) &&
  option_eqb bytes_eqb (u_password x) (u_password y) && option_eqb bytes_eqb (u_hostname x) (u_hostname y) &&
  Z_opt_eqb (u_port x) (u_port y) && option_eqb bytes_eqb (u_remainder x) (u_remainder y).
