(* C15, the remaining arguments of HttpParser.build (disable_headers, for_proxy, host): SPECIFICATION side and
   the call sites.  Definitions only (proofs: Http/BuildArgsFacts.v).  The code model is [build] /
   [rebuilt_request_headers] of Http/Builders.v; nothing of it is redefined here — [build_target] is the model's
   own target expression, named (build_unfold in the Facts file is by reflexivity).
     minus_headers D hs      the header map without the headers whose lower-cased name is literally in D
     override_host ho hs     the header map with the value of every header named Host (any spelling) replaced
     rebuilt_hs D ho hs      both
     readded_D p D           the Content-Length build_http_request writes again when Content-Length was disabled
                             on a message with a non-empty un-chunked body
     proxy_target / tunnel_target   the absolute-form / authority-form targets of build(for_proxy=True) *)
From PM Require Import Lib.Bytes Lib.PyStr Http.Url Http.Chunk Http.Parser Http.Builders.
From Coq Require Import ZArith.

(* `k.lower() not in disable_headers`: a header goes iff its lower-cased name is literally an element of D *)
Definition disabled (D : list bytes) (kv : bytes * bytes) : bool := mem_bytes (lower (fst kv)) D.
Definition minus_headers (D : list bytes) (hs : bdict) : bdict := filter (fun kv => negb (disabled D kv)) hs.

(* `host=`: the value of the header whose name is Host in any spelling; name, position, all others kept *)
Definition override1 (hv : bytes) (kv : bytes * bytes) : bytes * bytes :=
  if bytes_eqb (lower (fst kv)) L_HOST then (fst kv, hv) else kv.
Definition override_host (ho : option bytes) (hs : bdict) : bdict :=
  match ho with Some hv => map (override1 hv) hs | None => hs end.

Definition rebuilt_hs (D : list bytes) (ho : option bytes) (hs : bdict) : bdict :=
  override_host ho (minus_headers D hs).

(* disabling Content-Length on a message with a non-empty un-chunked body: build_http_request announces the
   body again, under the canonical spelling, at the END of the header block *)
Definition readded_D (p : parser) (D : list bytes) : bdict :=
  if mem_bytes CONTENT_LENGTH D && truthy (body p) && negb (is_chunked_encoded p)
  then [(H_CONTENT_LENGTH, dec_of_N (len (or_empty (body p))))] else [].

(* the request-target computed by build(): the model's expression, named *)
Definition build_target (p : parser) (for_proxy : bool) : result bytes :=
  let path0 := if truthy (path p) then or_empty (path p) else [SLASH] in
  if for_proxy then
    match host p, port p, purl p with
    | Some (hx :: ht), Some pt, Some u =>
        if (pt =? 0)%Z then Err AssertionError else
        if negb (is_https_tunnel p) then
          Ok ((if truthy (u_scheme u) then or_empty (u_scheme u) else V_HTTP) ++
              [COLON; SLASH; SLASH] ++ (hx :: ht) ++ [COLON] ++ bytes_of_Z pt ++ path0)
        else Ok ((hx :: ht) ++ [COLON] ++ bytes_of_Z pt)
    | _, _, _ => Err AssertionError
    end
  else Ok path0.

(* the targets build(for_proxy=True) writes: absolute-form  scheme://host:port path  (scheme defaults to http),
   authority-form  host:port  for a CONNECT request *)
Definition scheme_or_http (s : option bytes) : bytes := if truthy s then or_empty s else V_HTTP.
Definition proxy_target (sch : option bytes) (h : bytes) (pt : Z) (pa : bytes) : bytes :=
  scheme_or_http sch ++ [COLON; SLASH; SLASH] ++ h ++ [COLON] ++ bytes_of_Z pt ++ pa.
Definition tunnel_target (h : bytes) (pt : Z) : bytes := h ++ [COLON] ++ bytes_of_Z pt.

(* ---- the call sites ---- *)
(* proxy/http/proxy/server.py  HttpProxyPlugin._queue_request_for_upstream (forward proxy):
     self.upstream.queue(memoryview(request.build(disable_headers=self.flags.disable_headers)))
   = the last step of Net/Forward.v queue_request_for_upstream: build (cf_agent cfg) r2 (cf_disable cfg) false None.
   [r2] is the request object as mutated before the call (Proxy-Authorization / Proxy-Connection deleted, Via
   added); flag.py lower-cases every entry of --disable-headers. *)
Definition forward_call (ua : bytes) (disable_headers : list bytes) (r2 : parser) : result bytes :=
  build ua r2 disable_headers false None.

(* proxy/http/server/reverse.py  ReverseProxy.handle_request:
     request.path = self.choice.remainder
     request.build(host=(hostname + (COLON + bytes_(port) if port is not None else b'')
                         if self.flags.rewrite_host_header else None))
   (disable_headers not passed: DEFAULT_DISABLE_HEADERS = []); the same expression is [hv] in Net/Conversation.v.
   [p] is the request after the path assignment. *)
Definition reverse_host_arg (rewrite_host_header : bool) (hostname : bytes) (port : option Z) : option bytes :=
  if rewrite_host_header
  then Some (hostname ++ match port with Some pt => [COLON] ++ bytes_of_Z pt | None => [] end)
  else None.
Definition reverse_call (ua : bytes) (rewrite_host_header : bool) (hostname : bytes) (port : option Z)
    (p : parser) : result bytes :=
  build ua p [] false (reverse_host_arg rewrite_host_header hostname port).

(* proxy/plugin/proxy_pool.py  ProxyPoolPlugin.handle_client_request:
     self.upstream.queue(memoryview(request.build(for_proxy=True))) *)
Definition proxy_pool_call (ua : bytes) (p : parser) : result bytes := build ua p [] true None.

(* decidable form of the guard of C15_build_disable_headers: Transfer-Encoding is not disabled on a chunked message *)
Definition te_guard_b (p : parser) (D : list bytes) : bool :=
  negb (mem_bytes TRANSFER_ENCODING D && is_chunked_encoded p).
