(* Reference side of property C15, written as SPECIFICATIONS, independent of the parser model:
     - abstract syntax of a chunked body (RFC 7230 section 4.1), its rendering, and the reference
       decoder [ref_dechunk] by recursion on that syntax;
     - the same grammar as an executable recogniser on bytes, [ref_dechunk_bytes], which can be run
       against h11;
     - [wf_message]: an RFC 7230-level recogniser of a complete HTTP/1.x message (start line,
       header fields, framing consistent with the body);
     - the abstract arguments of the builders, their domain [wf_*_args] (exactly what the builders
       do NOT check), and the fields a parser must report for them.
   Definitions only. *)
From PM Require Import Lib.Bytes Lib.PyStr Http.Url Http.Chunk Http.Parser Http.Builders.
From Coq Require Import ZArith.

(* ------------------------------------------------------------------------------------- *)
(* character classes                                                                      *)
Definition is_hex (x : N) : bool :=
  is_digit x || ((97 <=? x) && (x <=? 102)) || ((65 <=? x) && (x <=? 70)).
Definition hex_digit_val (x : N) : N :=
  if is_digit x then x - 48 else if 97 <=? x then x - 87 else x - 55.
Definition hexval (l : bytes) : N := fold_left (fun a x => a * 16 + hex_digit_val x) l 0.
Definition decval (l : bytes) : N := fold_left (fun a x => a * 10 + (x - 48)) l 0.

Definition is_ows (x : N) : bool := (x =? 32) || (x =? 9).
(* tchar = "!" / "#" / "$" / "%" / "&" / "'" / "*" / "+" / "-" / "." / "^" / "_" / "`" / "|" / "~" / DIGIT / ALPHA *)
Definition is_tchar (x : N) : bool :=
  is_digit x || is_alpha x ||
  (x =? 33) || ((35 <=? x) && (x <=? 39)) || (x =? 42) || (x =? 43) || (x =? 45) || (x =? 46) ||
  (x =? 94) || (x =? 95) || (x =? 96) || (x =? 124) || (x =? 126).
Definition nonempty (l : bytes) : bool := match l with [] => false | _ => true end.
Definition is_token (l : bytes) : bool := nonempty l && forallb is_tchar l.
(* bytes allowed inside a field value or reason phrase: anything but NUL, LF, VT, FF, CR
   (VCHAR / obs-text / SP / HTAB, and as liberal as h11 about other control bytes) *)
Definition is_field_byte (x : N) : bool := negb (x =? 0) && negb ((10 <=? x) && (x <=? 13)).
(* request-target: 1*VCHAR *)
Definition is_vchar (x : N) : bool := (33 <=? x) && (x <=? 126).

(* ------------------------------------------------------------------------------------- *)
(* header fields                                                                          *)

(* trims optional whitespace (SP / HTAB) on both sides *)
Fixpoint ltrim_ows (l : bytes) : bytes :=
  match l with x :: t => if is_ows x then ltrim_ows t else l | [] => [] end.
Definition trim_ows (l : bytes) : bytes := rev (ltrim_ows (rev (ltrim_ows l))).

(* header-field = field-name ":" OWS field-value OWS : returns (name, trimmed value) *)
Definition parse_field_line (line : bytes) : option (bytes * bytes) :=
  match split_once [COLON] line with
  | None => None
  | Some (name, v) =>
      if is_token name && forallb is_field_byte v then Some (name, trim_ows v) else None
  end.
Definition wf_field_line (line : bytes) : bool :=
  match parse_field_line line with Some _ => true | None => false end.

(* ------------------------------------------------------------------------------------- *)
(* chunked transfer coding: abstract syntax (RFC 7230 section 4.1)
     chunked-body = *chunk last-chunk trailer-part CRLF
     chunk        = chunk-size [ chunk-ext ] CRLF chunk-data CRLF
     chunk-size   = 1*HEXDIG            (any case, leading zeros allowed)
     last-chunk   = 1*("0") [ chunk-ext ] CRLF
     trailer-part = *( header-field CRLF )                                                  *)
Record chunk := { ck_size : bytes;      (* the size as spelled *)
                  ck_ext : bytes;       (* chunk-ext as spelled: empty, or ";" ... *)
                  ck_data : bytes }.
Record chunked := { ch_chunks : list chunk;
                    ch_last_size : bytes; ch_last_ext : bytes;
                    ch_trailers : list bytes }.

(* chunk-ext = *( ";" chunk-ext-name [ "=" chunk-ext-val ] ); the reference is liberal about what
   follows the first ";" (anything but LF, like h11) and also tolerates trailing SP/HTAB after a
   bare size (BWS) *)
Definition ext_ok (e : bytes) : bool :=
  forallb is_ows e ||
  (match e with x :: _ => x =? SEMI | [] => false end && forallb (fun x => negb (x =? LF)) e).

Definition wf_chunk (c : chunk) : bool :=
  nonempty (ck_size c) && forallb is_hex (ck_size c) && ext_ok (ck_ext c) &&
  nonempty (ck_data c) && (hexval (ck_size c) =? len (ck_data c)).
Definition wf_chunked (s : chunked) : bool :=
  forallb wf_chunk (ch_chunks s) &&
  nonempty (ch_last_size s) && forallb (fun x => x =? 48) (ch_last_size s) && ext_ok (ch_last_ext s) &&
  forallb wf_field_line (ch_trailers s).

Definition render_chunk (c : chunk) : bytes :=
  ck_size c ++ ck_ext c ++ CRLF ++ ck_data c ++ CRLF.
Definition render_chunked (s : chunked) : bytes :=
  concat (map render_chunk (ch_chunks s)) ++
  ch_last_size s ++ ch_last_ext s ++ CRLF ++
  concat (map (fun t => t ++ CRLF) (ch_trailers s)) ++ CRLF.

(* THE REFERENCE DECODER, by recursion on the syntax: the decoded body is the chunk data in order *)
Definition ref_dechunk (s : chunked) : bytes := concat (map ck_data (ch_chunks s)).

(* ---- the same grammar as an executable recogniser on bytes ---- *)
Fixpoint span_hex (l : bytes) : bytes * bytes :=
  match l with
  | x :: t => if is_hex x then let '(a, r) := span_hex t in (x :: a, r) else ([], l)
  | [] => ([], [])
  end.

(* a chunk-size line (without its CRLF): Some (size, size as spelled, ext) *)
Definition parse_size_line (line : bytes) : option (N * bytes * bytes) :=
  let '(sz, ext) := span_hex line in
  if nonempty sz && ext_ok ext then Some (hexval sz, sz, ext) else None.

(* trailer-part CRLF: returns the trailer lines and what follows the final CRLF *)
Fixpoint parse_trailers (fuel : nat) (raw : bytes) : option (list bytes * bytes) :=
  match fuel with
  | O => None
  | S f =>
      match split_once CRLF raw with
      | None => None
      | Some (line, rest) =>
          match line with
          | [] => Some ([], rest)
          | _ => if wf_field_line line then
                   match parse_trailers f rest with
                   | Some (ts, r) => Some (line :: ts, r)
                   | None => None
                   end
                 else None
          end
      end
  end.

(* Some (abstract syntax, bytes after the chunked body) when raw starts with a valid chunked body *)
Fixpoint parse_chunked (fuel : nat) (raw : bytes) : option (chunked * bytes) :=
  match fuel with
  | O => None
  | S f =>
      match split_once CRLF raw with
      | None => None
      | Some (line, rest) =>
          match parse_size_line line with
          | None => None
          | Some (n, sz, ext) =>
              if n =? 0 then
                match parse_trailers (S (length rest)) rest with
                | Some (ts, r) =>
                    Some ({| ch_chunks := []; ch_last_size := sz; ch_last_ext := ext; ch_trailers := ts |}, r)
                | None => None
                end
              else if n <=? len rest then
                let data := take n rest in
                let after := drop n rest in
                if is_prefix CRLF after then
                  match parse_chunked f (skipn 2 after) with
                  | Some (s, r) =>
                      Some ({| ch_chunks := {| ck_size := sz; ck_ext := ext; ck_data := data |} :: ch_chunks s;
                               ch_last_size := ch_last_size s; ch_last_ext := ch_last_ext s;
                               ch_trailers := ch_trailers s |}, r)
                  | None => None
                  end
                else None
              else None
          end
      end
  end.

(* reference decoder on bytes: Some (decoded body, remainder) *)
Definition ref_dechunk_bytes (raw : bytes) : option (bytes * bytes) :=
  match parse_chunked (S (length raw)) raw with
  | Some (s, r) => Some (ref_dechunk s, r)
  | None => None
  end.
Definition is_chunked_body (raw : bytes) : bool :=
  match ref_dechunk_bytes raw with Some (_, []) => true | _ => false end.

(* ------------------------------------------------------------------------------------- *)
(* wf_message: a complete, self-consistent HTTP/1.x message as a SENDER may emit it        *)

Definition HTTP_SLASH := bytes_of_string "HTTP/".
(* HTTP-version = "HTTP/" DIGIT "." DIGIT *)
Definition is_http_version (v : bytes) : bool :=
  is_prefix HTTP_SLASH v &&
  match skipn 5 v with
  | [a; d; c] => is_digit a && (d =? 46) && is_digit c
  | _ => false
  end.

(* request-line = method SP request-target SP HTTP-version : returns the version *)
Definition parse_request_line (line : bytes) : option bytes :=
  match splitn [SP] 2 line with
  | [m; t; v] => if is_token m && nonempty t && forallb is_vchar t && is_http_version v
                 then Some v else None
  | _ => None
  end.

(* status-line = HTTP-version SP 3DIGIT [ SP reason-phrase ]   (the SP before an absent reason is
   optional for h11 and for this recogniser) : returns the status code *)
Definition parse_status_line (line : bytes) : option N :=
  match split_once [SP] line with
  | None => None
  | Some (v, rest) =>
      let cd := firstn 3 rest in
      let after := skipn 3 rest in
      if is_http_version v && Nat.eqb (length cd) 3 && forallb is_digit cd &&
         match after with
         | [] => true
         | x :: reason => (x =? SP) && forallb is_field_byte reason
         end
      then Some (decval cd) else None
  end.

(* the header section: field lines up to the empty line *)
Fixpoint parse_fields (fuel : nat) (raw : bytes) : option (list (bytes * bytes) * bytes) :=
  match fuel with
  | O => None
  | S f =>
      match split_once CRLF raw with
      | None => None
      | Some (line, rest) =>
          match line with
          | [] => Some ([], rest)
          | _ => match parse_field_line line with
                 | None => None
                 | Some nv =>
                     match parse_fields f rest with
                     | Some (fs, body) => Some (nv :: fs, body)
                     | None => None
                     end
                 end
          end
      end
  end.

Definition fields_named (lname : bytes) (fs : list (bytes * bytes)) : list bytes :=
  map snd (filter (fun nv => bytes_eqb (lower (fst nv)) lname) fs).

Definition is_dec (v : bytes) : bool := nonempty v && forallb is_digit v.

(* responses that never carry a body (RFC 7230 section 3.3.3 rule 1) *)
Definition bodyless_status (code : N) : bool := (code <? 200) || (code =? 204) || (code =? 304).

(* framing: at most one Transfer-Encoding field and then it is exactly "chunked" (any case), at most
   one Content-Length field with a decimal value, not both; the body is what the framing says *)
Definition framing_ok (is_req : bool) (bodyless : bool) (fs : list (bytes * bytes)) (body : bytes) : bool :=
  match fields_named TRANSFER_ENCODING fs, fields_named CONTENT_LENGTH fs with
  | [], [] => if is_req || bodyless then negb (nonempty body) else true   (* response delimited by close *)
  | [te], [] => bytes_eqb (lower te) CHUNKED &&
                (if bodyless then negb (nonempty body) else is_chunked_body body)
  | [], [cl] => is_dec cl && (if bodyless then negb (nonempty body) else decval cl =? len body)
  | _, _ => false
  end.

Definition wf_message (t : ptype) (raw : bytes) : bool :=
  match split_once CRLF raw with
  | None => false
  | Some (line, rest) =>
      match parse_fields (S (length rest)) rest with
      | None => false
      | Some (fs, body) =>
          if is_request t then
            match parse_request_line line with
            | None => false
            | Some v =>
                (* Host is mandatory in an HTTP/1.1 request and never repeated (section 5.4) *)
                (if bytes_eqb v HTTP_1_1
                 then Nat.eqb (length (fields_named L_HOST fs)) 1
                 else Nat.leb (length (fields_named L_HOST fs)) 1) &&
                framing_ok true false fs body
            end
          else
            match parse_status_line line with
            | None => false
            | Some code => framing_ok false (bodyless_status code) fs body
            end
      end
  end.

(* ------------------------------------------------------------------------------------- *)
(* the builders' arguments, abstractly                                                    *)

Record req_args := {
  ra_method : bytes; ra_url : bytes; ra_version : bytes;
  ra_ctype : option bytes; ra_headers : option bdict; ra_body : option bytes;
  ra_close : bool; ra_noua : bool }.

Record resp_args := {
  sa_status : Z; sa_version : bytes; sa_reason : option bytes;
  sa_headers : option bdict; sa_body : option bytes;
  sa_close : bool; sa_nocl : bool }.

Definition build_request (ua : bytes) (a : req_args) : bytes :=
  build_http_request ua (ra_method a) (ra_url a) (ra_version a) (ra_ctype a) (ra_headers a) (ra_body a)
                     (ra_close a) (ra_noua a).
Definition build_response_of (a : resp_args) : bytes :=
  build_http_response (sa_status a) (sa_version a) (sa_reason a) (sa_headers a) (sa_body a)
                      (sa_close a) (sa_nocl a).

(* no CR (a line is cut at the first CR LF; a bare LF stays inside its line) *)
Definition no_cr (l : bytes) : bool := forallb (fun x => negb (x =? CR)) l.
Definition no_sp (l : bytes) : bool := forallb (fun x => negb (x =? SP)) l.
(* v.strip() == v *)
Definition stripped (l : bytes) : bool :=
  match l with
  | [] => true
  | x :: _ => negb (is_ws x) && negb (is_ws (last l 0))
  end.

(* a header (name, value) the builders can emit and the parser reads back unchanged *)
Definition ok_name (k : bytes) : bool :=
  nonempty k && no_cr k && forallb (fun x => negb (x =? COLON)) k && stripped k.
Definition ok_value (v : bytes) : bool := no_cr v && stripped v.
Definition ok_header (kv : bytes * bytes) : bool := ok_name (fst kv) && ok_value (snd kv).

(* header names pairwise different, case-insensitively *)
Fixpoint nodup_ci (keys : list bytes) : bool :=
  match keys with
  | [] => true
  | k :: t => negb (existsb (fun k' => bytes_eqb (lower k') (lower k)) t) && nodup_ci t
  end.

Definition get_ci (lname : bytes) (h : bdict) : option bytes :=
  match find (fun kv => bytes_eqb (lower (fst kv)) lname) h with
  | Some (_, v) => Some v
  | None => None
  end.

(* the decimal of the body length must stay under CPython's int() digit limit *)
Definition len_ok (b : bytes) : bool := (length (dec_of_N (len b)) <=? int_limit)%nat.

(* a caller-supplied Content-Length value announces the body argument *)
Definition cl_announces (cl : bytes) (body : option bytes) : bool :=
  match int10 cl with
  | Ok z => if truthy body then (z =? Z.of_N (len (or_empty body)))%Z else (z =? 0)%Z
  | Err _ => false
  end.

(* framing the parser will understand, from the caller's header map h0 and body argument;
   builder_cl says whether the builder writes the Content-Length itself.  Chunked needs a body that
   IS a chunked stream (the builders do not encode); otherwise the body must be announced by the
   builder's own Content-Length or by a correct caller-supplied one. *)
Definition args_framing_ok (h0 : bdict) (body : option bytes) (builder_cl : bool) : bool :=
  match get_ci TRANSFER_ENCODING h0 with
  | Some te =>
      bytes_eqb (lower te) CHUNKED && is_chunked_body (or_empty body) &&
      negb (has_key_ci CONTENT_LENGTH h0)
  | None =>
      if builder_cl then len_ok (or_empty body)
      else match get_ci CONTENT_LENGTH h0 with
           | Some cl => cl_announces cl body
           | None => negb (truthy body)
           end
  end.

Definition arg_headers (h : option bdict) : bdict := match h with Some d => d | None => [] end.

(* domain of the request round trip: exactly what build_http_request does not check.
   [u] is what Url.from_bytes makes of the target (from_bytes is treated as opaque). *)
Definition wf_req_args (ua : bytes) (a : req_args) : bool :=
  no_sp (ra_method a) && no_cr (ra_method a) &&
  no_sp (ra_url a) && no_cr (ra_url a) &&
  no_cr (ra_version a) &&
  forallb ok_header (arg_headers (ra_headers a)) && nodup_ci (map fst (arg_headers (ra_headers a))) &&
  match ra_ctype a with Some ct => ok_value ct | None => true end &&
  (ra_noua a || ok_value ua) &&
  args_framing_ok (arg_headers (ra_headers a)) (ra_body a) (truthy (ra_body a)).

Definition wf_resp_args (a : resp_args) : bool :=
  no_sp (sa_version a) && no_cr (sa_version a) &&
  no_cr (or_empty (sa_reason a)) &&
  forallb ok_header (arg_headers (sa_headers a)) && nodup_ci (map fst (arg_headers (sa_headers a))) &&
  args_framing_ok (arg_headers (sa_headers a)) (sa_body a) (negb (sa_nocl a)).

(* ---- what the builders promise to put on the wire, stated independently of the dict model ---- *)
(* set header [name] to v: header names are case-insensitive, an existing spelling keeps its place *)
Fixpoint put_ci (name v : bytes) (h : bdict) : bdict :=
  match h with
  | [] => [(name, v)]
  | (k, v') :: t => if bytes_eqb (lower k) (lower name) then (k, v) :: t else (k, v') :: put_ci name v t
  end.

Definition expected_request_headers (ua : bytes) (a : req_args) : bdict :=
  let h := arg_headers (ra_headers a) in
  let h := match ra_ctype a with Some ct => put_ci H_CONTENT_TYPE ct h | None => h end in
  let te := has_key_ci TRANSFER_ENCODING h in
  let has_ua := has_key_ci L_USER_AGENT h in
  let h := if truthy (ra_body a) && negb te
           then put_ci H_CONTENT_LENGTH (dec_of_N (len (or_empty (ra_body a)))) h else h in
  let h := if negb has_ua && negb (ra_noua a) then h ++ [(H_USER_AGENT, ua)] else h in
  if ra_close a then put_ci H_CONNECTION V_CLOSE h else h.

Definition expected_response_headers (a : resp_args) : bdict :=
  let h := arg_headers (sa_headers a) in
  let h := if negb (has_key_ci TRANSFER_ENCODING h) && negb (sa_nocl a)
           then put_ci H_CONTENT_LENGTH
                  (if truthy (sa_body a) then dec_of_N (len (or_empty (sa_body a))) else [48]) h
           else h in
  if sa_close a then put_ci H_CONNECTION V_CLOSE h else h.

(* what the parser must report: the header map of a parsed message *)
Definition lift_headers (h : bdict) : option hdict :=
  match h with
  | [] => None
  | _ => Some (map (fun kv => (lower (fst kv), (fst kv, snd kv))) h)
  end.
(* the decoded body *)
Definition expected_body (h : bdict) (body : option bytes) : bytes :=
  match get_ci TRANSFER_ENCODING h with
  | Some _ => match ref_dechunk_bytes (or_empty body) with Some (b, _) => b | None => [] end
  | None => or_empty body
  end.

(* stronger domain for RFC-level well-formedness of what the builders emit *)
Definition rfc_name (k : bytes) : bool := is_token k.
Definition rfc_value (v : bytes) : bool := forallb is_field_byte v && stripped v.
Definition rfc_header (kv : bytes * bytes) : bool := rfc_name (fst kv) && rfc_value (snd kv).

Definition rfc_framing_args (h0 : bdict) (body : option bytes) (builder_cl allow_close : bool) : bool :=
  match get_ci TRANSFER_ENCODING h0 with
  | Some te => bytes_eqb (lower te) CHUNKED && is_chunked_body (or_empty body) &&
               negb (has_key_ci CONTENT_LENGTH h0)
  | None =>
      if builder_cl then true
      else match get_ci CONTENT_LENGTH h0 with
           | Some cl => is_dec cl && (decval cl =? len (or_empty body)) &&
                        (truthy body || (decval cl =? 0))
           | None => allow_close || negb (truthy body)
           end
  end.

Definition rfc_req_args (ua : bytes) (a : req_args) : bool :=
  is_token (ra_method a) && nonempty (ra_url a) && forallb is_vchar (ra_url a) &&
  is_http_version (ra_version a) &&
  forallb rfc_header (arg_headers (ra_headers a)) && nodup_ci (map fst (arg_headers (ra_headers a))) &&
  match ra_ctype a with Some ct => rfc_value ct | None => true end &&
  (ra_noua a || rfc_value ua) &&
  (let h := pkt_headers (Some (request_headers ua (ra_ctype a) (ra_headers a) (ra_body a) (ra_noua a)))
                        (ra_close a) in
   rfc_framing_args (arg_headers (ra_headers a)) (ra_body a) (truthy (ra_body a)) false &&
   (if bytes_eqb (ra_version a) HTTP_1_1 then has_key_ci L_HOST h else true)).

Definition rfc_resp_args (a : resp_args) : bool :=
  is_http_version (sa_version a) &&
  (100 <=? sa_status a)%Z && (sa_status a <=? 999)%Z &&
  forallb is_field_byte (or_empty (sa_reason a)) &&
  forallb rfc_header (arg_headers (sa_headers a)) && nodup_ci (map fst (arg_headers (sa_headers a))) &&
  rfc_framing_args (arg_headers (sa_headers a)) (sa_body a) (negb (sa_nocl a)) true &&
  (if bodyless_status (Z.to_N (sa_status a)) then negb (truthy (sa_body a)) else true).

(* ------------------------------------------------------------------------------------- *)
(* decidable form of "this parser state can be re-serialised faithfully" (hypotheses of the
   rebuild theorems, checked on the parser states of every generated wire message)         *)
Definition unlift (h : option hdict) : bdict :=
  match h with Some d => map (fun e => (fst (snd e), snd (snd e))) d | None => [] end.
Definition hdict_canonical (h : option hdict) : bool :=
  match h with
  | None => true
  | Some [] => false
  | Some d => forallb (fun e => bytes_eqb (fst e) (lower (fst (snd e)))) d
  end.
Definition tokb (l : bytes) : bool := no_sp l && no_cr l.
Definition framing_consistent_b (strict0 : bool) (p : parser) (hs : bdict) : bool :=
  match get_ci TRANSFER_ENCODING hs with
  | Some te => bytes_eqb (lower te) CHUNKED && is_chunked_encoded p && negb (has_key_ci CONTENT_LENGTH hs) &&
               match body p with Some _ => true | None => false end
  | None => negb (is_chunked_encoded p) &&
      match get_ci CONTENT_LENGTH hs with
      | Some cl => if truthy (body p)
                   then bytes_eqb cl (dec_of_N (len (or_empty (body p)))) && len_ok (or_empty (body p))
                   else if strict0 then bytes_eqb cl [48]
                        else match int10 cl with Ok z => (z =? 0)%Z | Err _ => false end
      | None => negb (truthy (body p))
      end
  end.
Definition path_ok_b (p : parser) : bool :=
  negb (truthy (path p)) ||
  match path p with
  | Some (x :: t) => (x =? SLASH) && tokb (x :: t) && match t with y :: _ => negb (y =? SLASH) | [] => true end
  | _ => false
  end.
Definition rebuildable_req (p : parser) : bool :=
  let hs := unlift (headers p) in
  is_request (ty p) && truthy (method p) && tokb (or_empty (method p)) &&
  truthy (version p) && no_cr (or_empty (version p)) && path_ok_b p &&
  hdict_canonical (headers p) && forallb ok_header hs && nodup_ci (map fst hs) &&
  framing_consistent_b false p hs.
Definition rebuildable_resp (p : parser) : bool :=
  let hs := unlift (headers p) in
  negb (is_request (ty p)) && truthy (code p) &&
  match int10 (or_empty (code p)) with Ok z => bytes_eqb (dec_of_Z z) (or_empty (code p)) | Err _ => false end &&
  truthy (version p) && tokb (or_empty (version p)) && no_cr (or_empty (reason p)) &&
  hdict_canonical (headers p) && forallb ok_header hs && nodup_ci (map fst hs) &&
  framing_consistent_b true p hs.

