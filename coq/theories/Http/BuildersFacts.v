(* Facts about the builder model (Http/Builders.v). *)
From PM Require Import Lib.Bytes Lib.BytesFacts Lib.PyStr Lib.PyStrFacts Lib.PyStrFacts2 Http.Url Http.Chunk Http.Parser Http.Builders.
From Coq Require Import ZArith.
