(* Facts about the builder model (Http/Builders.v). *)
From PM Require Import Lib.Bytes Lib.BytesFacts Lib.PyStr Lib.PyStrFacts Lib.PyStrFacts2 Http.Url Http.Chunk Http.Parser Http.Builders.
From Coq Require Import ZArith.
From Coq Require Import Lia.

(* ------------------------------------------------------------------------------------- *)
(* header access after add_header / del_header / set_body                                  *)

Definition hget (p : parser) (key : bytes) : option (bytes * bytes) :=
  match headers p with None => None | Some h => dict_get (lower key) h end.
Definition headers_wf (p : parser) : Prop :=
  match headers p with None => True | Some h => dict_wf h end.

Lemma header_hget p key : header p key = match hget p key with Some (_, v) => Ok v | None => Err KeyError end.
Proof. unfold header, hget. destruct (headers p); reflexivity. Qed.
Lemma has_header_hget p key : has_header p key = match hget p key with Some _ => true | None => false end.
Proof. unfold has_header, hget, dict_has. destruct (headers p); reflexivity. Qed.

Lemma hget_add_same p k v k' : lower k' = lower k -> hget (add_header p k v) k' = Some (k, v).
Proof.
  intros E. unfold hget, add_header, add_header_d. cbn [headers set_headers]. rewrite E.
  apply dict_get_set_same.
Qed.
Lemma hget_add_other p k v k' : lower k' <> lower k -> hget (add_header p k v) k' = hget p k'.
Proof.
  intros E. unfold hget, add_header, add_header_d. cbn [headers set_headers].
  rewrite dict_get_set_other by exact E. destruct (headers p); reflexivity.
Qed.
Lemma headers_wf_add p k v : headers_wf p -> headers_wf (add_header p k v).
Proof.
  unfold headers_wf, add_header, add_header_d. cbn [headers set_headers].
  destruct (headers p); intros H; apply dict_wf_set; [exact H|apply dict_wf_nil].
Qed.

Lemma hget_del_same p k k' : headers_wf p -> lower k' = lower k -> hget (del_header p k) k' = None.
Proof.
  intros W E. unfold hget, del_header, headers_wf in *.
  destruct (headers p) as [[|kv t]|] eqn:Hh; [now rewrite Hh| |now rewrite Hh].
  destruct (dict_has (lower k) (kv :: t)) eqn:Hd.
  - cbn [headers set_headers]. rewrite E. now apply dict_get_del_same.
  - rewrite Hh, E. unfold dict_has in Hd. destruct (dict_get (lower k) (kv :: t)); [discriminate|reflexivity].
Qed.
Lemma hget_del_other p k k' : lower k' <> lower k -> hget (del_header p k) k' = hget p k'.
Proof.
  intros E. unfold hget, del_header.
  destruct (headers p) as [[|kv t]|] eqn:Hh; [now rewrite Hh| |now rewrite Hh].
  destruct (dict_has (lower k) (kv :: t)); [|now rewrite Hh].
  cbn [headers set_headers]. now apply dict_get_del_other.
Qed.
Lemma headers_wf_del p k : headers_wf p -> headers_wf (del_header p k).
Proof.
  unfold headers_wf, del_header. destruct (headers p) as [[|kv t]|] eqn:Hh; intros W; try (rewrite Hh; exact W).
  destruct (dict_has (lower k) (kv :: t)); [|rewrite Hh; exact W].
  cbn [headers set_headers]. now apply dict_wf_del.
Qed.

Lemma hget_set_body p b k : hget (set_body p b) k = hget p k.
Proof. reflexivity. Qed.
Lemma chunked_add p k v : is_chunked_encoded (add_header p k v) = is_chunked_encoded p.
Proof. reflexivity. Qed.
Lemma chunked_del p k : is_chunked_encoded (del_header p k) = is_chunked_encoded p.
Proof.
  unfold del_header. destruct (headers p) as [[|kv t]|]; try reflexivity.
  destruct (dict_has (lower k) (kv :: t)); reflexivity.
Qed.
Lemma body_add p k v : body (add_header p k v) = body p.
Proof. reflexivity. Qed.

(* ------------------------------------------------------------------------------------- *)
(* update_body                                                                             *)
Ltac chk := repeat first [rewrite chunked_add | rewrite chunked_del | progress cbn [set_body is_chunked_encoded]];
  try assumption; try reflexivity.

Section UpdateBody.
  Variable gz gunz : bytes -> bytes.
  Hypothesis gunz_gz : forall x, gunz (gz x) = x.

  (* does the parsed message say "Content-Encoding: gzip" (exactly, as update_body tests it)? *)
  Definition says_gzip (p : parser) : bool :=
    match hget p L_CONTENT_ENCODING with Some (_, v) => bytes_eqb v V_GZIP | None => false end.
  (* the body update_body stores *)
  Definition stored_body (p : parser) (data : bytes) : bytes := if says_gzip p then gz data else data.

  Lemma update_body_ok p data ct : exists p', update_body gz p data ct = Ok p'.
  Proof.
    unfold update_body. rewrite has_header_hget, header_hget.
    destruct (hget p L_CONTENT_ENCODING) as [[o v]|]; cbn [bind].
    - destruct (bytes_eqb v V_GZIP); cbn [bind]; eexists; reflexivity.
    - eexists; reflexivity.
  Qed.

  Theorem update_body_consistent p data ct p' :
    headers_wf p -> update_body gz p data ct = Ok p' ->
    (* the body is the new data, gzip-compressed iff the message says Content-Encoding: gzip ... *)
    body p' = Some (stored_body p data) /\
    (says_gzip p = true -> gunz (stored_body p data) = data) /\
    (* ... any other Content-Encoding header is gone *)
    (says_gzip p = false -> has_header p' L_CONTENT_ENCODING = false) /\
    header p' H_CONTENT_TYPE = Ok ct /\
    is_chunked_encoded p' = is_chunked_encoded p /\
    (* framing headers agree with the stored body *)
    (if is_chunked_encoded p then has_header p' CONTENT_LENGTH = false
     else header p' CONTENT_LENGTH = Ok (bytes_of_N (len (stored_body p data)))) /\
    headers_wf p'.
  Proof.
    intros W. unfold update_body, stored_body, says_gzip.
    rewrite has_header_hget, header_hget.
    set (ce := hget p L_CONTENT_ENCODING).
    assert (Hce : hget p L_CONTENT_ENCODING = ce) by reflexivity.
    destruct ce as [[o v]|]; cbn [bind].
    - destruct (bytes_eqb v V_GZIP) eqn:G; cbn [bind].
      + (* gzip *)
        intros H. inversion H; subst; clear H. rewrite !header_hget, !has_header_hget.
        repeat apply conj.
        * destruct (is_chunked_encoded p); reflexivity.
        * intros _. apply gunz_gz.
        * discriminate.
        * now rewrite hget_add_same.
        * destruct (is_chunked_encoded p) eqn:C; chk.
        * destruct (is_chunked_encoded p) eqn:C.
          -- rewrite hget_add_other by discriminate. rewrite hget_set_body.
             now rewrite hget_del_same.
          -- rewrite hget_add_other by discriminate. rewrite hget_set_body.
             now rewrite hget_add_same.
        * apply headers_wf_add. destruct (is_chunked_encoded p); [now apply headers_wf_del|now apply headers_wf_add].
      + (* another encoding: header removed, body stored as is *)
        intros H. inversion H; subst; clear H.
        assert (W1 : headers_wf (del_header p L_CONTENT_ENCODING)) by now apply headers_wf_del.
        rewrite chunked_del. rewrite !header_hget, !has_header_hget.
        repeat apply conj.
        * destruct (is_chunked_encoded p); reflexivity.
        * discriminate.
        * intros _. rewrite hget_add_other by discriminate. rewrite hget_set_body.
          destruct (is_chunked_encoded p).
          -- rewrite hget_del_other by discriminate. now rewrite hget_del_same.
          -- rewrite hget_add_other by discriminate. now rewrite hget_del_same.
        * now rewrite hget_add_same.
        * destruct (is_chunked_encoded p) eqn:C; chk.
        * destruct (is_chunked_encoded p) eqn:C.
          -- rewrite hget_add_other by discriminate. rewrite hget_set_body.
             now rewrite hget_del_same.
          -- rewrite hget_add_other by discriminate. rewrite hget_set_body.
             now rewrite hget_add_same.
        * apply headers_wf_add. destruct (is_chunked_encoded p); [now apply headers_wf_del|now apply headers_wf_add].
    - (* no Content-Encoding *)
      intros H. inversion H; subst; clear H. rewrite !header_hget, !has_header_hget.
      repeat apply conj.
      * destruct (is_chunked_encoded p); reflexivity.
      * discriminate.
      * intros _. rewrite hget_add_other by discriminate. rewrite hget_set_body.
        destruct (is_chunked_encoded p).
        -- rewrite hget_del_other by discriminate. now rewrite Hce.
        -- rewrite hget_add_other by discriminate. now rewrite Hce.
      * now rewrite hget_add_same.
      * destruct (is_chunked_encoded p) eqn:C; chk.
      * destruct (is_chunked_encoded p) eqn:C.
        -- rewrite hget_add_other by discriminate. rewrite hget_set_body.
           now rewrite hget_del_same.
        -- rewrite hget_add_other by discriminate. rewrite hget_set_body.
           now rewrite hget_add_same.
      * apply headers_wf_add. destruct (is_chunked_encoded p); [now apply headers_wf_del|now apply headers_wf_add].
  Qed.
End UpdateBody.

Theorem update_body_spec : forall (gz gunz : bytes -> bytes), (forall x, gunz (gz x) = x) ->
  forall p data ct, headers_wf p ->
  exists p', update_body gz p data ct = Ok p' /\
    body p' = Some (stored_body gz p data) /\
    (says_gzip p = true -> gunz (stored_body gz p data) = data) /\
    (says_gzip p = false -> stored_body gz p data = data /\ has_header p' L_CONTENT_ENCODING = false) /\
    header p' H_CONTENT_TYPE = Ok ct /\
    is_chunked_encoded p' = is_chunked_encoded p /\
    (if is_chunked_encoded p then has_header p' CONTENT_LENGTH = false
     else header p' CONTENT_LENGTH = Ok (dec_of_N (len (stored_body gz p data)))).
Proof.
  intros gz gunz Hg p data ct W. destruct (update_body_ok gz p data ct) as [p' E].
  exists p'. split; [exact E|].
  destruct (update_body_consistent gz gunz Hg p data ct p' W E) as (A & B & C & D & F & G & _).
  repeat apply conj; try assumption.
  intros H. split; [unfold stored_body; now rewrite H|now apply C].
Qed.
