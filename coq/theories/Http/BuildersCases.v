(* Correspondence relations for the builder model (Http/Builders.v) and the reference recognisers
   of Http/Grammar.v: each case carries the input and what the implementation (or h11, for the
   recognisers) returned; check_case evaluates the Coq side and compares. *)
From PM Require Import Lib.Bytes Lib.PyStr Http.Url Http.Chunk Http.Parser Http.HttpCases
  Http.Builders Http.Grammar Http.BuildArgs.
From Coq Require Import ZArith.

Definition mk_req m u v ct hs body close noua : req_args :=
  {| ra_method := m; ra_url := u; ra_version := v; ra_ctype := ct; ra_headers := hs; ra_body := body;
     ra_close := close; ra_noua := noua |}.
Definition mk_resp st v rs hs body close nocl : resp_args :=
  {| sa_status := st; sa_version := v; sa_reason := rs; sa_headers := hs; sa_body := body;
     sa_close := close; sa_nocl := nocl |}.

Inductive bcase :=
(* build_http_request / build_http_response: exact bytes *)
| BReq (ua : bytes) (a : req_args) (expected : bytes)
| BResp (a : resp_args) (expected : bytes)
(* HttpParser(t).parse(raw); then build(disable, for_proxy, host) or build_response() *)
| BRebuild (ua : bytes) (t : ptype) (raw : bytes) (disable : list bytes) (for_proxy : bool)
           (host : option bytes) (expected : obs bytes)
(* parse(raw); update_body(new_body, ctype) with gzip.compress(..) = gzout; rebuild *)
| BUpdate (ua : bytes) (t : ptype) (raw gzout new_body ctype : bytes)
          (expected : obs (option hdict * option bytes * bytes))
(* reference recognisers against an independent implementation's verdict *)
| BWf (t : ptype) (raw : bytes) (expected : bool)
| BDechunk (raw : bytes) (expected : option (bytes * bytes))
| BToChunks (raw : bytes) (k : N) (expected : obs bytes)
(* the generator's "well-formed arguments" lie inside the domains of the theorems *)
| BDomReq (ua : bytes) (a : req_args) (wf rfc : bool)
| BDomResp (a : resp_args) (wf rfc : bool)
(* the parser state of a well-formed wire message satisfies the hypotheses of the rebuild theorems *)
| BRebuildDom (t : ptype) (raw : bytes)
(* the SPECIFICATION header map of C15_build_disable_headers / _host_override / _for_proxy (Http/BuildArgs.v) against
   the header map the implementation's build(disable, for_proxy, host) output parsed back to *)
| BBuildSpec (raw : bytes) (disable : list bytes) (host : option bytes) (observed : option hdict).

Definition res_obs {A} (i : N) (r : result A) : obs A :=
  match r with Ok a => OkObs a | Err e => ErrObs i (exn_code e) end.

Definition rebuild (ua : bytes) (p : parser) (disable : list bytes) (for_proxy : bool) (host : option bytes)
  : result bytes :=
  if is_request (ty p) then build ua p disable for_proxy host else build_response p.

Definition implb (a b : bool) : bool := negb a || b.

Definition check_case (c : bcase) : bool :=
  match c with
  | BReq ua a e => bytes_eqb (build_request ua a) e
  | BResp a e => bytes_eqb (build_response_of a) e
  | BRebuild ua t raw dis fp host e =>
      obs_eqb bytes_eqb
        (match parse (new_parser t) raw with
         | Err x => ErrObs 0 (exn_code x)
         | Ok p => res_obs 1 (rebuild ua p dis fp host)
         end) e
  | BUpdate ua t raw gzout nb ct e =>
      obs_eqb (fun x y => option_eqb (list_eqb hdr_eqb) (fst (fst x)) (fst (fst y)) &&
                          option_eqb bytes_eqb (snd (fst x)) (snd (fst y)) && bytes_eqb (snd x) (snd y))
        (match parse (new_parser t) raw with
         | Err x => ErrObs 0 (exn_code x)
         | Ok p => match update_body (fun _ => gzout) p nb ct with
                   | Err x => ErrObs 1 (exn_code x)
                   | Ok p' => match rebuild ua p' [] false None with
                              | Err x => ErrObs 2 (exn_code x)
                              | Ok w => OkObs (headers p', body p', w)
                              end
                   end
         end) e
  | BWf t raw e => Bool.eqb (wf_message t raw) e
  | BDechunk raw e =>
      option_eqb (fun x y => bytes_eqb (fst x) (fst y) && bytes_eqb (snd x) (snd y)) (ref_dechunk_bytes raw) e
  | BToChunks raw k e => obs_eqb bytes_eqb (res_obs 0 (to_chunks raw k)) e
  | BDomReq ua a wf rfc => implb wf (wf_req_args ua a) && implb rfc (rfc_req_args ua a)
  | BDomResp a wf rfc => implb wf (wf_resp_args a) && implb rfc (rfc_resp_args a)
  | BRebuildDom t raw =>
      match parse (new_parser t) raw with
      | Ok p => if is_request t then rebuildable_req p else rebuildable_resp p
      | Err _ => false
      end
  | BBuildSpec raw dis ho observed =>
      match parse (new_parser REQUEST_PARSER) raw with
      | Ok p =>
          implb (te_guard_b p dis)
                (rebuildable_req p &&
                 option_eqb (list_eqb hdr_eqb)
                   (lift_headers (rebuilt_hs dis ho (unlift (headers p)) ++ readded_D p dis)) observed)
      | Err _ => false
      end
  end.
