(* C14 lemmas: Url.from_bytes / _parse / _set_line_attributes (Http/Url.v) and the connect path
   (Http/Upstream.v) against the reference grammar of Http/UrlSpec.v. *)
From PM Require Import Lib.Bytes Lib.BytesFacts Lib.PyStr Lib.PyStrFacts Http.Url Http.UrlSpec Http.Upstream.
From Coq Require Import ZArith.

(* ------------------------------------------------------------------ small helpers *)
Lemma none_of_notin bad l c : none_of bad l = true -> In c bad -> ~ In c l.
Proof.
  unfold none_of. rewrite forallb_forall. intros H Hc Hi. specialize (H _ Hi).
  apply negb_true_iff in H. apply mem_byte_false in H. contradiction.
Qed.

Lemma forallb_notin (f : N -> bool) l c : forallb f l = true -> f c = false -> ~ In c l.
Proof. rewrite forallb_forall. intros H Hc Hi. specialize (H _ Hi). congruence. Qed.

Lemma forallb_impl (f g : N -> bool) l : (forall x, f x = true -> g x = true) -> forallb f l = true -> forallb g l = true.
Proof. rewrite !forallb_forall. auto. Qed.

(* ------------------------------------------------------------------ Url._parse in two steps *)
Definition userinfo_split (raw : bytes) : option bytes * option bytes * bytes :=
  match split_once [AT] raw with
  | None => (None, None, raw)
  | Some (ui, rest) =>
      match split_once [COLON] ui with
      | None => (Some ui, None, rest)
      | Some (u, p) => (Some u, Some p, rest)
      end
  end.

Definition parse_hostport (user pass : option bytes) (hostport : bytes)
  : result (option bytes * option bytes * bytes * option Z) :=
  match splitn [COLON] 2 hostport with
  | [h] => Ok (user, pass, h, None)
  | [h; p] => do n <- int10 p; Ok (user, pass, h, Some n)
  | [a; c; rest] =>
      let last_token := split_all [COLON] rest in
      let '(host, port) :=
        match int10 (last last_token []) with
        | Ok n => (join [COLON] [a; c] ++ [COLON] ++ join [COLON] (removelast last_token), Some n)
        | Err _ => (hostport, None)
        end in
      do host' <- patch_ipv6 host;
      Ok (user, pass, host', port)
  | _ => Err OutOfFuel
  end.

Lemma parse_authority_eq raw :
  parse_authority raw = let '(user, pass, hostport) := userinfo_split raw in parse_hostport user pass hostport.
Proof.
  unfold parse_authority, userinfo_split, parse_hostport.
  destruct (split_once [AT] raw) as [[ui rest]|]; [destruct (split_once [COLON] ui) as [[u p]|]|]; reflexivity.
Qed.

Lemma userinfo_split_after_at raw : snd (userinfo_split raw) = after_at raw.
Proof.
  unfold userinfo_split, after_at.
  destruct (split_once [AT] raw) as [[ui rest]|]; [destruct (split_once [COLON] ui) as [[u p]|]|]; reflexivity.
Qed.

(* ---- the four shapes of a host[:port] text, by number of colons ---- *)
Lemma hostport_shape hp :
  (~ In COLON hp) \/
  (exists h pt, hp = h ++ COLON :: pt /\ ~ In COLON h /\ ~ In COLON pt) \/
  (exists a c rest, hp = a ++ COLON :: c ++ COLON :: rest /\ ~ In COLON a /\ ~ In COLON c /\ ~ In COLON rest) \/
  (exists a c pre t, hp = a ++ COLON :: c ++ COLON :: pre ++ COLON :: t /\ ~ In COLON a /\ ~ In COLON c /\ ~ In COLON t).
Proof.
  destruct (split_once [COLON] hp) as [[a r]|] eqn:E1.
  2:{ left. now apply split_once_byte_none_inv. }
  apply split_once_byte_some in E1 as [-> Ha]. right.
  destruct (split_once [COLON] r) as [[c rest]|] eqn:E2.
  2:{ left. exists a, r. apply split_once_byte_none_inv in E2. auto. }
  apply split_once_byte_some in E2 as [-> Hc]. right.
  destruct (last_sep_decomp COLON rest) as [Hn|(pre & t & -> & Ht)].
  - left. exists a, c, rest. auto.
  - right. exists a, c, pre, t. auto.
Qed.

Lemma parse_hostport_0 u p hp : ~ In COLON hp -> parse_hostport u p hp = Ok (u, p, hp, None).
Proof.
  intros H. unfold parse_hostport. now rewrite (splitn_S_none _ _ _ (split_once_byte_none _ _ H)).
Qed.

Lemma parse_hostport_1 u p h pt : ~ In COLON h -> ~ In COLON pt ->
  parse_hostport u p (h ++ COLON :: pt) = do n <- int10 pt; Ok (u, p, h, Some n).
Proof.
  intros Hh Hp. unfold parse_hostport.
  rewrite (splitn_S_some _ _ _ _ _ (split_once_byte_notin _ _ _ Hh)).
  now rewrite (splitn_S_none _ _ _ (split_once_byte_none _ _ Hp)).
Qed.

Lemma splitn2_three a c rest : ~ In COLON a -> ~ In COLON c ->
  splitn [COLON] 2 (a ++ COLON :: c ++ COLON :: rest) = [a; c; rest].
Proof.
  intros Ha Hc.
  rewrite (splitn_S_some _ _ _ _ _ (split_once_byte_notin _ _ _ Ha)).
  rewrite (splitn_S_some _ _ _ _ _ (split_once_byte_notin _ _ _ Hc)). reflexivity.
Qed.

(* exactly two colons: the text before the port KEEPS its trailing colon *)
Lemma parse_hostport_2 u p a c rest : ~ In COLON a -> ~ In COLON c -> ~ In COLON rest ->
  parse_hostport u p (a ++ COLON :: c ++ COLON :: rest) =
  let '(host, port) := match int10 rest with
                       | Ok n => (a ++ COLON :: c ++ [COLON], Some n)
                       | Err _ => (a ++ COLON :: c ++ COLON :: rest, None)
                       end in
  do host' <- patch_ipv6 host; Ok (u, p, host', port).
Proof.
  intros Ha Hc Hr. unfold parse_hostport. rewrite (splitn2_three _ _ _ Ha Hc).
  rewrite (split_all_notin _ _ Hr). cbn [last removelast join].
  destruct (int10 rest); [|reflexivity].
  rewrite app_nil_r. rewrite <- app_assoc. reflexivity.
Qed.

(* three or more colons: port after the last one, host before it *)
Lemma parse_hostport_3 u p a c pre t : ~ In COLON a -> ~ In COLON c -> ~ In COLON t ->
  parse_hostport u p (a ++ COLON :: c ++ COLON :: pre ++ COLON :: t) =
  let '(host, port) := match int10 t with
                       | Ok n => (a ++ COLON :: c ++ COLON :: pre, Some n)
                       | Err _ => (a ++ COLON :: c ++ COLON :: pre ++ COLON :: t, None)
                       end in
  do host' <- patch_ipv6 host; Ok (u, p, host', port).
Proof.
  intros Ha Hc Ht. unfold parse_hostport. rewrite (splitn2_three _ _ _ Ha Hc).
  rewrite (split_all_app_last _ _ _ Ht). rewrite last_last, removelast_last, join_split_all.
  destruct (int10 t); [|reflexivity].
  cbn [join]. rewrite <- !app_assoc. reflexivity.
Qed.

(* ------------------------------------------------------------------ facts extracted from wf_* *)
Lemma is_hex_ascii x : is_hex x || (x =? COLON) || (x =? DOT) = true -> x <? 128 = true.
Proof.
  unfold is_hex, is_digit, COLON, DOT. intros H. apply N.ltb_lt.
  repeat (apply orb_true_iff in H as [H|H]);
    try (apply andb_true_iff in H as [H1 H2]; apply N.leb_le in H1, H2; lia);
    apply N.eqb_eq in H; lia.
Qed.

Lemma digit_dot_ascii x : is_digit x || (x =? DOT) = true -> x <? 128 = true.
Proof.
  unfold is_digit, DOT. intros H. apply N.ltb_lt.
  apply orb_true_iff in H as [H|H];
    [apply andb_true_iff in H as [H1 H2]; apply N.leb_le in H1, H2; lia|apply N.eqb_eq in H; lia].
Qed.

Lemma all_digits_notin c p : all_digits p = true -> is_digit c = false -> ~ In c p.
Proof. apply forallb_notin. Qed.

Lemma wf_port_facts q : wf_port q = true ->
  ~ In COLON q /\ ~ In SLASH q /\ ~ In AT q /\ int10 q = Ok (port_value q).
Proof.
  unfold wf_port. intros H. apply andb_true_iff in H as [H Hl]. apply andb_true_iff in H as [Hne Hd].
  apply Nat.leb_le in Hl. apply negb_true_iff, Nat.eqb_neq in Hne.
  repeat split; try (apply (all_digits_notin _ _ Hd); reflexivity).
  apply int10_digits; [destruct q; [cbn in Hne; lia|discriminate]|exact Hd|exact Hl].
Qed.

Record host_facts (h : host) : Prop := {
  hf_slash : ~ In SLASH (host_text h);
  hf_at : ~ In AT (host_text h);
  hf_text : text_ (host_text h) = Ok (host_text h);
  hf_ne : host_text h <> [];
  hf_unbr : strip_brackets (host_text h) = host_unbracketed h }.

Lemma In_HOST_EXCLUDED c : In c [COLON; SLASH; AT; LBRACKET; RBRACKET] -> In c HOST_EXCLUDED.
Proof. unfold HOST_EXCLUDED. cbn [In]. tauto. Qed.

Lemma strip_brackets_plain b : ~ In LBRACKET b -> strip_brackets b = b.
Proof.
  intros H. unfold strip_brackets, startswith. rewrite is_prefix_single.
  destruct b as [|x t]; [reflexivity|].
  destruct (N.eqb_spec LBRACKET x) as [E|_]; [exfalso; apply H; now left|reflexivity].
Qed.

Lemma strip_brackets_bracketed b : strip_brackets ([LBRACKET] ++ b ++ [RBRACKET]) = b.
Proof.
  unfold strip_brackets, startswith, endswith. cbn [app]. rewrite is_prefix_single, N.eqb_refl.
  change (LBRACKET :: b ++ [RBRACKET]) with ([LBRACKET] ++ b ++ [RBRACKET]).
  rewrite app_assoc, rev_unit. cbn [rev app]. rewrite is_prefix_single, N.eqb_refl. cbn [andb tl].
  apply removelast_last.
Qed.

Lemma wf_host_facts h : wf_host h = true -> host_facts h.
Proof.
  destruct h as [b|b|b]; cbn [wf_host]; intros H.
  - apply andb_true_iff in H as [H Hu]. apply andb_true_iff in H as [Hne Hx].
    apply negb_true_iff, Nat.eqb_neq in Hne.
    assert (Hn : forall c, In c [COLON; SLASH; AT; LBRACKET; RBRACKET] -> ~ In c b)
      by (intros c Hc; apply (none_of_notin _ _ _ Hx), In_HOST_EXCLUDED, Hc).
    constructor; cbn [host_text host_unbracketed].
    + apply Hn. cbn [In]. tauto.
    + apply Hn. cbn [In]. tauto.
    + unfold text_. now rewrite Hu.
    + destruct b; [cbn in Hne; lia|discriminate].
    + apply strip_brackets_plain, Hn. cbn [In]. tauto.
  - apply andb_true_iff in H as [Hne Hd]. apply negb_true_iff, Nat.eqb_neq in Hne.
    constructor; cbn [host_text host_unbracketed].
    + apply (forallb_notin _ _ _ Hd). reflexivity.
    + apply (forallb_notin _ _ _ Hd). reflexivity.
    + apply text_ascii. exact (forallb_impl _ _ _ digit_dot_ascii Hd).
    + destruct b; [cbn in Hne; lia|discriminate].
    + apply strip_brackets_plain. apply (forallb_notin _ _ _ Hd). reflexivity.
  - apply andb_true_iff in H as [Hd Hc].
    constructor; cbn [host_text host_unbracketed].
    + rewrite !not_in_app. repeat split; [|apply (forallb_notin _ _ _ Hd); reflexivity|];
        (intros [E|[]]; discriminate).
    + rewrite !not_in_app. repeat split; [|apply (forallb_notin _ _ _ Hd); reflexivity|];
        (intros [E|[]]; discriminate).
    + apply text_ascii. rewrite !all_ascii_app. unfold all_ascii at 2.
      rewrite (forallb_impl _ _ _ is_hex_ascii Hd). reflexivity.
    + discriminate.
    + apply strip_brackets_bracketed.
Qed.

Lemma patch_ipv6_bracketed t : text_ (LBRACKET :: t) = Ok (LBRACKET :: t) -> patch_ipv6 (LBRACKET :: t) = Ok (LBRACKET :: t).
Proof.
  intros H. unfold patch_ipv6. rewrite H. cbn [bind].
  destruct (mem_byte COLON (LBRACKET :: t)); [|reflexivity].
  rewrite N.eqb_refl. reflexivity.
Qed.

Lemma rbracket_bad : int_bad_byte RBRACKET = true.
Proof. reflexivity. Qed.

Lemma int10_rbracket l : int10 (l ++ [RBRACKET]) = Err ValueError.
Proof.
  apply (int10_bad_byte RBRACKET); [|exact rbracket_bad].
  apply in_or_app. right. now left.
Qed.

(* Url._parse on host[:port] written from the grammar *)
Lemma parse_hostport_wf u p h pt :
  wf_host h = true -> match pt with Some q => wf_port q = true | None => True end ->
  parse_hostport u p (host_text h ++ render_port pt) =
  Ok (u, p, host_text h, match pt with Some q => Some (port_value q) | None => None end).
Proof.
  intros Hh Hp. pose proof (wf_host_facts h Hh) as F.
  assert (Hplain : ~ In COLON (host_text h) ->
    parse_hostport u p (host_text h ++ render_port pt) =
    Ok (u, p, host_text h, match pt with Some q => Some (port_value q) | None => None end)).
  { intros Hc. destruct pt as [q|]; cbn [render_port].
    - destruct (wf_port_facts q Hp) as (Hq & _ & _ & Hi).
      rewrite (parse_hostport_1 _ _ _ _ Hc Hq), Hi. reflexivity.
    - rewrite app_nil_r. now apply parse_hostport_0. }
  destruct h as [b|b|b].
  - apply Hplain. cbn [host_text]. cbn [wf_host] in Hh.
    apply andb_true_iff in Hh as [Hh _]. apply andb_true_iff in Hh as [_ Hx].
    apply (none_of_notin _ _ _ Hx). unfold HOST_EXCLUDED. now left.
  - apply Hplain. cbn [host_text]. cbn [wf_host] in Hh.
    apply andb_true_iff in Hh as [_ Hd]. apply (forallb_notin _ _ _ Hd). reflexivity.
  - pose proof (hf_text _ F) as Ht. cbn [host_text] in *. cbn [wf_host] in Hh.
    apply andb_true_iff in Hh as [Hd Hc]. apply Nat.leb_le in Hc.
    destruct (count_ge2_split _ _ Hc) as (x & y & z & -> & Hx & Hy).
    assert (Hlx : ~ In COLON (LBRACKET :: x)) by (intros [E|Hi]; [discriminate|contradiction]).
    destruct pt as [q|]; cbn [render_port].
    + destruct (wf_port_facts q Hp) as (Hq & _ & _ & Hi).
      replace (([LBRACKET] ++ (x ++ COLON :: y ++ COLON :: z) ++ [RBRACKET]) ++ COLON :: q)
        with ((LBRACKET :: x) ++ COLON :: y ++ COLON :: (z ++ [RBRACKET]) ++ COLON :: q)
        by (cbn [app]; rewrite <- !app_assoc; cbn [app]; rewrite <- !app_assoc; reflexivity).
      rewrite (parse_hostport_3 _ _ _ _ _ _ Hlx Hy Hq), Hi.
      replace ((LBRACKET :: x) ++ COLON :: y ++ COLON :: z ++ [RBRACKET])
        with ([LBRACKET] ++ (x ++ COLON :: y ++ COLON :: z) ++ [RBRACKET])
        by (cbn [app]; rewrite <- !app_assoc; cbn [app]; rewrite <- !app_assoc; reflexivity).
      cbn [app] in Ht |- *. rewrite (patch_ipv6_bracketed _ Ht). reflexivity.
    + rewrite app_nil_r.
      destruct (last_sep_decomp COLON z) as [Hz|(pre & t & -> & Hz)].
      * replace ([LBRACKET] ++ (x ++ COLON :: y ++ COLON :: z) ++ [RBRACKET])
          with ((LBRACKET :: x) ++ COLON :: y ++ COLON :: (z ++ [RBRACKET]))
          by (cbn [app]; rewrite <- !app_assoc; cbn [app]; rewrite <- !app_assoc; reflexivity).
        assert (Hzr : ~ In COLON (z ++ [RBRACKET]))
          by (rewrite not_in_app; split; [exact Hz|intros [E|[]]; discriminate]).
        rewrite (parse_hostport_2 _ _ _ _ _ Hlx Hy Hzr).
        rewrite int10_rbracket.
        replace ((LBRACKET :: x) ++ COLON :: y ++ COLON :: z ++ [RBRACKET])
          with ([LBRACKET] ++ (x ++ COLON :: y ++ COLON :: z) ++ [RBRACKET])
          by (cbn [app]; rewrite <- !app_assoc; cbn [app]; rewrite <- !app_assoc; reflexivity).
        cbn [app] in Ht |- *. rewrite (patch_ipv6_bracketed _ Ht). reflexivity.
      * replace ([LBRACKET] ++ (x ++ COLON :: y ++ COLON :: pre ++ COLON :: t) ++ [RBRACKET])
          with ((LBRACKET :: x) ++ COLON :: y ++ COLON :: pre ++ COLON :: (t ++ [RBRACKET]))
          by (cbn [app]; rewrite <- !app_assoc; cbn [app]; rewrite <- !app_assoc; cbn [app];
              rewrite <- !app_assoc; reflexivity).
        assert (Hzr : ~ In COLON (t ++ [RBRACKET]))
          by (rewrite not_in_app; split; [exact Hz|intros [E|[]]; discriminate]).
        rewrite (parse_hostport_3 _ _ _ _ _ _ Hlx Hy Hzr).
        rewrite int10_rbracket.
        replace ((LBRACKET :: x) ++ COLON :: y ++ COLON :: pre ++ COLON :: t ++ [RBRACKET])
          with ([LBRACKET] ++ (x ++ COLON :: y ++ COLON :: pre ++ COLON :: t) ++ [RBRACKET])
          by (cbn [app]; rewrite <- !app_assoc; cbn [app]; rewrite <- !app_assoc; cbn [app];
              rewrite <- !app_assoc; reflexivity).
        cbn [app] in Ht |- *. rewrite (patch_ipv6_bracketed _ Ht). reflexivity.
Qed.

(* ------------------------------------------------------------------ userinfo *)
Lemma In_USER_EXCLUDED c : In c [AT; SLASH; COLON] -> In c USER_EXCLUDED.
Proof. unfold USER_EXCLUDED. cbn [In]. tauto. Qed.
Lemma In_PASS_EXCLUDED c : In c [AT; SLASH] -> In c PASS_EXCLUDED.
Proof. unfold PASS_EXCLUDED. cbn [In]. tauto. Qed.

Definition ui_user (ui : option userinfo) : option bytes := match ui with Some (u, _) => Some u | None => None end.
Definition ui_pass (ui : option userinfo) : option bytes := match ui with Some (_, p) => p | None => None end.

Lemma hostport_no_at h pt : wf_host h = true -> match pt with Some q => wf_port q = true | None => True end ->
  ~ In AT (host_text h ++ render_port pt) /\ ~ In SLASH (host_text h ++ render_port pt).
Proof.
  intros Hh Hp. pose proof (wf_host_facts h Hh) as F. rewrite !not_in_app.
  destruct pt as [q|]; cbn [render_port].
  - destruct (wf_port_facts q Hp) as (_ & Hs & Ha & _).
    repeat split; try apply F; (intros [E|Hi]; [discriminate|contradiction]).
  - repeat split; try apply F; intros [].
Qed.

Lemma userinfo_no_slash ui : match ui with Some u => wf_userinfo u = true | None => True end ->
  ~ In SLASH (render_userinfo ui).
Proof.
  destruct ui as [[u [pw|]]|]; cbn [render_userinfo]; intros H; [| |intros []].
  - unfold wf_userinfo in H. cbn [fst snd] in H. apply andb_true_iff in H as [Hu Hpw].
    assert (~ In SLASH u) by (apply (none_of_notin _ _ _ Hu), In_USER_EXCLUDED; cbn [In]; tauto).
    assert (~ In SLASH pw) by (apply (none_of_notin _ _ _ Hpw), In_PASS_EXCLUDED; cbn [In]; tauto).
    rewrite not_in_app. split; [assumption|]. intros [E|Hi]; [discriminate|].
    apply in_app_or in Hi as [Hi|[E|[]]]; [contradiction|discriminate].
  - unfold wf_userinfo in H. cbn [fst snd] in H. apply andb_true_iff in H as [Hu _].
    assert (~ In SLASH u) by (apply (none_of_notin _ _ _ Hu), In_USER_EXCLUDED; cbn [In]; tauto).
    rewrite not_in_app. split; [assumption|]. intros [E|[]]; discriminate.
Qed.

Lemma userinfo_split_render ui hp :
  match ui with Some u => wf_userinfo u = true | None => True end -> ~ In AT hp ->
  userinfo_split (render_userinfo ui ++ hp) = (ui_user ui, ui_pass ui, hp).
Proof.
  intros H Hhp. unfold userinfo_split.
  destruct ui as [[u [pw|]]|]; cbn [render_userinfo ui_user ui_pass].
  - unfold wf_userinfo in H. cbn [fst snd] in H. apply andb_true_iff in H as [Hu Hpw].
    assert (Hua : ~ In AT u) by (apply (none_of_notin _ _ _ Hu), In_USER_EXCLUDED; cbn [In]; tauto).
    assert (Huc : ~ In COLON u) by (apply (none_of_notin _ _ _ Hu), In_USER_EXCLUDED; cbn [In]; tauto).
    assert (Hpa : ~ In AT pw) by (apply (none_of_notin _ _ _ Hpw), In_PASS_EXCLUDED; cbn [In]; tauto).
    replace ((u ++ COLON :: pw ++ [AT]) ++ hp) with ((u ++ COLON :: pw) ++ AT :: hp)
      by (rewrite <- !app_assoc; cbn [app]; rewrite <- !app_assoc; reflexivity).
    rewrite split_once_byte_notin.
    2:{ rewrite not_in_app. split; [exact Hua|]. intros [E|Hi]; [discriminate|contradiction]. }
    now rewrite (split_once_byte_notin _ _ _ Huc).
  - unfold wf_userinfo in H. cbn [fst snd] in H. apply andb_true_iff in H as [Hu _].
    assert (Hua : ~ In AT u) by (apply (none_of_notin _ _ _ Hu), In_USER_EXCLUDED; cbn [In]; tauto).
    assert (Huc : ~ In COLON u) by (apply (none_of_notin _ _ _ Hu), In_USER_EXCLUDED; cbn [In]; tauto).
    replace ((u ++ [AT]) ++ hp) with (u ++ AT :: hp) by (rewrite <- app_assoc; reflexivity).
    rewrite (split_once_byte_notin _ _ _ Hua). now rewrite (split_once_byte_none _ _ Huc).
  - cbn [app]. now rewrite (split_once_byte_none _ _ Hhp).
Qed.

(* Url._parse on the authority of a well-formed target *)
Lemma parse_authority_wf ui h pt :
  match ui with Some u => wf_userinfo u = true | None => True end ->
  wf_host h = true -> match pt with Some q => wf_port q = true | None => True end ->
  parse_authority (render_userinfo ui ++ host_text h ++ render_port pt) =
  Ok (ui_user ui, ui_pass ui, host_text h, match pt with Some q => Some (port_value q) | None => None end).
Proof.
  intros Hu Hh Hp. rewrite parse_authority_eq.
  rewrite (userinfo_split_render ui _ Hu (proj1 (hostport_no_at h pt Hh Hp))).
  now apply parse_hostport_wf.
Qed.

(* ------------------------------------------------------------------ Url.from_bytes *)
Lemma split_once_scheme rest :
  split_once (bytes_of_string "://") (HTTP_SCHEME_PREFIX ++ rest) = Some (HTTP_PROTO, rest).
Proof. reflexivity. Qed.

(* the three entry shapes of Url.from_bytes *)
Lemma from_bytes_noslash allowed c0 t : (c0 =? SLASH) = false ->
  from_bytes allowed (c0 :: t) =
  do '(sch, rest) <-
    match split_once (bytes_of_string "://") (c0 :: t) with
    | Some (s, r) => if mem_bytes s allowed then Ok (Some s, Some r) else Err (HttpProtocolException 1)
    | None => Ok (None, None)
    end;
  match rest with
  | Some rest' =>
      let '(auth, rem) :=
        match split_once [SLASH] rest' with
        | None => (rest', None)
        | Some (a, p) => (a, Some (SLASH :: p))
        end in
      do '(u, p, h, pt) <- parse_authority auth;
      Ok {| u_scheme := sch; u_username := u; u_password := p; u_hostname := Some h; u_port := pt;
            u_remainder := rem |}
  | None =>
      do '(u, p, h, pt) <- parse_authority (c0 :: t);
      Ok {| u_scheme := None; u_username := u; u_password := p; u_hostname := Some h; u_port := pt;
            u_remainder := None |}
  end.
Proof. intros H. unfold from_bytes. rewrite H. reflexivity. Qed.

Lemma from_bytes_double allowed t :
  from_bytes allowed (SLASH :: SLASH :: t) =
  let '(auth, rem) :=
    match split_once [SLASH] t with
    | None => (t, None)
    | Some (a, p) => (a, Some (SLASH :: p))
    end in
  do '(u, p, h, pt) <- parse_authority auth;
  Ok {| u_scheme := Some HTTP_PROTO; u_username := u; u_password := p; u_hostname := Some h; u_port := pt;
        u_remainder := rem |}.
Proof. unfold from_bytes. rewrite N.eqb_refl. reflexivity. Qed.

Lemma from_bytes_http auth pa :
  ~ In SLASH auth -> match pa with Some p => starts_with_slash p = true | None => True end ->
  from_bytes DEFAULT_ALLOWED_URL_SCHEMES (HTTP_SCHEME_PREFIX ++ auth ++ render_path pa) =
  do '(u, p, h, pt) <- parse_authority auth;
  Ok {| u_scheme := Some HTTP_PROTO; u_username := u; u_password := p; u_hostname := Some h;
        u_port := pt; u_remainder := pa |}.
Proof.
  intros Ha Hpa.
  assert (Hsplit : split_once [SLASH] (auth ++ render_path pa) =
                   match pa with Some p => Some (auth, tl p) | None => None end /\
                   match pa with Some p => SLASH :: tl p = p | None => True end).
  { destruct pa as [[|x q]|]; cbn [render_path starts_with_slash] in *; try discriminate.
    - apply N.eqb_eq in Hpa. subst x. cbn [tl]. split; [now apply split_once_byte_notin|reflexivity].
    - rewrite app_nil_r. split; [now apply split_once_byte_none|exact I]. }
  destruct Hsplit as [Hs Hq].
  change (HTTP_SCHEME_PREFIX ++ auth ++ render_path pa)
    with (104 :: ([116; 116; 112; 58; 47; 47] ++ auth ++ render_path pa)).
  rewrite from_bytes_noslash by reflexivity.
  change (104 :: ([116; 116; 112; 58; 47; 47] ++ auth ++ render_path pa))
    with (HTTP_SCHEME_PREFIX ++ auth ++ render_path pa).
  rewrite split_once_scheme.
  change (mem_bytes HTTP_PROTO DEFAULT_ALLOWED_URL_SCHEMES) with true. cbv iota. cbn [bind].
  rewrite Hs. destruct pa as [p|].
  - rewrite Hq. reflexivity.
  - cbn [render_path]. rewrite app_nil_r. reflexivity.
Qed.

Lemma from_bytes_authority_form raw : raw <> [] -> ~ In SLASH raw ->
  from_bytes DEFAULT_ALLOWED_URL_SCHEMES raw =
  do '(u, p, h, pt) <- parse_authority raw;
  Ok {| u_scheme := None; u_username := u; u_password := p; u_hostname := Some h; u_port := pt;
        u_remainder := None |}.
Proof.
  intros Hne Hs. destruct raw as [|c0 t]; [congruence|].
  rewrite from_bytes_noslash.
  2:{ destruct (N.eqb_spec c0 SLASH) as [E|_]; [exfalso; apply Hs; now left|reflexivity]. }
  rewrite (split_once_none_of_notin _ SLASH _) by (try exact Hs; cbn; auto).
  reflexivity.
Qed.

Lemma from_bytes_origin p : starts_with_slash p = true -> starts_with_slash (tl p) = false ->
  from_bytes DEFAULT_ALLOWED_URL_SCHEMES p =
  Ok {| u_scheme := None; u_username := None; u_password := None; u_hostname := None; u_port := None;
        u_remainder := Some p |}.
Proof.
  intros H1 H2. unfold from_bytes. destruct p as [|c0 t]; [discriminate|].
  cbn [starts_with_slash tl] in *. rewrite H1. cbn [andb].
  replace (match t with | [] => false | c1 :: _ => c1 =? SLASH end) with false
    by (destruct t; [reflexivity|now rewrite H2]).
  reflexivity.
Qed.

(* ------------------------------------------------------------------ the round trip *)
Lemma derive_roundtrip is_connect t : wf_target t = true ->
  derive is_connect (render_target t) = Ok (expected is_connect t).
Proof.
  destruct t as [p|ui h pt pa|h p]; cbn [wf_target render_target expected]; intros H; unfold derive.
  - apply andb_true_iff in H as [H1 H2]. apply negb_true_iff in H2.
    rewrite (from_bytes_origin p H1 H2). reflexivity.
  - apply andb_true_iff in H as [H Hpa]. apply andb_true_iff in H as [H Hpt]. apply andb_true_iff in H as [Hui Hh].
    assert (Hui' : match ui with Some u => wf_userinfo u = true | None => True end) by (destruct ui; auto).
    assert (Hpt' : match pt with Some q => wf_port q = true | None => True end) by (destruct pt; auto).
    assert (Hpa' : match pa with Some q => starts_with_slash q = true | None => True end) by (destruct pa; auto).
    replace (render_userinfo ui ++ host_text h ++ render_port pt ++ render_path pa)
      with ((render_userinfo ui ++ host_text h ++ render_port pt) ++ render_path pa)
      by (rewrite <- !app_assoc; reflexivity).
    rewrite from_bytes_http; [|rewrite not_in_app; split;
      [now apply userinfo_no_slash|apply (hostport_no_at h pt Hh Hpt')]|exact Hpa'].
    rewrite (parse_authority_wf ui h pt Hui' Hh Hpt'). cbn [bind].
    unfold line_attributes, port_or_default, default_port; cbn [u_port u_hostname u_remainder].
    destruct pt; reflexivity.
  - apply andb_true_iff in H as [Hh Hp].
    pose proof (wf_host_facts h Hh) as F.
    destruct (wf_port_facts p Hp) as (_ & Hps & _ & _).
    rewrite from_bytes_authority_form.
    + pose proof (parse_authority_wf None h (Some p) I Hh Hp) as Hpa.
      cbn [render_userinfo render_port app ui_user ui_pass] in Hpa. rewrite Hpa. reflexivity.
    + destruct (host_text h); discriminate.
    + rewrite not_in_app. split; [apply F|]. intros [E|Hi]; [discriminate|contradiction].
Qed.
