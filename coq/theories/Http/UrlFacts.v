(* C14 lemmas: Url.from_bytes / _parse / _set_line_attributes (Http/Url.v) and the connect path
   (Http/Upstream.v) against the reference grammar of Http/UrlSpec.v. *)
From PM Require Import Lib.Bytes Lib.BytesFacts Lib.PyStr Lib.PyStrFacts Http.Url Http.UrlSpec Http.Upstream.
From Coq Require Import ZArith.

(* ------------------------------------------------------------------ small helpers *)
Lemma none_of_notin bad l c : none_of bad l = true -> In c bad -> ~ In c l.
Proof.
  unfold none_of. rewrite forallb_forall. intros H Hc Hi. specialize (H _ Hi).
  apply negb_true_iff in H. apply mem_byte_false in H. contradiction.
Qed.

Lemma forallb_notin (f : N -> bool) l c : forallb f l = true -> f c = false -> ~ In c l.
Proof. rewrite forallb_forall. intros H Hc Hi. specialize (H _ Hi). congruence. Qed.

Lemma forallb_impl (f g : N -> bool) l : (forall x, f x = true -> g x = true) -> forallb f l = true -> forallb g l = true.
Proof. rewrite !forallb_forall. auto. Qed.

(* ------------------------------------------------------------------ Url._parse in two steps *)
Definition userinfo_split (raw : bytes) : option bytes * option bytes * bytes :=
  match split_once [AT] raw with
  | None => (None, None, raw)
  | Some (ui, rest) =>
      match split_once [COLON] ui with
      | None => (Some ui, None, rest)
      | Some (u, p) => (Some u, Some p, rest)
      end
  end.

Definition parse_hostport (user pass : option bytes) (hostport : bytes)
  : result (option bytes * option bytes * bytes * option Z) :=
  match splitn [COLON] 2 hostport with
  | [h] => Ok (user, pass, h, None)
  | [h; p] => do n <- int10 p; Ok (user, pass, h, Some n)
  | [a; c; rest] =>
      let last_token := split_all [COLON] rest in
      let '(host, port) :=
        match int10 (last last_token []) with
        | Ok n => (join [COLON] [a; c] ++ [COLON] ++ join [COLON] (removelast last_token), Some n)
        | Err _ => (hostport, None)
        end in
      do host' <- patch_ipv6 host;
      Ok (user, pass, host', port)
  | _ => Err OutOfFuel
  end.

Lemma parse_authority_eq raw :
  parse_authority raw = let '(user, pass, hostport) := userinfo_split raw in parse_hostport user pass hostport.
Proof.
  unfold parse_authority, userinfo_split, parse_hostport.
  destruct (split_once [AT] raw) as [[ui rest]|]; [destruct (split_once [COLON] ui) as [[u p]|]|]; reflexivity.
Qed.

Lemma userinfo_split_after_at raw : snd (userinfo_split raw) = after_at raw.
Proof.
  unfold userinfo_split, after_at.
  destruct (split_once [AT] raw) as [[ui rest]|]; [destruct (split_once [COLON] ui) as [[u p]|]|]; reflexivity.
Qed.

(* ---- the four shapes of a host[:port] text, by number of colons ---- *)
Lemma hostport_shape hp :
  (~ In COLON hp) \/
  (exists h pt, hp = h ++ COLON :: pt /\ ~ In COLON h /\ ~ In COLON pt) \/
  (exists a c rest, hp = a ++ COLON :: c ++ COLON :: rest /\ ~ In COLON a /\ ~ In COLON c /\ ~ In COLON rest) \/
  (exists a c pre t, hp = a ++ COLON :: c ++ COLON :: pre ++ COLON :: t /\ ~ In COLON a /\ ~ In COLON c /\ ~ In COLON t).
Proof.
  destruct (split_once [COLON] hp) as [[a r]|] eqn:E1.
  2:{ left. now apply split_once_byte_none_inv. }
  apply split_once_byte_some in E1 as [-> Ha]. right.
  destruct (split_once [COLON] r) as [[c rest]|] eqn:E2.
  2:{ left. exists a, r. apply split_once_byte_none_inv in E2. auto. }
  apply split_once_byte_some in E2 as [-> Hc]. right.
  destruct (last_sep_decomp COLON rest) as [Hn|(pre & t & -> & Ht)].
  - left. exists a, c, rest. auto.
  - right. exists a, c, pre, t. auto.
Qed.

Lemma parse_hostport_0 u p hp : ~ In COLON hp -> parse_hostport u p hp = Ok (u, p, hp, None).
Proof.
  intros H. unfold parse_hostport. now rewrite (splitn_S_none _ _ _ (split_once_byte_none _ _ H)).
Qed.

Lemma parse_hostport_1 u p h pt : ~ In COLON h -> ~ In COLON pt ->
  parse_hostport u p (h ++ COLON :: pt) = do n <- int10 pt; Ok (u, p, h, Some n).
Proof.
  intros Hh Hp. unfold parse_hostport.
  rewrite (splitn_S_some _ _ _ _ _ (split_once_byte_notin _ _ _ Hh)).
  now rewrite (splitn_S_none _ _ _ (split_once_byte_none _ _ Hp)).
Qed.

Lemma splitn2_three a c rest : ~ In COLON a -> ~ In COLON c ->
  splitn [COLON] 2 (a ++ COLON :: c ++ COLON :: rest) = [a; c; rest].
Proof.
  intros Ha Hc.
  rewrite (splitn_S_some _ _ _ _ _ (split_once_byte_notin _ _ _ Ha)).
  rewrite (splitn_S_some _ _ _ _ _ (split_once_byte_notin _ _ _ Hc)). reflexivity.
Qed.

(* exactly two colons: the text before the port KEEPS its trailing colon *)
Lemma parse_hostport_2 u p a c rest : ~ In COLON a -> ~ In COLON c -> ~ In COLON rest ->
  parse_hostport u p (a ++ COLON :: c ++ COLON :: rest) =
  let '(host, port) := match int10 rest with
                       | Ok n => (a ++ COLON :: c ++ [COLON], Some n)
                       | Err _ => (a ++ COLON :: c ++ COLON :: rest, None)
                       end in
  do host' <- patch_ipv6 host; Ok (u, p, host', port).
Proof.
  intros Ha Hc Hr. unfold parse_hostport. rewrite (splitn2_three _ _ _ Ha Hc).
  rewrite (split_all_notin _ _ Hr). cbn [last removelast join].
  destruct (int10 rest); [|reflexivity].
  rewrite app_nil_r. rewrite <- app_assoc. reflexivity.
Qed.

(* three or more colons: port after the last one, host before it *)
Lemma parse_hostport_3 u p a c pre t : ~ In COLON a -> ~ In COLON c -> ~ In COLON t ->
  parse_hostport u p (a ++ COLON :: c ++ COLON :: pre ++ COLON :: t) =
  let '(host, port) := match int10 t with
                       | Ok n => (a ++ COLON :: c ++ COLON :: pre, Some n)
                       | Err _ => (a ++ COLON :: c ++ COLON :: pre ++ COLON :: t, None)
                       end in
  do host' <- patch_ipv6 host; Ok (u, p, host', port).
Proof.
  intros Ha Hc Ht. unfold parse_hostport. rewrite (splitn2_three _ _ _ Ha Hc).
  rewrite (split_all_app_last _ _ _ Ht). rewrite last_last, removelast_last, join_split_all.
  destruct (int10 t); [|reflexivity].
  cbn [join]. rewrite <- !app_assoc. reflexivity.
Qed.

(* ------------------------------------------------------------------ facts extracted from wf_* *)
Lemma is_hex_ascii x : is_hex x || (x =? COLON) || (x =? DOT) = true -> x <? 128 = true.
Proof.
  unfold is_hex, is_digit, COLON, DOT. intros H. apply N.ltb_lt.
  repeat (apply orb_true_iff in H as [H|H]);
    try (apply andb_true_iff in H as [H1 H2]; apply N.leb_le in H1, H2; lia);
    apply N.eqb_eq in H; lia.
Qed.

Lemma digit_dot_ascii x : is_digit x || (x =? DOT) = true -> x <? 128 = true.
Proof.
  unfold is_digit, DOT. intros H. apply N.ltb_lt.
  apply orb_true_iff in H as [H|H];
    [apply andb_true_iff in H as [H1 H2]; apply N.leb_le in H1, H2; lia|apply N.eqb_eq in H; lia].
Qed.

Lemma all_digits_notin c p : all_digits p = true -> is_digit c = false -> ~ In c p.
Proof. apply forallb_notin. Qed.

Lemma wf_port_facts q : wf_port q = true ->
  ~ In COLON q /\ ~ In SLASH q /\ ~ In AT q /\ int10 q = Ok (port_value q).
Proof.
  unfold wf_port. intros H. apply andb_true_iff in H as [H Hl]. apply andb_true_iff in H as [Hne Hd].
  apply Nat.leb_le in Hl. apply negb_true_iff, Nat.eqb_neq in Hne.
  repeat split; try (apply (all_digits_notin _ _ Hd); reflexivity).
  apply int10_digits; [destruct q; [cbn in Hne; lia|discriminate]|exact Hd|exact Hl].
Qed.

Record host_facts (h : host) : Prop := {
  hf_slash : ~ In SLASH (host_text h);
  hf_at : ~ In AT (host_text h);
  hf_text : text_ (host_text h) = Ok (host_text h);
  hf_ne : host_text h <> [];
  hf_unbr : strip_brackets (host_text h) = host_unbracketed h }.

Lemma In_HOST_EXCLUDED c : In c [COLON; SLASH; AT; LBRACKET; RBRACKET] -> In c HOST_EXCLUDED.
Proof. unfold HOST_EXCLUDED. cbn [In]. tauto. Qed.

Lemma strip_brackets_plain b : ~ In LBRACKET b -> strip_brackets b = b.
Proof.
  intros H. unfold strip_brackets, startswith. rewrite is_prefix_single.
  destruct b as [|x t]; [reflexivity|].
  destruct (N.eqb_spec LBRACKET x) as [E|_]; [exfalso; apply H; now left|reflexivity].
Qed.

Lemma strip_brackets_bracketed b : strip_brackets ([LBRACKET] ++ b ++ [RBRACKET]) = b.
Proof.
  unfold strip_brackets, startswith, endswith. cbn [app]. rewrite is_prefix_single, N.eqb_refl.
  change (LBRACKET :: b ++ [RBRACKET]) with ([LBRACKET] ++ b ++ [RBRACKET]).
  rewrite app_assoc, rev_unit. cbn [rev app]. rewrite is_prefix_single, N.eqb_refl. cbn [andb tl].
  apply removelast_last.
Qed.

Lemma wf_host_facts h : wf_host h = true -> host_facts h.
Proof.
  destruct h as [b|b|b]; cbn [wf_host]; intros H.
  - apply andb_true_iff in H as [H Hu]. apply andb_true_iff in H as [Hne Hx].
    apply negb_true_iff, Nat.eqb_neq in Hne.
    assert (Hn : forall c, In c [COLON; SLASH; AT; LBRACKET; RBRACKET] -> ~ In c b)
      by (intros c Hc; apply (none_of_notin _ _ _ Hx), In_HOST_EXCLUDED, Hc).
    constructor; cbn [host_text host_unbracketed].
    + apply Hn. cbn [In]. tauto.
    + apply Hn. cbn [In]. tauto.
    + unfold text_. now rewrite Hu.
    + destruct b; [cbn in Hne; lia|discriminate].
    + apply strip_brackets_plain, Hn. cbn [In]. tauto.
  - apply andb_true_iff in H as [Hne Hd]. apply negb_true_iff, Nat.eqb_neq in Hne.
    constructor; cbn [host_text host_unbracketed].
    + apply (forallb_notin _ _ _ Hd). reflexivity.
    + apply (forallb_notin _ _ _ Hd). reflexivity.
    + apply text_ascii. exact (forallb_impl _ _ _ digit_dot_ascii Hd).
    + destruct b; [cbn in Hne; lia|discriminate].
    + apply strip_brackets_plain. apply (forallb_notin _ _ _ Hd). reflexivity.
  - apply andb_true_iff in H as [Hd Hc].
    constructor; cbn [host_text host_unbracketed].
    + rewrite !not_in_app. repeat split; [|apply (forallb_notin _ _ _ Hd); reflexivity|];
        (intros [E|[]]; discriminate).
    + rewrite !not_in_app. repeat split; [|apply (forallb_notin _ _ _ Hd); reflexivity|];
        (intros [E|[]]; discriminate).
    + apply text_ascii. rewrite !all_ascii_app. unfold all_ascii at 2.
      rewrite (forallb_impl _ _ _ is_hex_ascii Hd). reflexivity.
    + discriminate.
    + apply strip_brackets_bracketed.
Qed.

Lemma patch_ipv6_bracketed t : text_ (LBRACKET :: t) = Ok (LBRACKET :: t) -> patch_ipv6 (LBRACKET :: t) = Ok (LBRACKET :: t).
Proof.
  intros H. unfold patch_ipv6. rewrite H. cbn [bind].
  destruct (mem_byte COLON (LBRACKET :: t)); [|reflexivity].
  rewrite N.eqb_refl. reflexivity.
Qed.

Lemma rbracket_bad : int_bad_byte RBRACKET = true.
Proof. reflexivity. Qed.

Lemma int10_rbracket l : int10 (l ++ [RBRACKET]) = Err ValueError.
Proof.
  apply (int10_bad_byte RBRACKET); [|exact rbracket_bad].
  apply in_or_app. right. now left.
Qed.

(* Url._parse on host[:port] written from the grammar *)
Lemma parse_hostport_wf u p h pt :
  wf_host h = true -> match pt with Some q => wf_port q = true | None => True end ->
  parse_hostport u p (host_text h ++ render_port pt) =
  Ok (u, p, host_text h, match pt with Some q => Some (port_value q) | None => None end).
Proof.
  intros Hh Hp. pose proof (wf_host_facts h Hh) as F.
  assert (Hplain : ~ In COLON (host_text h) ->
    parse_hostport u p (host_text h ++ render_port pt) =
    Ok (u, p, host_text h, match pt with Some q => Some (port_value q) | None => None end)).
  { intros Hc. destruct pt as [q|]; cbn [render_port].
    - destruct (wf_port_facts q Hp) as (Hq & _ & _ & Hi).
      rewrite (parse_hostport_1 _ _ _ _ Hc Hq), Hi. reflexivity.
    - rewrite app_nil_r. now apply parse_hostport_0. }
  destruct h as [b|b|b].
  - apply Hplain. cbn [host_text]. cbn [wf_host] in Hh.
    apply andb_true_iff in Hh as [Hh _]. apply andb_true_iff in Hh as [_ Hx].
    apply (none_of_notin _ _ _ Hx). unfold HOST_EXCLUDED. now left.
  - apply Hplain. cbn [host_text]. cbn [wf_host] in Hh.
    apply andb_true_iff in Hh as [_ Hd]. apply (forallb_notin _ _ _ Hd). reflexivity.
  - pose proof (hf_text _ F) as Ht. cbn [host_text] in *. cbn [wf_host] in Hh.
    apply andb_true_iff in Hh as [Hd Hc]. apply Nat.leb_le in Hc.
    destruct (count_ge2_split _ _ Hc) as (x & y & z & -> & Hx & Hy).
    assert (Hlx : ~ In COLON (LBRACKET :: x)) by (intros [E|Hi]; [discriminate|contradiction]).
    destruct pt as [q|]; cbn [render_port].
    + destruct (wf_port_facts q Hp) as (Hq & _ & _ & Hi).
      replace (([LBRACKET] ++ (x ++ COLON :: y ++ COLON :: z) ++ [RBRACKET]) ++ COLON :: q)
        with ((LBRACKET :: x) ++ COLON :: y ++ COLON :: (z ++ [RBRACKET]) ++ COLON :: q)
        by (cbn [app]; rewrite <- !app_assoc; cbn [app]; rewrite <- !app_assoc; reflexivity).
      rewrite (parse_hostport_3 _ _ _ _ _ _ Hlx Hy Hq), Hi.
      replace ((LBRACKET :: x) ++ COLON :: y ++ COLON :: z ++ [RBRACKET])
        with ([LBRACKET] ++ (x ++ COLON :: y ++ COLON :: z) ++ [RBRACKET])
        by (cbn [app]; rewrite <- !app_assoc; cbn [app]; rewrite <- !app_assoc; reflexivity).
      cbn [app] in Ht |- *. rewrite (patch_ipv6_bracketed _ Ht). reflexivity.
    + rewrite app_nil_r.
      destruct (last_sep_decomp COLON z) as [Hz|(pre & t & -> & Hz)].
      * replace ([LBRACKET] ++ (x ++ COLON :: y ++ COLON :: z) ++ [RBRACKET])
          with ((LBRACKET :: x) ++ COLON :: y ++ COLON :: (z ++ [RBRACKET]))
          by (cbn [app]; rewrite <- !app_assoc; cbn [app]; rewrite <- !app_assoc; reflexivity).
        assert (Hzr : ~ In COLON (z ++ [RBRACKET]))
          by (rewrite not_in_app; split; [exact Hz|intros [E|[]]; discriminate]).
        rewrite (parse_hostport_2 _ _ _ _ _ Hlx Hy Hzr).
        rewrite int10_rbracket.
        replace ((LBRACKET :: x) ++ COLON :: y ++ COLON :: z ++ [RBRACKET])
          with ([LBRACKET] ++ (x ++ COLON :: y ++ COLON :: z) ++ [RBRACKET])
          by (cbn [app]; rewrite <- !app_assoc; cbn [app]; rewrite <- !app_assoc; reflexivity).
        cbn [app] in Ht |- *. rewrite (patch_ipv6_bracketed _ Ht). reflexivity.
      * replace ([LBRACKET] ++ (x ++ COLON :: y ++ COLON :: pre ++ COLON :: t) ++ [RBRACKET])
          with ((LBRACKET :: x) ++ COLON :: y ++ COLON :: pre ++ COLON :: (t ++ [RBRACKET]))
          by (cbn [app]; rewrite <- !app_assoc; cbn [app]; rewrite <- !app_assoc; cbn [app];
              rewrite <- !app_assoc; reflexivity).
        assert (Hzr : ~ In COLON (t ++ [RBRACKET]))
          by (rewrite not_in_app; split; [exact Hz|intros [E|[]]; discriminate]).
        rewrite (parse_hostport_3 _ _ _ _ _ _ Hlx Hy Hzr).
        rewrite int10_rbracket.
        replace ((LBRACKET :: x) ++ COLON :: y ++ COLON :: pre ++ COLON :: t ++ [RBRACKET])
          with ([LBRACKET] ++ (x ++ COLON :: y ++ COLON :: pre ++ COLON :: t) ++ [RBRACKET])
          by (cbn [app]; rewrite <- !app_assoc; cbn [app]; rewrite <- !app_assoc; cbn [app];
              rewrite <- !app_assoc; reflexivity).
        cbn [app] in Ht |- *. rewrite (patch_ipv6_bracketed _ Ht). reflexivity.
Qed.

(* ------------------------------------------------------------------ userinfo *)
Lemma In_USER_EXCLUDED c : In c [AT; SLASH; COLON] -> In c USER_EXCLUDED.
Proof. unfold USER_EXCLUDED. cbn [In]. tauto. Qed.
Lemma In_PASS_EXCLUDED c : In c [AT; SLASH] -> In c PASS_EXCLUDED.
Proof. unfold PASS_EXCLUDED. cbn [In]. tauto. Qed.

Definition ui_user (ui : option userinfo) : option bytes := match ui with Some (u, _) => Some u | None => None end.
Definition ui_pass (ui : option userinfo) : option bytes := match ui with Some (_, p) => p | None => None end.

Lemma hostport_no_at h pt : wf_host h = true -> match pt with Some q => wf_port q = true | None => True end ->
  ~ In AT (host_text h ++ render_port pt) /\ ~ In SLASH (host_text h ++ render_port pt).
Proof.
  intros Hh Hp. pose proof (wf_host_facts h Hh) as F. rewrite !not_in_app.
  destruct pt as [q|]; cbn [render_port].
  - destruct (wf_port_facts q Hp) as (_ & Hs & Ha & _).
    repeat split; try apply F; (intros [E|Hi]; [discriminate|contradiction]).
  - repeat split; try apply F; intros [].
Qed.

Lemma userinfo_no_slash ui : match ui with Some u => wf_userinfo u = true | None => True end ->
  ~ In SLASH (render_userinfo ui).
Proof.
  destruct ui as [[u [pw|]]|]; cbn [render_userinfo]; intros H; [| |intros []].
  - unfold wf_userinfo in H. cbn [fst snd] in H. apply andb_true_iff in H as [Hu Hpw].
    assert (~ In SLASH u) by (apply (none_of_notin _ _ _ Hu), In_USER_EXCLUDED; cbn [In]; tauto).
    assert (~ In SLASH pw) by (apply (none_of_notin _ _ _ Hpw), In_PASS_EXCLUDED; cbn [In]; tauto).
    rewrite not_in_app. split; [assumption|]. intros [E|Hi]; [discriminate|].
    apply in_app_or in Hi as [Hi|[E|[]]]; [contradiction|discriminate].
  - unfold wf_userinfo in H. cbn [fst snd] in H. apply andb_true_iff in H as [Hu _].
    assert (~ In SLASH u) by (apply (none_of_notin _ _ _ Hu), In_USER_EXCLUDED; cbn [In]; tauto).
    rewrite not_in_app. split; [assumption|]. intros [E|[]]; discriminate.
Qed.

Lemma userinfo_split_render ui hp :
  match ui with Some u => wf_userinfo u = true | None => True end -> ~ In AT hp ->
  userinfo_split (render_userinfo ui ++ hp) = (ui_user ui, ui_pass ui, hp).
Proof.
  intros H Hhp. unfold userinfo_split.
  destruct ui as [[u [pw|]]|]; cbn [render_userinfo ui_user ui_pass].
  - unfold wf_userinfo in H. cbn [fst snd] in H. apply andb_true_iff in H as [Hu Hpw].
    assert (Hua : ~ In AT u) by (apply (none_of_notin _ _ _ Hu), In_USER_EXCLUDED; cbn [In]; tauto).
    assert (Huc : ~ In COLON u) by (apply (none_of_notin _ _ _ Hu), In_USER_EXCLUDED; cbn [In]; tauto).
    assert (Hpa : ~ In AT pw) by (apply (none_of_notin _ _ _ Hpw), In_PASS_EXCLUDED; cbn [In]; tauto).
    replace ((u ++ COLON :: pw ++ [AT]) ++ hp) with ((u ++ COLON :: pw) ++ AT :: hp)
      by (rewrite <- !app_assoc; cbn [app]; rewrite <- !app_assoc; reflexivity).
    rewrite split_once_byte_notin.
    2:{ rewrite not_in_app. split; [exact Hua|]. intros [E|Hi]; [discriminate|contradiction]. }
    now rewrite (split_once_byte_notin _ _ _ Huc).
  - unfold wf_userinfo in H. cbn [fst snd] in H. apply andb_true_iff in H as [Hu _].
    assert (Hua : ~ In AT u) by (apply (none_of_notin _ _ _ Hu), In_USER_EXCLUDED; cbn [In]; tauto).
    assert (Huc : ~ In COLON u) by (apply (none_of_notin _ _ _ Hu), In_USER_EXCLUDED; cbn [In]; tauto).
    replace ((u ++ [AT]) ++ hp) with (u ++ AT :: hp) by (rewrite <- app_assoc; reflexivity).
    rewrite (split_once_byte_notin _ _ _ Hua). now rewrite (split_once_byte_none _ _ Huc).
  - cbn [app]. now rewrite (split_once_byte_none _ _ Hhp).
Qed.

(* Url._parse on the authority of a well-formed target *)
Lemma parse_authority_wf ui h pt :
  match ui with Some u => wf_userinfo u = true | None => True end ->
  wf_host h = true -> match pt with Some q => wf_port q = true | None => True end ->
  parse_authority (render_userinfo ui ++ host_text h ++ render_port pt) =
  Ok (ui_user ui, ui_pass ui, host_text h, match pt with Some q => Some (port_value q) | None => None end).
Proof.
  intros Hu Hh Hp. rewrite parse_authority_eq.
  rewrite (userinfo_split_render ui _ Hu (proj1 (hostport_no_at h pt Hh Hp))).
  now apply parse_hostport_wf.
Qed.

(* ------------------------------------------------------------------ Url.from_bytes *)
Lemma split_once_scheme rest :
  split_once (bytes_of_string "://") (HTTP_SCHEME_PREFIX ++ rest) = Some (HTTP_PROTO, rest).
Proof. reflexivity. Qed.

(* the three entry shapes of Url.from_bytes *)
Lemma from_bytes_noslash allowed c0 t : (c0 =? SLASH) = false ->
  from_bytes allowed (c0 :: t) =
  do '(sch, rest) <-
    match split_once (bytes_of_string "://") (c0 :: t) with
    | Some (s, r) => if mem_bytes s allowed then Ok (Some s, Some r) else Err (HttpProtocolException 1)
    | None => Ok (None, None)
    end;
  match rest with
  | Some rest' =>
      let '(auth, rem) :=
        match split_once [SLASH] rest' with
        | None => (rest', None)
        | Some (a, p) => (a, Some (SLASH :: p))
        end in
      do '(u, p, h, pt) <- parse_authority auth;
      Ok {| u_scheme := sch; u_username := u; u_password := p; u_hostname := Some h; u_port := pt;
            u_remainder := rem |}
  | None =>
      do '(u, p, h, pt) <- parse_authority (c0 :: t);
      Ok {| u_scheme := None; u_username := u; u_password := p; u_hostname := Some h; u_port := pt;
            u_remainder := None |}
  end.
Proof. intros H. unfold from_bytes. rewrite H. reflexivity. Qed.

Lemma from_bytes_double allowed t :
  from_bytes allowed (SLASH :: SLASH :: t) =
  let '(auth, rem) :=
    match split_once [SLASH] t with
    | None => (t, None)
    | Some (a, p) => (a, Some (SLASH :: p))
    end in
  do '(u, p, h, pt) <- parse_authority auth;
  Ok {| u_scheme := Some HTTP_PROTO; u_username := u; u_password := p; u_hostname := Some h; u_port := pt;
        u_remainder := rem |}.
Proof. unfold from_bytes. rewrite N.eqb_refl. reflexivity. Qed.

Lemma from_bytes_http auth pa :
  ~ In SLASH auth -> match pa with Some p => starts_with_slash p = true | None => True end ->
  from_bytes DEFAULT_ALLOWED_URL_SCHEMES (HTTP_SCHEME_PREFIX ++ auth ++ render_path pa) =
  do '(u, p, h, pt) <- parse_authority auth;
  Ok {| u_scheme := Some HTTP_PROTO; u_username := u; u_password := p; u_hostname := Some h;
        u_port := pt; u_remainder := pa |}.
Proof.
  intros Ha Hpa.
  assert (Hsplit : split_once [SLASH] (auth ++ render_path pa) =
                   match pa with Some p => Some (auth, tl p) | None => None end /\
                   match pa with Some p => SLASH :: tl p = p | None => True end).
  { destruct pa as [[|x q]|]; cbn [render_path starts_with_slash] in *; try discriminate.
    - apply N.eqb_eq in Hpa. subst x. cbn [tl]. split; [now apply split_once_byte_notin|reflexivity].
    - rewrite app_nil_r. split; [now apply split_once_byte_none|exact I]. }
  destruct Hsplit as [Hs Hq].
  change (HTTP_SCHEME_PREFIX ++ auth ++ render_path pa)
    with (104 :: ([116; 116; 112; 58; 47; 47] ++ auth ++ render_path pa)).
  rewrite from_bytes_noslash by reflexivity.
  change (104 :: ([116; 116; 112; 58; 47; 47] ++ auth ++ render_path pa))
    with (HTTP_SCHEME_PREFIX ++ auth ++ render_path pa).
  rewrite split_once_scheme.
  change (mem_bytes HTTP_PROTO DEFAULT_ALLOWED_URL_SCHEMES) with true. cbv iota. cbn [bind].
  rewrite Hs. destruct pa as [p|].
  - rewrite Hq. reflexivity.
  - cbn [render_path]. rewrite app_nil_r. reflexivity.
Qed.

Lemma from_bytes_authority_form raw : raw <> [] -> ~ In SLASH raw ->
  from_bytes DEFAULT_ALLOWED_URL_SCHEMES raw =
  do '(u, p, h, pt) <- parse_authority raw;
  Ok {| u_scheme := None; u_username := u; u_password := p; u_hostname := Some h; u_port := pt;
        u_remainder := None |}.
Proof.
  intros Hne Hs. destruct raw as [|c0 t]; [congruence|].
  rewrite from_bytes_noslash.
  2:{ destruct (N.eqb_spec c0 SLASH) as [E|_]; [exfalso; apply Hs; now left|reflexivity]. }
  rewrite (split_once_none_of_notin _ SLASH _) by (try exact Hs; cbn; auto).
  reflexivity.
Qed.

Lemma from_bytes_origin p : starts_with_slash p = true -> starts_with_slash (tl p) = false ->
  from_bytes DEFAULT_ALLOWED_URL_SCHEMES p =
  Ok {| u_scheme := None; u_username := None; u_password := None; u_hostname := None; u_port := None;
        u_remainder := Some p |}.
Proof.
  intros H1 H2. unfold from_bytes. destruct p as [|c0 t]; [discriminate|].
  cbn [starts_with_slash tl] in *. rewrite H1. cbn [andb].
  replace (match t with | [] => false | c1 :: _ => c1 =? SLASH end) with false
    by (destruct t; [reflexivity|now rewrite H2]).
  reflexivity.
Qed.

(* ------------------------------------------------------------------ the round trip *)
Lemma derive_roundtrip is_connect t : wf_target t = true ->
  derive is_connect (render_target t) = Ok (expected is_connect t).
Proof.
  destruct t as [p|ui h pt pa|h p]; cbn [wf_target render_target expected]; intros H; unfold derive.
  - apply andb_true_iff in H as [H1 H2]. apply negb_true_iff in H2.
    rewrite (from_bytes_origin p H1 H2). reflexivity.
  - apply andb_true_iff in H as [H Hpa]. apply andb_true_iff in H as [H Hpt]. apply andb_true_iff in H as [Hui Hh].
    assert (Hui' : match ui with Some u => wf_userinfo u = true | None => True end) by (destruct ui; auto).
    assert (Hpt' : match pt with Some q => wf_port q = true | None => True end) by (destruct pt; auto).
    assert (Hpa' : match pa with Some q => starts_with_slash q = true | None => True end) by (destruct pa; auto).
    replace (render_userinfo ui ++ host_text h ++ render_port pt ++ render_path pa)
      with ((render_userinfo ui ++ host_text h ++ render_port pt) ++ render_path pa)
      by (rewrite <- !app_assoc; reflexivity).
    rewrite from_bytes_http; [|rewrite not_in_app; split;
      [now apply userinfo_no_slash|apply (hostport_no_at h pt Hh Hpt')]|exact Hpa'].
    rewrite (parse_authority_wf ui h pt Hui' Hh Hpt'). cbn [bind].
    unfold line_attributes, port_or_default, default_port; cbn [u_port u_hostname u_remainder].
    destruct pt; reflexivity.
  - apply andb_true_iff in H as [Hh Hp].
    pose proof (wf_host_facts h Hh) as F.
    destruct (wf_port_facts p Hp) as (_ & Hps & _ & _).
    rewrite from_bytes_authority_form.
    + pose proof (parse_authority_wf None h (Some p) I Hh Hp) as Hpa.
      cbn [render_userinfo render_port app ui_user ui_pass] in Hpa. rewrite Hpa. reflexivity.
    + destruct (host_text h); discriminate.
    + rewrite not_in_app. split; [apply F|]. intros [E|Hi]; [discriminate|contradiction].
Qed.

(* ------------------------------------------------------------------ whatever is accepted is routed where it says *)
Lemma rsplit_three a c rest : ~ In COLON rest ->
  rsplit_byte COLON (a ++ COLON :: c ++ COLON :: rest) = Some (a ++ COLON :: c, rest).
Proof.
  intros H. replace (a ++ COLON :: c ++ COLON :: rest) with ((a ++ COLON :: c) ++ COLON :: rest)
    by (rewrite <- app_assoc; reflexivity).
  now apply rsplit_byte_last.
Qed.

Lemma rsplit_four a c pre t : ~ In COLON t ->
  rsplit_byte COLON (a ++ COLON :: c ++ COLON :: pre ++ COLON :: t) = Some (a ++ COLON :: c ++ COLON :: pre, t).
Proof.
  intros H. replace (a ++ COLON :: c ++ COLON :: pre ++ COLON :: t) with ((a ++ COLON :: c ++ COLON :: pre) ++ COLON :: t)
    by (rewrite <- !app_assoc; cbn [app]; rewrite <- !app_assoc; reflexivity).
  now apply rsplit_byte_last.
Qed.

Lemma patch_ipv6_bracket_inv t h' : patch_ipv6 (LBRACKET :: t) = Ok h' -> h' = LBRACKET :: t.
Proof.
  unfold patch_ipv6. destruct (text_ (LBRACKET :: t)) as [s|e] eqn:Et; cbn [bind]; [|discriminate].
  assert (s = LBRACKET :: t) as -> by (unfold text_ in Et; destruct (utf8_valid (LBRACKET :: t)); now inversion Et).
  destruct (mem_byte COLON (LBRACKET :: t)); [|now intros H; inversion H].
  rewrite N.eqb_refl. cbn [negb andb]. now intros H; inversion H.
Qed.

Lemma starts_with_bracket_cons l : starts_with_bracket l = true -> exists t, l = LBRACKET :: t.
Proof. destruct l as [|x t]; [discriminate|]. cbn [starts_with_bracket]. intros H. apply N.eqb_eq in H. subst. now exists t. Qed.

Lemma starts_with_bracket_app a r : ~ In COLON a -> starts_with_bracket (a ++ COLON :: r) = true ->
  exists a', a = LBRACKET :: a'.
Proof.
  destruct a as [|x a']; cbn [app starts_with_bracket]; intros _ H.
  - discriminate.
  - apply N.eqb_eq in H. subst. now exists a'.
Qed.

Lemma count3 a c rest : ~ In COLON a -> ~ In COLON c ->
  count_byte COLON (a ++ COLON :: c ++ COLON :: rest) = S (S (count_byte COLON rest)).
Proof.
  intros Ha Hc. apply count_byte_zero in Ha, Hc.
  rewrite count_byte_app, count_byte_cons_eq, count_byte_app, count_byte_cons_eq, Ha, Hc. reflexivity.
Qed.

Lemma parse_hostport_ref u p hp u' p' h pt :
  parse_hostport u p hp = Ok (u', p', h, pt) -> lenient_ipv6_shape hp = false ->
  (h, pt) = ref_hostport hp.
Proof.
  intros Hp Hg. unfold ref_hostport.
  destruct (hostport_shape hp) as [H0|[(h0 & q & -> & Hh & Hq)|[(a & c & rest & -> & Ha & Hc & Hr)|(a & c & pre & t & -> & Ha & Hc & Ht)]]].
  - rewrite (parse_hostport_0 _ _ _ H0) in Hp. inversion Hp; subst. now rewrite (rsplit_byte_none _ _ H0).
  - rewrite (parse_hostport_1 _ _ _ _ Hh Hq) in Hp. rewrite (rsplit_byte_last _ _ _ Hq).
    destruct (int10 q) as [n|e]; cbn [bind] in Hp; [|discriminate]. now inversion Hp.
  - unfold lenient_ipv6_shape, last_token, is_int_text in Hg.
    rewrite (count3 _ _ _ Ha Hc) in Hg. apply count_byte_zero in Hr as Hr0. rewrite Hr0 in Hg.
    rewrite (rsplit_three _ _ _ Hr) in Hg |- *. cbn [Nat.leb Nat.eqb andb] in Hg.
    apply orb_false_iff in Hg as [Hb Hi]. apply negb_false_iff in Hb.
    rewrite (parse_hostport_2 _ _ _ _ _ Ha Hc Hr) in Hp.
    destruct (int10 rest) as [n|e]; [discriminate|].
    destruct (starts_with_bracket_cons _ Hb) as [tl Etl]. rewrite Etl in Hp |- *.
    destruct (patch_ipv6 (LBRACKET :: tl)) as [h'|] eqn:Ep; cbn [bind] in Hp; [|discriminate].
    apply patch_ipv6_bracket_inv in Ep. inversion Hp; subst. reflexivity.
  - unfold lenient_ipv6_shape in Hg.
    rewrite (count3 _ _ _ Ha Hc) in Hg. rewrite count_byte_app, count_byte_cons_eq in Hg.
    replace (2 <=? S (S (count_byte COLON pre + S (count_byte COLON t))))%nat with true in Hg by reflexivity.
    replace (Nat.eqb (S (S (count_byte COLON pre + S (count_byte COLON t)))) 2) with false in Hg
      by (symmetry; apply Nat.eqb_neq; lia).
    cbn [andb] in Hg. rewrite orb_false_r in Hg. apply negb_false_iff in Hg.
    rewrite (rsplit_four _ _ _ _ Ht).
    rewrite (parse_hostport_3 _ _ _ _ _ _ Ha Hc Ht) in Hp.
    destruct (starts_with_bracket_app _ _ Ha Hg) as [a' ->].
    destruct (int10 t) as [n|e].
    + cbn [app] in Hp.
      destruct (patch_ipv6 (LBRACKET :: a' ++ COLON :: c ++ COLON :: pre)) as [h'|] eqn:Ep; cbn [bind] in Hp; [|discriminate].
      apply patch_ipv6_bracket_inv in Ep. inversion Hp; subst. reflexivity.
    + cbn [app] in Hp.
      destruct (patch_ipv6 (LBRACKET :: a' ++ COLON :: c ++ COLON :: pre ++ COLON :: t)) as [h'|] eqn:Ep; cbn [bind] in Hp; [|discriminate].
      apply patch_ipv6_bracket_inv in Ep. inversion Hp; subst. reflexivity.
Qed.

Lemma parse_authority_ref auth u pw h pt :
  parse_authority auth = Ok (u, pw, h, pt) -> lenient_ipv6_shape (after_at auth) = false ->
  (h, pt) = ref_hostport (after_at auth).
Proof.
  rewrite parse_authority_eq. rewrite <- userinfo_split_after_at.
  destruct (userinfo_split auth) as [[u0 p0] hp]. cbn [snd]. apply parse_hostport_ref.
Qed.

(* every accepted target that names a host got it from Url._parse applied to ref_authority *)
Lemma derive_authority c raw h p pa :
  derive c raw = Ok (Some h, Some p, pa) ->
  exists auth u pw pt, ref_authority raw = Some auth /\ parse_authority auth = Ok (u, pw, h, pt) /\
                       p = match pt with Some n => n | None => default_port c end.
Proof.
  unfold derive. intros H.
  destruct (from_bytes DEFAULT_ALLOWED_URL_SCHEMES raw) as [url|] eqn:Efb; cbn [bind] in H; [|discriminate].
  unfold line_attributes in H.
  assert (Hh : u_hostname url = Some h) by (inversion H; reflexivity).
  assert (Hpt : p = match u_port url with Some n => n | None => default_port c end)
    by (unfold default_port; destruct (u_port url); inversion H; reflexivity).
  clear H.
  destruct raw as [|c0 t]; [discriminate|].
  destruct (N.eqb_spec c0 SLASH) as [->|Hc0].
  - destruct t as [|c1 t'].
    + unfold from_bytes in Efb. rewrite N.eqb_refl in Efb. cbn [andb negb] in Efb.
      inversion Efb; subst url. discriminate.
    + destruct (N.eqb_spec c1 SLASH) as [->|Hc1].
      * rewrite from_bytes_double in Efb.
        unfold ref_authority. cbn [starts_with_slash tl skipn]. rewrite N.eqb_refl. cbn [andb negb].
        destruct (split_once [SLASH] t') as [[a q]|];
          (destruct (parse_authority _) as [[[[u pw] h'] pt]|] eqn:Epa; cbn [bind] in Efb; [|discriminate];
           inversion Efb; subst url; cbn [u_hostname u_port] in *; inversion Hh; subst h';
           eexists _, u, pw, pt; split; [reflexivity|]; split; [exact Epa|exact Hpt]).
      * unfold from_bytes in Efb. rewrite N.eqb_refl in Efb.
        replace (c1 =? SLASH) with false in Efb by (symmetry; now apply N.eqb_neq).
        cbn [andb negb] in Efb. inversion Efb; subst url. discriminate.
  - rewrite from_bytes_noslash in Efb by (now apply N.eqb_neq).
    unfold ref_authority. cbn [starts_with_slash].
    replace (c0 =? SLASH) with false by (symmetry; now apply N.eqb_neq). cbn [andb].
    destruct (split_once (bytes_of_string "://") (c0 :: t)) as [[s r]|].
    + destruct (mem_bytes s DEFAULT_ALLOWED_URL_SCHEMES); cbn [bind] in Efb; [|discriminate].
      destruct (split_once [SLASH] r) as [[a q]|];
        (destruct (parse_authority _) as [[[[u pw] h'] pt]|] eqn:Epa; cbn [bind] in Efb; [|discriminate];
         inversion Efb; subst url; cbn [u_hostname u_port] in *; inversion Hh; subst h';
         eexists _, u, pw, pt; split; [reflexivity|]; split; [exact Epa|exact Hpt]).
    + cbn [bind] in Efb.
      destruct (parse_authority (c0 :: t)) as [[[[u pw] h'] pt]|] eqn:Epa; cbn [bind] in Efb; [|discriminate].
      inversion Efb; subst url; cbn [u_hostname u_port] in *; inversion Hh; subst h'.
      eexists _, u, pw, pt; split; [reflexivity|]; split; [exact Epa|exact Hpt].
Qed.

Lemma no_misroute c raw h p pa hp :
  derive c raw = Ok (Some h, Some p, pa) ->
  ref_hostport_text raw = Some hp -> lenient_ipv6_shape hp = false ->
  h = fst (ref_hostport hp) /\
  p = match snd (ref_hostport hp) with Some n => n | None => default_port c end.
Proof.
  intros Hd Hr Hg. destruct (derive_authority _ _ _ _ _ Hd) as (auth & u & pw & pt & Ha & Hp & ->).
  unfold ref_hostport_text in Hr. rewrite Ha in Hr. cbn [option_map] in Hr. inversion Hr; subst hp.
  rewrite <- (parse_authority_ref _ _ _ _ _ Hp Hg). split; reflexivity.
Qed.

(* ------------------------------------------------------------------ down to the socket call *)
Section ConnectFacts.
  Variable ipv : bytes -> option N.

  Definition dispatch (h : bytes) (p : Z) : sockcall :=
    match ipv h with
    | Some v => if v =? 4 then SockConnect AF_INET h p else SockConnect AF_INET6 h p
    | None => CreateConnection h p
    end.

  Lemma dispatch_addr h p : call_addr (dispatch h p) = (h, p).
  Proof. unfold dispatch. destruct (ipv h) as [v|]; [destruct (v =? 4)|]; reflexivity. Qed.

  Lemma new_socket_connection_dispatch h p : new_socket_connection ipv (h, p) = dispatch (strip_brackets h) p.
  Proof. reflexivity. Qed.

  Definition port_in_range (p : Z) : Prop := (0 < p <= 65535)%Z.

  Lemma connect_upstream_ok h p : h <> [] -> port_in_range p -> text_ h = Ok h ->
    connect_upstream ipv (Some h) (Some p) = Ok (dispatch (strip_brackets h) p).
  Proof.
    intros Hh Hp Ht. unfold port_in_range in Hp. unfold connect_upstream.
    replace (Nat.eqb (length h) 0) with false by (destruct h; [congruence|reflexivity]).
    replace (p =? 0)%Z with false by (symmetry; apply Z.eqb_neq; lia).
    replace (0 <? p)%Z with true by (symmetry; apply Z.ltb_lt; lia).
    replace (p <=? 65535)%Z with true by (symmetry; apply Z.leb_le; lia).
    cbn [negb andb]. rewrite Ht. reflexivity.
  Qed.

  Lemma connect_upstream_out_of_range h p : ~ port_in_range p ->
    exists k, connect_upstream ipv (Some h) (Some p) = Err (HttpProtocolException k).
  Proof.
    intros Hp. unfold port_in_range in Hp. unfold connect_upstream.
    destruct (negb (Nat.eqb (length h) 0) && negb (p =? 0)%Z); [|now exists 3].
    destruct (Z.ltb_spec 0 p); destruct (Z.leb_spec p 65535); cbn [andb]; try (now exists 4). lia.
  Qed.

  Lemma connect_upstream_inv h p call : connect_upstream ipv h p = Ok call ->
    exists h' p', h = Some h' /\ p = Some p' /\ h' <> [] /\ port_in_range p' /\ call = dispatch (strip_brackets h') p'.
  Proof.
    unfold connect_upstream. destruct h as [h'|]; [|discriminate]. destruct p as [p'|]; [|discriminate].
    destruct (Nat.eqb (length h') 0) eqn:El; cbn [negb andb]; [discriminate|].
    destruct (Z.eqb_spec p' 0) as [E|Ne]; cbn [negb]; [discriminate|].
    destruct (Z.ltb_spec 0 p'); destruct (Z.leb_spec p' 65535); cbn [andb]; try discriminate.
    unfold text_. destruct (utf8_valid h'); cbn [bind]; [|discriminate].
    intros H'; inversion H'. exists h', p'. repeat split; try assumption.
    intros ->. discriminate.
  Qed.

  (* valid targets: the call made is the literal/name dispatch on (host without brackets, port) *)
  Lemma route_wf c t h p : wf_target t = true -> expected_addr c t = Some (h, p) ->
    (port_in_range p -> route ipv c (render_target t) = Ok (dispatch h p)) /\
    (~ port_in_range p -> exists k, route ipv c (render_target t) = Err (HttpProtocolException k)).
  Proof.
    intros Hwf He. unfold route. rewrite (derive_roundtrip c t Hwf).
    assert (Hgen : forall hh pp, wf_host hh = true -> host_unbracketed hh = h -> pp = p ->
       (port_in_range p -> connect_upstream ipv (Some (host_text hh)) (Some pp) = Ok (dispatch h p)) /\
       (~ port_in_range p -> exists k, connect_upstream ipv (Some (host_text hh)) (Some pp) = Err (HttpProtocolException k))).
    { intros hh pp Hh <- ->. pose proof (wf_host_facts hh Hh) as F. split.
      - intros Hp. rewrite <- (hf_unbr _ F). apply connect_upstream_ok; [apply F|exact Hp|apply F].
      - apply connect_upstream_out_of_range. }
    destruct t as [pa|ui hh pt pa|hh q]; cbn [expected_addr expected] in *; [discriminate| |].
    - inversion He; subst. cbn [bind]. cbn [wf_target] in Hwf.
      apply andb_true_iff in Hwf as [Hwf _]. apply andb_true_iff in Hwf as [Hwf _]. apply andb_true_iff in Hwf as [_ Hh].
      now apply Hgen.
    - inversion He; subst. cbn [bind]. cbn [wf_target] in Hwf. apply andb_true_iff in Hwf as [Hh _].
      now apply Hgen.
  Qed.

  Lemma route_origin c t : wf_target t = true -> expected_addr c t = None ->
    route ipv c (render_target t) = Err (HttpProtocolException 3).
  Proof.
    intros Hwf He. unfold route. rewrite (derive_roundtrip c t Hwf).
    destruct t; cbn [expected_addr] in He; try discriminate. reflexivity.
  Qed.

  (* every input: a socket call is made only for a non-empty host and a non-zero port, and to exactly
     the derived host (brackets stripped) and port *)
  Lemma route_sound c raw call : route ipv c raw = Ok call ->
    exists h p pa, derive c raw = Ok (Some h, Some p, pa) /\ h <> [] /\ port_in_range p /\
                   call = dispatch (strip_brackets h) p /\ call_addr call = (strip_brackets h, p).
  Proof.
    unfold route. destruct (derive c raw) as [[[h p] pa]|]; cbn [bind]; [|discriminate].
    intros H. apply connect_upstream_inv in H as (h' & p' & -> & -> & Hh & Hp & ->).
    exists h', p', pa. split; [reflexivity|]. split; [exact Hh|]. split; [exact Hp|]. split; [reflexivity|apply dispatch_addr].
  Qed.
End ConnectFacts.

(* ------------------------------------------------------------------ the link to HttpParser's request line *)
From PM Require Import Http.Chunk Http.Parser.

Lemma request_line_parts m target ver : ~ In SP m -> ~ In SP target ->
  splitn [SP] 2 (m ++ SP :: target ++ SP :: ver) = [m; target; ver].
Proof.
  intros Hm Ht.
  rewrite (splitn_S_some _ _ _ _ _ (split_once_byte_notin _ _ _ Hm)).
  rewrite (splitn_S_some _ _ _ _ _ (split_once_byte_notin _ _ _ Ht)). reflexivity.
Qed.

(* HttpParser._process_line on "<method> SP <target> SP <version> CRLF": host/port/path are [derive] of the target *)
Lemma process_line_derive p m target ver rest :
  is_request (ty p) = true -> is_https_tunnel p = false ->
  ~ In SP m -> ~ In SP target -> ~ In CR (m ++ SP :: target ++ SP :: ver) ->
  match derive (bytes_eqb m CONNECT) target with
  | Ok (h, pt, pa) =>
      exists more p', process_line DEFAULT_ALLOWED_URL_SCHEMES p ((m ++ SP :: target ++ SP :: ver) ++ CRLF ++ rest)
                      = Ok (more, rest, p') /\ host p' = h /\ port p' = pt /\ path p' = pa
  | Err e => process_line DEFAULT_ALLOWED_URL_SCHEMES p ((m ++ SP :: target ++ SP :: ver) ++ CRLF ++ rest) = Err e
  end.
Proof.
  intros Hreq Htun Hm Ht Hcr. unfold process_line.
  change CRLF with (CR :: [LF]). rewrite (split_once_first_notin _ _ _ _ Hcr).
  rewrite (request_line_parts _ _ _ Hm Ht). rewrite Hreq, Htun, orb_false_r.
  unfold derive. destruct (from_bytes DEFAULT_ALLOWED_URL_SCHEMES target) as [u|e]; cbn [bind]; [|reflexivity].
  destruct (line_attributes (bytes_eqb m CONNECT) u) as [[h pt] pa].
  eexists _, _. split; [reflexivity|]. cbn [set_line host port path]. auto.
Qed.

(* ------------------------------------------------------------------ the leniency that mis-routes *)
(* an accepted target whose derived host contains a byte the target does not contain is outside the grammar *)
Lemma accepted_not_in_grammar c raw h p pa x :
  derive c raw = Ok (Some h, p, pa) -> In x h -> ~ In x raw ->
  forall t, wf_target t = true -> render_target t <> raw.
Proof.
  intros Hd Hx Hn t Hwf E. subst raw. rewrite (derive_roundtrip c t Hwf) in Hd.
  apply Hn. destruct t as [q|ui hh pt q|hh q]; cbn [expected render_target] in *; [discriminate| |];
    inversion Hd; subst; rewrite !in_app_iff; auto.
Qed.

Definition W_UNBRACKETED : bytes := bytes_of_string "http://::1/x".
Definition W_UNBRACKETED_CONNECT : bytes := bytes_of_string ":::443".

Lemma no_lbracket_in l : forallb (fun x => negb (x =? LBRACKET)) l = true -> ~ In LBRACKET l.
Proof. intros H. apply (forallb_notin _ _ _ H). reflexivity. Qed.

Lemma unbracketed_ipv6_misroute ipv :
  (forall t, wf_target t = true -> render_target t <> W_UNBRACKETED) /\
  ref_hostport_text W_UNBRACKETED = Some (bytes_of_string "::1") /\
  lenient_ipv6_shape (bytes_of_string "::1") = true /\
  derive false W_UNBRACKETED = Ok (Some (bytes_of_string "[::]"), Some 1%Z, Some (bytes_of_string "/x")) /\
  route ipv false W_UNBRACKETED = Ok (dispatch ipv (bytes_of_string "::") 1%Z).
Proof.
  assert (Hd : derive false W_UNBRACKETED = Ok (Some (bytes_of_string "[::]"), Some 1%Z, Some (bytes_of_string "/x")))
    by (vm_compute; reflexivity).
  split; [|split; [|split; [|split]]].
  - apply (accepted_not_in_grammar false _ _ _ _ LBRACKET Hd); [now left|].
    apply no_lbracket_in. vm_compute. reflexivity.
  - vm_compute. reflexivity.
  - vm_compute. reflexivity.
  - exact Hd.
  - unfold route. rewrite Hd. cbn [bind].
    rewrite connect_upstream_ok; [reflexivity|discriminate|unfold port_in_range; lia|vm_compute; reflexivity].
Qed.

Lemma unbracketed_ipv6_misroute_connect ipv :
  (forall t, wf_target t = true -> render_target t <> W_UNBRACKETED_CONNECT) /\
  route ipv true W_UNBRACKETED_CONNECT = Ok (dispatch ipv (bytes_of_string "::") 443%Z).
Proof.
  assert (Hd : derive true W_UNBRACKETED_CONNECT = Ok (Some (bytes_of_string "[::]"), Some 443%Z, None))
    by (vm_compute; reflexivity).
  split.
  - apply (accepted_not_in_grammar true _ _ _ _ LBRACKET Hd); [now left|].
    apply no_lbracket_in. vm_compute. reflexivity.
  - unfold route. rewrite Hd. cbn [bind].
    rewrite connect_upstream_ok; [reflexivity|discriminate|unfold port_in_range; lia|vm_compute; reflexivity].
Qed.

(* ------------------------------------------------------------------ numeric ports 0..65535 as the grammar's digit text *)
Fixpoint sweep (fuel : nat) (n : N) (f : N -> bool) : bool :=
  match fuel with O => true | S k => f n && sweep k (n + 1) f end.

Lemma sweep_forall f fuel : forall s, sweep fuel s f = true -> forall n, s <= n < s + N.of_nat fuel -> f n = true.
Proof.
  induction fuel as [|k IH]; intros s H n Hn; [lia|].
  cbn [sweep] in H. apply andb_true_iff in H as [H0 H1].
  destruct (N.eq_dec n s) as [->|Ne]; [exact H0|].
  apply (IH (s + 1) H1). lia.
Qed.

Definition port_ok (n : N) : bool := wf_port (dec_of_N n) && (digits_val (dec_of_N n) =? n).

Lemma port_sweep : sweep (N.to_nat 65536) 0 port_ok = true.
Proof. vm_compute. reflexivity. Qed.

(* str(n).encode() for a port number is a well-formed port text with value n (finite domain: the bound is in the statement) *)
Lemma dec_port n : n < 65536 -> wf_port (dec_of_N n) = true /\ port_value (dec_of_N n) = Z.of_N n.
Proof.
  intros Hn. pose proof (sweep_forall port_ok _ 0 port_sweep n) as H.
  rewrite N2Nat.id in H. specialize (H ltac:(lia)). unfold port_ok in H.
  apply andb_true_iff in H as [H1 H2]. apply N.eqb_eq in H2. split; [exact H1|].
  unfold port_value. now rewrite H2.
Qed.

(* ------------------------------------------------------------------ statements as used in Props/C14.v *)
Lemma connect_addr : forall ipv is_connect t,
  wf_target t = true ->
  match expected_addr is_connect t with
  | Some (h, p) =>
      (port_in_range p -> route ipv is_connect (render_target t) = Ok (dispatch ipv h p) /\
                          call_addr (dispatch ipv h p) = (h, p)) /\
      (~ port_in_range p -> exists k, route ipv is_connect (render_target t) = Err (HttpProtocolException k))
  | None => route ipv is_connect (render_target t) = Err (HttpProtocolException 3)
  end.
Proof.
  intros ipv c t Hwf. destruct (expected_addr c t) as [[h p]|] eqn:E.
  - destruct (route_wf ipv c t h p Hwf E) as [H1 H2]. split; [|exact H2].
    intros Hp. split; [now apply H1|apply dispatch_addr].
  - now apply route_origin.
Qed.

Lemma lenient_refuted : forall ipv,
  exists raw call,
    (forall t, wf_target t = true -> render_target t <> raw) /\
    route ipv false raw = Ok call /\
    call_addr call = (bytes_of_string "::", 1%Z) /\
    ref_hostport_text raw = Some (bytes_of_string "::1") /\
    lenient_ipv6_shape (bytes_of_string "::1") = true.
Proof.
  intros ipv. destruct (unbracketed_ipv6_misroute ipv) as (H1 & H2 & H3 & _ & H5).
  exists W_UNBRACKETED, (dispatch ipv (bytes_of_string "::") 1%Z).
  repeat split; try assumption. apply dispatch_addr.
Qed.

Lemma lenient_connect_refuted : forall ipv,
  exists raw call,
    (forall t, wf_target t = true -> render_target t <> raw) /\
    route ipv true raw = Ok call /\ call_addr call = (bytes_of_string "::", 443%Z).
Proof.
  intros ipv. destruct (unbracketed_ipv6_misroute_connect ipv) as (H1 & H2).
  exists W_UNBRACKETED_CONNECT, (dispatch ipv (bytes_of_string "::") 443%Z).
  repeat split; try assumption. apply dispatch_addr.
Qed.

(* the guard of [no_misroute] is needed also for bracketed texts with exactly two colons: the host keeps a
   trailing colon (finding C14-two-colon-trailing-colon) *)
Definition W_TWO_COLON : bytes := bytes_of_string "http://[a:b]:80/".
Lemma two_colon_refuted : forall ipv,
  exists raw hp h p pa,
    ref_hostport_text raw = Some hp /\ lenient_ipv6_shape hp = true /\
    derive false raw = Ok (Some h, Some p, pa) /\
    ref_hostport hp = (bytes_of_string "[a:b]", Some 80%Z) /\ h = bytes_of_string "[a:b]:" /\
    route ipv false raw = Ok (dispatch ipv h p).
Proof.
  intros ipv.
  exists W_TWO_COLON, (bytes_of_string "[a:b]:80"), (bytes_of_string "[a:b]:"), 80%Z, (Some [SLASH]).
  assert (Hd : derive false W_TWO_COLON = Ok (Some (bytes_of_string "[a:b]:"), Some 80%Z, Some [SLASH]))
    by (vm_compute; reflexivity).
  split; [vm_compute; reflexivity|]. split; [vm_compute; reflexivity|]. split; [exact Hd|].
  split; [vm_compute; reflexivity|]. split; [reflexivity|].
  unfold route. rewrite Hd. cbn [bind].
  rewrite connect_upstream_ok; [reflexivity|discriminate|unfold port_in_range; lia|vm_compute; reflexivity].
Qed.
