(* Correspondence relations for the HTTP codec models (Url, Chunk, Parser): each case carries the
   input and what the implementation returned; check_case evaluates the model and compares. *)
From PM Require Import Lib.Bytes Lib.PyStr Http.Url Http.Chunk Http.Parser.
From Coq Require Import ZArith.

Inductive obs (A : Type) := OkObs (a : A) | ErrObs (idx : N) (code : N).
Arguments OkObs {A} a.
Arguments ErrObs {A} idx code.

Definition mk_url sch u pw h pt r : url :=
  {| u_scheme := sch; u_username := u; u_password := pw; u_hostname := h; u_port := pt; u_remainder := r |}.
Definition mk_chunkp (st : N) body ch sz : chunkp :=
  {| cst := if st =? 1 then WAITING_FOR_SIZE else if st =? 2 then WAITING_FOR_DATA
            else if st =? 3 then CCOMPLETE else WAITING_FOR_TRAILER;
     cbody := body; cchunk := ch; csize := sz |}.
Definition mk_parser t st h pt pa m cd rs ver tot buf hd bd ck chunked expected tunnel : parser :=
  {| ty := t; state := st; host := h; port := pt; path := pa; method := m; code := cd; reason := rs;
     version := ver; total_size := tot; buffer := buf; headers := hd; body := bd; chunk := ck;
     purl := None; is_chunked_encoded := chunked; content_expected := expected; is_https_tunnel := tunnel |}.

(* run pieces, reporting the index of the piece that raised; the remainders returned by the
   successive ChunkParser.parse calls are concatenated (empty until the stream completes) *)
Fixpoint chunk_pieces (i : N) (c : chunkp) (last : bytes) (pieces : list bytes) : obs (chunkp * bytes) :=
  match pieces with
  | [] => OkObs (c, last)
  | x :: t => match chunk_parse c x with
              | Ok (r, c') => chunk_pieces (i + 1) c' (last ++ r) t
              | Err e => ErrObs i (exn_code e)
              end
  end.
Fixpoint parser_pieces (i : N) (p : parser) (pieces : list bytes) : obs parser :=
  match pieces with
  | [] => OkObs p
  | x :: t => match parse p x with
              | Ok p' => parser_pieces (i + 1) p' t
              | Err e => ErrObs i (exn_code e)
              end
  end.

Definition obs_eqb {A} (eqb : A -> A -> bool) (x y : obs A) : bool :=
  match x, y with
  | OkObs a, OkObs c => eqb a c
  | ErrObs i e, ErrObs j f => (i =? j) && (e =? f)
  | _, _ => false
  end.

Inductive case :=
| CUrl (raw : bytes) (expected : obs url)
| CChunk (pieces : list bytes) (expected : obs (chunkp * bytes))
| CParse (t : ptype) (pieces : list bytes) (expected : obs parser)
| CToChunks (raw : bytes) (k : N) (expected : obs bytes).

Definition check_case (c : case) : bool :=
  match c with
  | CUrl raw e =>
      obs_eqb url_eqb (match from_bytes DEFAULT_ALLOWED_URL_SCHEMES raw with
                       | Ok u => OkObs u | Err x => ErrObs 0 (exn_code x) end) e
  | CChunk pieces e =>
      obs_eqb (fun x y => chunkp_eqb (fst x) (fst y) && bytes_eqb (snd x) (snd y))
              (chunk_pieces 0 new_chunkp [] pieces) e
  | CParse t pieces e => obs_eqb parser_obs_eqb (parser_pieces 0 (new_parser t) pieces) e
  | CToChunks raw k e =>
      obs_eqb bytes_eqb (match to_chunks raw k with Ok x => OkObs x | Err x => ErrObs 0 (exn_code x) end) e
  end.

(* model outputs for replay files *)
Definition run_case (c : case) :=
  match c with
  | CParse t pieces _ => Some (parser_pieces 0 (new_parser t) pieces)
  | _ => None
  end.
