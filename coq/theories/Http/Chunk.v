(* Model of proxy/http/parser/chunk.py (ChunkParser) after the repaired Python, function by
   function.  Definitions only. *)
From PM Require Import Lib.Bytes Lib.PyStr.
From Coq Require Import ZArith.

Inductive cstate := WAITING_FOR_SIZE | WAITING_FOR_DATA | CCOMPLETE | WAITING_FOR_TRAILER.
Definition cstate_code (s : cstate) : N :=
  match s with WAITING_FOR_SIZE => 1 | WAITING_FOR_DATA => 2 | CCOMPLETE => 3 | WAITING_FOR_TRAILER => 4 end.
Definition cstate_eqb (x y : cstate) : bool := cstate_code x =? cstate_code y.

Record chunkp := {
  cst : cstate;
  cbody : bytes;          (* parsed chunks *)
  cchunk : bytes;         (* partial chunk / partial line received *)
  csize : option Z }.     (* expected size of the chunk being received *)

Definition new_chunkp : chunkp :=
  {| cst := WAITING_FOR_SIZE; cbody := []; cchunk := []; csize := None |}.

Definition SEMI : N := 59.

(* line.split(b';', 1)[0] *)
Definition before_semi (line : bytes) : bytes :=
  match split_once [SEMI] line with Some (a, _) => a | None => line end.

(* ChunkParser.process: returns (more, raw', self') *)
Definition chunk_process (c : chunkp) (raw : bytes) : result (bool * bytes * chunkp) :=
  match cst c with
  | WAITING_FOR_SIZE =>
      let raw := cchunk c ++ raw in
      match split_once CRLF raw with
      | None =>
          Ok (false, [], {| cst := cst c; cbody := cbody c; cchunk := raw; csize := csize c |})
      | Some (line, rest) =>
          if match strip line with [] => true | _ => false end then
            (* CRLF terminating the previous chunk data: skipped *)
            Ok (negb (Nat.eqb (length rest) 0), rest,
                {| cst := cst c; cbody := cbody c; cchunk := []; csize := csize c |})
          else
            do sz <- int16 (before_semi line);
            Ok (negb (Nat.eqb (length rest) 0), rest,
                {| cst := if (0 <? sz)%Z then WAITING_FOR_DATA else WAITING_FOR_TRAILER;
                   cbody := cbody c; cchunk := []; csize := Some sz |})
      end
  | WAITING_FOR_DATA =>
      match csize c with
      | None => Err AssertionError
      | Some sz =>
          let remaining := (sz - Z.of_nat (length (cchunk c)))%Z in
          let ch := cchunk c ++ py_slice_to remaining raw in
          let rest := py_slice_from remaining raw in
          if (Z.of_nat (length ch) =? sz)%Z then
            Ok (negb (Nat.eqb (length rest) 0), rest,
                {| cst := WAITING_FOR_SIZE; cbody := cbody c ++ ch; cchunk := []; csize := None |})
          else
            Ok (negb (Nat.eqb (length rest) 0), rest,
                {| cst := cst c; cbody := cbody c; cchunk := ch; csize := csize c |})
      end
  | WAITING_FOR_TRAILER =>
      let raw := cchunk c ++ raw in
      match split_once CRLF raw with
      | None =>
          Ok (false, [], {| cst := cst c; cbody := cbody c; cchunk := raw; csize := csize c |})
      | Some (line, rest) =>
          match line with
          | [] => Ok (negb (Nat.eqb (length rest) 0), rest,
                      {| cst := CCOMPLETE; cbody := cbody c; cchunk := []; csize := None |})
          | _ => Ok (negb (Nat.eqb (length rest) 0), rest,
                     {| cst := cst c; cbody := cbody c; cchunk := []; csize := csize c |})
          end
      end
  | CCOMPLETE => Ok (negb (Nat.eqb (length raw) 0), raw, c)
  end.

(* while more and self.state != COMPLETE: more, raw = self.process(raw) *)
Fixpoint chunk_loop (fuel : nat) (more : bool) (c : chunkp) (raw : bytes) : result (bytes * chunkp) :=
  match fuel with
  | O => Err OutOfFuel
  | S f =>
      if more && negb (cstate_eqb (cst c) CCOMPLETE) then
        do '(more', raw', c') <- chunk_process c raw;
        chunk_loop f more' c' raw'
      else Ok (raw, c)
  end.

(* ChunkParser.parse: returns the unconsumed remainder and the new self *)
Definition chunk_fuel (c : chunkp) (raw : bytes) : nat := 2 + length (cchunk c) + length raw.
Definition chunk_parse (c : chunkp) (raw : bytes) : result (bytes * chunkp) :=
  chunk_loop (chunk_fuel c raw) (negb (Nat.eqb (length raw) 0)) c raw.

(* ChunkParser.to_chunks(raw, chunk_size) for chunk_size > 0 *)
Fixpoint to_chunks_aux (fuel : nat) (k : nat) (raw : bytes) : bytes :=
  match fuel with
  | O => []
  | S f =>
      match raw with
      | [] => []
      | _ => let ch := firstn k raw in
             hex_of_N (len ch) ++ CRLF ++ ch ++ CRLF ++ to_chunks_aux f k (skipn k raw)
      end
  end.
Definition to_chunks (raw : bytes) (k : N) : result bytes :=
  if k =? 0 then Err ValueError
  else Ok (to_chunks_aux (length raw) (N.to_nat k) raw ++ [48] ++ CRLF ++ CRLF).

Definition chunkp_eqb (x y : chunkp) : bool :=
  cstate_eqb (cst x) (cst y) && bytes_eqb (cbody x) (cbody y) && bytes_eqb (cchunk x) (cchunk y) &&
  option_eqb Z.eqb (csize x) (csize y).
