(* C15, the remaining arguments of HttpParser.build: disable_headers, for_proxy, host
   (model: Http/Builders.v [build], [rebuilt_request_headers]; nothing of the model is redefined here).
   The specification side (minus_headers, override_host, rebuilt_hs, readded_D, build_target, proxy_target,
   tunnel_target, the call sites) is defined in Http/BuildArgs.v (definitions only); here: hypotheses-level
   definitions (framing_after, te_guard, path_guard, value_ok, ...) and all proofs.
   Theorems: byte-exact output for all arguments (build_args_bytes), what the output parses back to
   (rebuild_args_state and its specialisations), the call sites, refutations of the unguarded forms. *)
From PM Require Import Lib.Bytes Lib.BytesFacts Lib.PyStr Lib.PyStrFacts Lib.PyStrFacts2 Http.Url Http.UrlSpec Http.UrlFacts.
From PM Require Import Http.Chunk Http.ChunkFacts Http.Parser Http.ParserFacts Http.Builders Http.BuildersFacts Http.Grammar
  Http.CodecFacts Http.BuildArgs.
From Coq Require Import ZArith.
From Coq Require Import Lia.

(* ===================================================================================== *)
(* specification of the three arguments                                                   *)

(* what build_http_request does to the map it is handed: `if body and not has_transfer_encoding` *)
Definition with_length (bd : option bytes) (h : bdict) : bdict :=
  cond_put (truthy bd && negb (has_key_ci TRANSFER_ENCODING h)) H_CONTENT_LENGTH (dec_of_N (len (or_empty bd))) h.

Lemma build_unfold ua p D fp ho :
  build ua p D fp ho =
  if negb (truthy (method p) && truthy (version p) && is_request (ty p)) then Err AssertionError else
  do body <- get_body_or_chunks p;
  do target <- build_target p fp;
  Ok (build_http_request ua (or_empty (method p)) target (or_empty (version p)) None
        (Some (match headers p with
               | Some ((_ :: _) as h) => rebuilt_request_headers D ho h []
               | _ => []
               end)) body false true).
Proof. reflexivity. Qed.

(* ===================================================================================== *)
(* lower is idempotent (the dict keys are already lower-case when build() lowers them again) *)
Lemma lower_byte_idem x : lower_byte (lower_byte x) = lower_byte x.
Proof.
  unfold lower_byte, is_upper.
  destruct ((65 <=? x) && (x <=? 90)) eqn:E; [|now rewrite E].
  apply andb_true_iff in E as [E1 E2]. apply N.leb_le in E1, E2.
  replace ((65 <=? x + 32) && (x + 32 <=? 90)) with false; [reflexivity|].
  symmetry. apply andb_false_iff. right. apply N.leb_gt. lia.
Qed.
Lemma lower_idem l : lower (lower l) = lower l.
Proof. unfold lower. rewrite map_map. apply map_ext. intros x. apply lower_byte_idem. Qed.

(* ===================================================================================== *)
(* the dict comprehension of build() computes rebuilt_hs                                  *)
Lemma rebuilt_request_headers_args D ho hs : forall acc, NoDup (map fst acc ++ map fst hs) ->
  rebuilt_request_headers D ho (map lift1 hs) acc = acc ++ rebuilt_hs D ho hs.
Proof.
  unfold rebuilt_hs, minus_headers.
  induction hs as [|[k v] t IH]; intros acc H; cbn [map rebuilt_request_headers lift1 fst snd filter].
  - destruct ho; cbn [override_host map]; now rewrite app_nil_r.
  - rewrite lower_idem. unfold disabled at 1. cbn [fst].
    assert (Ht : NoDup (map fst acc ++ map fst t)) by (cbn [map fst] in H; now apply NoDup_remove_1 in H).
    destruct (mem_bytes (lower k) D) eqn:M; cbn [negb].
    + now apply IH.
    + assert (Hn : ~ In k (dict_keys acc)).
      { unfold dict_keys. cbn [map fst] in H. intros C. apply NoDup_remove_2 in H. apply H. apply in_or_app. now left. }
      rewrite dict_set_new by exact Hn. rewrite IH.
      * rewrite <- app_assoc. f_equal. destruct ho as [hv|]; cbn [override_host map app]; [|reflexivity].
        unfold override1 at 2. cbn [fst snd]. destruct (bytes_eqb (lower k) L_HOST); reflexivity.
      * rewrite map_app. cbn [map fst]. rewrite <- app_assoc. exact H.
Qed.

Lemma rebuilt_headers_args p hs D ho : headers p = lift_headers hs -> NoDup (lkeys hs) ->
  match headers p with
  | Some ((_ :: _) as h) => rebuilt_request_headers D ho h []
  | _ => []
  end = rebuilt_hs D ho hs.
Proof.
  intros E Hn. rewrite E. unfold lift_headers. destruct hs as [|kv t].
  - destruct ho; reflexivity.
  - fold (map lift1 (kv :: t)). cbn [map]. fold (map lift1 t).
    change (lift1 kv :: map lift1 t) with (map lift1 (kv :: t)).
    apply (rebuilt_request_headers_args D ho (kv :: t) []). cbn [map app]. exact (NoDup_names (kv :: t) Hn).
Qed.

(* ---- elementary facts about the specification maps ---- *)
Lemma lkeys_override ho hs : lkeys (override_host ho hs) = lkeys hs.
Proof.
  destruct ho as [hv|]; [|reflexivity]. unfold override_host, lkeys. rewrite map_map. apply map_ext.
  intros [k v]. unfold override1. cbn [fst]. destruct (bytes_eqb (lower k) L_HOST); reflexivity.
Qed.

Lemma names_override ho hs : map fst (override_host ho hs) = map fst hs.
Proof.
  destruct ho as [hv|]; [|reflexivity]. unfold override_host. rewrite map_map. apply map_ext.
  intros [k v]. unfold override1. cbn [fst]. destruct (bytes_eqb (lower k) L_HOST); reflexivity.
Qed.

Lemma NoDup_filter {A} (f : A -> bool) l : NoDup l -> NoDup (filter f l).
Proof.
  induction 1 as [|x l Hn Hd IH]; cbn [filter]; [constructor|].
  destruct (f x); [|exact IH]. constructor; [|exact IH]. intros C. apply filter_In in C. now apply Hn.
Qed.

Lemma NoDup_lkeys_minus D hs : NoDup (lkeys hs) -> NoDup (lkeys (minus_headers D hs)).
Proof.
  unfold minus_headers. induction hs as [|kv t IH]; intros H; cbn [filter]; [constructor|].
  cbn [lkeys map] in H. fold (lkeys t) in H. inversion H as [|? ? Hn Hd]; subst.
  destruct (negb (disabled D kv)); [|now apply IH].
  cbn [lkeys map]. fold (lkeys (filter (fun kv0 => negb (disabled D kv0)) t)). constructor; [|now apply IH].
  intros C. apply Hn. unfold lkeys in *. apply in_map_iff in C as (x & E & Hi). apply filter_In in Hi as [Hi _].
  apply in_map_iff. exists x. now split.
Qed.

(* a value the parser reads back unchanged (the condition on the host= argument) *)
Definition value_ok (v : bytes) : Prop := strip v = v /\ ~ In CR v.

Lemma wfhP_rebuilt D ho hs : wfhP hs -> match ho with Some hv => value_ok hv | None => True end ->
  wfhP (rebuilt_hs D ho hs).
Proof.
  intros [Hok Hnd] Hv. unfold rebuilt_hs. split.
  - assert (Hm : Forall hdr_ok (minus_headers D hs)).
    { unfold minus_headers. apply Forall_forall. intros x Hi. apply filter_In in Hi as [Hi _].
      rewrite Forall_forall in Hok. now apply Hok. }
    destruct ho as [hv|]; [|exact Hm]. cbn [override_host]. apply Forall_forall. intros x Hi.
    apply in_map_iff in Hi as ([k v] & E & Hi). rewrite Forall_forall in Hm. specialize (Hm _ Hi).
    subst x. unfold override1. cbn [fst]. destruct (bytes_eqb (lower k) L_HOST); [|exact Hm].
    unfold hdr_ok in *. cbn [fst snd] in *. destruct Hv as [V1 V2]. tauto.
  - rewrite lkeys_override. now apply NoDup_lkeys_minus.
Qed.

(* looking a name up in the specification maps *)
Lemma get_ci_minus ln D hs : (mem_bytes ln D = true -> get_ci ln hs = None) ->
  get_ci ln (minus_headers D hs) = get_ci ln hs.
Proof.
  unfold minus_headers. induction hs as [|[k v] t IH]; intros H; [reflexivity|]. cbn [filter].
  rewrite get_ci_cons in *. unfold disabled at 1. cbn [fst].
  destruct (bytes_eqb_spec (lower k) ln) as [E|E].
  - subst ln. destruct (mem_bytes (lower k) D); [now specialize (H eq_refl)|].
    cbn [negb]. rewrite get_ci_cons, bytes_eqb_refl. reflexivity.
  - destruct (mem_bytes (lower k) D); cbn [negb].
    + now apply IH.
    + rewrite get_ci_cons. destruct (bytes_eqb_spec (lower k) ln); [contradiction|]. now apply IH.
Qed.

Lemma get_ci_minus_disabled ln D hs : mem_bytes ln D = true -> get_ci ln (minus_headers D hs) = None.
Proof.
  intros M. apply get_ci_none. intros C. unfold lkeys in C. apply in_map_iff in C as ([k v] & E & Hi).
  unfold minus_headers in Hi. apply filter_In in Hi as [_ Hf]. unfold disabled in Hf. cbn [fst] in *.
  rewrite E, M in Hf. discriminate.
Qed.

Lemma get_ci_override ln ho hs : ln <> L_HOST -> get_ci ln (override_host ho hs) = get_ci ln hs.
Proof.
  intros Hne. destruct ho as [hv|]; [|reflexivity]. cbn [override_host].
  induction hs as [|[k v] t IH]; [reflexivity|]. cbn [map]. unfold override1 at 1. cbn [fst].
  destruct (bytes_eqb_spec (lower k) L_HOST) as [E|E]; rewrite !get_ci_cons; cbn [fst];
    destruct (bytes_eqb_spec (lower k) ln) as [E2|E2]; try congruence; exact IH.
Qed.

Lemma get_ci_override_host hv hs :
  get_ci L_HOST (override_host (Some hv) hs) = match get_ci L_HOST hs with Some _ => Some hv | None => None end.
Proof.
  cbn [override_host]. induction hs as [|[k v] t IH]; [reflexivity|]. cbn [map]. unfold override1 at 1. cbn [fst].
  destruct (bytes_eqb_spec (lower k) L_HOST) as [E|E]; rewrite !get_ci_cons; cbn [fst].
  - rewrite E, bytes_eqb_refl. reflexivity.
  - destruct (bytes_eqb_spec (lower k) L_HOST); [contradiction|]. exact IH.
Qed.

Lemma get_ci_rebuilt ln D ho hs : ln <> L_HOST -> (mem_bytes ln D = true -> get_ci ln hs = None) ->
  get_ci ln (rebuilt_hs D ho hs) = get_ci ln hs.
Proof. intros H1 H2. unfold rebuilt_hs. rewrite get_ci_override by exact H1. now apply get_ci_minus. Qed.

(* ===================================================================================== *)
(* byte-exact output, for ALL arguments                                                   *)

Lemma request_bytes ua m tgt v h bd :
  build_http_request ua m tgt v None (Some h) bd false true =
  m ++ SP :: tgt ++ SP :: v ++ CRLF ++ header_lines (with_length bd h) ++ CRLF ++ or_empty bd.
Proof.
  set (a := {| ra_method := m; ra_url := tgt; ra_version := v; ra_ctype := None; ra_headers := Some h;
               ra_body := bd; ra_close := false; ra_noua := true |}).
  pose proof (request_headers_spec ua a) as S.
  pose proof (expected_request_headers_puts ua a) as Pp. cbv zeta in Pp.
  unfold a in S, Pp. cbn [ra_method ra_url ra_version ra_ctype ra_headers ra_body ra_close ra_noua arg_headers] in S, Pp.
  unfold build_http_request, build_http_pkt. rewrite S, Pp. rewrite andb_false_r. cbn [cond_put].
  rewrite join_sp3, wire_or_empty. unfold with_length.
  repeat (rewrite <- app_assoc || rewrite <- app_comm_cons). reflexivity.
Qed.

(* build(disable_headers=D, for_proxy=fp, host=ho), byte for byte: request line with the computed target,
   one line per header of [with_length bd (rebuilt_hs D ho hs)], blank line, the (chunk-encoded) body.
   Only the target depends on fp; only the header lines depend on D and ho. *)
Theorem build_args_bytes ua p D fp ho m v hs bd tgt :
  ty p = REQUEST_PARSER -> method p = Some m -> m <> [] -> version p = Some v -> v <> [] ->
  headers p = lift_headers hs -> NoDup (lkeys hs) ->
  get_body_or_chunks p = Ok bd -> build_target p fp = Ok tgt ->
  build ua p D fp ho =
  Ok (m ++ SP :: tgt ++ SP :: v ++ CRLF ++ header_lines (with_length bd (rebuilt_hs D ho hs)) ++ CRLF ++ or_empty bd).
Proof.
  intros Ht Hm Hm1 Hv Hv1 Hh Hn Hb Htg.
  destruct (truthy_some _ _ Hm Hm1) as [Tm Em]. destruct (truthy_some _ _ Hv Hv1) as [Tv Ev].
  rewrite build_unfold, Tm, Tv, Ht, Hb, Htg. cbn [is_request andb negb bind].
  rewrite (rebuilt_headers_args p hs D ho Hh Hn), Em, Ev. now rewrite request_bytes.
Qed.

(* ===================================================================================== *)
(* framing of what is handed to the builder                                               *)

(* the condition on the map AFTER disabling under which the rebuilt message is framed like p *)
Definition framing_after (p : parser) (h : bdict) : Prop :=
  match get_ci TRANSFER_ENCODING h with
  | Some te => lower te = CHUNKED /\ is_chunked_encoded p = true /\ get_ci CONTENT_LENGTH h = None /\
               body p <> None
  | None => is_chunked_encoded p = false /\
            match get_ci CONTENT_LENGTH h with
            | Some cl => if truthy (body p)
                         then cl = dec_of_N (len (bodyb p)) /\ len_ok (bodyb p) = true
                         else int10 cl = Ok 0%Z
            | None => truthy (body p) = true -> len_ok (bodyb p) = true
            end
  end.

(* the header build_http_request appends: a non-empty un-chunked body is always announced *)
Definition readded (p : parser) (h : bdict) : bdict :=
  if truthy (body p) && negb (is_chunked_encoded p) && negb (has_key_ci CONTENT_LENGTH h)
  then [(H_CONTENT_LENGTH, dec_of_N (len (bodyb p)))] else [].

Lemma bodyb_falsy p : truthy (body p) = false -> bodyb p = [].
Proof. unfold bodyb. destruct (body p) as [[|x t]|]; try discriminate; reflexivity. Qed.

Lemma rebuilt_framing_gen p h : framing_after p h ->
  exists bd, get_body_or_chunks p = Ok bd /\
    with_length bd h = h ++ readded p h /\
    framing_rel (h ++ readded p h) (or_empty bd) (bodyb p) /\
    get_ci TRANSFER_ENCODING (h ++ readded p h) = get_ci TRANSFER_ENCODING h.
Proof.
  unfold framing_after, get_body_or_chunks, framing_rel, with_length, readded.
  rewrite (has_key_ci_get TRANSFER_ENCODING h), (has_key_ci_get CONTENT_LENGTH h).
  destruct (get_ci TRANSFER_ENCODING h) as [te|] eqn:TE.
  - intros (Hte & Hc & Hcl & Hb). rewrite Hc. destruct (body p) as [b|] eqn:B; [|congruence].
    assert (Hk : 0 < DEFAULT_BUFFER_SIZE) by reflexivity.
    rewrite (to_chunks_render b _ Hk). cbn [bind negb]. eexists. split; [reflexivity|].
    rewrite !andb_false_r. cbn [andb cond_put]. rewrite app_nil_r, TE, Hcl.
    split; [reflexivity|]. split; [|reflexivity]. split; [exact Hte|]. split; [reflexivity|].
    exists (chunks_of b DEFAULT_BUFFER_SIZE). cbn [or_empty]. repeat split.
    + now apply chunks_of_wf.
    + unfold bodyb. rewrite B. symmetry. now apply chunks_of_dechunk.
  - intros (Hc & Hcl). rewrite Hc. cbn [negb].
    assert (E : match body p with Some b => Ok (Some b) | None => Ok None end = Ok (body p)) by (destruct (body p); reflexivity).
    rewrite E. exists (body p). split; [reflexivity|]. rewrite !andb_true_r.
    assert (Eb : or_empty (body p) = bodyb p) by reflexivity. rewrite Eb.
    destruct (get_ci CONTENT_LENGTH h) as [cl|] eqn:CL; cbn [negb].
    + rewrite andb_false_r, app_nil_r, TE, CL. split; [|split; [|reflexivity]].
      * destruct (truthy (body p)) eqn:T; cbn [cond_put]; [|reflexivity].
        destruct Hcl as [-> _]. now apply put_ci_same.
      * destruct (truthy (body p)) eqn:T.
        -- destruct Hcl as [-> Hl]. split; [|reflexivity].
           rewrite int10_dec_of_N by (now apply Nat.leb_le). now rewrite len_Z.
        -- rewrite (bodyb_falsy p T). split; [exact Hcl|reflexivity].
    + rewrite andb_true_r. destruct (truthy (body p)) eqn:T; cbn [cond_put].
      * specialize (Hcl eq_refl).
        assert (Hnew : ~ In (lower H_CONTENT_LENGTH) (lkeys h)) by (now apply get_ci_none).
        rewrite (put_ci_new _ _ _ Hnew). split; [reflexivity|].
        rewrite !get_ci_app, TE, CL.
        change (get_ci TRANSFER_ENCODING [(H_CONTENT_LENGTH, dec_of_N (len (bodyb p)))]) with (@None bytes).
        change (get_ci CONTENT_LENGTH [(H_CONTENT_LENGTH, dec_of_N (len (bodyb p)))]) with (Some (dec_of_N (len (bodyb p)))).
        split; [|reflexivity]. split; [|reflexivity].
        rewrite int10_dec_of_N by (now apply Nat.leb_le). now rewrite len_Z.
      * rewrite app_nil_r, TE, CL, (bodyb_falsy p T). repeat split; reflexivity.
Qed.

Lemma wfhP_readded p h : wfhP h -> wfhP (h ++ readded p h).
Proof.
  intros [Hok Hnd]. unfold readded. rewrite (has_key_ci_get CONTENT_LENGTH h).
  destruct (truthy (body p) && negb (is_chunked_encoded p)); cbn [andb]; [|rewrite app_nil_r; now split].
  destruct (get_ci CONTENT_LENGTH h) eqn:CL; cbn [negb]; [rewrite app_nil_r; now split|].
  split.
  - apply Forall_app. split; [exact Hok|]. constructor; [|constructor].
    apply ok_header_hdr_ok. unfold ok_header. cbn [fst snd]. now rewrite dec_ok_value.
  - rewrite lkeys_app. cbn [lkeys map fst]. apply NoDup_snoc; [exact Hnd|]. now apply get_ci_none.
Qed.

(* ===================================================================================== *)
(* MAIN THEOREM: what build(D, fp, ho) parses back to, for every parser state with these properties *)
Theorem rebuild_args_state ua p D fp ho m v hs tgt u' :
  ty p = REQUEST_PARSER ->
  method p = Some m -> m <> [] -> tok m ->
  version p = Some v -> v <> [] -> ~ In CR v ->
  build_target p fp = Ok tgt -> tok tgt -> from_bytes DEFAULT_ALLOWED_URL_SCHEMES tgt = Ok u' ->
  headers p = lift_headers hs -> wfhP hs ->
  match ho with Some hv => value_ok hv | None => True end ->
  framing_after p (rebuilt_hs D ho hs) ->
  exists raw p', build ua p D fp ho = Ok raw /\
    parse (new_parser REQUEST_PARSER) raw = Ok p' /\
    state p' = COMPLETE /\ buffer p' = None /\
    method p' = Some m /\ version p' = Some v /\ purl p' = Some u' /\
    is_https_tunnel p' = bytes_eqb m CONNECT /\
    (host p', port p', path p') = line_attributes (bytes_eqb m CONNECT) u' /\
    headers p' = lift_headers (rebuilt_hs D ho hs ++ readded p (rebuilt_hs D ho hs)) /\
    bodyb p' = bodyb p /\ is_chunked_encoded p' = is_chunked_encoded p.
Proof.
  intros Ht Hm Hm1 Hm2 Hv Hv1 Hv2 Htg Ttg Hu Hh Hw Hho Hf.
  set (h := rebuilt_hs D ho hs) in *.
  destruct (rebuilt_framing_gen p h Hf) as (bd & Hb & Ewl & Hfr & Hte).
  rewrite (build_args_bytes ua p D fp ho m v hs bd tgt Ht Hm Hm1 Hv Hv1 Hh (proj2 Hw) Hb Htg).
  fold h. rewrite Ewl.
  set (sl := ReqLine m tgt v u').
  assert (Hs : start_ok DEFAULT_ALLOWED_URL_SCHEMES sl) by (unfold sl, start_ok; tauto).
  assert (Hw' : wfhP (h ++ readded p h)) by (apply wfhP_readded; unfold h; now apply wfhP_rebuilt).
  destruct (parse_rendered sl _ _ _ Hs Hw' Hfr) as (p' & P & S1 & S2 & S3 & S4 & S5 & S6).
  eexists. exists p'. split; [reflexivity|].
  rewrite header_lines_render.
  replace (m ++ SP :: tgt ++ SP :: v ++ CRLF ++ render_hdrs (h ++ readded p h) ++ CRLF ++ or_empty bd)
    with (render_start sl ++ CRLF ++ render_hdrs (h ++ readded p h) ++ CRLF ++ or_empty bd)
    by (unfold sl, render_start; repeat (rewrite <- app_assoc || rewrite <- app_comm_cons); reflexivity).
  split; [exact P|].
  unfold start_fields, sl in S3. destruct S3 as (F1 & F2 & F3 & F4 & F5 & _ & _).
  repeat apply conj; try assumption.
  rewrite S6, Hte. unfold framing_after in Hf.
  destruct (get_ci TRANSFER_ENCODING h); symmetry; apply Hf.
Qed.

(* ===================================================================================== *)
(* from the hypotheses of the existing rebuild theorems (framing_consistent) to framing_after *)

(* the one combination that breaks the framing: disabling Transfer-Encoding on a chunked message
   (refuted below: build_disable_te_refuted) *)
Definition te_guard (p : parser) (D : list bytes) : Prop :=
  mem_bytes TRANSFER_ENCODING D = true -> is_chunked_encoded p = false.

Lemma te_guard_b_spec p D : te_guard_b p D = true <-> te_guard p D.
Proof.
  unfold te_guard_b, te_guard. destruct (mem_bytes TRANSFER_ENCODING D), (is_chunked_encoded p); cbn; split; intros H; try reflexivity; try discriminate; auto.
  discriminate (H eq_refl).
Qed.

Lemma consistent_te p hs : framing_consistent p hs -> is_chunked_encoded p = false ->
  get_ci TRANSFER_ENCODING hs = None.
Proof.
  unfold framing_consistent. destruct (get_ci TRANSFER_ENCODING hs) as [te|]; intros H C; [|reflexivity].
  destruct H as (_ & Hc & _). congruence.
Qed.

Lemma te_ne_host : TRANSFER_ENCODING <> L_HOST.
Proof. intros C. vm_compute in C. discriminate C. Qed.
Lemma cl_ne_host : CONTENT_LENGTH <> L_HOST.
Proof. intros C. vm_compute in C. discriminate C. Qed.

Lemma get_ci_te_rebuilt p D ho hs : framing_consistent p hs -> te_guard p D ->
  get_ci TRANSFER_ENCODING (rebuilt_hs D ho hs) = get_ci TRANSFER_ENCODING hs.
Proof.
  intros Hf Hg. apply get_ci_rebuilt; [exact te_ne_host|]. intros M. apply (consistent_te p hs Hf). now apply Hg.
Qed.

Lemma get_ci_cl_rebuilt D ho hs :
  get_ci CONTENT_LENGTH (rebuilt_hs D ho hs) = if mem_bytes CONTENT_LENGTH D then None else get_ci CONTENT_LENGTH hs.
Proof.
  destruct (mem_bytes CONTENT_LENGTH D) eqn:M.
  - unfold rebuilt_hs. rewrite get_ci_override by exact cl_ne_host. now apply get_ci_minus_disabled.
  - apply get_ci_rebuilt; [exact cl_ne_host|]. intros C. congruence.
Qed.

Lemma framing_after_rebuilt p D ho hs : framing_consistent p hs -> te_guard p D ->
  framing_after p (rebuilt_hs D ho hs).
Proof.
  intros Hf Hg. unfold framing_after.
  rewrite (get_ci_te_rebuilt p D ho hs Hf Hg), get_ci_cl_rebuilt. unfold framing_consistent in Hf.
  destruct (get_ci TRANSFER_ENCODING hs) as [te|].
  - destruct Hf as (H1 & H2 & H3 & H4). repeat split; try assumption.
    destruct (mem_bytes CONTENT_LENGTH D); [reflexivity|exact H3].
  - destruct Hf as (H1 & H2). split; [exact H1|]. destruct (mem_bytes CONTENT_LENGTH D).
    + intros T. destruct (get_ci CONTENT_LENGTH hs); [rewrite T in H2; apply H2|congruence].
    + destruct (get_ci CONTENT_LENGTH hs); [exact H2|intros T; congruence].
Qed.

Lemma readded_rebuilt p D ho hs : framing_consistent p hs -> te_guard p D ->
  readded p (rebuilt_hs D ho hs) = readded_D p D.
Proof.
  intros Hf Hg. unfold readded, readded_D. rewrite has_key_ci_get, get_ci_cl_rebuilt.
  unfold framing_consistent in Hf.
  destruct (mem_bytes CONTENT_LENGTH D); cbn [andb negb].
  - now rewrite andb_true_r.
  - destruct (get_ci TRANSFER_ENCODING hs) as [te|].
    + destruct Hf as (_ & Hc & _). rewrite Hc. cbn [negb]. now rewrite andb_false_r.
    + destruct Hf as (_ & Hcl). destruct (get_ci CONTENT_LENGTH hs).
      * cbn [negb]. now rewrite andb_false_r.
      * now rewrite Hcl.
Qed.

Lemma readded_D_nil p D : mem_bytes CONTENT_LENGTH D = false -> readded_D p D = [].
Proof. intros M. unfold readded_D. now rewrite M. Qed.

(* ---- the origin-form target (for_proxy=False) ---- *)
Definition path_guard (p : parser) : Prop :=
  truthy (path p) = false \/
  exists t, path p = Some (SLASH :: t) /\ tok (SLASH :: t) /\ match t with x :: _ => x <> SLASH | [] => True end.

Definition origin_url (pa : bytes) : url :=
  {| u_scheme := None; u_username := None; u_password := None; u_hostname := None; u_port := None;
     u_remainder := Some pa |}.

Lemma origin_target p : path_guard p ->
  tok (path0 p) /\ from_bytes DEFAULT_ALLOWED_URL_SCHEMES (path0 p) = Ok (origin_url (path0 p)).
Proof.
  intros Hp.
  assert (Hpath : exists t, path0 p = SLASH :: t /\ tok (SLASH :: t) /\ match t with x :: _ => x <> SLASH | [] => True end).
  { unfold path0. destruct Hp as [Hp|(t & Hp & Hp1 & Hp2)].
    - rewrite Hp. exists []. repeat split; intros [C|[]]; discriminate C.
    - rewrite Hp. cbn [truthy or_empty]. exists t. repeat split; assumption || apply Hp1. }
  destruct Hpath as (t & Ep & Tp & Sp). rewrite Ep. split; [exact Tp|].
  now apply CodecFacts.from_bytes_origin.
Qed.

Lemma build_target_origin p : build_target p false = Ok (path0 p).
Proof. reflexivity. Qed.

(* build(disable_headers=D, host=ho) [for_proxy=False], on parser states *)
Theorem rebuild_origin_state ua p D ho m v hs :
  ty p = REQUEST_PARSER ->
  method p = Some m -> m <> [] -> tok m ->
  version p = Some v -> v <> [] -> ~ In CR v ->
  path_guard p ->
  headers p = lift_headers hs -> wfhP hs -> framing_consistent p hs ->
  te_guard p D -> match ho with Some hv => value_ok hv | None => True end ->
  exists raw p', build ua p D false ho = Ok raw /\
    parse (new_parser REQUEST_PARSER) raw = Ok p' /\
    state p' = COMPLETE /\ buffer p' = None /\
    method p' = Some m /\ version p' = Some v /\ path p' = Some (path0 p) /\ host p' = None /\
    headers p' = lift_headers (rebuilt_hs D ho hs ++ readded_D p D) /\
    bodyb p' = bodyb p /\ is_chunked_encoded p' = is_chunked_encoded p.
Proof.
  intros Ht Hm Hm1 Hm2 Hv Hv1 Hv2 Hp Hh Hw Hf Hg Hho.
  destruct (origin_target p Hp) as [Tp Up].
  destruct (rebuild_args_state ua p D false ho m v hs (path0 p) (origin_url (path0 p))
              Ht Hm Hm1 Hm2 Hv Hv1 Hv2 (build_target_origin p) Tp Up Hh Hw Hho
              (framing_after_rebuilt p D ho hs Hf Hg))
    as (raw & p' & B & P & R1 & R2 & R3 & R4 & R5 & R6 & R7 & R8 & R9 & R10).
  exists raw, p'. rewrite (readded_rebuilt p D ho hs Hf Hg) in R8.
  unfold line_attributes, origin_url in R7. cbn [u_port u_hostname u_remainder] in R7.
  pose proof (f_equal snd R7) as Hpa. cbn [snd] in Hpa.
  pose proof (f_equal (fun x => fst (fst x)) R7) as Hho'. cbn [fst] in Hho'.
  repeat apply conj; assumption.
Qed.

(* ---- the decidable domain of C15_rebuild_stable_request_bool gives the hypotheses ---- *)
Lemma rebuildable_req_inv p : rebuildable_req p = true ->
  exists m v, ty p = REQUEST_PARSER /\ method p = Some m /\ m <> [] /\ tok m /\
    version p = Some v /\ v <> [] /\ ~ In CR v /\ path_guard p /\
    headers p = lift_headers (unlift (headers p)) /\ wfhP (unlift (headers p)) /\
    framing_consistent p (unlift (headers p)).
Proof.
  unfold rebuildable_req. cbv zeta. intros H.
  repeat (apply andb_true_iff in H as [H ?]).
  match goal with X : framing_consistent_b _ _ _ = true |- _ => apply framing_consistent_b_req in X; rename X into Hf end.
  match goal with X : nodup_ci _ = true |- _ => apply nodup_ci_NoDup in X; rename X into Hn end.
  match goal with X : forallb ok_header _ = true |- _ => rename X into Hok end.
  match goal with X : hdict_canonical _ = true |- _ => apply lift_unlift in X; rename X into Hh end.
  match goal with X : path_ok_b _ = true |- _ => rename X into Hp end.
  match goal with X : no_cr (or_empty (version p)) = true |- _ => rename X into Hv2 end.
  match goal with X : truthy (version p) = true |- _ => destruct (truthy_inv _ X) as (v & Ev & Hv1 & Ev') end.
  match goal with X : tokb (or_empty (method p)) = true |- _ => rename X into Hm2 end.
  match goal with X : truthy (method p) = true |- _ => destruct (truthy_inv _ X) as (m & Em & Hm1 & Em') end.
  assert (Ht : ty p = REQUEST_PARSER) by (destruct (ty p); [reflexivity|discriminate]).
  rewrite Em' in Hm2. rewrite Ev' in Hv2.
  exists m, v. repeat apply conj; try assumption.
  - apply (tokb_tok _ Hm2).
  - apply (tokb_tok _ Hm2).
  - now apply no_cr_cr.
  - unfold path_guard. unfold path_ok_b in Hp. apply orb_true_iff in Hp as [Hp|Hp]; [left; now apply negb_true_iff in Hp|].
    right. destruct (path p) as [[|x t]|]; try discriminate.
    apply andb_true_iff in Hp as [Hp H3]. apply andb_true_iff in Hp as [H1 H2]. apply N.eqb_eq in H1. subst x.
    exists t. repeat split; try apply (tokb_tok _ H2).
    destruct t as [|y t']; [exact I|]. apply negb_true_iff in H3. now apply N.eqb_neq in H3.
  - apply (proj1 (wfh_wfhP _ (conj Hok Hn))).
Qed.

(* ===================================================================================== *)
(* build(disable_headers=D, host=ho) on the decidable domain [rebuildable_req]             *)
Theorem rebuild_origin_bool ua p D ho :
  rebuildable_req p = true -> te_guard p D -> match ho with Some hv => value_ok hv | None => True end ->
  exists raw p', build ua p D false ho = Ok raw /\
    parse (new_parser REQUEST_PARSER) raw = Ok p' /\
    state p' = COMPLETE /\ buffer p' = None /\
    method p' = method p /\ version p' = version p /\ path p' = Some (path0 p) /\ host p' = None /\
    headers p' = lift_headers (rebuilt_hs D ho (unlift (headers p)) ++ readded_D p D) /\
    bodyb p' = bodyb p /\ is_chunked_encoded p' = is_chunked_encoded p.
Proof.
  intros R Hg Hho.
  destruct (rebuildable_req_inv p R) as (m & v & Ht & Hm & Hm1 & Hm2 & Hv & Hv1 & Hv2 & Hp & Hh & Hw & Hf).
  destruct (rebuild_origin_state ua p D ho m v _ Ht Hm Hm1 Hm2 Hv Hv1 Hv2 Hp Hh Hw Hf Hg Hho)
    as (raw & p' & B & P & R1 & R2 & R3 & R4 & R5 & R6 & R7 & R8 & R9).
  exists raw, p'. repeat apply conj; try assumption; congruence.
Qed.

(* ---- disable_headers ---- *)
Lemma minus_headers_In D hs kv :
  In kv (minus_headers D hs) <-> In kv hs /\ mem_bytes (lower (fst kv)) D = false.
Proof.
  unfold minus_headers. rewrite filter_In. unfold disabled. now rewrite negb_true_iff.
Qed.

Lemma minus_headers_id D hs : (forall kv, In kv hs -> mem_bytes (lower (fst kv)) D = false) ->
  minus_headers D hs = hs.
Proof.
  unfold minus_headers. induction hs as [|kv t IH]; intros H; [reflexivity|]. cbn [filter].
  unfold disabled at 1. rewrite (H kv (or_introl eq_refl)). cbn [negb]. f_equal. apply IH.
  intros x Hx. apply H. now right.
Qed.

Lemma minus_headers_nil hs : minus_headers [] hs = hs.
Proof. apply minus_headers_id. reflexivity. Qed.

(* an entry of D that is not lower-case disables nothing (flag.py lower-cases --disable-headers) *)
Lemma mem_bytes_cons x d D : mem_bytes x (d :: D) = bytes_eqb x d || mem_bytes x D.
Proof. reflexivity. Qed.
Lemma upper_entry_inert d D hs : lower d <> d -> minus_headers (d :: D) hs = minus_headers D hs.
Proof.
  intros Hd. unfold minus_headers. apply filter_ext. intros [k v]. unfold disabled. cbn [fst].
  rewrite mem_bytes_cons. destruct (bytes_eqb_spec (lower k) d) as [E|E]; [|reflexivity].
  exfalso. apply Hd. rewrite <- E. apply lower_idem.
Qed.

(* C15_build_disable_headers *)
Theorem build_disable_headers ua p D : rebuildable_req p = true -> te_guard p D ->
  exists raw p', build ua p D false None = Ok raw /\
    parse (new_parser REQUEST_PARSER) raw = Ok p' /\
    state p' = COMPLETE /\ buffer p' = None /\
    method p' = method p /\ version p' = version p /\ path p' = Some (path0 p) /\ host p' = None /\
    headers p' = lift_headers (minus_headers D (unlift (headers p)) ++ readded_D p D) /\
    bodyb p' = bodyb p /\ is_chunked_encoded p' = is_chunked_encoded p.
Proof. intros R Hg. exact (rebuild_origin_bool ua p D None R Hg I). Qed.

(* when neither framing header is disabled: exactly the header map minus D *)
Corollary build_disable_headers_exact ua p D : rebuildable_req p = true ->
  mem_bytes TRANSFER_ENCODING D = false -> mem_bytes CONTENT_LENGTH D = false ->
  exists raw p', build ua p D false None = Ok raw /\
    parse (new_parser REQUEST_PARSER) raw = Ok p' /\
    state p' = COMPLETE /\ buffer p' = None /\
    method p' = method p /\ version p' = version p /\ path p' = Some (path0 p) /\ host p' = None /\
    headers p' = lift_headers (minus_headers D (unlift (headers p))) /\
    bodyb p' = bodyb p /\ is_chunked_encoded p' = is_chunked_encoded p.
Proof.
  intros R M1 M2.
  assert (Hg : te_guard p D) by (intros C; congruence).
  destruct (build_disable_headers ua p D R Hg) as (raw & p' & H). exists raw, p'.
  rewrite (readded_D_nil p D M2), app_nil_r in H. exact H.
Qed.

(* ---- host= ---- *)
Lemma override_host_absent ho hs : get_ci L_HOST hs = None -> override_host ho hs = hs.
Proof.
  destruct ho as [hv|]; [|reflexivity]. cbn [override_host].
  induction hs as [|[k v] t IH]; [reflexivity|]. rewrite get_ci_cons. cbn [map]. unfold override1 at 1. cbn [fst].
  destruct (bytes_eqb (lower k) L_HOST); [discriminate|]. intros H. f_equal. now apply IH.
Qed.

(* the Host header of a well-formed map: the one entry that changes, in place, under the client's spelling *)
Lemma override_host_split hv hs old : NoDup (lkeys hs) -> get_ci L_HOST hs = Some old ->
  exists h1 hn h2, hs = h1 ++ (hn, old) :: h2 /\ lower hn = L_HOST /\
                   override_host (Some hv) hs = h1 ++ (hn, hv) :: h2.
Proof.
  intros Hn Hg. destruct (split_at_ci _ _ _ Hn Hg) as (h1 & hn & h2 & -> & E & N1 & N2).
  exists h1, hn, h2. split; [reflexivity|]. split; [exact E|].
  cbn [override_host]. rewrite map_app. cbn [map]. unfold override1 at 2. cbn [fst]. rewrite E, bytes_eqb_refl.
  assert (G : forall h, ~ In L_HOST (lkeys h) -> map (override1 hv) h = h).
  { intros h Hh. apply get_ci_none in Hh. exact (override_host_absent (Some hv) h Hh). }
  now rewrite (G h1 N1), (G h2 N2).
Qed.

(* C15_build_host_override *)
Theorem build_host_override ua p hv : rebuildable_req p = true -> value_ok hv ->
  exists raw p', build ua p [] false (Some hv) = Ok raw /\
    parse (new_parser REQUEST_PARSER) raw = Ok p' /\
    state p' = COMPLETE /\ buffer p' = None /\
    method p' = method p /\ version p' = version p /\ path p' = Some (path0 p) /\ host p' = None /\
    headers p' = lift_headers (override_host (Some hv) (unlift (headers p))) /\
    bodyb p' = bodyb p /\ is_chunked_encoded p' = is_chunked_encoded p.
Proof.
  intros R Hv.
  assert (Hg : te_guard p []) by (intros C; discriminate C).
  destruct (rebuild_origin_bool ua p [] (Some hv) R Hg Hv) as (raw & p' & H). exists raw, p'.
  unfold rebuilt_hs in H. rewrite minus_headers_nil, (readded_D_nil p [] eq_refl), app_nil_r in H. exact H.
Qed.

(* ===================================================================================== *)
(* for_proxy=True                                                                          *)

Definition scheme_ok (s : option bytes) : Prop := s = None \/ s = Some HTTP_PROTO \/ s = Some HTTPS_PROTO.

Lemma build_target_proxy p h pt u :
  host p = Some h -> h <> [] -> port p = Some pt -> pt <> 0%Z -> purl p = Some u ->
  build_target p true =
  Ok (if is_https_tunnel p then tunnel_target h pt else proxy_target (u_scheme u) h pt (path0 p)).
Proof.
  intros Hh Hne Hp Hp0 Hu. unfold build_target. rewrite Hh, Hp, Hu. destruct h as [|hx ht]; [congruence|].
  destruct (Z.eqb_spec pt 0); [contradiction|]. destruct (is_https_tunnel p); reflexivity.
Qed.

(* `assert self.host and self.port and self._url` *)
Lemma build_target_proxy_assert p :
  truthy (host p) = false \/ port p = None \/ port p = Some 0%Z \/ purl p = None ->
  build_target p true = Err AssertionError.
Proof.
  unfold build_target. destruct (host p) as [[|hx ht]|], (port p) as [pt|], (purl p) as [u|];
    intros [H|[H|[H|H]]]; try discriminate H; try reflexivity.
  inversion H. reflexivity.
Qed.

Lemma get_body_total p : exists bd, get_body_or_chunks p = Ok bd.
Proof.
  unfold get_body_or_chunks. destruct (body p) as [b|]; [|now eexists].
  destruct (is_chunked_encoded p); [|now eexists].
  assert (Hk : 0 < DEFAULT_BUFFER_SIZE) by reflexivity.
  rewrite (to_chunks_render b _ Hk). cbn [bind]. now eexists.
Qed.

(* C15_build_for_proxy, bytes: build(for_proxy=True) and build() differ exactly in the request-target *)
Theorem build_for_proxy_bytes ua p D ho m v hs h pt u :
  ty p = REQUEST_PARSER -> method p = Some m -> m <> [] -> version p = Some v -> v <> [] ->
  headers p = lift_headers hs -> NoDup (lkeys hs) ->
  host p = Some h -> h <> [] -> port p = Some pt -> pt <> 0%Z -> purl p = Some u ->
  exists rest,
    build ua p D false ho = Ok (m ++ SP :: path0 p ++ rest) /\
    build ua p D true ho =
      Ok (m ++ SP :: (if is_https_tunnel p then tunnel_target h pt else proxy_target (u_scheme u) h pt (path0 p)) ++ rest).
Proof.
  intros Ht Hm Hm1 Hv Hv1 Hh Hn Hho Hne Hp Hp0 Hu.
  destruct (get_body_total p) as (bd & Hb).
  eexists. split.
  - exact (build_args_bytes ua p D false ho m v hs bd _ Ht Hm Hm1 Hv Hv1 Hh Hn Hb (build_target_origin p)).
  - exact (build_args_bytes ua p D true ho m v hs bd _ Ht Hm Hm1 Hv Hv1 Hh Hn Hb (build_target_proxy p h pt u Hho Hne Hp Hp0 Hu)).
Qed.

(* ---- Url.from_bytes on the two targets ---- *)
Lemma from_bytes_scheme sch auth pa :
  sch = HTTP_PROTO \/ sch = HTTPS_PROTO -> ~ In SLASH auth -> starts_with_slash pa = true ->
  from_bytes DEFAULT_ALLOWED_URL_SCHEMES (sch ++ [COLON; SLASH; SLASH] ++ auth ++ pa) =
  do '(u, p, h, pt) <- parse_authority auth;
  Ok {| u_scheme := Some sch; u_username := u; u_password := p; u_hostname := Some h;
        u_port := pt; u_remainder := Some pa |}.
Proof.
  intros Hs Ha Hpa. destruct pa as [|x q]; [discriminate|]. cbn [starts_with_slash] in Hpa.
  apply N.eqb_eq in Hpa. subst x.
  assert (Hsp : split_once [SLASH] (auth ++ SLASH :: q) = Some (auth, q)) by (now apply split_once_byte_notin).
  destruct Hs as [-> | ->].
  - pose proof (from_bytes_http auth (Some (SLASH :: q)) Ha (N.eqb_refl SLASH)) as F. cbn [render_path] in F. exact F.
  - change (HTTPS_PROTO ++ [COLON; SLASH; SLASH] ++ auth ++ SLASH :: q)
      with (104 :: ([116; 116; 112; 115; 58; 47; 47] ++ auth ++ SLASH :: q)).
    rewrite from_bytes_noslash by reflexivity.
    replace (split_once (bytes_of_string "://") (104 :: [116; 116; 112; 115; 58; 47; 47] ++ auth ++ SLASH :: q))
      with (Some (HTTPS_PROTO, auth ++ SLASH :: q)) by reflexivity.
    change (mem_bytes HTTPS_PROTO DEFAULT_ALLOWED_URL_SCHEMES) with true. cbv iota. cbn [bind].
    rewrite Hsp. reflexivity.
Qed.

Lemma bytes_of_Z_N n : bytes_of_Z (Z.of_N n) = dec_of_N n.
Proof. unfold bytes_of_Z, dec_of_Z. destruct n as [|q]; reflexivity. Qed.

Lemma port_value_dec n : port_value (dec_of_N n) = Z.of_N n.
Proof. unfold port_value. destruct (dec_of_N_spec n) as (_ & _ & ->). reflexivity. Qed.


Lemma scheme_or_http_cases s : scheme_ok s -> scheme_or_http s = HTTP_PROTO \/ scheme_or_http s = HTTPS_PROTO.
Proof. intros [H|[H|H]]; subst s; [left|left|right]; reflexivity. Qed.

Lemma from_bytes_proxy_target sch h n pa :
  scheme_ok sch -> wf_host h = true -> wf_port (dec_of_N n) = true -> starts_with_slash pa = true ->
  from_bytes DEFAULT_ALLOWED_URL_SCHEMES (proxy_target sch (host_text h) (Z.of_N n) pa) =
  Ok {| u_scheme := Some (scheme_or_http sch); u_username := None; u_password := None;
        u_hostname := Some (host_text h); u_port := Some (Z.of_N n); u_remainder := Some pa |}.
Proof.
  intros Hs Hh Hq Hpa. unfold proxy_target. rewrite bytes_of_Z_N.
  pose proof (parse_authority_wf None h (Some (dec_of_N n)) I Hh Hq) as PA.
  cbn [render_userinfo render_port app ui_user ui_pass] in PA.
  replace (scheme_or_http sch ++ [COLON; SLASH; SLASH] ++ host_text h ++ [COLON] ++ dec_of_N n ++ pa)
    with (scheme_or_http sch ++ [COLON; SLASH; SLASH] ++ (host_text h ++ COLON :: dec_of_N n) ++ pa)
    by (now rewrite <- app_assoc).
  rewrite (from_bytes_scheme (scheme_or_http sch) (host_text h ++ COLON :: dec_of_N n) pa (scheme_or_http_cases sch Hs)
             (proj2 (hostport_no_at h (Some (dec_of_N n)) Hh Hq)) Hpa).
  rewrite PA. cbn [bind]. now rewrite port_value_dec.
Qed.

Lemma from_bytes_tunnel_target h n :
  wf_host h = true -> wf_port (dec_of_N n) = true ->
  from_bytes DEFAULT_ALLOWED_URL_SCHEMES (tunnel_target (host_text h) (Z.of_N n)) =
  Ok {| u_scheme := None; u_username := None; u_password := None;
        u_hostname := Some (host_text h); u_port := Some (Z.of_N n); u_remainder := None |}.
Proof.
  intros Hh Hq. unfold tunnel_target. rewrite bytes_of_Z_N.
  pose proof (parse_authority_wf None h (Some (dec_of_N n)) I Hh Hq) as PA.
  cbn [render_userinfo render_port app ui_user ui_pass] in PA.
  change (host_text h ++ [COLON] ++ dec_of_N n) with (host_text h ++ COLON :: dec_of_N n).
  rewrite from_bytes_authority_form.
  - rewrite PA. cbn [bind]. now rewrite port_value_dec.
  - pose proof (hf_ne h (wf_host_facts h Hh)) as Hne. destruct (host_text h); [congruence|discriminate].
  - exact (proj2 (hostport_no_at h (Some (dec_of_N n)) Hh Hq)).
Qed.

(* ---- tok of the targets ---- *)
Lemma tok_app a b : tok a -> tok b -> tok (a ++ b).
Proof. unfold tok. intros [A1 A2] [B1 B2]. rewrite !not_in_app. tauto. Qed.

Lemma tok_dec n : tok (dec_of_N n).
Proof. exact (dec_of_Z_tok (Z.of_N n)) || (rewrite <- bytes_of_Z_N; apply dec_of_Z_tok). Qed.

Lemma tok_proxy_target sch h n pa : scheme_ok sch -> tok h -> tok pa -> tok (proxy_target sch h (Z.of_N n) pa).
Proof.
  intros Hs Th Tp. unfold proxy_target. rewrite bytes_of_Z_N.
  repeat apply tok_app; try assumption; try apply tok_dec.
  - destruct (scheme_or_http_cases sch Hs) as [-> | ->]; split; intros C; vm_compute in C; intuition discriminate.
  - split; intros C; vm_compute in C; intuition discriminate.
  - split; intros C; vm_compute in C; intuition discriminate.
Qed.

Lemma tok_tunnel_target h n : tok h -> tok (tunnel_target h (Z.of_N n)).
Proof.
  intros Th. unfold tunnel_target. rewrite bytes_of_Z_N. repeat apply tok_app; try assumption; try apply tok_dec.
  split; intros C; vm_compute in C; intuition discriminate.
Qed.

(* ---- for_proxy on parser states ---- *)
Definition path_tok (p : parser) : Prop :=
  truthy (path p) = false \/ exists t, path p = Some (SLASH :: t) /\ tok (SLASH :: t).

Lemma path0_slash p : path_tok p -> tok (path0 p) /\ starts_with_slash (path0 p) = true.
Proof.
  unfold path0. intros [Hp|(t & Hp & Tp)]; rewrite Hp; cbn [truthy or_empty starts_with_slash].
  - split; [|reflexivity]. split; intros [C|[]]; discriminate C.
  - split; [exact Tp|apply N.eqb_refl].
Qed.

(* C15_build_for_proxy on parser states: the request rebuilt for an upstream proxy parses back to the same
   (host, port) and, unless it is a CONNECT, the same path (path or '/'); method, version, headers (minus D,
   Host overridden) and body as for build().  The (userinfo of the original target is not part of the state
   and is not re-emitted.) *)
Theorem rebuild_proxy_state ua p D ho m v hs h n u :
  ty p = REQUEST_PARSER ->
  method p = Some m -> m <> [] -> tok m ->
  version p = Some v -> v <> [] -> ~ In CR v ->
  is_https_tunnel p = bytes_eqb m CONNECT ->
  host p = Some (host_text h) -> wf_host h = true -> tok (host_text h) ->
  port p = Some (Z.of_N n) -> 0 < n -> wf_port (dec_of_N n) = true ->
  purl p = Some u -> scheme_ok (u_scheme u) ->
  path_tok p ->
  headers p = lift_headers hs -> wfhP hs -> framing_consistent p hs ->
  te_guard p D -> match ho with Some hv => value_ok hv | None => True end ->
  exists raw p', build ua p D true ho = Ok raw /\
    parse (new_parser REQUEST_PARSER) raw = Ok p' /\
    state p' = COMPLETE /\ buffer p' = None /\
    method p' = Some m /\ version p' = Some v /\ is_https_tunnel p' = is_https_tunnel p /\
    host p' = host p /\ port p' = port p /\
    path p' = (if is_https_tunnel p then None else Some (path0 p)) /\
    headers p' = lift_headers (rebuilt_hs D ho hs ++ readded_D p D) /\
    bodyb p' = bodyb p /\ is_chunked_encoded p' = is_chunked_encoded p.
Proof.
  intros Ht Hm Hm1 Hm2 Hv Hv1 Hv2 Htun Hho Hwh Th Hpt Hn0 Hq Hu Hs Hpath Hh Hw Hf Hg Hhov.
  assert (Hne : host_text h <> []) by (apply (hf_ne h (wf_host_facts h Hwh))).
  assert (Hp0 : Z.of_N n <> 0%Z) by lia.
  pose proof (build_target_proxy p _ _ u Hho Hne Hpt Hp0 Hu) as Bt.
  destruct (path0_slash p Hpath) as [Tp Sp].
  pose proof (framing_after_rebuilt p D ho hs Hf Hg) as Hfa.
  rewrite Hho, Hpt.
  destruct (is_https_tunnel p) eqn:Tun.
  - destruct (rebuild_args_state ua p D true ho m v hs _ _ Ht Hm Hm1 Hm2 Hv Hv1 Hv2 Bt
                (tok_tunnel_target _ n Th) (from_bytes_tunnel_target h n Hwh Hq) Hh Hw Hhov Hfa)
      as (raw & p' & B & P & R1 & R2 & R3 & R4 & R5 & R6 & R7 & R8 & R9 & R10).
    exists raw, p'. rewrite (readded_rebuilt p D ho hs Hf Hg) in R8.
    unfold line_attributes in R7. cbn [u_port u_hostname u_remainder] in R7.
    pose proof (f_equal snd R7) as Hpa. cbn [snd] in Hpa.
    pose proof (f_equal (fun x => fst (fst x)) R7) as Hho'. cbn [fst] in Hho'.
    pose proof (f_equal (fun x => snd (fst x)) R7) as Hpo'. cbn [fst snd] in Hpo'.
    repeat apply conj; try assumption. congruence.
  - destruct (rebuild_args_state ua p D true ho m v hs _ _ Ht Hm Hm1 Hm2 Hv Hv1 Hv2 Bt
                (tok_proxy_target _ _ n _ Hs Th Tp) (from_bytes_proxy_target _ h n _ Hs Hwh Hq Sp) Hh Hw Hhov Hfa)
      as (raw & p' & B & P & R1 & R2 & R3 & R4 & R5 & R6 & R7 & R8 & R9 & R10).
    exists raw, p'. rewrite (readded_rebuilt p D ho hs Hf Hg) in R8.
    unfold line_attributes in R7. cbn [u_port u_hostname u_remainder] in R7.
    pose proof (f_equal snd R7) as Hpa. cbn [snd] in Hpa.
    pose proof (f_equal (fun x => fst (fst x)) R7) as Hho'. cbn [fst] in Hho'.
    pose proof (f_equal (fun x => snd (fst x)) R7) as Hpo'. cbn [fst snd] in Hpo'.
    repeat apply conj; try assumption. congruence.
Qed.

(* ---- str(int(q)) is not longer than q: the port of a parsed target can always be written back ---- *)
Lemma to_base_aux_len b : 2 <= b -> forall f n acc k, (0 < k)%nat -> n < b ^ N.of_nat k ->
  (length (to_base_aux f b n acc) <= length acc + k)%nat.
Proof.
  intros Hb. induction f as [|f IH]; intros n acc k Hk Hn; [cbn [to_base_aux]; lia|].
  rewrite to_base_aux_S. destruct (N.ltb_spec n b) as [L|L]; [cbn [length]; lia|].
  destruct k as [|[|k']]; [lia| |].
  - change (N.of_nat 1) with 1 in Hn. rewrite N.pow_1_r in Hn. lia.
  - assert (Hq : n / b < b ^ N.of_nat (S k')).
    { rewrite (Nat2N.inj_succ (S k')), N.pow_succ_r' in Hn. apply N.div_lt_upper_bound; [lia|exact Hn]. }
    specialize (IH (n / b) (digit_char (n mod b) :: acc) (S k') ltac:(lia) Hq). cbn [length] in IH. lia.
Qed.

Lemma digits_val_aux_bound l : all_digits l = true -> forall acc,
  digits_val_aux l acc < (acc + 1) * 10 ^ N.of_nat (length l).
Proof.
  induction l as [|x t IH]; intros H acc; cbn [digits_val_aux length].
  - change (N.of_nat 0) with 0. rewrite N.pow_0_r. lia.
  - cbn [all_digits forallb] in H. apply andb_true_iff in H as [Hx Ht]. apply is_digit_range in Hx.
    specialize (IH Ht (acc * 10 + (x - 48))). rewrite Nat2N.inj_succ, N.pow_succ_r'.
    eapply N.lt_le_trans; [exact IH|]. 
    replace ((acc + 1) * (10 * 10 ^ N.of_nat (length t))) with ((acc * 10 + 10) * 10 ^ N.of_nat (length t)) by lia.
    apply N.mul_le_mono_r. lia.
Qed.

Lemma wf_port_canonical q : wf_port q = true -> wf_port (dec_of_N (digits_val q)) = true.
Proof.
  unfold wf_port. intros H. apply andb_true_iff in H as [H Hl]. apply andb_true_iff in H as [Hne Hd].
  apply Nat.leb_le in Hl. apply negb_true_iff, Nat.eqb_neq in Hne.
  destruct (dec_of_N_spec (digits_val q)) as (S1 & S2 & _).
  assert (Hlen : (length (dec_of_N (digits_val q)) <= length q)%nat).
  { unfold dec_of_N, to_base. 
    pose proof (digits_val_aux_bound q Hd 0) as B. fold (digits_val q) in B. rewrite N.add_0_l, N.mul_1_l in B.
    pose proof (to_base_aux_len 10 ltac:(lia) (S (N.to_nat (N.log2 (digits_val q)))) (digits_val q) [] (length q) ltac:(lia) B) as L.
    cbn [length] in L. lia. }
  apply andb_true_iff. split; [apply andb_true_iff; split|].
  - apply negb_true_iff, Nat.eqb_neq. destruct (dec_of_N (digits_val q)); [congruence|cbn [length]; lia].
  - exact S2.
  - apply Nat.leb_le. lia.
Qed.

(* ===================================================================================== *)
(* wire level: every well-formed request of the grammar ParserFacts.message, parsed         *)

Definition msg_chunked (msg : message) : bool :=
  match m_framing msg with FChunked _ _ _ => true | _ => false end.

Lemma wire_request_state msg m t v u :
  message_ok DEFAULT_ALLOWED_URL_SCHEMES msg -> m_start msg = ReqLine m t v u ->
  NoDup (lkeys (all_hdrs msg)) -> canonical_length false msg ->
  exists p, parse (new_parser REQUEST_PARSER) (render msg) = Ok p /\ state p = COMPLETE /\
    ty p = REQUEST_PARSER /\ method p = Some m /\ tok m /\ version p = Some v /\ ~ In CR v /\
    tok t /\ from_bytes DEFAULT_ALLOWED_URL_SCHEMES t = Ok u /\ purl p = Some u /\
    is_https_tunnel p = bytes_eqb m CONNECT /\
    (host p, port p, path p) = line_attributes (bytes_eqb m CONNECT) u /\
    headers p = lift_headers (all_hdrs msg) /\ wfhP (all_hdrs msg) /\
    framing_consistent p (all_hdrs msg) /\ is_chunked_encoded p = msg_chunked msg.
Proof.
  intros Hm Hs Hn Hc.
  assert (Ht : tail_ok msg []) by (unfold tail_ok; destruct (m_start msg); destruct (m_framing msg); exact I || reflexivity).
  pose proof (complete_at_end _ msg [] Hm Ht) as P. rewrite app_nil_r in P.
  assert (Ety : msg_type msg = REQUEST_PARSER) by (unfold msg_type; now rewrite Hs).
  rewrite Ety in P. set (p := ParserFacts.expected msg []) in *.
  destruct (expected_fields msg []) as (F1 & F2 & _ & F4 & F5 & F6). fold p in F1, F2, F4, F5, F6.
  rewrite Hs in F6. cbv zeta in F6. destruct F6 as (G1 & G2 & G3 & G4 & G5 & _ & _).
  assert (Hso : start_ok DEFAULT_ALLOWED_URL_SCHEMES (ReqLine m t v u)) by (rewrite <- Hs; apply Hm).
  destruct Hso as (Tm & Tt & Tv & Hu).
  exists p.
  split; [exact P|]. split; [exact F1|]. split; [unfold p; rewrite expected_ty; exact Ety|].
  split; [exact G1|]. split; [exact Tm|]. split; [exact G3|]. split; [exact Tv|]. split; [exact Tt|].
  split; [exact Hu|]. split; [exact G2|]. split; [exact G4|]. split; [exact G5|].
  split; [rewrite F4; apply add_all_lift, Hn|].
  split; [apply (all_hdrs_wfhP _ msg Hm Hn)|].
  split; [now apply (expected_framing_consistent DEFAULT_ALLOWED_URL_SCHEMES)|].
  unfold p. apply expected_chunked.
Qed.

(* C15_build_disable_headers / C15_build_host_override on the wire: parse, build(D, host=ho), parse *)
Theorem wire_rebuild_origin ua D ho msg m t v u :
  message_ok DEFAULT_ALLOWED_URL_SCHEMES msg -> m_start msg = ReqLine m t v u ->
  NoDup (lkeys (all_hdrs msg)) -> m <> [] -> v <> [] ->
  (u_remainder u = None \/ u_remainder u = Some [] \/
   exists r, u_remainder u = Some (SLASH :: r) /\ tok (SLASH :: r) /\ match r with x :: _ => x <> SLASH | [] => True end) ->
  canonical_length false msg ->
  (mem_bytes TRANSFER_ENCODING D = true -> msg_chunked msg = false) ->
  match ho with Some hv => value_ok hv | None => True end ->
  exists p raw p',
    parse (new_parser REQUEST_PARSER) (render msg) = Ok p /\ state p = COMPLETE /\
    build ua p D false ho = Ok raw /\
    parse (new_parser REQUEST_PARSER) raw = Ok p' /\ state p' = COMPLETE /\ buffer p' = None /\
    method p' = method p /\ version p' = version p /\ path p' = Some (path0 p) /\
    headers p' = lift_headers (rebuilt_hs D ho (all_hdrs msg) ++ readded_D p D) /\
    bodyb p' = bodyb p /\ is_chunked_encoded p' = is_chunked_encoded p.
Proof.
  intros Hm Hs Hn Hm1 Hv1 Hp Hc Hg Hho.
  destruct (wire_request_state msg m t v u Hm Hs Hn Hc)
    as (p & P & S0 & Ht & Em & Tm & Ev & Tv & Tt & Hu & Eu & Etun & Eline & Hh & Hw & Hf & Ech).
  assert (Hpath : path p = u_remainder u).
  { pose proof (f_equal snd Eline) as X. cbn [snd] in X. rewrite X. reflexivity. }
  assert (Hpg : path_guard p).
  { unfold path_guard. rewrite Hpath. destruct Hp as [Hp|[Hp|(r & Hp & Hp1 & Hp2)]]; rewrite Hp; [now left|now left|].
    right. exists r. repeat split; assumption || apply Hp1. }
  assert (Hg' : te_guard p D) by (intros M; rewrite Ech; now apply Hg).
  destruct (rebuild_origin_state ua p D ho m v _ Ht Em Hm1 Tm Ev Hv1 Tv Hpg Hh Hw Hf Hg' Hho)
    as (raw & p' & B & P' & R1 & R2 & R3 & R4 & R5 & R6 & R7 & R8 & R9).
  exists p, raw, p'. repeat apply conj; try assumption; congruence.
Qed.

(* ---- for_proxy on the wire: the target is a rendering of the C14 grammar (Http/UrlSpec.v) ---- *)
Definition target_port (c : bool) (tg : target) : N :=
  match tg with
  | Absolute _ _ (Some q) _ => digits_val q
  | Absolute _ _ None _ => if c then 443 else 80
  | Authority _ q => digits_val q
  | Origin _ => 0
  end.
Definition target_host (tg : target) : option UrlSpec.host :=
  match tg with Absolute _ h _ _ => Some h | Authority h _ => Some h | Origin _ => None end.
Definition target_path (tg : target) : option bytes :=
  match tg with Absolute _ _ _ pa => pa | Authority _ _ => None | Origin p => Some p end.

Lemma tok_app_inv a b : tok (a ++ b) -> tok a /\ tok b.
Proof. unfold tok. rewrite !not_in_app. tauto. Qed.

Lemma target_facts c tg h u :
  wf_target tg = true -> target_host tg = Some h -> tok (render_target tg) ->
  from_bytes DEFAULT_ALLOWED_URL_SCHEMES (render_target tg) = Ok u ->
  wf_host h = true /\ tok (host_text h) /\ wf_port (dec_of_N (target_port c tg)) = true /\
  scheme_ok (u_scheme u) /\
  line_attributes c u = (Some (host_text h), Some (Z.of_N (target_port c tg)), target_path tg) /\
  match target_path tg with Some pa => starts_with_slash pa = true /\ tok pa | None => True end.
Proof.
  destruct tg as [pa|ui hh pt pa|hh q]; cbn [wf_target target_host render_target target_port target_path];
    intros W Eh Tt Hu; [discriminate| |]; inversion Eh; subst hh.
  - apply andb_true_iff in W as [W Hpa]. apply andb_true_iff in W as [W Hpt]. apply andb_true_iff in W as [Hui Hh].
    assert (Hui' : match ui with Some u0 => wf_userinfo u0 = true | None => True end) by (destruct ui; auto).
    assert (Hpt' : match pt with Some q => wf_port q = true | None => True end) by (destruct pt; auto).
    assert (Hpa' : match pa with Some q => starts_with_slash q = true | None => True end) by (destruct pa; auto).
    replace (render_userinfo ui ++ host_text h ++ render_port pt ++ render_path pa)
      with ((render_userinfo ui ++ host_text h ++ render_port pt) ++ render_path pa) in Hu, Tt
      by (rewrite <- !app_assoc; reflexivity).
    rewrite from_bytes_http in Hu; [|rewrite not_in_app; split;
      [now apply userinfo_no_slash|apply (hostport_no_at h pt Hh Hpt')]|exact Hpa'].
    rewrite (parse_authority_wf ui h pt Hui' Hh Hpt') in Hu. cbn [bind] in Hu. inversion Hu; subst u. clear Hu.
    apply tok_app_inv in Tt as [_ Tt]. apply tok_app_inv in Tt as [Tt Tpa].
    apply tok_app_inv in Tt as [_ Tt]. apply tok_app_inv in Tt as [Th _].
    cbn [u_scheme]. unfold line_attributes. cbn [u_port u_hostname u_remainder].
    repeat apply conj.
    + exact Hh.
    + apply Th.
    + apply Th.
    + destruct pt as [q|]; [now apply wf_port_canonical|destruct c; reflexivity].
    + right. now left.
    + destruct pt as [q|]; [reflexivity|destruct c; reflexivity].
    + destruct pa as [pa|]; [|exact I]. cbn [render_path] in Tpa. split; [exact Hpa|exact Tpa].
  - apply andb_true_iff in W as [Hh Hq].
    pose proof (wf_host_facts h Hh) as F.
    rewrite from_bytes_authority_form in Hu.
    + pose proof (parse_authority_wf None h (Some q) I Hh Hq) as Hpa.
      cbn [render_userinfo render_port app ui_user ui_pass] in Hpa. rewrite Hpa in Hu. cbn [bind] in Hu.
      inversion Hu; subst u. clear Hu.
      apply tok_app_inv in Tt as [Th _].
      cbn [u_scheme]. unfold line_attributes. cbn [u_port u_hostname u_remainder].
      repeat apply conj; try exact I.
      * exact Hh.
      * apply Th.
      * apply Th.
      * now apply wf_port_canonical.
      * now left.
      * reflexivity.
    + destruct (host_text h) eqn:E; [exfalso; now apply (hf_ne h F)|discriminate].
    + destruct (wf_port_facts q Hq) as (_ & Hps & _ & _).
      rewrite not_in_app. split; [apply F|]. intros [E|Hi]; [discriminate|contradiction].
Qed.

(* C15_build_for_proxy on the wire *)
Theorem wire_rebuild_proxy ua D ho msg m tg v u h :
  message_ok DEFAULT_ALLOWED_URL_SCHEMES msg -> m_start msg = ReqLine m (render_target tg) v u ->
  wf_target tg = true -> target_host tg = Some h -> 0 < target_port (bytes_eqb m CONNECT) tg ->
  NoDup (lkeys (all_hdrs msg)) -> m <> [] -> v <> [] ->
  canonical_length false msg ->
  (mem_bytes TRANSFER_ENCODING D = true -> msg_chunked msg = false) ->
  match ho with Some hv => value_ok hv | None => True end ->
  exists p raw p',
    parse (new_parser REQUEST_PARSER) (render msg) = Ok p /\ state p = COMPLETE /\
    host p = Some (host_text h) /\ port p = Some (Z.of_N (target_port (bytes_eqb m CONNECT) tg)) /\
    path p = target_path tg /\
    build ua p D true ho = Ok raw /\
    parse (new_parser REQUEST_PARSER) raw = Ok p' /\ state p' = COMPLETE /\ buffer p' = None /\
    method p' = method p /\ version p' = version p /\ is_https_tunnel p' = is_https_tunnel p /\
    host p' = host p /\ port p' = port p /\
    path p' = (if bytes_eqb m CONNECT then None else Some (path0 p)) /\
    headers p' = lift_headers (rebuilt_hs D ho (all_hdrs msg) ++ readded_D p D) /\
    bodyb p' = bodyb p /\ is_chunked_encoded p' = is_chunked_encoded p.
Proof.
  intros Hm Hs Wt Eh Hn0 Hn Hm1 Hv1 Hc Hg Hho.
  destruct (wire_request_state msg m _ v u Hm Hs Hn Hc)
    as (p & P & S0 & Ht & Em & Tm & Ev & Tv & Tt & Hu & Eu & Etun & Eline & Hh & Hw & Hf & Ech).
  destruct (target_facts (bytes_eqb m CONNECT) tg h u Wt Eh Tt Hu) as (Hwh & Th & Hq & Hsch & Hla & Hpa).
  rewrite Hla in Eline.
  pose proof (f_equal snd Eline) as Epath. cbn [snd] in Epath.
  pose proof (f_equal (fun x => fst (fst x)) Eline) as Ehost. cbn [fst] in Ehost.
  pose proof (f_equal (fun x => snd (fst x)) Eline) as Eport. cbn [fst snd] in Eport.
  assert (Hpt : path_tok p).
  { unfold path_tok. rewrite Epath. destruct (target_path tg) as [[|x pa]|]; [now left| |now left].
    destruct Hpa as [Hs1 Hs2]. cbn [starts_with_slash] in Hs1. apply N.eqb_eq in Hs1. subst x.
    right. exists pa. split; [reflexivity|exact Hs2]. }
  assert (Hg' : te_guard p D) by (intros M; rewrite Ech; now apply Hg).
  destruct (rebuild_proxy_state ua p D ho m v _ h _ u Ht Em Hm1 Tm Ev Hv1 Tv Etun Ehost Hwh Th Eport Hn0 Hq Eu Hsch
              Hpt Hh Hw Hf Hg' Hho)
    as (raw & p' & B & P' & R1 & R2 & R3 & R4 & R5 & R6 & R7 & R8 & R9 & R10 & R11).
  exists p, raw, p'. rewrite Etun in R8.
  repeat apply conj; try assumption; congruence.
Qed.

(* ===================================================================================== *)
(* the call sites                                                                          *)

Corollary forward_call_site ua D r2 : rebuildable_req r2 = true -> te_guard r2 D ->
  exists raw p', forward_call ua D r2 = Ok raw /\
    parse (new_parser REQUEST_PARSER) raw = Ok p' /\ state p' = COMPLETE /\ buffer p' = None /\
    method p' = method r2 /\ version p' = version r2 /\ path p' = Some (path0 r2) /\ host p' = None /\
    headers p' = lift_headers (minus_headers D (unlift (headers r2)) ++ readded_D r2 D) /\
    bodyb p' = bodyb r2 /\ is_chunked_encoded p' = is_chunked_encoded r2.
Proof. exact (build_disable_headers ua r2 D). Qed.

Corollary reverse_call_site ua rw hostname port p : rebuildable_req p = true ->
  match reverse_host_arg rw hostname port with Some hv => value_ok hv | None => True end ->
  exists raw p', reverse_call ua rw hostname port p = Ok raw /\
    parse (new_parser REQUEST_PARSER) raw = Ok p' /\ state p' = COMPLETE /\ buffer p' = None /\
    method p' = method p /\ version p' = version p /\ path p' = Some (path0 p) /\ host p' = None /\
    headers p' = lift_headers (override_host (reverse_host_arg rw hostname port) (unlift (headers p))) /\
    bodyb p' = bodyb p /\ is_chunked_encoded p' = is_chunked_encoded p.
Proof.
  intros R Hv. unfold reverse_call.
  assert (Hg : te_guard p []) by (intros C; discriminate C).
  destruct (rebuild_origin_bool ua p [] (reverse_host_arg rw hostname port) R Hg Hv) as (raw & p' & H).
  exists raw, p'. unfold rebuilt_hs in H. rewrite minus_headers_nil, (readded_D_nil p [] eq_refl), app_nil_r in H. exact H.
Qed.

(* a host name without CR whose first and last byte are no white space, followed by ":" and a port number,
   is a value the parser reads back unchanged *)
Lemma value_ok_hostport hn n : hn <> [] -> ~ In CR hn -> is_ws (hd 0 hn) = false ->
  value_ok (hn ++ [COLON] ++ bytes_of_Z (Z.of_N n)).
Proof.
  intros Hne Hcr Hws. rewrite bytes_of_Z_N. destruct (dec_of_N_spec n) as (D1 & D2 & _).
  destruct hn as [|x t]; [congruence|]. cbn [hd] in Hws. split.
  - apply strip_ends. cbn [app]. split; [exact Hws|].
    assert (L : forall (a b : bytes) y, last (a ++ b ++ [y]) 0 = y) by (intros a b y; rewrite app_assoc; apply last_last).
    destruct (exists_last D1) as (l' & y & E). rewrite E.
    change (x :: t ++ COLON :: l' ++ [y]) with ((x :: t) ++ ([COLON] ++ l') ++ [y]). rewrite L.
    apply digit_not_ws. apply (forallb_In _ _ _ D2). rewrite E. apply in_or_app. right. now left.
  - rewrite !not_in_app. split; [exact Hcr|]. split; [intros [C|[]]; discriminate C|].
    apply (tok_dec n).
Qed.

Corollary proxy_pool_call_site ua msg m tg v u h :
  message_ok DEFAULT_ALLOWED_URL_SCHEMES msg -> m_start msg = ReqLine m (render_target tg) v u ->
  wf_target tg = true -> target_host tg = Some h -> 0 < target_port (bytes_eqb m CONNECT) tg ->
  NoDup (lkeys (all_hdrs msg)) -> m <> [] -> v <> [] ->
  canonical_length false msg ->
  exists p raw p',
    parse (new_parser REQUEST_PARSER) (render msg) = Ok p /\ state p = COMPLETE /\
    host p = Some (host_text h) /\ port p = Some (Z.of_N (target_port (bytes_eqb m CONNECT) tg)) /\
    path p = target_path tg /\
    proxy_pool_call ua p = Ok raw /\
    parse (new_parser REQUEST_PARSER) raw = Ok p' /\ state p' = COMPLETE /\ buffer p' = None /\
    method p' = method p /\ version p' = version p /\ is_https_tunnel p' = is_https_tunnel p /\
    host p' = host p /\ port p' = port p /\
    path p' = (if bytes_eqb m CONNECT then None else Some (path0 p)) /\
    headers p' = headers p /\ bodyb p' = bodyb p /\ is_chunked_encoded p' = is_chunked_encoded p.
Proof.
  intros Hm Hs Wt Eh Hn0 Hn Hm1 Hv1 Hc.
  destruct (wire_rebuild_proxy ua [] None msg m tg v u h Hm Hs Wt Eh Hn0 Hn Hm1 Hv1 Hc ltac:(intros C; discriminate C) I)
    as (p & raw & p' & P & S0 & E1 & E2 & E3 & B & P' & R1 & R2 & R3 & R4 & R5 & R6 & R7 & R8 & R9 & R10 & R11).
  exists p, raw, p'. unfold rebuilt_hs in R9.
  rewrite minus_headers_nil, (readded_D_nil p [] eq_refl), app_nil_r in R9. cbn [override_host] in R9.
  destruct (wire_request_state msg m _ v u Hm Hs Hn Hc) as (p2 & P2 & _ & _ & _ & _ & _ & _ & _ & _ & _ & _ & _ & Hh2 & _).
  assert (p2 = p) by congruence. subst p2.
  repeat apply conj; try assumption. congruence.
Qed.

(* ===================================================================================== *)
(* refutations of the unguarded statements, and non-vacuity                               *)

(* (1) disable_headers = [transfer-encoding] on a chunked request: the header goes, but the body is still
   chunk-encoded (self._is_chunked_encoded stays set) and build_http_request announces the ENCODED bytes with a
   Content-Length: the recipient reads "5 CRLF hello CRLF 0 CRLF CRLF" as the body.  The guard [te_guard]
   of C15_build_disable_headers cannot be dropped. *)
Definition ex_chunked_hello : bytes :=
  bs "POST /x HTTP/1.1" ++ CRLF ++ bs "Host: a" ++ CRLF ++ bs "Transfer-Encoding: chunked" ++ CRLF ++ CRLF ++
  bs "5" ++ CRLF ++ bs "hello" ++ CRLF ++ bs "0" ++ CRLF ++ CRLF.

Lemma build_disable_te_refuted :
  exists p raw p',
    parse (new_parser REQUEST_PARSER) ex_chunked_hello = Ok p /\ state p = COMPLETE /\
    rebuildable_req p = true /\ body p = Some (bs "hello") /\
    build ex_ua p [TRANSFER_ENCODING] false None = Ok raw /\
    raw = bs "POST /x HTTP/1.1" ++ CRLF ++ bs "Host: a" ++ CRLF ++ bs "Content-Length: 15" ++ CRLF ++ CRLF ++
          bs "5" ++ CRLF ++ bs "hello" ++ CRLF ++ bs "0" ++ CRLF ++ CRLF /\
    parse (new_parser REQUEST_PARSER) raw = Ok p' /\ state p' = COMPLETE /\
    is_chunked_encoded p' = false /\
    body p' = Some (bs "5" ++ CRLF ++ bs "hello" ++ CRLF ++ bs "0" ++ CRLF ++ CRLF).
Proof.
  do 3 eexists. repeat apply conj.
  all: try (lazy; reflexivity).
Qed.

(* (2) disable_headers = [content-length] on a request with a body: the client's header goes, and
   build_http_request announces the body again — canonical spelling, at the end.  "Exactly the header map
   minus D" is false here; the theorem states the re-added header ([readded_D]). *)
Definition ex_post_cl : bytes :=
  bs "POST /x HTTP/1.1" ++ CRLF ++ bs "content-length: 5" ++ CRLF ++ bs "Host: a" ++ CRLF ++ bs "X-Id: 7" ++ CRLF ++ CRLF ++
  bs "hello".

Lemma build_disable_cl_readded :
  exists p raw p',
    parse (new_parser REQUEST_PARSER) ex_post_cl = Ok p /\ rebuildable_req p = true /\
    te_guard p [CONTENT_LENGTH; bs "x-id"] /\
    build ex_ua p [CONTENT_LENGTH; bs "x-id"] false None = Ok raw /\
    raw = bs "POST /x HTTP/1.1" ++ CRLF ++ bs "Host: a" ++ CRLF ++ bs "Content-Length: 5" ++ CRLF ++ CRLF ++ bs "hello" /\
    parse (new_parser REQUEST_PARSER) raw = Ok p' /\
    headers p' = lift_headers [(bs "Host", bs "a"); (bs "Content-Length", bs "5")] /\
    minus_headers [CONTENT_LENGTH; bs "x-id"] (unlift (headers p)) = [(bs "Host", bs "a")] /\
    readded_D p [CONTENT_LENGTH; bs "x-id"] = [(bs "Content-Length", bs "5")].
Proof.
  do 3 eexists. repeat apply conj.
  all: try (lazy; reflexivity).
Qed.

(* non-vacuity of C15_build_disable_headers(_exact), and the casing rule: the entry "X-Id" (not lower-case)
   disables nothing, "x-id" removes the header the client spelled "X-Id"; "not-there" is harmless *)
Lemma ex_disable_headers :
  exists p, parse (new_parser REQUEST_PARSER) ex_post_cl = Ok p /\ rebuildable_req p = true /\
    mem_bytes TRANSFER_ENCODING [bs "x-id"; bs "not-there"] = false /\
    mem_bytes CONTENT_LENGTH [bs "x-id"; bs "not-there"] = false /\
    minus_headers [bs "x-id"; bs "not-there"] (unlift (headers p)) = [(bs "content-length", bs "5"); (bs "Host", bs "a")] /\
    minus_headers [bs "X-Id"] (unlift (headers p)) = unlift (headers p) /\
    build ex_ua p [bs "x-id"; bs "not-there"] false None =
      Ok (bs "POST /x HTTP/1.1" ++ CRLF ++ bs "content-length: 5" ++ CRLF ++ bs "Host: a" ++ CRLF ++ CRLF ++ bs "hello") /\
    build ex_ua p [bs "X-Id"] false None = Ok ex_post_cl.
Proof.
  eexists. repeat apply conj.
  all: first [vm_compute; reflexivity | lazy; reflexivity].
Qed.

(* non-vacuity of C15_build_host_override: the client's spelling "HOST" and its position are kept; a request
   without a Host header gets none *)
Definition ex_get_host : bytes :=
  bs "GET /p HTTP/1.1" ++ CRLF ++ bs "Accept: */*" ++ CRLF ++ bs "HOST: public.example" ++ CRLF ++ bs "X-Id: 7" ++ CRLF ++ CRLF.
Definition ex_get_nohost : bytes := bs "GET /p HTTP/1.0" ++ CRLF ++ bs "Accept: */*" ++ CRLF ++ CRLF.

Lemma ex_host_override :
  exists p q, parse (new_parser REQUEST_PARSER) ex_get_host = Ok p /\ rebuildable_req p = true /\
    value_ok (bs "backend.internal:8080") /\
    reverse_host_arg true (bs "backend.internal") (Some 8080%Z) = Some (bs "backend.internal:8080") /\
    build ex_ua p [] false (Some (bs "backend.internal:8080")) =
      Ok (bs "GET /p HTTP/1.1" ++ CRLF ++ bs "Accept: */*" ++ CRLF ++ bs "HOST: backend.internal:8080" ++ CRLF ++
          bs "X-Id: 7" ++ CRLF ++ CRLF) /\
    parse (new_parser REQUEST_PARSER) ex_get_nohost = Ok q /\ rebuildable_req q = true /\
    build ex_ua q [] false (Some (bs "backend.internal:8080")) = Ok ex_get_nohost.
Proof.
  do 2 eexists. repeat apply conj.
  all: try (lazy; reflexivity).
  intros C. vm_compute in C. intuition discriminate.
Qed.

(* non-vacuity of C15_build_for_proxy and the exact targets: userinfo is not re-emitted, the default port is
   made explicit, a scheme-less target gets "http" (fix 68a74df), a CONNECT keeps the authority-form,
   an https:// target of a plain request keeps its scheme with the port HttpParser derived (80) *)
Definition fp_target (raw : bytes) : result bytes :=
  do p <- parse (new_parser REQUEST_PARSER) raw; build_target p true.

Lemma ex_for_proxy_targets :
  fp_target (bs "GET http://user:pw@[::1]:8080/x?y HTTP/1.1" ++ CRLF ++ CRLF) = Ok (bs "http://[::1]:8080/x?y") /\
  fp_target (bs "GET http://example.com HTTP/1.1" ++ CRLF ++ CRLF) = Ok (bs "http://example.com:80/") /\
  fp_target (bs "GET example.com:8080 HTTP/1.1" ++ CRLF ++ CRLF) = Ok (bs "http://example.com:8080/") /\
  fp_target (bs "CONNECT example.com:443 HTTP/1.1" ++ CRLF ++ CRLF) = Ok (bs "example.com:443") /\
  fp_target (bs "GET https://example.com/a HTTP/1.1" ++ CRLF ++ CRLF) = Ok (bs "https://example.com:80/a") /\
  fp_target (bs "GET http://h//x HTTP/1.1" ++ CRLF ++ CRLF) = Ok (bs "http://h:80//x") /\
  (* the asserts: origin-form names no host; port 0 is falsy *)
  fp_target (bs "GET /x HTTP/1.1" ++ CRLF ++ bs "Host: h" ++ CRLF ++ CRLF) = Err AssertionError /\
  fp_target (bs "GET http://h:0/ HTTP/1.1" ++ CRLF ++ CRLF) = Err AssertionError.
Proof. repeat apply conj; lazy; reflexivity. Qed.

Definition ex_abs_target : target :=
  Absolute (Some (bs "user", Some (bs "pw"))) (IPv6 (bs "::1")) (Some (bs "8080")) (Some (bs "/x?y")).
Definition ex_abs_msg : message :=
  {| m_start := ReqLine (bs "POST") (render_target ex_abs_target) (bs "HTTP/1.1")
                  {| u_scheme := Some HTTP_PROTO; u_username := Some (bs "user"); u_password := Some (bs "pw");
                     u_hostname := Some (bs "[::1]"); u_port := Some 8080%Z; u_remainder := Some (bs "/x?y") |};
     m_hs1 := [(bs "Host", bs "[::1]:8080")];
     m_framing := FLength (bs "content-length") (bs "5") (bs "hello");
     m_hs2 := [(bs "Proxy-Connection", bs "keep-alive")] |}.

Lemma ex_for_proxy_hypotheses :
  message_ok DEFAULT_ALLOWED_URL_SCHEMES ex_abs_msg /\ wf_target ex_abs_target = true /\
  target_host ex_abs_target = Some (IPv6 (bs "::1")) /\ 0 < target_port false ex_abs_target /\
  NoDup (lkeys (all_hdrs ex_abs_msg)) /\ canonical_length false ex_abs_msg /\
  render ex_abs_msg = bs "POST http://user:pw@[::1]:8080/x?y HTTP/1.1" ++ CRLF ++ bs "Host: [::1]:8080" ++ CRLF ++
                      bs "content-length: 5" ++ CRLF ++ bs "Proxy-Connection: keep-alive" ++ CRLF ++ CRLF ++ bs "hello" /\
  exists p, parse (new_parser REQUEST_PARSER) (render ex_abs_msg) = Ok p /\
    build ex_ua p [] true None =
      Ok (bs "POST http://[::1]:8080/x?y HTTP/1.1" ++ CRLF ++ bs "Host: [::1]:8080" ++ CRLF ++
          bs "content-length: 5" ++ CRLF ++ bs "Proxy-Connection: keep-alive" ++ CRLF ++ CRLF ++ bs "hello").
Proof.
  split.
  { unfold message_ok, ex_abs_msg. cbn [m_start m_hs1 m_framing m_hs2 start_ok ParserFacts.framing_ok].
    assert (T : forall l, no_sp l && no_cr l = true -> tok l).
    { intros l H. apply andb_true_iff in H as [H1 H2]. split; [now apply no_sp_sp|now apply no_cr_cr]. }
    assert (Hh : forall kv, ok_header kv = true -> hdr_ok kv) by (intros kv; apply ok_header_hdr_ok).
    assert (O : forall kv, ok_header kv = true -> lower (fst kv) <> CONTENT_LENGTH -> lower (fst kv) <> TRANSFER_ENCODING ->
                Forall other_ok [kv]).
    { intros kv H1 H2 H3. constructor; [|constructor]. split; [now apply Hh|]. now split. }
    split; [|split; [|split]].
    - split; [apply T; vm_compute; reflexivity|]. split; [apply T; vm_compute; reflexivity|].
      split; [apply no_cr_cr; vm_compute; reflexivity|]. vm_compute. reflexivity.
    - apply O; [vm_compute; reflexivity| |]; intros C; vm_compute in C; discriminate C.
    - split; [apply Hh; vm_compute; reflexivity|]. split; vm_compute; reflexivity.
    - apply O; [vm_compute; reflexivity| |]; intros C; vm_compute in C; discriminate C. }
  split; [vm_compute; reflexivity|]. split; [reflexivity|]. split; [vm_compute; reflexivity|].
  split; [apply nodup_ci_NoDup; vm_compute; reflexivity|].
  split; [unfold canonical_length, ex_abs_msg; cbn [m_framing]; split; vm_compute; reflexivity|].
  split; [vm_compute; reflexivity|].
  eexists. split; [vm_compute; reflexivity|]. vm_compute. reflexivity.
Qed.
