(* Model of proxy/http/parser/parser.py (HttpParser) after the repaired Python, function by
   function; --enable-proxy-protocol off (the default).  Definitions only. *)
From PM Require Import Lib.Bytes Lib.PyStr Http.Url Http.Chunk.
From Coq Require Import ZArith.

(* httpParserStates *)
Definition INITIALIZED : N := 1.
Definition LINE_RCVD : N := 2.
Definition RCVING_HEADERS : N := 3.
Definition HEADERS_COMPLETE : N := 4.
Definition RCVING_BODY : N := 5.
Definition COMPLETE : N := 6.

Inductive ptype := REQUEST_PARSER | RESPONSE_PARSER.
Definition is_request (t : ptype) : bool := match t with REQUEST_PARSER => true | _ => false end.

Definition hdict := dict (bytes * bytes).   (* lower-cased name -> (original name, value) *)

Record parser := {
  ty : ptype;
  state : N;
  host : option bytes; port : option Z; path : option bytes;
  method : option bytes; code : option bytes; reason : option bytes; version : option bytes;
  total_size : N;
  buffer : option bytes;
  headers : option hdict;
  body : option bytes;
  chunk : option chunkp;
  purl : option url;
  is_chunked_encoded : bool;
  content_expected : bool;
  is_https_tunnel : bool }.

Definition new_parser (t : ptype) : parser :=
  {| ty := t; state := INITIALIZED; host := None; port := None; path := None; method := None;
     code := None; reason := None; version := None; total_size := 0; buffer := None;
     headers := None; body := None; chunk := None; purl := None;
     is_chunked_encoded := false; content_expected := false; is_https_tunnel := false |}.

(* ---- field updates (records are immutable; one setter per attribute the code assigns) ---- *)
Definition set_state (p : parser) (s : N) : parser :=
  {| ty := ty p; state := s; host := host p; port := port p; path := path p; method := method p;
     code := code p; reason := reason p; version := version p; total_size := total_size p;
     buffer := buffer p; headers := headers p; body := body p; chunk := chunk p; purl := purl p;
     is_chunked_encoded := is_chunked_encoded p; content_expected := content_expected p;
     is_https_tunnel := is_https_tunnel p |}.
Definition set_body (p : parser) (b : option bytes) : parser :=
  {| ty := ty p; state := state p; host := host p; port := port p; path := path p; method := method p;
     code := code p; reason := reason p; version := version p; total_size := total_size p;
     buffer := buffer p; headers := headers p; body := b; chunk := chunk p; purl := purl p;
     is_chunked_encoded := is_chunked_encoded p; content_expected := content_expected p;
     is_https_tunnel := is_https_tunnel p |}.
Definition set_chunk (p : parser) (c : option chunkp) : parser :=
  {| ty := ty p; state := state p; host := host p; port := port p; path := path p; method := method p;
     code := code p; reason := reason p; version := version p; total_size := total_size p;
     buffer := buffer p; headers := headers p; body := body p; chunk := c; purl := purl p;
     is_chunked_encoded := is_chunked_encoded p; content_expected := content_expected p;
     is_https_tunnel := is_https_tunnel p |}.
Definition set_headers (p : parser) (h : option hdict) (chunked expected : bool) : parser :=
  {| ty := ty p; state := state p; host := host p; port := port p; path := path p; method := method p;
     code := code p; reason := reason p; version := version p; total_size := total_size p;
     buffer := buffer p; headers := h; body := body p; chunk := chunk p; purl := purl p;
     is_chunked_encoded := chunked; content_expected := expected;
     is_https_tunnel := is_https_tunnel p |}.
Definition set_buffer_size (p : parser) (b : option bytes) (sz : N) : parser :=
  {| ty := ty p; state := state p; host := host p; port := port p; path := path p; method := method p;
     code := code p; reason := reason p; version := version p; total_size := sz;
     buffer := b; headers := headers p; body := body p; chunk := chunk p; purl := purl p;
     is_chunked_encoded := is_chunked_encoded p; content_expected := content_expected p;
     is_https_tunnel := is_https_tunnel p |}.

(* ---- headers ---- *)
Definition has_header (p : parser) (key : bytes) : bool :=
  match headers p with None => false | Some h => dict_has (lower key) h end.
Definition header (p : parser) (key : bytes) : result bytes :=
  match headers p with
  | None => Err KeyError
  | Some h => match dict_get (lower key) h with Some (_, v) => Ok v | None => Err KeyError end
  end.
Definition add_header_d (h : option hdict) (key value : bytes) : hdict :=
  dict_set (lower key) (key, value) (match h with Some d => d | None => [] end).

Definition CONTENT_LENGTH := bytes_of_string "content-length".
Definition TRANSFER_ENCODING := bytes_of_string "transfer-encoding".
Definition CHUNKED := bytes_of_string "chunked".
Definition CONNECT := bytes_of_string "CONNECT".
Definition HTTP_1_1 := bytes_of_string "HTTP/1.1".
Definition HTTP_1_0 := bytes_of_string "HTTP/1.0".

(* HttpParser._process_header *)
Definition process_header (p : parser) (raw : bytes) : result parser :=
  let '(key, value) :=
    match split_once [COLON] raw with
    | None => (strip raw, [])
    | Some (k, v) => (strip k, strip v)
    end in
  let h := add_header_d (headers p) key value in
  let k := lower key in
  if bytes_eqb k CONTENT_LENGTH then
    do n <- int10 value;
    Ok (set_headers p (Some h) (is_chunked_encoded p) (0 <? n)%Z)
  else if bytes_eqb k TRANSFER_ENCODING && bytes_eqb (lower value) CHUNKED then
    Ok (set_headers p (Some h) true (content_expected p))
  else Ok (set_headers p (Some h) (is_chunked_encoded p) (content_expected p)).

(* HttpParser._process_headers: the while True loop; returns (more, raw', self') *)
Fixpoint process_headers (fuel : nat) (p : parser) (raw : bytes) : result (bool * bytes * parser) :=
  match fuel with
  | O => Err OutOfFuel
  | S f =>
      match split_once CRLF raw with
      | None => Ok (false, raw, p)
      | Some (line, rest) =>
          do p' <-
            (if (state p =? LINE_RCVD) || (state p =? RCVING_HEADERS) then
               if match strip line with [] => true | _ => false end
               then Ok (set_state p HEADERS_COMPLETE)
               else process_header (set_state p RCVING_HEADERS) line
             else Ok p);
          if match rest with [] => true | _ => false end || (state p' =? HEADERS_COMPLETE)
          then Ok (negb (Nat.eqb (length rest) 0), rest, p')
          else process_headers f p' rest
      end
  end.

(* HttpParser._set_line_attributes + set_url + _process_line for one line *)
Definition set_line (p : parser) (m : option bytes) (u : option url) (tunnel : bool)
    (cd rs ver : option bytes) (h : option bytes) (pt : option Z) (pa : option bytes) : parser :=
  {| ty := ty p; state := LINE_RCVD; host := h; port := pt; path := pa; method := m;
     code := cd; reason := rs; version := ver; total_size := total_size p;
     buffer := buffer p; headers := headers p; body := body p; chunk := chunk p; purl := u;
     is_chunked_encoded := is_chunked_encoded p; content_expected := content_expected p;
     is_https_tunnel := tunnel |}.

Definition process_line (allowed : list bytes) (p : parser) (raw : bytes) : result (bool * bytes * parser) :=
  match split_once CRLF raw with
  | None => Ok (false, raw, p)
  | Some (line, rest) =>
      let parts := splitn [SP] 2 line in
      if is_request (ty p) then
        match parts with
        | [m; target; ver] =>
            let tunnel := bytes_eqb m CONNECT || is_https_tunnel p in
            do u <- from_bytes allowed target;
            let '(h, pt, pa) := line_attributes tunnel u in
            Ok (negb (Nat.eqb (length rest) 0), rest,
                set_line p (Some m) (Some u) tunnel (code p) (reason p) (Some ver) h pt pa)
        | _ => Err (HttpProtocolException 2)
        end
      else
        match parts with
        | [ver; cd] =>
            Ok (negb (Nat.eqb (length rest) 0), rest,
                set_line p (method p) (purl p) (is_https_tunnel p) (Some cd) (reason p) (Some ver)
                         (host p) (port p) (path p))
        | [ver; cd; rs] =>
            Ok (negb (Nat.eqb (length rest) 0), rest,
                set_line p (method p) (purl p) (is_https_tunnel p) (Some cd) (Some rs) (Some ver)
                         (host p) (port p) (path p))
        | _ => Err IndexError
        end
  end.

(* HttpParser._process_body *)
Definition process_body (p : parser) (raw : bytes) : result (bool * bytes * parser) :=
  if is_chunked_encoded p then
    let c := match chunk p with Some c => c | None => new_chunkp end in
    do '(raw', c') <- chunk_parse c raw;
    let p1 := set_chunk p (Some c') in
    let p2 := if cstate_eqb (cst c') CCOMPLETE
              then set_state (set_body p1 (Some (cbody c'))) COMPLETE else p1 in
    Ok (false, raw', p2)
  else if content_expected p then
    let p1 := set_state p RCVING_BODY in
    let b := match body p1 with Some b => b | None => [] end in
    do cl <- header p1 CONTENT_LENGTH;
    do total <- int10 cl;
    let received := Z.of_nat (length b) in
    let b' := b ++ py_slice_to (total - received)%Z raw in
    let p2 := set_body p1 (Some b') in
    let p3 := if negb (Nat.eqb (length b') 0) && (Z.of_nat (length b') =? total)%Z
              then set_state p2 COMPLETE else p2 in
    Ok (negb (Nat.eqb (length raw) 0), py_slice_from (total - received)%Z raw, p3)
  else
    Ok (false, [], set_body (set_state p RCVING_BODY) (Some raw)).

(* the completion test made after every processor call *)
Definition maybe_complete (p : parser) (raw : bytes) : parser :=
  if (state p =? HEADERS_COMPLETE) &&
     negb (content_expected p || is_chunked_encoded p) &&
     (match raw with [] => true | _ => false end || is_request (ty p) || has_header p CONTENT_LENGTH)
  then set_state p COMPLETE else p.

(* the while loop of HttpParser.parse *)
Fixpoint parse_loop (fuel : nat) (allowed : list bytes) (more : bool) (p : parser) (raw : bytes)
  : result (bytes * parser) :=
  match fuel with
  | O => Err OutOfFuel
  | S f =>
      if more && negb (state p =? COMPLETE) then
        do '(more', raw', p') <-
          (if HEADERS_COMPLETE <=? state p then process_body p raw
           else if state p =? INITIALIZED then process_line allowed p raw
           else process_headers (S (length raw)) p raw);
        parse_loop f allowed more' (maybe_complete p' raw') raw'
      else Ok (raw, p)
  end.

Definition parse_fuel (raw : bytes) : nat := 4 + length raw.

(* HttpParser.parse(raw, allowed_url_schemes) *)
Definition parse_with (allowed : list bytes) (p : parser) (raw : bytes) : result parser :=
  let size := len raw in
  let full := match buffer p with Some b => b ++ raw | None => raw end in
  let p0 := set_buffer_size p None (total_size p + size) in
  do '(raw', p') <- parse_loop (parse_fuel full) allowed (0 <? size) p0 full;
  Ok (set_buffer_size p' (match raw' with [] => None | _ => Some raw' end) (total_size p')).

Definition parse (p : parser) (raw : bytes) : result parser :=
  parse_with DEFAULT_ALLOWED_URL_SCHEMES p raw.

(* feeding several pieces *)
Fixpoint parse_pieces (p : parser) (pieces : list bytes) : result parser :=
  match pieces with
  | [] => Ok p
  | x :: t => do p' <- parse p x; parse_pieces p' t
  end.

(* ---- properties of a parsed message used by the handler ---- *)
Definition is_complete (p : parser) : bool := state p =? COMPLETE.

(* httpProtocols: 1 UNKNOWN, 2 WEB_SERVER, 3 HTTP_PROXY (values irrelevant, only the case split) *)
Inductive hproto := UNKNOWN_PROTO | WEB_SERVER | HTTP_PROXY.
Definition http_handler_protocol (p : parser) : hproto :=
  match version p, purl p with
  | Some v, Some u =>
      if bytes_eqb v HTTP_1_1 || bytes_eqb v HTTP_1_0 then
        match host p with
        | Some _ => HTTP_PROXY
        | None => match u_hostname u with None => WEB_SERVER | Some _ => UNKNOWN_PROTO end
        end
      else UNKNOWN_PROTO
  | _, _ => UNKNOWN_PROTO
  end.

(* ---- observable state (the attributes property C03 lists) ---- *)
Definition hdr_eqb (x y : bytes * (bytes * bytes)) : bool :=
  bytes_eqb (fst x) (fst y) && bytes_eqb (fst (snd x)) (fst (snd y)) && bytes_eqb (snd (snd x)) (snd (snd y)).
Fixpoint list_eqb {A} (eqb : A -> A -> bool) (x y : list A) : bool :=
  match x, y with
  | [], [] => true
  | a :: x', c :: y' => eqb a c && list_eqb eqb x' y'
  | _, _ => false
  end.
Definition parser_obs_eqb (x y : parser) : bool :=
  (state x =? state y) &&
  option_eqb bytes_eqb (host x) (host y) && option_eqb Z.eqb (port x) (port y) &&
  option_eqb bytes_eqb (path x) (path y) && option_eqb bytes_eqb (method x) (method y) &&
  option_eqb bytes_eqb (code x) (code y) && option_eqb bytes_eqb (reason x) (reason y) &&
  option_eqb bytes_eqb (version x) (version y) && (total_size x =? total_size y) &&
  option_eqb bytes_eqb (buffer x) (buffer y) &&
  option_eqb (list_eqb hdr_eqb) (headers x) (headers y) &&
  option_eqb bytes_eqb (body x) (body y) &&
  option_eqb chunkp_eqb (chunk x) (chunk y) &&
  Bool.eqb (is_chunked_encoded x) (is_chunked_encoded y) &&
  Bool.eqb (content_expected x) (content_expected y) &&
  Bool.eqb (is_https_tunnel x) (is_https_tunnel y).
