(* Facts about the chunked-transfer decoder model (Http/Chunk.v): the loop flag is redundant,
   the fuel is sufficient, an invariant of reachable states, the segmentation law (two pieces,
   n pieces, errors included) and "complete exactly at the end" for every valid chunked stream. *)
From PM Require Import Lib.Bytes Lib.BytesFacts Lib.PyStr Http.Chunk.
From Coq Require Import ZArith Lia.

(* ------------------------------------------------------------------------------------- *)
(* small generic helpers                                                                  *)

(* len(raw) > 0 *)
Definition nz (l : bytes) : bool := negb (Nat.eqb (length l) 0).

Lemma nz_nil : nz [] = false.
Proof. reflexivity. Qed.
Lemma nz_cons x l : nz (x :: l) = true.
Proof. reflexivity. Qed.
Lemma nz_true l : nz l = true <-> l <> [].
Proof. destruct l; cbn; split; congruence. Qed.
Lemma nz_false l : nz l = false <-> l = [].
Proof. destruct l; cbn; split; congruence. Qed.
Lemma nz_app_r a b : b <> [] -> nz (a ++ b) = true.
Proof. intros H. apply nz_true. intros E. apply app_eq_nil in E. tauto. Qed.
Lemma nz_app_l a b : a <> [] -> nz (a ++ b) = true.
Proof. intros H. apply nz_true. intros E. apply app_eq_nil in E. tauto. Qed.

Lemma firstn_app_exact {A} (x y : list A) : firstn (length x) (x ++ y) = x.
Proof. rewrite firstn_app, Nat.sub_diag, firstn_all. cbn. apply app_nil_r. Qed.
Lemma skipn_app_exact {A} (x y : list A) : skipn (length x) (x ++ y) = y.
Proof. rewrite skipn_app, Nat.sub_diag, skipn_all. reflexivity. Qed.

Lemma bind_eta {A} (r : result A) : (do x <- r; Ok x) = r.
Proof. destruct r; reflexivity. Qed.

Lemma py_slice_to_pos {A} (n : Z) (l : list A) :
  (0 <= n)%Z -> py_slice_to n l = firstn (Z.to_nat n) l.
Proof.
  intros H. unfold py_slice_to. pose proof H as H'. apply Z.leb_le in H'. rewrite H'.
  destruct (Z.le_ge_cases n (Z.of_nat (length l))) as [L|L].
  - rewrite Z.min_l by exact L. reflexivity.
  - rewrite Z.min_r by lia. rewrite Nat2Z.id, firstn_all. symmetry. apply firstn_all2. lia.
Qed.
Lemma py_slice_from_pos {A} (n : Z) (l : list A) :
  (0 <= n)%Z -> py_slice_from n l = skipn (Z.to_nat n) l.
Proof.
  intros H. unfold py_slice_from. pose proof H as H'. apply Z.leb_le in H'. rewrite H'.
  destruct (Z.le_ge_cases n (Z.of_nat (length l))) as [L|L].
  - rewrite Z.min_l by exact L. reflexivity.
  - rewrite Z.min_r by lia. rewrite Nat2Z.id, skipn_all. symmetry. apply skipn_all2. lia.
Qed.

Lemma py_int_err base raw e : py_int base raw = Err e -> e = ValueError.
Proof.
  unfold py_int.
  destruct (match strip raw with [] => _ | x :: t => _ end) as [neg body].
  destruct (_ && _); [intros H; inversion H; reflexivity|].
  destruct (parse_digits _ _ _ _); intros H; inversion H; reflexivity.
Qed.

(* a line that render + find_http_line gives back unchanged: no CRLF inside, no CR at the end *)
Definition crlf_free (l : bytes) : Prop := split_once CRLF (l ++ CRLF) = Some (l, []).

Lemma crlf_free_split l rest : crlf_free l -> split_once CRLF (l ++ CRLF ++ rest) = Some (l, rest).
Proof.
  intros H. rewrite app_assoc. rewrite (split_once_app _ _ rest _ _ H). reflexivity.
Qed.

Lemma split_once_crlf_head rest : split_once CRLF (CRLF ++ rest) = Some ([], rest).
Proof. reflexivity. Qed.

Lemma split_once_no_cr sep l : (forall x, In x sep -> ~ In x l) -> sep <> [] ->
  split_once sep (l ++ sep) = Some (l, []).
Proof.
  intros H Hs. induction l as [|c t IH].
  - cbn [app]. destruct sep as [|s sep]; [congruence|].
    cbn [split_once is_prefix]. rewrite N.eqb_refl.
    pose proof (is_prefix_self_app sep []) as E. rewrite app_nil_r in E. rewrite E. cbn [andb].
    change (skipn (length (s :: sep)) (s :: sep)) with (skipn (length sep) sep).
    rewrite skipn_all. reflexivity.
  - cbn [app split_once]. destruct sep as [|s sep]; [congruence|].
    cbn [is_prefix]. destruct (N.eqb_spec s c) as [E|E].
    + exfalso. apply (H s); [left; reflexivity|left; symmetry; exact E].
    + cbn [andb]. rewrite IH; [reflexivity|].
      intros x Hx Hin. apply (H x Hx). right. exact Hin.
Qed.

(* sufficient and easy to check: no CR at all *)
Lemma crlf_free_no_cr l : ~ In CR l -> ~ In LF l -> crlf_free l.
Proof.
  intros H1 H2. apply split_once_no_cr; [|discriminate].
  intros x [E|[E|[]]]; subst; assumption.
Qed.

(* ------------------------------------------------------------------------------------- *)
(* one call of ChunkParser.process                                                        *)

Lemma cstate_eqb_complete s : cstate_eqb s CCOMPLETE = true <-> s = CCOMPLETE.
Proof. destruct s; cbn; split; congruence. Qed.
Lemma cstate_eqb_ncomplete s : cstate_eqb s CCOMPLETE = false <-> s <> CCOMPLETE.
Proof. destruct s; cbn; split; congruence. Qed.

(* both line-oriented states only look at [cchunk c ++ raw] *)
Lemma chunk_process_size c raw : cst c = WAITING_FOR_SIZE ->
  chunk_process c raw =
  match split_once CRLF (cchunk c ++ raw) with
  | None => Ok (false, [], {| cst := WAITING_FOR_SIZE; cbody := cbody c; cchunk := cchunk c ++ raw; csize := csize c |})
  | Some (line, rest) =>
      if match strip line with [] => true | _ => false end then
        Ok (nz rest, rest, {| cst := WAITING_FOR_SIZE; cbody := cbody c; cchunk := []; csize := csize c |})
      else
        do sz <- int16 (before_semi line);
        Ok (nz rest, rest,
            {| cst := if (0 <? sz)%Z then WAITING_FOR_DATA else WAITING_FOR_TRAILER;
               cbody := cbody c; cchunk := []; csize := Some sz |})
  end.
Proof. intros H. unfold chunk_process. rewrite H. reflexivity. Qed.

Lemma chunk_process_trailer c raw : cst c = WAITING_FOR_TRAILER ->
  chunk_process c raw =
  match split_once CRLF (cchunk c ++ raw) with
  | None => Ok (false, [], {| cst := WAITING_FOR_TRAILER; cbody := cbody c; cchunk := cchunk c ++ raw; csize := csize c |})
  | Some (line, rest) =>
      match line with
      | [] => Ok (nz rest, rest, {| cst := CCOMPLETE; cbody := cbody c; cchunk := []; csize := None |})
      | _ => Ok (nz rest, rest, {| cst := WAITING_FOR_TRAILER; cbody := cbody c; cchunk := []; csize := csize c |})
      end
  end.
Proof. intros H. unfold chunk_process. rewrite H. reflexivity. Qed.

Lemma chunk_process_data c raw sz : cst c = WAITING_FOR_DATA -> csize c = Some sz ->
  (Z.of_nat (length (cchunk c)) < sz)%Z ->
  let k := (Z.to_nat sz - length (cchunk c))%nat in
  chunk_process c raw =
  if Nat.eqb (length (cchunk c) + length (firstn k raw)) (Z.to_nat sz) then
    Ok (nz (skipn k raw), skipn k raw,
        {| cst := WAITING_FOR_SIZE; cbody := cbody c ++ cchunk c ++ firstn k raw; cchunk := []; csize := None |})
  else
    Ok (nz (skipn k raw), skipn k raw,
        {| cst := WAITING_FOR_DATA; cbody := cbody c; cchunk := cchunk c ++ firstn k raw; csize := Some sz |}).
Proof.
  intros H Hs Hlt k. unfold chunk_process. rewrite H, Hs.
  rewrite py_slice_to_pos, py_slice_from_pos by lia.
  replace (Z.to_nat (sz - Z.of_nat (length (cchunk c)))) with k by (unfold k; lia).
  rewrite app_length.
  destruct (Nat.eqb_spec (length (cchunk c) + length (firstn k raw)) (Z.to_nat sz)) as [E|E].
  - replace (Z.of_nat (length (cchunk c) + length (firstn k raw)) =? sz)%Z with true
      by (symmetry; apply Z.eqb_eq; lia).
    reflexivity.
  - replace (Z.of_nat (length (cchunk c) + length (firstn k raw)) =? sz)%Z with false
      by (symmetry; apply Z.eqb_neq; lia).
    reflexivity.
Qed.

(* the loop flag is redundant: it always says whether bytes are left *)
Lemma chunk_process_more c raw m r c' : chunk_process c raw = Ok (m, r, c') -> m = nz r.
Proof.
  unfold chunk_process, nz.
  destruct (cst c).
  - destruct (split_once CRLF (cchunk c ++ raw)) as [[line rest]|].
    + destruct (strip line).
      * intros H; inversion H; reflexivity.
      * destruct (int16 _); cbn [bind]; intros H; inversion H; reflexivity.
    + intros H; inversion H; reflexivity.
  - destruct (csize c); [|discriminate].
    destruct (_ =? _)%Z; intros H; inversion H; reflexivity.
  - intros H; inversion H; reflexivity.
  - destruct (split_once CRLF (cchunk c ++ raw)) as [[line rest]|].
    + destruct line; intros H; inversion H; reflexivity.
    + intros H; inversion H; reflexivity.
Qed.

(* process never reports an exhausted fuel: its only errors are ValueError (bad size) and the assert *)
Lemma chunk_process_err c raw e : chunk_process c raw = Err e -> e = ValueError \/ e = AssertionError.
Proof.
  unfold chunk_process.
  destruct (cst c).
  - destruct (split_once CRLF (cchunk c ++ raw)) as [[line rest]|]; [|discriminate].
    destruct (strip line); [discriminate|].
    destruct (int16 _) eqn:E; cbn [bind]; [discriminate|].
    intros H; inversion H; subst. left. eapply py_int_err. exact E.
  - destruct (csize c); [|intros H; inversion H; auto].
    destruct (_ =? _)%Z; discriminate.
  - discriminate.
  - destruct (split_once CRLF (cchunk c ++ raw)) as [[line rest]|]; [|discriminate].
    destruct line; discriminate.
Qed.

(* ------------------------------------------------------------------------------------- *)
(* invariant of reachable decoder states                                                  *)

Definition chunk_inv (c : chunkp) : Prop :=
  cst c = WAITING_FOR_DATA ->
  exists sz, csize c = Some sz /\ (Z.of_nat (length (cchunk c)) < sz)%Z.

Lemma chunk_inv_new : chunk_inv new_chunkp.
Proof. intros H; discriminate. Qed.

Lemma chunk_inv_not_data c : cst c <> WAITING_FOR_DATA -> chunk_inv c.
Proof. intros H E. contradiction. Qed.

Lemma chunk_process_inv c raw m r c' :
  chunk_inv c -> chunk_process c raw = Ok (m, r, c') -> chunk_inv c'.
Proof.
  intros I. destruct (cst c) eqn:S.
  - rewrite chunk_process_size by exact S.
    destruct (split_once CRLF (cchunk c ++ raw)) as [[line rest]|].
    + destruct (strip line).
      * intros H; inversion H; subst. apply chunk_inv_not_data. discriminate.
      * destruct (int16 _) as [sz|]; cbn [bind]; [|discriminate].
        intros H; inversion H; subst; clear H. intros E. cbn [cst] in E.
        exists sz. cbn [csize cchunk length]. split; [reflexivity|].
        destruct (0 <? sz)%Z eqn:L; [apply Z.ltb_lt in L; cbn; lia|discriminate].
    + intros H; inversion H; subst. apply chunk_inv_not_data. discriminate.
  - destruct (I S) as (sz & Hs & Hlt).
    rewrite (chunk_process_data c raw sz S Hs Hlt).
    set (k := (Z.to_nat sz - length (cchunk c))%nat).
    destruct (Nat.eqb_spec (length (cchunk c) + length (firstn k raw)) (Z.to_nat sz)) as [E|E];
      intros H; inversion H; subst; clear H.
    + apply chunk_inv_not_data. discriminate.
    + intros _. exists sz. cbn [csize cchunk]. split; [reflexivity|].
      rewrite app_length. pose proof (firstn_le_length k raw). lia.
  - unfold chunk_process. rewrite S. intros H; inversion H; subst. exact I.
  - rewrite chunk_process_trailer by exact S.
    destruct (split_once CRLF (cchunk c ++ raw)) as [[line rest]|].
    + destruct line; intros H; inversion H; subst; apply chunk_inv_not_data; discriminate.
    + intros H; inversion H; subst. apply chunk_inv_not_data. discriminate.
Qed.

Definition cmeasure (c : chunkp) (raw : bytes) : nat := (length (cchunk c) + length raw)%nat.

(* every call either consumes everything it was given or strictly shrinks the work left *)
Lemma chunk_process_shrinks c raw m r c' :
  chunk_inv c -> cst c <> CCOMPLETE -> chunk_process c raw = Ok (m, r, c') ->
  r = [] \/ (cmeasure c' r < cmeasure c raw)%nat.
Proof.
  intros I NC. unfold cmeasure. destruct (cst c) eqn:S; [| |contradiction|].
  - rewrite chunk_process_size by exact S.
    destruct (split_once CRLF (cchunk c ++ raw)) as [[line rest]|] eqn:E.
    + apply split_once_shrinks in E. rewrite app_length in E. cbn [length CRLF] in E.
      destruct (strip line).
      * intros H; inversion H; subst. right. cbn [cchunk length]. lia.
      * destruct (int16 _) as [sz|]; cbn [bind]; [|discriminate].
        intros H; inversion H; subst. right. cbn [cchunk length]. lia.
    + intros H; inversion H; subst. left; reflexivity.
  - destruct (I S) as (sz & Hs & Hlt).
    rewrite (chunk_process_data c raw sz S Hs Hlt).
    set (k := (Z.to_nat sz - length (cchunk c))%nat).
    assert (Hk : (0 < k)%nat) by (unfold k; lia).
    destruct (Nat.eqb_spec (length (cchunk c) + length (firstn k raw)) (Z.to_nat sz)) as [E|E];
      intros H; inversion H; subst; clear H.
    + destruct raw as [|x raw]; [left; apply skipn_nil|]. right.
      cbn [cchunk]. rewrite skipn_length. cbn [length]. lia.
    + left. apply skipn_all2. rewrite firstn_length in E. lia.
  - rewrite chunk_process_trailer by exact S.
    destruct (split_once CRLF (cchunk c ++ raw)) as [[line rest]|] eqn:E.
    + apply split_once_shrinks in E. rewrite app_length in E. cbn [length CRLF] in E.
      destruct line; intros H; inversion H; subst; right; cbn [cchunk length]; lia.
    + intros H; inversion H; subst. left; reflexivity.
Qed.

(* ------------------------------------------------------------------------------------- *)
(* the loop: fuel is irrelevant, one-step unfolding, induction principle                  *)

Lemma chunk_loop_false f c raw : chunk_loop (S f) false c raw = Ok (raw, c).
Proof. reflexivity. Qed.

Lemma chunk_loop_S f m c raw :
  chunk_loop (S f) m c raw =
  if m && negb (cstate_eqb (cst c) CCOMPLETE) then
    do '(more', raw', c') <- chunk_process c raw; chunk_loop f more' c' raw'
  else Ok (raw, c).
Proof. reflexivity. Qed.

Lemma chunk_parse_nil c : chunk_parse c [] = Ok ([], c).
Proof. reflexivity. Qed.

Lemma chunk_loop_fuel f1 : forall f2 c raw,
  chunk_inv c -> (2 + cmeasure c raw <= f1)%nat -> (2 + cmeasure c raw <= f2)%nat ->
  chunk_loop f1 (nz raw) c raw = chunk_loop f2 (nz raw) c raw.
Proof.
  induction f1 as [|f1 IH]; intros f2 c raw I H1 H2; [lia|].
  destruct f2 as [|f2]; [lia|]. cbn [chunk_loop].
  destruct (nz raw && negb (cstate_eqb (cst c) CCOMPLETE)) eqn:C; [|reflexivity].
  apply andb_true_iff in C as [_ C]. apply negb_true_iff, cstate_eqb_ncomplete in C.
  destruct (chunk_process c raw) as [[[m r] c']|e] eqn:P; cbn [bind]; [|reflexivity].
  rewrite (chunk_process_more _ _ _ _ _ P).
  pose proof (chunk_process_inv _ _ _ _ _ I P) as I'.
  destruct (chunk_process_shrinks _ _ _ _ _ I C P) as [E|L].
  - subst r. destruct f1; [lia|]. destruct f2; [lia|]. reflexivity.
  - apply IH; [exact I'|lia|lia].
Qed.

Lemma chunk_parse_step c raw : chunk_inv c ->
  chunk_parse c raw =
  if nz raw && negb (cstate_eqb (cst c) CCOMPLETE) then
    do '(_, raw', c') <- chunk_process c raw; chunk_parse c' raw'
  else Ok (raw, c).
Proof.
  intros I. unfold chunk_parse at 1. unfold chunk_fuel.
  change (2 + length (cchunk c) + length raw)%nat with (S (S (cmeasure c raw))).
  rewrite chunk_loop_S. change (negb (length raw =? 0)%nat) with (nz raw).
  destruct (nz raw && negb (cstate_eqb (cst c) CCOMPLETE)) eqn:C; [|reflexivity].
  apply andb_true_iff in C as [_ C]. apply negb_true_iff, cstate_eqb_ncomplete in C.
  destruct (chunk_process c raw) as [[[m r] c']|e] eqn:P; cbn [bind]; [|reflexivity].
  rewrite (chunk_process_more _ _ _ _ _ P).
  pose proof (chunk_process_inv _ _ _ _ _ I P) as I'.
  destruct (chunk_process_shrinks _ _ _ _ _ I C P) as [E|L].
  - subst r. reflexivity.
  - unfold chunk_parse, chunk_fuel. change (negb (length r =? 0)%nat) with (nz r).
    apply chunk_loop_fuel; [exact I'|unfold cmeasure in *; lia|unfold cmeasure in *; lia].
Qed.

Lemma chunk_parse_done c raw : cst c = CCOMPLETE -> chunk_parse c raw = Ok (raw, c).
Proof.
  intros H. unfold chunk_parse, chunk_fuel. cbn [plus chunk_loop].
  apply cstate_eqb_complete in H. rewrite H. rewrite andb_false_r. reflexivity.
Qed.

Lemma chunk_parse_step_ne c raw : chunk_inv c -> raw <> [] -> cst c <> CCOMPLETE ->
  chunk_parse c raw = do '(_, raw', c') <- chunk_process c raw; chunk_parse c' raw'.
Proof.
  intros I Hr Hc. rewrite chunk_parse_step by exact I.
  apply nz_true in Hr. apply cstate_eqb_ncomplete in Hc. rewrite Hr, Hc. reflexivity.
Qed.

(* functional induction for chunk_parse *)
Lemma chunk_parse_ind (P : chunkp -> bytes -> result (bytes * chunkp) -> Prop) :
  (forall c raw, chunk_inv c -> raw = [] \/ cst c = CCOMPLETE -> P c raw (Ok (raw, c))) ->
  (forall c raw e, raw <> [] -> cst c <> CCOMPLETE -> chunk_inv c ->
     chunk_process c raw = Err e -> P c raw (Err e)) ->
  (forall c raw m r c', raw <> [] -> cst c <> CCOMPLETE -> chunk_inv c ->
     chunk_process c raw = Ok (m, r, c') -> chunk_inv c' ->
     P c' r (chunk_parse c' r) -> P c raw (chunk_parse c' r)) ->
  forall c raw, chunk_inv c -> P c raw (chunk_parse c raw).
Proof.
  intros H1 H2 H3.
  enough (G : forall n c raw, (cmeasure c raw <= n)%nat -> chunk_inv c -> P c raw (chunk_parse c raw)).
  { intros c raw. apply (G (cmeasure c raw)). lia. }
  induction n as [|n IH]; intros c raw Hn I.
  - assert (raw = []) by (unfold cmeasure in Hn; destruct raw; [reflexivity|cbn in Hn; lia]).
    subst raw. rewrite chunk_parse_nil. apply H1; [exact I|]. left; reflexivity.
  - destruct raw as [|x raw']; [rewrite chunk_parse_nil; apply H1; [exact I|]; left; reflexivity|].
    set (raw := x :: raw') in *.
    assert (Hr : raw <> []) by discriminate.
    destruct (cstate_eqb (cst c) CCOMPLETE) eqn:C.
    + apply cstate_eqb_complete in C. rewrite chunk_parse_done by exact C. apply H1; [exact I|]. right; exact C.
    + apply cstate_eqb_ncomplete in C. rewrite chunk_parse_step_ne by assumption.
      destruct (chunk_process c raw) as [[[m r] c']|e] eqn:E; cbn [bind].
      * pose proof (chunk_process_inv _ _ _ _ _ I E) as I'.
        apply (H3 c raw m r c' Hr C I E I').
        destruct (chunk_process_shrinks _ _ _ _ _ I C E) as [Er|L].
        -- subst r. rewrite chunk_parse_nil. apply H1; [exact I'|]. left; reflexivity.
        -- apply IH; [lia|exact I'].
      * apply (H2 c raw e Hr C I E).
Qed.

(* no result of chunk_parse is an artefact of the fuel *)
Theorem chunk_parse_never_out_of_fuel c raw : chunk_inv c -> chunk_parse c raw <> Err OutOfFuel.
Proof.
  revert c raw. apply (chunk_parse_ind (fun _ _ r => r <> Err OutOfFuel)).
  - intros; discriminate.
  - intros c raw e _ _ _ E H. inversion H; subst.
    apply chunk_process_err in E. destruct E; discriminate.
  - intros; assumption.
Qed.

Theorem chunk_parse_inv c raw r c' : chunk_inv c -> chunk_parse c raw = Ok (r, c') -> chunk_inv c'.
Proof.
  intros I. revert c raw I r c'.
  apply (chunk_parse_ind (fun c raw res => forall r c', res = Ok (r, c') -> chunk_inv c')).
  - intros c raw I _ r c' H. inversion H; subst. exact I.
  - intros; discriminate.
  - intros c raw m r0 c0 _ _ _ _ _ IH r c' H. apply (IH _ _ H).
Qed.

(* bytes are handed back only by a decoder that has completed *)
Theorem chunk_parse_remainder c raw r c' :
  chunk_inv c -> chunk_parse c raw = Ok (r, c') -> r = [] \/ cst c' = CCOMPLETE.
Proof.
  intros I. revert c raw I r c'.
  apply (chunk_parse_ind (fun c raw res => forall r c', res = Ok (r, c') -> r = [] \/ cst c' = CCOMPLETE)).
  - intros c raw _ H r c' E. inversion E; subst. exact H.
  - intros; discriminate.
  - intros c raw m r0 c0 _ _ _ _ _ IH r c' H. apply (IH _ _ H).
Qed.

(* ------------------------------------------------------------------------------------- *)
(* the segmentation law                                                                   *)

(* what one call does on [a] is what it does on [a ++ b], or it consumed all of [a] and waits *)
Lemma chunk_process_app c a b m r c' :
  chunk_inv c -> cst c <> CCOMPLETE -> b <> [] -> chunk_process c a = Ok (m, r, c') ->
  chunk_process c (a ++ b) = Ok (true, r ++ b, c') \/
  (r = [] /\ cst c' <> CCOMPLETE /\ chunk_process c' b = chunk_process c (a ++ b)).
Proof.
  intros I NC Hb. destruct (cst c) eqn:S; [| |contradiction|].
  - rewrite !chunk_process_size by exact S. rewrite app_assoc.
    destruct (split_once CRLF (cchunk c ++ a)) as [[line rest]|] eqn:E.
    + rewrite (split_once_app _ _ b _ _ E). rewrite (nz_app_r rest b Hb).
      destruct (strip line).
      * intros H; inversion H; subst. left; reflexivity.
      * destruct (int16 _) as [sz|]; cbn [bind]; [|discriminate].
        intros H; inversion H; subst. left; reflexivity.
    + intros H; inversion H; subst; clear H. right.
      split; [reflexivity|]. split; [cbn [cst]; discriminate|].
      rewrite chunk_process_size by reflexivity. reflexivity.
  - destruct (I S) as (sz & Hs & Hlt).
    rewrite (chunk_process_data c a sz S Hs Hlt), (chunk_process_data c (a ++ b) sz S Hs Hlt).
    set (k := (Z.to_nat sz - length (cchunk c))%nat).
    assert (Hk : (0 < k)%nat) by (unfold k; lia).
    rewrite firstn_app, skipn_app.
    destruct (Nat.eqb_spec (length (cchunk c) + length (firstn k a)) (Z.to_nat sz)) as [E|E];
      intros H; inversion H; subst; clear H.
    + (* enough bytes in a *)
      left. pose proof E as E0. rewrite firstn_length in E0.
      replace (k - length a)%nat with 0%nat by lia. cbn [firstn skipn]. rewrite app_nil_r.
      apply Nat.eqb_eq in E. rewrite E.
      rewrite (nz_app_r _ b Hb). reflexivity.
    + (* a is shorter than what the chunk still needs *)
      right. rewrite firstn_length in E. assert (La : (length a < k)%nat) by lia.
      split; [apply skipn_all2; lia|]. split; [cbn [cst]; discriminate|].
      rewrite (firstn_all2 a), (skipn_all2 a) by lia. cbn [app].
      set (c1 := {| cst := WAITING_FOR_DATA; cbody := cbody c; cchunk := cchunk c ++ a; csize := Some sz |}).
      assert (Hlt1 : (Z.of_nat (length (cchunk c1)) < sz)%Z).
      { cbn [c1 cchunk]. rewrite app_length. lia. }
      rewrite (chunk_process_data c1 b sz eq_refl eq_refl Hlt1).
      cbn [c1 cchunk cbody]. rewrite !app_length.
      replace (Z.to_nat sz - (length (cchunk c) + length a))%nat with (k - length a)%nat by (unfold k; lia).
      rewrite <- !app_assoc, Nat.add_assoc. reflexivity.
  - rewrite !chunk_process_trailer by exact S. rewrite app_assoc.
    destruct (split_once CRLF (cchunk c ++ a)) as [[line rest]|] eqn:E.
    + rewrite (split_once_app _ _ b _ _ E). rewrite (nz_app_r rest b Hb).
      destruct line; intros H; inversion H; subst; left; reflexivity.
    + intros H; inversion H; subst; clear H. right.
      split; [reflexivity|]. split; [cbn [cst]; discriminate|].
      rewrite chunk_process_trailer by reflexivity. reflexivity.
Qed.

Lemma chunk_process_app_err c a b e :
  chunk_inv c -> chunk_process c a = Err e -> chunk_process c (a ++ b) = Err e.
Proof.
  intros I. destruct (cst c) eqn:S.
  - rewrite !chunk_process_size by exact S. rewrite app_assoc.
    destruct (split_once CRLF (cchunk c ++ a)) as [[line rest]|] eqn:E; [|discriminate].
    rewrite (split_once_app _ _ b _ _ E).
    destruct (strip line); [discriminate|].
    destruct (int16 _); cbn [bind]; [discriminate|]. intros H; exact H.
  - destruct (I S) as (sz & Hs & Hlt).
    rewrite (chunk_process_data c a sz S Hs Hlt). cbv zeta.
    destruct (Nat.eqb _ _); discriminate.
  - unfold chunk_process. rewrite S. discriminate.
  - rewrite !chunk_process_trailer by exact S.
    destruct (split_once CRLF (cchunk c ++ a)) as [[line rest]|] eqn:E; [|discriminate].
    destruct line; discriminate.
Qed.

(* feeding a ++ b at once = feeding a, then b (full decoder state, remainder and errors) *)
Theorem chunk_two_piece c a b : chunk_inv c ->
  chunk_parse c (a ++ b) =
  (do '(ra, c1) <- chunk_parse c a; do '(rb, c2) <- chunk_parse c1 b; Ok (ra ++ rb, c2)).
Proof.
  destruct b as [|b0 b'].
  { intros _. rewrite app_nil_r. destruct (chunk_parse c a) as [[ra c1]|e]; cbn [bind]; [|reflexivity].
    rewrite chunk_parse_nil. cbn [bind]. rewrite app_nil_r. reflexivity. }
  set (b := b0 :: b'). assert (Hb : b <> []) by discriminate.
  intros I. revert c a I.
  apply (chunk_parse_ind (fun c a res =>
    chunk_parse c (a ++ b) = (do '(ra, c1) <- res; do '(rb, c2) <- chunk_parse c1 b; Ok (ra ++ rb, c2)))).
  - intros c a _ [Ea|Ec].
    + subst a. cbn [app bind]. destruct (chunk_parse c b) as [[rb c2]|e]; reflexivity.
    + cbn [bind]. rewrite !chunk_parse_done by exact Ec. reflexivity.
  - intros c a e Ha Hc I E. cbn [bind].
    rewrite chunk_parse_step_ne; [|exact I|apply nz_true, nz_app_r, Hb|exact Hc].
    rewrite (chunk_process_app_err _ _ b _ I E). reflexivity.
  - intros c a m r c' Ha Hc I E I' IH.
    rewrite chunk_parse_step_ne; [|exact I|apply nz_true, nz_app_r, Hb|exact Hc].
    destruct (chunk_process_app c a b m r c' I Hc Hb E) as [P|(Er & Hc' & P)].
    + rewrite P. cbn [bind]. exact IH.
    + subst r. rewrite chunk_parse_nil. cbn [bind app]. rewrite <- P.
      rewrite (chunk_parse_step_ne c' b I' Hb Hc').
      destruct (chunk_process c' b) as [[[m2 r2] c2]|e2]; cbn [bind]; [|reflexivity].
      destruct (chunk_parse c2 r2) as [[rb c3]|e3]; reflexivity.
Qed.

(* n pieces (pieces may be empty): the remainders of the successive calls are concatenated *)
Fixpoint chunk_parse_pieces (c : chunkp) (pieces : list bytes) : result (bytes * chunkp) :=
  match pieces with
  | [] => Ok ([], c)
  | x :: t => do '(r, c1) <- chunk_parse c x; do '(r', c2) <- chunk_parse_pieces c1 t; Ok (r ++ r', c2)
  end.

Theorem chunk_segmentation pieces : forall c, chunk_inv c ->
  chunk_parse_pieces c pieces = chunk_parse c (concat pieces).
Proof.
  induction pieces as [|x t IH]; intros c I; cbn [chunk_parse_pieces concat].
  - rewrite chunk_parse_nil. reflexivity.
  - rewrite chunk_two_piece by exact I.
    destruct (chunk_parse c x) as [[r c1]|e] eqn:E; cbn [bind]; [|reflexivity].
    rewrite IH by (eapply chunk_parse_inv; eassumption). reflexivity.
Qed.

(* ------------------------------------------------------------------------------------- *)
(* complete exactly at the end: abstract syntax of a valid chunked stream                 *)

Record chunk_item := { ci_line : bytes;      (* size line as spelled: hex digits in any case, leading zeros, ;extensions *)
                       ci_data : bytes }.
Record chunk_stream := { cs_items : list chunk_item;
                         cs_last : bytes;            (* last-chunk line as spelled: zero, extensions *)
                         cs_trailers : list bytes }. (* trailer lines *)

Definition item_ok (it : chunk_item) : Prop :=
  crlf_free (ci_line it) /\ strip (ci_line it) <> [] /\ ci_data it <> [] /\
  int16 (before_semi (ci_line it)) = Ok (Z.of_nat (length (ci_data it))).
Definition trailer_ok (t : bytes) : Prop := crlf_free t /\ t <> [].
Definition stream_ok (s : chunk_stream) : Prop :=
  Forall item_ok (cs_items s) /\
  crlf_free (cs_last s) /\ strip (cs_last s) <> [] /\ int16 (before_semi (cs_last s)) = Ok 0%Z /\
  Forall trailer_ok (cs_trailers s).

Definition render_item (it : chunk_item) : bytes := ci_line it ++ CRLF ++ ci_data it ++ CRLF.
Definition render_items (l : list chunk_item) : bytes := concat (map render_item l).
Definition render_trailers (l : list bytes) : bytes := concat (map (fun t => t ++ CRLF) l).
Definition render_stream (s : chunk_stream) : bytes :=
  render_items (cs_items s) ++ cs_last s ++ CRLF ++ render_trailers (cs_trailers s) ++ CRLF.
Definition stream_body (s : chunk_stream) : bytes := concat (map ci_data (cs_items s)).

Definition size_state (body : bytes) : chunkp :=
  {| cst := WAITING_FOR_SIZE; cbody := body; cchunk := []; csize := None |}.
Definition complete_state (body : bytes) : chunkp :=
  {| cst := CCOMPLETE; cbody := body; cchunk := []; csize := None |}.

Lemma strip_nonempty_match (l : bytes) : strip l <> [] ->
  match strip l with [] => true | _ => false end = false.
Proof. destruct (strip l); congruence. Qed.

Lemma chunk_parse_item body it rest : item_ok it ->
  chunk_parse (size_state body) (render_item it ++ rest) =
  chunk_parse (size_state (body ++ ci_data it)) rest.
Proof.
  intros (Hl & Hs & Hd & Hn). unfold render_item. rewrite <- !app_assoc.
  set (n := length (ci_data it)).
  assert (Hpos : (0 < n)%nat) by (unfold n; destruct (ci_data it); [congruence|cbn; lia]).
  (* size line *)
  rewrite chunk_parse_step_ne;
    [|apply chunk_inv_not_data; discriminate
     |intros E; apply app_eq_nil in E; destruct E as [_ E]; discriminate|discriminate].
  rewrite chunk_process_size by reflexivity. cbn [size_state cchunk app cbody csize].
  rewrite (crlf_free_split _ _ Hl), (strip_nonempty_match _ Hs), Hn. cbn [bind]. fold n.
  replace (0 <? Z.of_nat n)%Z with true by (symmetry; apply Z.ltb_lt; lia).
  (* data *)
  set (c1 := {| cst := WAITING_FOR_DATA; cbody := body; cchunk := []; csize := Some (Z.of_nat n) |}).
  assert (I1 : chunk_inv c1) by (intros _; exists (Z.of_nat n); cbn; split; [reflexivity|lia]).
  rewrite chunk_parse_step_ne;
    [|exact I1|intros E; apply app_eq_nil in E; destruct E as [E _]; contradiction|discriminate].
  rewrite (chunk_process_data c1 _ (Z.of_nat n) eq_refl eq_refl) by (cbn; lia).
  cbn [c1 cchunk length cbody app]. rewrite Nat2Z.id, Nat.sub_0_r. subst n.
  rewrite firstn_app_exact, skipn_app_exact. cbn [plus]. rewrite Nat.eqb_refl. cbn [bind].
  (* the CRLF after the data is a blank line for WAITING_FOR_SIZE *)
  change (size_state (body ++ ci_data it)) with
    {| cst := WAITING_FOR_SIZE; cbody := body ++ ci_data it; cchunk := []; csize := None |}.
  rewrite chunk_parse_step_ne; [|apply chunk_inv_not_data; discriminate|discriminate|discriminate].
  rewrite chunk_process_size by reflexivity. cbn [cchunk app cbody csize].
  rewrite split_once_crlf_head. cbn [bind]. reflexivity.
Qed.

Lemma chunk_parse_items l : forall body rest, Forall item_ok l ->
  chunk_parse (size_state body) (render_items l ++ rest) =
  chunk_parse (size_state (body ++ concat (map ci_data l))) rest.
Proof.
  induction l as [|it l IH]; intros body rest H; cbn [render_items map concat app].
  - rewrite app_nil_r. reflexivity.
  - inversion H; subst. rewrite <- app_assoc. rewrite chunk_parse_item by assumption.
    fold (render_items l). rewrite IH by assumption. rewrite <- app_assoc. reflexivity.
Qed.

Definition trailer_state (body : bytes) : chunkp :=
  {| cst := WAITING_FOR_TRAILER; cbody := body; cchunk := []; csize := Some 0%Z |}.

Lemma chunk_parse_trailers l : forall body rest, Forall trailer_ok l ->
  chunk_parse (trailer_state body) (render_trailers l ++ CRLF ++ rest) =
  Ok (rest, complete_state body).
Proof.
  induction l as [|t l IH]; intros body rest H; cbn [render_trailers map concat app].
  - rewrite chunk_parse_step_ne; [|apply chunk_inv_not_data; discriminate|discriminate|discriminate].
    rewrite chunk_process_trailer by reflexivity. cbn [trailer_state cchunk app cbody].
    rewrite split_once_crlf_head. cbn [bind].
    apply chunk_parse_done. reflexivity.
  - inversion H as [|? ? [Hf Hne] Hl]; subst. rewrite <- !app_assoc.
    rewrite chunk_parse_step_ne;
      [|apply chunk_inv_not_data; discriminate
       |intros E; apply app_eq_nil in E; destruct E as [E _]; contradiction|discriminate].
    rewrite chunk_process_trailer by reflexivity. cbn [trailer_state cchunk app cbody csize].
    rewrite (crlf_free_split _ _ Hf). destruct t as [|t0 t']; [contradiction|]. cbn [bind].
    apply (IH body rest Hl).
Qed.

(* the whole stream followed by any tail: complete, body decoded, tail handed back untouched *)
Theorem chunk_complete_at_end s tail : stream_ok s ->
  chunk_parse new_chunkp (render_stream s ++ tail) = Ok (tail, complete_state (stream_body s)).
Proof.
  intros (Hi & Hl & Hs & Hz & Ht). unfold render_stream. rewrite <- !app_assoc.
  change new_chunkp with (size_state []).
  rewrite chunk_parse_items by exact Hi. cbn [app]. fold (stream_body s).
  rewrite chunk_parse_step_ne;
    [|apply chunk_inv_not_data; discriminate
     |intros E; apply app_eq_nil in E; destruct E as [_ E]; discriminate|discriminate].
  rewrite chunk_process_size by reflexivity. cbn [size_state cchunk app cbody csize].
  rewrite (crlf_free_split _ _ Hl), (strip_nonempty_match _ Hs), Hz. cbn [bind].
  change (0 <? 0)%Z with false. cbv iota.
  apply (chunk_parse_trailers (cs_trailers s) (stream_body s) tail Ht).
Qed.

(* never earlier: on every proper prefix the decoder is Ok, holds no remainder and is not complete.
   Derived from the law + the exact remainder above + absorption in CCOMPLETE. *)
Theorem chunk_not_complete_before_end s q r : stream_ok s -> render_stream s = q ++ r -> r <> [] ->
  exists c1, chunk_parse new_chunkp q = Ok ([], c1) /\ cst c1 <> CCOMPLETE.
Proof.
  intros Hs E Hr.
  pose proof (chunk_complete_at_end s [] Hs) as W. rewrite app_nil_r, E in W.
  rewrite chunk_two_piece in W by apply chunk_inv_new.
  destruct (chunk_parse new_chunkp q) as [[ra c1]|e]; cbn [bind] in W; [|discriminate].
  destruct (cstate_eqb (cst c1) CCOMPLETE) eqn:S.
  - apply cstate_eqb_complete in S. rewrite chunk_parse_done in W by exact S. cbn [bind] in W.
    assert (W1 : ra ++ r = []) by congruence.
    apply app_eq_nil in W1. destruct W1; contradiction.
  - apply cstate_eqb_ncomplete in S.
    destruct (chunk_parse c1 r) as [[rb c2]|e]; cbn [bind] in W; [|discriminate].
    assert (W1 : ra ++ rb = []) by congruence.
    apply app_eq_nil in W1. destruct W1 as [W1 _]. subst ra.
    exists c1. split; [reflexivity|exact S].
Qed.

Theorem chunk_complete_exactly_at_end s : stream_ok s ->
  (forall tail, chunk_parse new_chunkp (render_stream s ++ tail) = Ok (tail, complete_state (stream_body s))) /\
  (forall q r, render_stream s = q ++ r -> r <> [] ->
     exists c1, chunk_parse new_chunkp q = Ok ([], c1) /\ cst c1 <> CCOMPLETE).
Proof.
  intros H. split.
  - intros tail. apply chunk_complete_at_end, H.
  - intros q r. apply chunk_not_complete_before_end, H.
Qed.

(* non-vacuity: three chunks (upper/lower-case hex, leading zeros, an extension), last-chunk line
   with an extension, one trailer *)
Definition example_stream : chunk_stream :=
  {| cs_items := [ {| ci_line := bs "5"; ci_data := bs "hello" |};
                   {| ci_line := bs "00A;name=val"; ci_data := bs "0123456789" |};
                   {| ci_line := bs "0b"; ci_data := bs " chunked!!!" |} ];
     cs_last := bs "0;last";
     cs_trailers := [ bs "X-Trailer: 1" ] |}.

Lemma example_stream_ok : stream_ok example_stream.
Proof.
  unfold stream_ok, example_stream. cbn [cs_items cs_last cs_trailers].
  repeat split; try (repeat constructor; vm_compute; try reflexivity; try discriminate; fail).
  all: vm_compute; try reflexivity; discriminate.
Qed.
