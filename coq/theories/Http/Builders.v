(* Model of the message builders, function by function:
     proxy/common/utils.py   : bytes_, _header_key, build_http_request, build_http_response,
                               build_http_header, build_http_pkt
     proxy/http/parser/parser.py : add_header, del_header (has_header/header are in Parser.v),
                               _get_body_or_chunks, build, build_response, update_body
   after the repaired Python (case-insensitive placement of Content-Length / Content-Type /
   Connection; update_body keeps the body decoded; parenthesised default scheme in
   build(for_proxy=True); build_response adds no Content-Length to a body-less response that had none).  Header maps are Python dicts = the insertion-ordered dict of
   Lib/PyStr.v, keys CASE-SENSITIVE.  Definitions only. *)
From PM Require Import Lib.Bytes Lib.PyStr Http.Url Http.Chunk Http.Parser.
From Coq Require Import ZArith.

Definition bdict := dict bytes.          (* Dict[bytes, bytes] *)

(* Python truthiness of an Optional[bytes]: None and b'' are false *)
Definition truthy (b : option bytes) : bool := match b with Some (_ :: _) => true | _ => false end.
Definition or_empty (b : option bytes) : bytes := match b with Some x => x | None => [] end.

(* bytes_(n) for an int *)
Definition bytes_of_N (n : N) : bytes := dec_of_N n.
Definition bytes_of_Z (z : Z) : bytes := dec_of_Z z.

Definition H_CONTENT_TYPE := bytes_of_string "Content-Type".
Definition H_CONTENT_LENGTH := bytes_of_string "Content-Length".
Definition H_USER_AGENT := bytes_of_string "User-Agent".
Definition H_CONNECTION := bytes_of_string "Connection".
Definition V_CLOSE := bytes_of_string "close".
Definition L_USER_AGENT := bytes_of_string "user-agent".
Definition L_CONTENT_ENCODING := bytes_of_string "content-encoding".
Definition L_HOST := bytes_of_string "host".
Definition V_GZIP := bytes_of_string "gzip".
Definition V_HTTP := bytes_of_string "http".

(* _header_key(headers, name): the spelling under which name is already present, else name *)
Fixpoint header_key (headers : bdict) (name : bytes) : bytes :=
  match headers with
  | [] => name
  | (k, _) :: t => if bytes_eqb (lower k) (lower name) then k else header_key t name
  end.

(* any(k.lower() == lname for k in headers) *)
Definition has_key_ci (lname : bytes) (headers : bdict) : bool :=
  existsb (fun kv => bytes_eqb (lower (fst kv)) lname) headers.

(* build_http_header *)
Definition build_http_header (k v : bytes) : bytes := k ++ [COLON] ++ [SP] ++ v.

(* the for loop of build_http_pkt *)
Fixpoint header_lines (headers : bdict) : bytes :=
  match headers with
  | [] => []
  | (k, v) :: t => build_http_header k v ++ CRLF ++ header_lines t
  end.

(* headers as finally written by build_http_pkt *)
Definition pkt_headers (headers : option bdict) (conn_close : bool) : bdict :=
  let h := match headers with Some d => d | None => [] end in       (* headers or {} *)
  if conn_close then dict_set (header_key h H_CONNECTION) V_CLOSE h else h.

(* build_http_pkt(line, headers, body, conn_close) *)
Definition build_http_pkt (line : list bytes) (headers : option bdict) (body : option bytes)
    (conn_close : bool) : bytes :=
  join [SP] line ++ CRLF ++ header_lines (pkt_headers headers conn_close) ++ CRLF ++
  (if truthy body then or_empty body else []).

(* the header dict build_http_request hands to build_http_pkt *)
Definition request_headers (ua : bytes) (content_type : option bytes) (headers : option bdict)
    (body : option bytes) (no_ua : bool) : bdict :=
  let h := match headers with Some d => d | None => [] end in
  let h := match content_type with
           | Some ct => dict_set (header_key h H_CONTENT_TYPE) ct h
           | None => h end in
  let has_transfer_encoding := has_key_ci TRANSFER_ENCODING h in
  let has_user_agent := has_key_ci L_USER_AGENT h in
  let h := if truthy body && negb has_transfer_encoding
           then dict_set (header_key h H_CONTENT_LENGTH) (bytes_of_N (len (or_empty body))) h else h in
  if negb has_user_agent && negb no_ua then dict_set H_USER_AGENT ua h else h.

(* build_http_request(method, url, protocol_version, content_type, headers, body, conn_close, no_ua);
   ua = PROXY_AGENT_HEADER_VALUE *)
Definition build_http_request (ua : bytes) (method url protocol_version : bytes)
    (content_type : option bytes) (headers : option bdict) (body : option bytes)
    (conn_close no_ua : bool) : bytes :=
  build_http_pkt [method; url; protocol_version]
                 (Some (request_headers ua content_type headers body no_ua)) body conn_close.

Definition response_headers (headers : option bdict) (body : option bytes) (no_cl : bool) : bdict :=
  let h := match headers with Some d => d | None => [] end in
  if negb (has_key_ci TRANSFER_ENCODING h) && negb no_cl
  then dict_set (header_key h H_CONTENT_LENGTH)
                (if truthy body then bytes_of_N (len (or_empty body)) else [48]) h
  else h.

(* build_http_response(status_code, protocol_version, reason, headers, body, conn_close, no_cl) *)
Definition build_http_response (status_code : Z) (protocol_version : bytes) (reason : option bytes)
    (headers : option bdict) (body : option bytes) (conn_close no_cl : bool) : bytes :=
  let line := [protocol_version; bytes_of_Z status_code] ++
              (if truthy reason then [or_empty reason] else []) in
  build_http_pkt line (Some (response_headers headers body no_cl)) body conn_close.

(* ---- HttpParser methods ---- *)
Definition DEFAULT_BUFFER_SIZE : N := 131072.

(* add_header: headers[key.lower()] = (key, value) *)
Definition add_header (p : parser) (key value : bytes) : parser :=
  set_headers p (Some (add_header_d (headers p) key value)) (is_chunked_encoded p) (content_expected p).

(* del_header: if self.headers and header.lower() in self.headers: del ... *)
Definition del_header (p : parser) (key : bytes) : parser :=
  match headers p with
  | Some ((_ :: _) as h) =>
      if dict_has (lower key) h
      then set_headers p (Some (dict_del (lower key) h)) (is_chunked_encoded p) (content_expected p)
      else p
  | _ => p
  end.

(* _get_body_or_chunks *)
Definition get_body_or_chunks (p : parser) : result (option bytes) :=
  match body p with
  | Some b => if is_chunked_encoded p
              then do w <- to_chunks b DEFAULT_BUFFER_SIZE; Ok (Some w)
              else Ok (Some b)
  | None => Ok None
  end.

(* the dict comprehension of build() *)
Fixpoint rebuilt_request_headers (disable_headers : list bytes) (host_override : option bytes)
    (h : hdict) (acc : bdict) : bdict :=
  match h with
  | [] => acc
  | (k, (orig, v)) :: t =>
      let acc' :=
        if mem_bytes (lower k) disable_headers then acc
        else dict_set orig
               (match host_override with
                | Some hv => if bytes_eqb (lower orig) L_HOST then hv else v
                | None => v end) acc in
      rebuilt_request_headers disable_headers host_override t acc'
  end.

(* HttpParser.build(disable_headers, for_proxy, host) *)
Definition build (ua : bytes) (p : parser) (disable_headers : list bytes) (for_proxy : bool)
    (host_override : option bytes) : result bytes :=
  if negb (truthy (method p) && truthy (version p) && is_request (ty p)) then Err AssertionError else
  do body <- get_body_or_chunks p;
  let path0 := if truthy (path p) then or_empty (path p) else [SLASH] in
  do target <-
    (if for_proxy then
       match host p, port p, purl p with
       | Some (hx :: ht), Some pt, Some u =>
           if (pt =? 0)%Z then Err AssertionError else
           if negb (is_https_tunnel p) then
             Ok ((if truthy (u_scheme u) then or_empty (u_scheme u) else V_HTTP) ++
                 [COLON; SLASH; SLASH] ++ (hx :: ht) ++ [COLON] ++ bytes_of_Z pt ++ path0)
           else Ok ((hx :: ht) ++ [COLON] ++ bytes_of_Z pt)
       | _, _, _ => Err AssertionError
       end
     else Ok path0);
  let hs := match headers p with
            | Some ((_ :: _) as h) => rebuilt_request_headers disable_headers host_override h []
            | _ => []
            end in
  Ok (build_http_request ua (or_empty (method p)) target (or_empty (version p)) None (Some hs) body
                         false true).

(* the dict comprehension of build_response() *)
Fixpoint rebuilt_response_headers (h : hdict) (acc : bdict) : bdict :=
  match h with
  | [] => acc
  | (_, (orig, v)) :: t => rebuilt_response_headers t (dict_set orig v acc)
  end.

(* HttpParser.build_response() *)
Definition build_response (p : parser) : result bytes :=
  if negb (truthy (code p) && truthy (version p) && negb (is_request (ty p))) then Err AssertionError else
  do status <- int10 (or_empty (code p));
  let hs := match headers p with
            | Some ((_ :: _) as h) => rebuilt_response_headers h []
            | _ => []
            end in
  do body <- get_body_or_chunks p;
  (* no_cl = not self.body and not self.has_header(b'content-length'): a body-less response received
     without Content-Length is rebuilt without one *)
  let no_cl := negb (truthy (Parser.body p)) && negb (has_header p CONTENT_LENGTH) in
  Ok (build_http_response status (or_empty (version p)) (reason p) (Some hs) body false no_cl).

(* HttpParser.update_body(body, content_type); gz = gzip.compress *)
Definition update_body (gz : bytes -> bytes) (p : parser) (new_body content_type : bytes) : result parser :=
  do '(p1, b1) <-
    (if has_header p L_CONTENT_ENCODING then
       do ce <- header p L_CONTENT_ENCODING;
       if bytes_eqb ce V_GZIP then Ok (p, gz new_body)
       else Ok (del_header p L_CONTENT_ENCODING, new_body)
     else Ok (p, new_body));
  let p2 := if is_chunked_encoded p1 then del_header p1 CONTENT_LENGTH
            else add_header p1 H_CONTENT_LENGTH (bytes_of_N (len b1)) in
  Ok (add_header (set_body p2 (Some b1)) H_CONTENT_TYPE content_type).

(* the code before the repair: the chunked encoding was stored in self.body, and build() encodes
   self.body once more (kept for the refutation witness only) *)
Definition update_body_old (gz : bytes -> bytes) (p : parser) (new_body content_type : bytes) : result parser :=
  do '(p1, b1) <-
    (if has_header p L_CONTENT_ENCODING then
       do ce <- header p L_CONTENT_ENCODING;
       if bytes_eqb ce V_GZIP then Ok (p, gz new_body)
       else Ok (del_header p L_CONTENT_ENCODING, new_body)
     else Ok (p, new_body));
  do '(p2, b2) <-
    (if is_chunked_encoded p1 then
       do w <- to_chunks b1 DEFAULT_BUFFER_SIZE; Ok (del_header p1 CONTENT_LENGTH, w)
     else Ok (add_header p1 H_CONTENT_LENGTH (bytes_of_N (len b1)), b1));
  Ok (add_header (set_body p2 (Some b2)) H_CONTENT_TYPE content_type).
