(* C14 correspondence cases: each carries an input and what the implementation did with it
   (Url.from_bytes, HttpParser host/port/path, the socket-level call made by the real
   new_socket_connection / by the real proxy plugin); check_case evaluates the model and compares. *)
From PM Require Import Lib.Bytes Lib.PyStr Http.Url Http.Chunk Http.Parser Http.HttpCases Http.Upstream.
From Coq Require Import ZArith.

Definition attrs := (option bytes * option Z * option bytes)%type.
Definition attrs_eqb (x y : attrs) : bool :=
  let '(h1, p1, a1) := x in let '(h2, p2, a2) := y in
  option_eqb bytes_eqb h1 h2 && Z_opt_eqb p1 p2 && option_eqb bytes_eqb a1 a2.

Definition sockcall_eqb (x y : sockcall) : bool :=
  match x, y with
  | SockConnect f h p, SockConnect g k q => (f =? g) && bytes_eqb h k && (p =? q)%Z
  | CreateConnection h p, CreateConnection k q => bytes_eqb h k && (p =? q)%Z
  | _, _ => false
  end.

Fixpoint list_eqb {A} (eqb : A -> A -> bool) (x y : list A) : bool :=
  match x, y with
  | [], [] => true
  | a :: x', c :: y' => eqb a c && list_eqb eqb x' y'
  | _, _ => false
  end.

Definition to_obs {A} (r : result A) : obs A :=
  match r with Ok a => OkObs a | Err e => ErrObs 0 (exn_code e) end.

Inductive case :=
(* Url.from_bytes(raw) *)
| CFromBytes (raw : bytes) (expected : obs url)
(* HttpParser fed "<METHOD> raw HTTP/1.1 CRLF": (host, port, path); is_connect = METHOD is CONNECT *)
| CDerive (is_connect : bool) (raw : bytes) (expected : obs attrs)
(* new_socket_connection((host, port)) against fake socket primitives; ipver = ipaddress' verdict on the
   host text that reached it *)
| CSock (host : bytes) (port : Z) (ipver : option N) (expected : sockcall)
(* the real HttpProtocolHandler + HttpProxyPlugin fed one request: socket-level calls made and the code of
   an exception escaping handle_events (None: none escaped) *)
| CRoute (is_connect : bool) (raw : bytes) (ipver : option N) (calls : list sockcall) (escaped : option N).

Definition route_obs (ipver : option N) (is_connect : bool) (raw : bytes) : list sockcall * option N :=
  match derive is_connect raw with
  | Err _ => ([], None)                 (* parse errors become 400 BAD REQUEST inside the handler *)
  | Ok (h, p, _) =>
      match connect_upstream (fun _ => ipver) h p with
      | Ok call => ([call], None)
      | Err UnicodeDecodeError => ([], Some (exn_code UnicodeDecodeError))
      | Err _ => ([], None)
      end
  end.

Definition check_case (c : case) : bool :=
  match c with
  | CFromBytes raw e => obs_eqb url_eqb (to_obs (from_bytes DEFAULT_ALLOWED_URL_SCHEMES raw)) e
  | CDerive ic raw e => obs_eqb attrs_eqb (to_obs (derive ic raw)) e
  | CSock h p v e => sockcall_eqb (new_socket_connection (fun _ => v) (h, p)) e
  | CRoute ic raw v calls esc =>
      let '(mc, me) := route_obs v ic raw in
      list_eqb sockcall_eqb mc calls && option_eqb N.eqb me esc
  end.

(* model output, for replay files *)
Definition run_case (c : case) :=
  match c with
  | CFromBytes raw _ => (Some (to_obs (from_bytes DEFAULT_ALLOWED_URL_SCHEMES raw)), None, None)
  | CDerive ic raw _ => (None, Some (to_obs (derive ic raw)), None)
  | CSock h p v _ => (None, None, Some ([new_socket_connection (fun _ => v) (h, p)], None))
  | CRoute ic raw v _ _ => (None, None, Some (route_obs v ic raw))
  end.
