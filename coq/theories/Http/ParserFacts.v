(* Facts about the HttpParser model (Http/Parser.v): sufficiency of the fuel, an invariant of
   reachable parser states, the segmentation law (two pieces, n pieces, errors included) for
   every self-delimiting message, and "complete exactly at the end" for every message of an
   abstract grammar. *)
From PM Require Import Lib.Bytes Lib.BytesFacts Lib.PyStr Http.Url Http.Chunk Http.Parser Http.ChunkFacts.
From Coq Require Import ZArith Lia.

Ltac ust := unfold INITIALIZED, LINE_RCVD, RCVING_HEADERS, HEADERS_COMPLETE, RCVING_BODY, COMPLETE in *.
Ltac inv_ok H := inversion H; subst; clear H.

(* ------------------------------------------------------------------------------------- *)
(* helpers                                                                                *)

Definition bodyb (p : parser) : bytes := match body p with Some b => b | None => [] end.
Definition bufb (p : parser) : bytes := match buffer p with Some b => b | None => [] end.
Definition optb (r : bytes) : option bytes := match r with [] => None | _ => Some r end.

Lemma optb_inv r : match optb r with Some b => b | None => [] end = r.
Proof. destruct r; reflexivity. Qed.

Lemma len_pos_nz raw : (0 <? len raw) = nz raw.
Proof. destruct raw; [reflexivity|]. unfold len. cbn [length nz]. rewrite Nat2N.inj_succ.
  apply N.ltb_lt. lia. Qed.

Lemma len_app a b : len (a ++ b) = len a + len b.
Proof. unfold len. rewrite app_length. lia. Qed.

Lemma nil_match_nz (l : bytes) : match l with [] => true | _ => false end = negb (nz l).
Proof. destruct l; reflexivity. Qed.

(* ---- dictionaries ---- *)
Lemma dict_get_set_same {V} k (v : V) d : dict_get k (dict_set k v d) = Some v.
Proof.
  induction d as [|[k0 v0] t IH]; cbn [dict_set dict_get].
  - rewrite bytes_eqb_refl. reflexivity.
  - destruct (bytes_eqb k k0) eqn:E; cbn [dict_get].
    + rewrite bytes_eqb_refl. reflexivity.
    + rewrite E. exact IH.
Qed.

Lemma dict_get_set_other {V} k k' (v : V) d :
  bytes_eqb k k' = false -> dict_get k (dict_set k' v d) = dict_get k d.
Proof.
  intros N. induction d as [|[k0 v0] t IH]; cbn [dict_set dict_get].
  - rewrite N. reflexivity.
  - destruct (bytes_eqb k' k0) eqn:E; cbn [dict_get].
    + apply bytes_eqb_eq in E. subst k0. rewrite N. reflexivity.
    + rewrite IH. reflexivity.
Qed.

Lemma lower_CL : lower CONTENT_LENGTH = CONTENT_LENGTH.
Proof. reflexivity. Qed.

(* ------------------------------------------------------------------------------------- *)
(* invariant of reachable parser states (the part the loop itself maintains)              *)

Definition pinv (p : parser) : Prop :=
  (1 <= state p /\ state p <= 6) /\
  (state p < 4 -> body p = None) /\
  (content_expected p = true ->
     exists v T, header p CONTENT_LENGTH = Ok v /\ int10 v = Ok T /\ (0 < T)%Z /\
                 (state p < 6 -> (Z.of_nat (length (bodyb p)) < T)%Z)) /\
  (forall c, chunk p = Some c -> chunk_inv c).

Lemma pinv_new t : pinv (new_parser t).
Proof.
  unfold pinv, new_parser; cbn. repeat split; try lia; try discriminate.
Qed.

Lemma pinv_sbs p b s : pinv (set_buffer_size p b s) <-> pinv p.
Proof. unfold pinv. reflexivity. Qed.

(* ------------------------------------------------------------------------------------- *)
(* _process_header                                                                         *)

Definition hdr_kv (raw : bytes) : bytes * bytes :=
  match split_once [COLON] raw with
  | None => (strip raw, [])
  | Some (k, v) => (strip k, strip v)
  end.

Lemma process_header_eq p raw :
  process_header p raw =
  let key := fst (hdr_kv raw) in let value := snd (hdr_kv raw) in
  let h := add_header_d (headers p) key value in
  if bytes_eqb (lower key) CONTENT_LENGTH then
    do n <- int10 value; Ok (set_headers p (Some h) (is_chunked_encoded p) (0 <? n)%Z)
  else if bytes_eqb (lower key) TRANSFER_ENCODING && bytes_eqb (lower value) CHUNKED then
    Ok (set_headers p (Some h) true (content_expected p))
  else Ok (set_headers p (Some h) (is_chunked_encoded p) (content_expected p)).
Proof.
  unfold process_header, hdr_kv. destruct (split_once [COLON] raw) as [[k v]|]; reflexivity.
Qed.

Lemma process_header_sbs p raw b s :
  process_header (set_buffer_size p b s) raw =
  do p' <- process_header p raw; Ok (set_buffer_size p' b s).
Proof.
  rewrite !process_header_eq. cbv zeta.
  destruct (bytes_eqb _ CONTENT_LENGTH).
  - destruct (int10 _); reflexivity.
  - destruct (_ && _); reflexivity.
Qed.

Lemma process_header_err p raw e : process_header p raw = Err e -> e = ValueError.
Proof.
  rewrite process_header_eq. cbv zeta.
  destruct (bytes_eqb _ CONTENT_LENGTH).
  - destruct (int10 _) eqn:E; cbn [bind]; [discriminate|].
    intros H; inv_ok H. eapply py_int_err; exact E.
  - destruct (_ && _); discriminate.
Qed.

Lemma process_header_state p raw p' : process_header p raw = Ok p' -> state p' = state p.
Proof.
  rewrite process_header_eq. cbv zeta.
  destruct (bytes_eqb _ CONTENT_LENGTH).
  - destruct (int10 _); cbn [bind]; [|discriminate]. intros H; inv_ok H. reflexivity.
  - destruct (_ && _); intros H; inv_ok H; reflexivity.
Qed.

Lemma header_add_other p key value ch ce :
  bytes_eqb (lower key) CONTENT_LENGTH = false ->
  forall v, header p CONTENT_LENGTH = Ok v ->
  header (set_headers p (Some (add_header_d (headers p) key value)) ch ce) CONTENT_LENGTH = Ok v.
Proof.
  intros K v. unfold header. cbn [headers set_headers]. rewrite lower_CL.
  destruct (headers p) as [d|]; [|discriminate]. unfold add_header_d.
  rewrite dict_get_set_other; [tauto|].
  destruct (bytes_eqb CONTENT_LENGTH (lower key)) eqn:E; [|reflexivity].
  apply bytes_eqb_eq in E. rewrite <- E, bytes_eqb_refl in K. discriminate.
Qed.

Lemma process_header_inv p raw p' :
  pinv p -> state p < 4 -> process_header p raw = Ok p' -> pinv p'.
Proof.
  intros (R & B & C & K) S. rewrite process_header_eq. cbv zeta.
  set (key := fst (hdr_kv raw)). set (value := snd (hdr_kv raw)).
  destruct (bytes_eqb (lower key) CONTENT_LENGTH) eqn:E.
  - destruct (int10 value) as [n|] eqn:V; cbn [bind]; [|discriminate].
    intros H; inv_ok H. unfold pinv. cbn [state body chunk content_expected set_headers].
    split; [exact R|]. split; [exact B|]. split; [|exact K].
    intros L. apply Z.ltb_lt in L. exists value, n.
    split.
    { unfold header. cbn [headers set_headers]. rewrite lower_CL. unfold add_header_d.
      apply bytes_eqb_eq in E. rewrite E, dict_get_set_same. reflexivity. }
    split; [exact V|]. split; [exact L|]. intros _.
    unfold bodyb. cbn [body set_headers]. rewrite (B S). cbn. lia.
  - assert (G : forall ch, pinv (set_headers p (Some (add_header_d (headers p) key value)) ch (content_expected p))).
    { intros ch. unfold pinv. cbn [state body chunk content_expected set_headers].
      split; [exact R|]. split; [exact B|]. split; [|exact K].
      intros L. destruct (C L) as (v & T & Hh & Hi & Hp & Hb). exists v, T.
      split; [apply header_add_other; assumption|]. split; [exact Hi|]. split; [exact Hp|exact Hb]. }
    destruct (_ && _); intros H; inv_ok H; apply G.
Qed.

(* ------------------------------------------------------------------------------------- *)
(* _process_headers: one line, the loop, fuel                                              *)

Definition hdr_step (p : parser) (line : bytes) : result parser :=
  if (state p =? LINE_RCVD) || (state p =? RCVING_HEADERS) then
    if match strip line with [] => true | _ => false end
    then Ok (set_state p HEADERS_COMPLETE)
    else process_header (set_state p RCVING_HEADERS) line
  else Ok p.

Definition PH (p : parser) (raw : bytes) := process_headers (S (length raw)) p raw.

Lemma process_headers_S f p raw :
  process_headers (S f) p raw =
  match split_once CRLF raw with
  | None => Ok (false, raw, p)
  | Some (line, rest) =>
      do p' <- hdr_step p line;
      if negb (nz rest) || (state p' =? HEADERS_COMPLETE)
      then Ok (nz rest, rest, p')
      else process_headers f p' rest
  end.
Proof.
  cbn [process_headers]. destruct (split_once CRLF raw) as [[line rest]|]; [|reflexivity].
  unfold hdr_step. destruct rest; reflexivity.
Qed.

Lemma process_headers_fuel f1 : forall f2 p raw,
  (length raw < f1)%nat -> (length raw < f2)%nat ->
  process_headers f1 p raw = process_headers f2 p raw.
Proof.
  induction f1 as [|f1 IH]; intros f2 p raw H1 H2; [lia|].
  destruct f2 as [|f2]; [lia|]. rewrite !process_headers_S.
  destruct (split_once CRLF raw) as [[line rest]|] eqn:E; [|reflexivity].
  apply split_once_shrinks in E. cbn [length CRLF] in E.
  destruct (hdr_step p line) as [p'|]; cbn [bind]; [|reflexivity].
  destruct (_ || _); [reflexivity|]. apply IH; lia.
Qed.

Lemma PH_step p raw :
  PH p raw =
  match split_once CRLF raw with
  | None => Ok (false, raw, p)
  | Some (line, rest) =>
      do p' <- hdr_step p line;
      if negb (nz rest) || (state p' =? HEADERS_COMPLETE)
      then Ok (nz rest, rest, p')
      else PH p' rest
  end.
Proof.
  unfold PH. rewrite process_headers_S.
  destruct (split_once CRLF raw) as [[line rest]|] eqn:E; [|reflexivity].
  apply split_once_shrinks in E. cbn [length CRLF] in E.
  destruct (hdr_step p line) as [p'|]; cbn [bind]; [|reflexivity].
  destruct (_ || _); [reflexivity|]. apply process_headers_fuel; lia.
Qed.

(* functional induction for the header loop *)
Lemma PH_ind (P : parser -> bytes -> result (bool * bytes * parser) -> Prop) :
  (forall p raw, split_once CRLF raw = None -> P p raw (Ok (false, raw, p))) ->
  (forall p raw line rest e, split_once CRLF raw = Some (line, rest) ->
     hdr_step p line = Err e -> P p raw (Err e)) ->
  (forall p raw line rest p', split_once CRLF raw = Some (line, rest) ->
     hdr_step p line = Ok p' -> rest = [] \/ state p' = HEADERS_COMPLETE ->
     P p raw (Ok (nz rest, rest, p'))) ->
  (forall p raw line rest p', split_once CRLF raw = Some (line, rest) ->
     hdr_step p line = Ok p' -> rest <> [] -> state p' <> HEADERS_COMPLETE ->
     P p' rest (PH p' rest) -> P p raw (PH p' rest)) ->
  forall p raw, P p raw (PH p raw).
Proof.
  intros H1 H2 H3 H4.
  enough (G : forall n p raw, (length raw <= n)%nat -> P p raw (PH p raw)).
  { intros p raw. apply (G (length raw)). lia. }
  induction n as [|n IH]; intros p raw Hn; rewrite PH_step.
  - destruct raw; [|cbn in Hn; lia]. cbn. apply H1. reflexivity.
  - destruct (split_once CRLF raw) as [[line rest]|] eqn:E; [|apply H1; exact E].
    pose proof (split_once_shrinks _ _ _ _ E) as Hs. cbn [length CRLF] in Hs.
    destruct (hdr_step p line) as [p'|e] eqn:Hp; cbn [bind]; [|eapply H2; eassumption].
    destruct (nz rest) eqn:Z; cbn [negb orb].
    + destruct (N.eqb_spec (state p') HEADERS_COMPLETE) as [S|S].
      * rewrite <- Z. eapply H3; try eassumption. right; exact S.
      * apply nz_true in Z. eapply H4; try eassumption. apply IH. lia.
    + apply nz_false in Z. subst rest. eapply (H3 p raw line [] p'); try eassumption. left; reflexivity.
Qed.

Definition st23 (p : parser) : Prop := state p = LINE_RCVD \/ state p = RCVING_HEADERS.

Lemma st23_test p : st23 p -> (state p =? LINE_RCVD) || (state p =? RCVING_HEADERS) = true.
Proof. intros [H|H]; rewrite H; reflexivity. Qed.

Lemma hdr_step_state p line p' : st23 p -> hdr_step p line = Ok p' ->
  state p' = HEADERS_COMPLETE \/ state p' = RCVING_HEADERS.
Proof.
  intros S. unfold hdr_step. rewrite (st23_test p S).
  destruct (match strip line with [] => true | _ => false end).
  - intros H; inv_ok H. left; reflexivity.
  - intros H. apply process_header_state in H. right. exact H.
Qed.

Lemma hdr_step_inv p line p' : pinv p -> st23 p -> hdr_step p line = Ok p' -> pinv p'.
Proof.
  intros I S. unfold hdr_step. rewrite (st23_test p S).
  assert (S4 : state p < 4) by (destruct S as [S|S]; rewrite S; ust; lia).
  destruct I as (R & B & C & K).
  destruct (match strip line with [] => true | _ => false end).
  - intros H; inv_ok H. unfold pinv. cbn [state body chunk content_expected set_state].
    split; [ust; lia|]. split; [ust; lia|]. split; [|exact K].
    intros L. destruct (C L) as (v & T & Hh & Hi & Hp & Hb). exists v, T.
    repeat split; try assumption. intros _. unfold bodyb. cbn [body set_state].
    rewrite (B S4). cbn. lia.
  - apply process_header_inv.
    + unfold pinv. cbn [state body chunk content_expected set_state].
      split; [ust; lia|]. split; [intros _; exact (B S4)|]. split; [|exact K].
      intros L. destruct (C L) as (v & T & Hh & Hi & Hp & Hb). exists v, T.
      repeat split; try assumption. intros _. unfold bodyb. cbn [body set_state].
      rewrite (B S4). cbn. lia.
    + cbn [state set_state]. ust; lia.
Qed.

Lemma hdr_step_err p line e : hdr_step p line = Err e -> e = ValueError.
Proof.
  unfold hdr_step. destruct (_ || _); [|discriminate].
  destruct (match strip line with [] => true | _ => false end); [discriminate|].
  apply process_header_err.
Qed.

Lemma hdr_step_sbs p line b s :
  hdr_step (set_buffer_size p b s) line = do p' <- hdr_step p line; Ok (set_buffer_size p' b s).
Proof.
  unfold hdr_step. cbn [state set_buffer_size].
  destruct (_ || _); [|reflexivity].
  destruct (match strip line with [] => true | _ => false end); [reflexivity|].
  apply (process_header_sbs (set_state p RCVING_HEADERS)).
Qed.

(* what the header loop returns *)
Lemma PH_spec p raw : pinv p -> st23 p ->
  match PH p raw with
  | Ok (m, r, p') =>
      pinv p' /\ (length r <= length raw)%nat /\ (m = true -> (length r < length raw)%nat) /\
      ((st23 p' /\ m = false) \/ (state p' = HEADERS_COMPLETE /\ m = nz r))
  | Err e => e = ValueError
  end.
Proof.
  revert p raw.
  apply (PH_ind (fun p raw res => pinv p -> st23 p ->
    match res with
    | Ok (m, r, p') =>
        pinv p' /\ (length r <= length raw)%nat /\ (m = true -> (length r < length raw)%nat) /\
        ((st23 p' /\ m = false) \/ (state p' = HEADERS_COMPLETE /\ m = nz r))
    | Err e => e = ValueError
    end)).
  - intros p raw _ I S. split; [exact I|]. split; [lia|]. split; [discriminate|]. left. tauto.
  - intros p raw line rest e _ E _ _. eapply hdr_step_err; exact E.
  - intros p raw line rest p' E Hp C I S.
    apply split_once_shrinks in E. cbn [length CRLF] in E.
    split; [eapply hdr_step_inv; eassumption|]. split; [lia|]. split; [intros; lia|].
    destruct (hdr_step_state _ _ _ S Hp) as [S'|S'].
    + right. split; [exact S'|reflexivity].
    + destruct C as [C|C]; [|rewrite C in S'; discriminate]. subst rest. left.
      split; [right; exact S'|reflexivity].
  - intros p raw line rest p' E Hp Hr Hs IH I S.
    apply split_once_shrinks in E. cbn [length CRLF] in E.
    assert (I' : pinv p') by (eapply hdr_step_inv; eassumption).
    assert (S' : st23 p').
    { destruct (hdr_step_state _ _ _ S Hp) as [S'|S']; [contradiction|right; exact S']. }
    specialize (IH I' S'). destruct (PH p' rest) as [[[m r] p'']|e]; [|exact IH].
    destruct IH as (A & B & C & D). split; [exact A|]. split; [lia|]. split; [intros; lia|exact D].
Qed.

Lemma PH_sbs b s : forall p raw,
  PH (set_buffer_size p b s) raw =
  do '(m, r, p') <- PH p raw; Ok (m, r, set_buffer_size p' b s).
Proof.
  intros p raw. revert p raw.
  apply (PH_ind (fun p raw res =>
    PH (set_buffer_size p b s) raw = do '(m, r, p') <- res; Ok (m, r, set_buffer_size p' b s))).
  - intros p raw E. rewrite PH_step, E. reflexivity.
  - intros p raw line rest e E Hp. rewrite PH_step, E, hdr_step_sbs, Hp. reflexivity.
  - intros p raw line rest p' E Hp C. rewrite PH_step, E, hdr_step_sbs, Hp. cbn [bind state set_buffer_size].
    destruct C as [C|C].
    + subst rest. reflexivity.
    + rewrite C. rewrite orb_true_r. reflexivity.
  - intros p raw line rest p' E Hp Hr Hs IH. rewrite PH_step, E, hdr_step_sbs, Hp.
    cbn [bind state set_buffer_size].
    apply nz_true in Hr. rewrite Hr. apply N.eqb_neq in Hs. rewrite Hs. cbn [negb orb]. exact IH.
Qed.

(* ------------------------------------------------------------------------------------- *)
(* _process_line                                                                           *)

Lemma splitn2_cases sep l :
  (exists a, splitn sep 2 l = [a]) \/ (exists a c, splitn sep 2 l = [a; c]) \/
  (exists a c d, splitn sep 2 l = [a; c; d]).
Proof.
  cbn [splitn]. destruct (split_once sep l) as [[a r]|]; [|left; eauto].
  destruct (split_once sep r) as [[c d]|]; right; [right|left]; eauto.
Qed.

Lemma parse_authority_not_oof raw : parse_authority raw <> Err OutOfFuel.
Proof.
  unfold parse_authority.
  destruct (match split_once [AT] raw with None => _ | Some (ui, rest) => _ end) as [[user pass] hostport].
  destruct (splitn2_cases [COLON] hostport) as [(a & E)|[(a & c & E)|(a & c & d & E)]]; rewrite E.
  - discriminate.
  - destruct (int10 c) eqn:V; cbn [bind]; [discriminate|].
    intros H; inv_ok H. apply py_int_err in V. discriminate.
  - destruct (int10 _); destruct (patch_ipv6 _) eqn:Pq; cbn [bind]; try discriminate.
    all: unfold patch_ipv6, text_ in Pq; destruct (utf8_valid _); cbn [bind] in Pq;
      [|intros H; inv_ok H; discriminate].
    all: destruct (mem_byte _ _); try discriminate;
      match type of Pq with context [match ?x with [] => _ | _ :: _ => _ end] => destruct x end;
      try discriminate; destruct (_ && _); discriminate.
Qed.

Lemma from_bytes_not_oof al raw : from_bytes al raw <> Err OutOfFuel.
Proof.
  unfold from_bytes. destruct raw as [|c0 t]; [discriminate|].
  destruct (_ && negb _); [discriminate|].
  match goal with |- context [bind ?x _] => destruct x as [[sch rest]|e] eqn:E end; cbn [bind].
  - destruct rest as [rest'|].
    + destruct (match split_once [SLASH] rest' with None => _ | Some (a, p) => _ end) as [auth rem].
      pose proof (parse_authority_not_oof auth) as N.
      destruct (parse_authority auth) as [[[[u p] h] pt]|e]; cbn [bind]; [discriminate|congruence].
    + pose proof (parse_authority_not_oof (c0 :: t)) as N.
      destruct (parse_authority (c0 :: t)) as [[[[u p] h] pt]|e]; cbn [bind]; [discriminate|congruence].
  - destruct (negb _).
    + destruct (split_once _ _) as [[s r]|]; [|discriminate].
      destruct (mem_bytes s al); inv_ok E. discriminate.
    + discriminate.
Qed.

(* the result of a successful _process_line call *)
Inductive line_result (p : parser) (raw : bytes) : bool * bytes * parser -> Prop :=
| LR_wait : split_once CRLF raw = None -> line_result p raw (false, raw, p)
| LR_line line rest m u tn cd rs ver h pt pa :
    split_once CRLF raw = Some (line, rest) ->
    line_result p raw (nz rest, rest, set_line p m u tn cd rs ver h pt pa).

Lemma process_line_result al p raw x : process_line al p raw = Ok x -> line_result p raw x.
Proof.
  unfold process_line. destruct (split_once CRLF raw) as [[line rest]|] eqn:E.
  2:{ intros H; inv_ok H. apply LR_wait. exact E. }
  destruct (is_request (ty p)).
  - destruct (splitn [SP] 2 line) as [|x1 [|x2 [|x3 [|x4 l]]]]; try discriminate.
    destruct (from_bytes al x2) as [u|]; cbn [bind]; [|discriminate].
    destruct (line_attributes _ u) as [[h pt] pa].
    intros H; inv_ok H. eapply LR_line. exact E.
  - destruct (splitn [SP] 2 line) as [|x1 [|x2 [|x3 [|x4 l]]]]; try discriminate.
    + intros H; inv_ok H. eapply LR_line. exact E.
    + intros H; inv_ok H. eapply LR_line. exact E.
Qed.

Lemma process_line_not_oof al p raw : process_line al p raw <> Err OutOfFuel.
Proof.
  unfold process_line. destruct (split_once CRLF raw) as [[line rest]|]; [|discriminate].
  destruct (is_request (ty p)).
  - destruct (splitn [SP] 2 line) as [|x1 [|x2 [|x3 [|x4 l]]]]; try discriminate.
    pose proof (from_bytes_not_oof al x2) as N.
    destruct (from_bytes al x2) as [u|]; cbn [bind]; [|congruence].
    destruct (line_attributes _ u) as [[h pt] pa]. discriminate.
  - destruct (splitn [SP] 2 line) as [|x1 [|x2 [|x3 [|x4 l]]]]; discriminate.
Qed.

Lemma process_line_sbs al p raw b s :
  process_line al (set_buffer_size p b s) raw =
  do '(m, r, p') <- process_line al p raw; Ok (m, r, set_buffer_size p' b s).
Proof.
  unfold process_line. destruct (split_once CRLF raw) as [[line rest]|]; [|reflexivity].
  cbn [ty set_buffer_size].
  destruct (is_request (ty p)).
  - destruct (splitn [SP] 2 line) as [|x1 [|x2 [|x3 [|x4 l]]]]; try reflexivity.
    cbn [is_https_tunnel set_buffer_size].
    destruct (from_bytes al x2) as [u|]; cbn [bind]; [|reflexivity].
    destruct (line_attributes _ u) as [[h pt] pa]. reflexivity.
  - destruct (splitn [SP] 2 line) as [|x1 [|x2 [|x3 [|x4 l]]]]; reflexivity.
Qed.

Lemma pinv_set_line p m u tn cd rs ver h pt pa :
  pinv p -> state p = INITIALIZED -> pinv (set_line p m u tn cd rs ver h pt pa).
Proof.
  intros (R & B & C & K) S. unfold pinv. cbn [state body chunk content_expected set_line].
  assert (S4 : state p < 4) by (rewrite S; ust; lia).
  split; [ust; lia|]. split; [intros _; exact (B S4)|]. split; [|exact K].
  intros L. destruct (C L) as (v & T & Hh & Hi & Hp & Hb). exists v, T.
  repeat split; try assumption. intros _. unfold bodyb. cbn [body set_line]. rewrite (B S4). cbn. lia.
Qed.

(* ------------------------------------------------------------------------------------- *)
(* _process_body                                                                           *)

Definition chunk_of (p : parser) : chunkp := match chunk p with Some c => c | None => new_chunkp end.

Definition chunk_result (p : parser) (c' : chunkp) : parser :=
  let p1 := set_chunk p (Some c') in
  if cstate_eqb (cst c') CCOMPLETE then set_state (set_body p1 (Some (cbody c'))) COMPLETE else p1.

Lemma process_body_chunked p raw : is_chunked_encoded p = true ->
  process_body p raw = do '(raw', c') <- chunk_parse (chunk_of p) raw; Ok (false, raw', chunk_result p c').
Proof. intros H. unfold process_body. rewrite H. reflexivity. Qed.

Definition cl_result (p : parser) (b' : bytes) (T : Z) : parser :=
  let p2 := set_body (set_state p RCVING_BODY) (Some b') in
  if nz b' && (Z.of_nat (length b') =? T)%Z then set_state p2 COMPLETE else p2.

Lemma process_body_cl p raw v T :
  is_chunked_encoded p = false -> content_expected p = true ->
  header p CONTENT_LENGTH = Ok v -> int10 v = Ok T -> (Z.of_nat (length (bodyb p)) < T)%Z ->
  let k := (Z.to_nat T - length (bodyb p))%nat in
  process_body p raw = Ok (nz raw, skipn k raw, cl_result p (bodyb p ++ firstn k raw) T).
Proof.
  intros H1 H2 Hh Hi Hlt k. unfold process_body. rewrite H1, H2.
  change (header (set_state p RCVING_BODY) CONTENT_LENGTH) with (header p CONTENT_LENGTH).
  rewrite Hh. cbn [bind]. rewrite Hi. cbn [bind].
  change (match body (set_state p RCVING_BODY) with Some b => b | None => [] end) with (bodyb p).
  rewrite py_slice_to_pos, py_slice_from_pos by lia.
  replace (Z.to_nat (T - Z.of_nat (length (bodyb p)))) with k by (unfold k; lia).
  reflexivity.
Qed.

Lemma process_body_close p raw :
  is_chunked_encoded p = false -> content_expected p = false ->
  process_body p raw = Ok (false, [], set_body (set_state p RCVING_BODY) (Some raw)).
Proof. intros H1 H2. unfold process_body. rewrite H1, H2. reflexivity. Qed.

Lemma chunk_of_inv p : pinv p -> chunk_inv (chunk_of p).
Proof.
  intros (_ & _ & _ & K). unfold chunk_of. destruct (chunk p) as [c|]; [apply K; reflexivity|apply chunk_inv_new].
Qed.

Lemma pinv_cl p : pinv p -> content_expected p = true -> state p < 6 ->
  exists v T, header p CONTENT_LENGTH = Ok v /\ int10 v = Ok T /\ (Z.of_nat (length (bodyb p)) < T)%Z.
Proof.
  intros (_ & _ & C & _) L S. destruct (C L) as (v & T & Hh & Hi & Hp & Hb). exists v, T. auto.
Qed.

Lemma process_body_sbs p raw b s :
  process_body (set_buffer_size p b s) raw =
  do '(m, r, p') <- process_body p raw; Ok (m, r, set_buffer_size p' b s).
Proof.
  unfold process_body. cbn [is_chunked_encoded content_expected chunk set_buffer_size].
  destruct (is_chunked_encoded p).
  - destruct (chunk_parse _ raw) as [[raw' c']|]; cbn [bind]; [|reflexivity].
    destruct (cstate_eqb (cst c') CCOMPLETE); reflexivity.
  - destruct (content_expected p); [|reflexivity].
    change (header (set_state (set_buffer_size p b s) RCVING_BODY) CONTENT_LENGTH)
      with (header (set_state p RCVING_BODY) CONTENT_LENGTH).
    destruct (header (set_state p RCVING_BODY) CONTENT_LENGTH) as [cl|]; cbn [bind]; [|reflexivity].
    destruct (int10 cl) as [total|]; cbn [bind]; [|reflexivity].
    cbn [body set_state set_buffer_size].
    destruct (_ && _); reflexivity.
Qed.

Lemma process_body_spec p raw : pinv p -> 4 <= state p -> state p < 6 ->
  match process_body p raw with
  | Ok (m, r, p') =>
      pinv p' /\ 4 <= state p' /\ (m = false \/ (length r < length raw)%nat)
  | Err e => e <> OutOfFuel
  end.
Proof.
  intros I S4 S6. destruct (is_chunked_encoded p) eqn:CH.
  - rewrite process_body_chunked by exact CH.
    pose proof (chunk_of_inv p I) as IC.
    pose proof (chunk_parse_never_out_of_fuel (chunk_of p) raw IC) as NF.
    destruct (chunk_parse (chunk_of p) raw) as [[raw' c']|e] eqn:E; cbn [bind]; [|congruence].
    pose proof (chunk_parse_inv _ _ _ _ IC E) as IC'.
    destruct I as (R & B & C & K).
    split; [|split; [|left; reflexivity]].
    + unfold chunk_result, pinv. destruct (cstate_eqb (cst c') CCOMPLETE);
        cbn [state body chunk content_expected set_state set_body set_chunk].
      * split; [ust; lia|]. split; [ust; lia|]. split.
        -- intros L. destruct (C L) as (v & T & Hh & Hi & Hp & Hb). exists v, T.
           repeat split; try assumption. ust; lia.
        -- intros c H; inv_ok H. exact IC'.
      * split; [exact R|]. split; [exact B|]. split; [exact C|].
        intros c H; inv_ok H. exact IC'.
    + unfold chunk_result. destruct (cstate_eqb (cst c') CCOMPLETE);
        cbn [state set_state set_body set_chunk]; [ust; lia|exact S4].
  - destruct (content_expected p) eqn:CE.
    + destruct (pinv_cl p I CE S6) as (v & T & Hh & Hi & Hlt).
      rewrite (process_body_cl p raw v T CH CE Hh Hi Hlt).
      set (k := (Z.to_nat T - length (bodyb p))%nat).
      assert (Hk : (0 < k)%nat) by (unfold k; lia).
      set (b' := bodyb p ++ firstn k raw).
      assert (Lb : (length b' <= Z.to_nat T)%nat).
      { unfold b'. rewrite app_length. pose proof (firstn_le_length k raw). lia. }
      destruct I as (R & B & C & K). destruct (C CE) as (v0 & T0 & Hh0 & Hi0 & Hp0 & _).
      assert (T0 = T) by congruence. subst T0.
      split; [|split].
      * unfold cl_result, pinv.
        destruct (nz b' && (Z.of_nat (length b') =? T)%Z) eqn:D;
          cbn [state body chunk content_expected set_state set_body].
        -- split; [ust; lia|]. split; [ust; lia|]. split; [|exact K].
           intros _. exists v, T. repeat split; try assumption. ust; lia.
        -- split; [ust; lia|]. split; [ust; lia|]. split; [|exact K].
           intros _. exists v, T. repeat split; try assumption. intros _.
           unfold bodyb. cbn [body set_body set_state].
           apply andb_false_iff in D as [D|D].
           ++ apply nz_false in D. rewrite D. cbn. lia.
           ++ apply Z.eqb_neq in D. lia.
      * unfold cl_result. destruct (_ && _); cbn [state set_state set_body]; ust; lia.
      * destruct raw as [|x raw']; [left; reflexivity|right].
        rewrite skipn_length. cbn [length]. lia.
    + rewrite (process_body_close p raw CH CE).
      destruct I as (R & B & C & K).
      split; [|split; [cbn [state set_state set_body]; ust; lia|left; reflexivity]].
      unfold pinv. cbn [state body chunk content_expected set_state set_body].
      split; [ust; lia|]. split; [ust; lia|]. split; [|exact K].
      rewrite CE. discriminate.
Qed.

(* ------------------------------------------------------------------------------------- *)
(* maybe_complete                                                                          *)

Lemma maybe_complete_sbs p raw b s :
  maybe_complete (set_buffer_size p b s) raw = set_buffer_size (maybe_complete p raw) b s.
Proof.
  unfold maybe_complete. cbn [state content_expected is_chunked_encoded ty set_buffer_size].
  change (has_header (set_buffer_size p b s) CONTENT_LENGTH) with (has_header p CONTENT_LENGTH).
  destruct (_ && _ && _); reflexivity.
Qed.

Lemma maybe_complete_inv p raw : pinv p -> pinv (maybe_complete p raw).
Proof.
  intros I. unfold maybe_complete. destruct (_ && _ && _); [|exact I].
  destruct I as (R & B & C & K). unfold pinv. cbn [state body chunk content_expected set_state].
  split; [ust; lia|]. split; [ust; lia|]. split; [|exact K].
  intros L. destruct (C L) as (v & T & Hh & Hi & Hp & Hb). exists v, T.
  repeat split; try assumption. ust; lia.
Qed.

Lemma maybe_complete_not4 p raw : state p <> HEADERS_COMPLETE -> maybe_complete p raw = p.
Proof.
  intros H. unfold maybe_complete. apply N.eqb_neq in H. rewrite H. reflexivity.
Qed.

(* ------------------------------------------------------------------------------------- *)
(* one iteration of the parse loop                                                         *)

Definition proc (al : list bytes) (p : parser) (raw : bytes) : result (bool * bytes * parser) :=
  if HEADERS_COMPLETE <=? state p then process_body p raw
  else if state p =? INITIALIZED then process_line al p raw
  else PH p raw.

Lemma parse_loop_S f al m p raw :
  parse_loop (S f) al m p raw =
  if m && negb (state p =? COMPLETE) then
    do '(m', raw', p') <- proc al p raw; parse_loop f al m' (maybe_complete p' raw') raw'
  else Ok (raw, p).
Proof. reflexivity. Qed.

Lemma proc_sbs al p raw b s :
  proc al (set_buffer_size p b s) raw =
  do '(m, r, p') <- proc al p raw; Ok (m, r, set_buffer_size p' b s).
Proof.
  unfold proc. cbn [state set_buffer_size].
  destruct (HEADERS_COMPLETE <=? state p); [apply process_body_sbs|].
  destruct (state p =? INITIALIZED); [apply process_line_sbs|apply PH_sbs].
Qed.

Lemma state_cases p : pinv p -> state p <> COMPLETE ->
  (state p = INITIALIZED) \/ st23 p \/ (4 <= state p /\ state p < 6).
Proof.
  intros ((R1 & R2) & _) N. unfold st23. ust.
  destruct (N.eq_dec (state p) 1); [tauto|].
  destruct (N.eq_dec (state p) 2); [tauto|].
  destruct (N.eq_dec (state p) 3); [tauto|]. right; right. lia.
Qed.

Lemma proc_line al p raw : state p = INITIALIZED -> proc al p raw = process_line al p raw.
Proof. intros H. unfold proc. rewrite H. reflexivity. Qed.
Lemma proc_headers al p raw : st23 p -> proc al p raw = PH p raw.
Proof. intros [H|H]; unfold proc; rewrite H; reflexivity. Qed.
Lemma proc_body al p raw : 4 <= state p -> proc al p raw = process_body p raw.
Proof. intros H. unfold proc. apply N.leb_le in H. ust. rewrite H. reflexivity. Qed.

(* every iteration keeps the invariant and either stops the loop or consumes input *)
Lemma proc_spec al p raw : pinv p -> state p <> COMPLETE ->
  match proc al p raw with
  | Ok (m, r, p') => pinv (maybe_complete p' r) /\ (m = false \/ (length r < length raw)%nat)
  | Err e => e <> OutOfFuel
  end.
Proof.
  intros I N. destruct (state_cases p I N) as [S|[S|[S4 S6]]].
  - rewrite proc_line by exact S.
    pose proof (process_line_not_oof al p raw) as NF.
    destruct (process_line al p raw) as [x|e] eqn:E; [|congruence].
    apply process_line_result in E. destruct E as [E|line rest m u tn cd rs ver h pt pa E].
    + split; [apply maybe_complete_inv, I|left; reflexivity].
    + split; [apply maybe_complete_inv, pinv_set_line; assumption|].
      apply split_once_shrinks in E. cbn [length CRLF] in E. right. lia.
  - rewrite proc_headers by exact S.
    pose proof (PH_spec p raw I S) as H.
    destruct (PH p raw) as [[[m r] p']|e]; [|subst e; discriminate].
    destruct H as (A & B & C & D). split; [apply maybe_complete_inv, A|].
    destruct m; [right; apply C; reflexivity|left; reflexivity].
  - rewrite proc_body by exact S4.
    pose proof (process_body_spec p raw I S4 S6) as H.
    destruct (process_body p raw) as [[[m r] p']|e]; [|exact H].
    destruct H as (A & B & C). split; [apply maybe_complete_inv, A|exact C].
Qed.

(* ------------------------------------------------------------------------------------- *)
(* the loop: fuel is irrelevant, one-step unfolding, induction principle                  *)

Definition need (m : bool) (raw : bytes) : nat := if m then (2 + length raw)%nat else 1%nat.

Lemma parse_loop_fuel al f1 : forall f2 m p raw,
  pinv p -> (need m raw <= f1)%nat -> (need m raw <= f2)%nat ->
  parse_loop f1 al m p raw = parse_loop f2 al m p raw.
Proof.
  induction f1 as [|f1 IH]; intros f2 m p raw I H1 H2; [destruct m; cbn in H1; lia|].
  destruct f2 as [|f2]; [destruct m; cbn in H2; lia|]. rewrite !parse_loop_S.
  destruct (m && negb (state p =? COMPLETE)) eqn:C; [|reflexivity].
  apply andb_true_iff in C as [Cm C]. subst m. apply negb_true_iff, N.eqb_neq in C.
  pose proof (proc_spec al p raw I C) as H.
  destruct (proc al p raw) as [[[m' r] p']|e]; cbn [bind]; [|reflexivity].
  destruct H as (I' & D). cbn [need] in H1, H2.
  apply IH; [exact I'| |]; (destruct D as [D|D]; [subst m'; cbn [need]; lia|destruct m'; cbn [need]; lia]).
Qed.

(* the loop with the fuel parse_with gives it *)
Definition PL (al : list bytes) (m : bool) (p : parser) (raw : bytes) : result (bytes * parser) :=
  parse_loop (parse_fuel raw) al m p raw.

Lemma PL_step al m p raw : pinv p ->
  PL al m p raw =
  if m && negb (state p =? COMPLETE) then
    do '(m', raw', p') <- proc al p raw; PL al m' (maybe_complete p' raw') raw'
  else Ok (raw, p).
Proof.
  intros I. unfold PL at 1, parse_fuel. change (4 + length raw)%nat with (S (3 + length raw)).
  rewrite parse_loop_S.
  destruct (m && negb (state p =? COMPLETE)) eqn:C; [|reflexivity].
  apply andb_true_iff in C as [Cm C]. subst m. apply negb_true_iff, N.eqb_neq in C.
  pose proof (proc_spec al p raw I C) as H.
  destruct (proc al p raw) as [[[m' r] p']|e]; cbn [bind]; [|reflexivity].
  destruct H as (I' & D). unfold PL, parse_fuel.
  apply parse_loop_fuel; [exact I'| |]; (destruct D as [D|D]; [subst m'; cbn [need]; lia|destruct m'; cbn [need]; lia]).
Qed.

Lemma PL_false al p raw : PL al false p raw = Ok (raw, p).
Proof. reflexivity. Qed.

Lemma PL_complete al m p raw : state p = COMPLETE -> PL al m p raw = Ok (raw, p).
Proof.
  intros H. unfold PL, parse_fuel. change (4 + length raw)%nat with (S (3 + length raw)).
  rewrite parse_loop_S, H. rewrite andb_false_r. reflexivity.
Qed.

Lemma PL_step_true al p raw : pinv p -> state p <> COMPLETE ->
  PL al true p raw = do '(m', raw', p') <- proc al p raw; PL al m' (maybe_complete p' raw') raw'.
Proof.
  intros I N. rewrite PL_step by exact I. apply N.eqb_neq in N. rewrite N. reflexivity.
Qed.

Lemma PL_ind al (P : bool -> parser -> bytes -> result (bytes * parser) -> Prop) :
  (forall (m : bool) p raw, pinv p -> m = false \/ state p = COMPLETE -> P m p raw (Ok (raw, p))) ->
  (forall p raw e, pinv p -> state p <> COMPLETE -> proc al p raw = Err e -> P true p raw (Err e)) ->
  (forall p raw m' r p', pinv p -> state p <> COMPLETE -> proc al p raw = Ok (m', r, p') ->
     pinv (maybe_complete p' r) ->
     P m' (maybe_complete p' r) r (PL al m' (maybe_complete p' r) r) ->
     P true p raw (PL al m' (maybe_complete p' r) r)) ->
  forall m p raw, pinv p -> P m p raw (PL al m p raw).
Proof.
  intros H1 H2 H3.
  enough (G : forall n (m : bool) p (raw : bytes), ((if m then S (length raw) else 0) <= n)%nat -> pinv p ->
                                P m p raw (PL al m p raw)).
  { intros m p raw. apply (G (S (length raw))). destruct m; lia. }
  induction n as [|n IH]; intros m p raw Hn I.
  - destruct m; [lia|]. rewrite PL_false. apply H1; [exact I|left; reflexivity].
  - destruct m; [|rewrite PL_false; apply H1; [exact I|left; reflexivity]].
    destruct (N.eqb_spec (state p) COMPLETE) as [C|C].
    + rewrite PL_complete by exact C. apply H1; [exact I|right; exact C].
    + rewrite PL_step_true by assumption.
      pose proof (proc_spec al p raw I C) as H.
      destruct (proc al p raw) as [[[m' r] p']|e] eqn:E; cbn [bind].
      * destruct H as (I' & D). apply (H3 p raw m' r p' I C E I').
        apply IH; [|exact I']. destruct D as [D|D]; [subst m'; lia|destruct m'; lia].
      * apply (H2 p raw e I C E).
Qed.

Lemma PL_sbs al b s : forall m p raw, pinv p ->
  PL al m (set_buffer_size p b s) raw =
  do '(r, p') <- PL al m p raw; Ok (r, set_buffer_size p' b s).
Proof.
  apply (PL_ind al (fun m p raw res =>
    PL al m (set_buffer_size p b s) raw = do '(r, p') <- res; Ok (r, set_buffer_size p' b s))).
  - intros m p raw I [C|C].
    + subst m. reflexivity.
    + rewrite PL_complete by exact C. reflexivity.
  - intros p raw e I C E. rewrite PL_step_true; [|apply pinv_sbs, I|exact C].
    rewrite proc_sbs, E. reflexivity.
  - intros p raw m' r p' I C E I' IH. rewrite PL_step_true; [|apply pinv_sbs, I|exact C].
    rewrite proc_sbs, E. cbn [bind]. rewrite maybe_complete_sbs. exact IH.
Qed.

Lemma PL_inv al : forall m p raw, pinv p -> forall r p', PL al m p raw = Ok (r, p') -> pinv p'.
Proof.
  apply (PL_ind al (fun m p raw res => forall r p', res = Ok (r, p') -> pinv p')).
  - intros m p raw I _ r p' H; inv_ok H. exact I.
  - intros; discriminate.
  - intros p raw m' r0 p0 _ _ _ _ IH r p' H. apply (IH _ _ H).
Qed.

Lemma PL_not_oof al : forall m p raw, pinv p -> PL al m p raw <> Err OutOfFuel.
Proof.
  apply (PL_ind al (fun m p raw res => res <> Err OutOfFuel)).
  - intros; discriminate.
  - intros p raw e I C E H. inv_ok H. pose proof (proc_spec al p raw I C) as S. rewrite E in S. congruence.
  - intros; assumption.
Qed.

(* ------------------------------------------------------------------------------------- *)
(* parse in terms of PL                                                                    *)

Lemma parse_with_alt al p raw : pinv p ->
  parse_with al p raw =
  do '(r, p') <- PL al (nz raw) p (bufb p ++ raw);
  Ok (set_buffer_size p' (optb r) (total_size p + len raw)).
Proof.
  intros I. unfold parse_with. rewrite len_pos_nz.
  change (match buffer p with Some b => b ++ raw | None => raw end) with
    (match buffer p with Some b => b ++ raw | None => [] ++ raw end).
  replace (match buffer p with Some b => b ++ raw | None => [] ++ raw end) with (bufb p ++ raw)
    by (unfold bufb; destruct (buffer p); reflexivity).
  fold (PL al (nz raw) (set_buffer_size p None (total_size p + len raw)) (bufb p ++ raw)).
  rewrite PL_sbs by exact I.
  destruct (PL al (nz raw) p (bufb p ++ raw)) as [[r p']|e]; reflexivity.
Qed.

(* ------------------------------------------------------------------------------------- *)
(* stability of one iteration under extension of the input                                *)

(* the class the property excludes, recognised on the final state: a message whose headers ended
   with neither a content-length header nor chunked encoding and that was followed by at least
   one more byte (only responses get there: such a message is delimited by connection close) *)
Definition framed (p : parser) : bool :=
  negb ((state p =? RCVING_BODY) && negb (content_expected p) && negb (is_chunked_encoded p)).

Definition framedR (R : result (bytes * parser)) : Prop :=
  match R with Ok (_, p) => framed p = true | Err _ => True end.

Lemma framed_sbs p b s : framed (set_buffer_size p b s) = framed p.
Proof. reflexivity. Qed.

Lemma PH_app b : b <> [] -> forall p raw, st23 p ->
  match PH p raw with
  | Ok (m, r, pk) =>
      (state pk = HEADERS_COMPLETE /\ PH p (raw ++ b) = Ok (true, r ++ b, pk)) \/
      (st23 pk /\ m = false /\ PH p (raw ++ b) = PH pk (r ++ b))
  | Err e => PH p (raw ++ b) = Err e
  end.
Proof.
  intros Hb.
  apply (PH_ind (fun p raw res => st23 p ->
    match res with
    | Ok (m, r, pk) =>
        (state pk = HEADERS_COMPLETE /\ PH p (raw ++ b) = Ok (true, r ++ b, pk)) \/
        (st23 pk /\ m = false /\ PH p (raw ++ b) = PH pk (r ++ b))
    | Err e => PH p (raw ++ b) = Err e
    end)).
  - intros p raw _ S. right. auto.
  - intros p raw line rest e E Hp _. rewrite PH_step, (split_once_app _ _ b _ _ E), Hp. reflexivity.
  - intros p raw line rest p' E Hp C S.
    rewrite (PH_step p (raw ++ b)), (split_once_app _ _ b _ _ E), Hp. cbn [bind].
    rewrite (nz_app_r rest b Hb). cbn [negb orb].
    destruct (N.eqb_spec (state p') HEADERS_COMPLETE) as [S4|S4].
    + left. auto.
    + destruct C as [C|C]; [|contradiction]. subst rest. right.
      split; [|split; reflexivity].
      destruct (hdr_step_state _ _ _ S Hp) as [S'|S']; [contradiction|right; exact S'].
  - intros p raw line rest p' E Hp Hr Hs IH S.
    assert (S' : st23 p').
    { destruct (hdr_step_state _ _ _ S Hp) as [S'|S']; [contradiction|right; exact S']. }
    assert (X : PH p (raw ++ b) = PH p' (rest ++ b)).
    { rewrite (PH_step p (raw ++ b)), (split_once_app _ _ b _ _ E), Hp. cbn [bind].
      rewrite (nz_app_r rest b Hb). apply N.eqb_neq in Hs. rewrite Hs. reflexivity. }
    rewrite X. exact (IH S').
Qed.

Lemma process_line_app al p raw b line rest : split_once CRLF raw = Some (line, rest) ->
  process_line al p (raw ++ b) =
  do '(m, r, p') <- process_line al p raw; Ok (nz (r ++ b), r ++ b, p').
Proof.
  intros E. unfold process_line. rewrite (split_once_app _ _ b _ _ E), E.
  destruct (is_request (ty p)).
  - destruct (splitn [SP] 2 line) as [|x1 [|x2 [|x3 [|x4 l]]]]; try reflexivity.
    destruct (from_bytes al x2) as [u|]; cbn [bind]; [|reflexivity].
    destruct (line_attributes _ u) as [[h pt] pa]. reflexivity.
  - destruct (splitn [SP] 2 line) as [|x1 [|x2 [|x3 [|x4 l]]]]; reflexivity.
Qed.

Lemma maybe_complete_chunked p raw : is_chunked_encoded p = true -> maybe_complete p raw = p.
Proof.
  intros H. unfold maybe_complete. rewrite H, orb_true_r. cbn [negb]. rewrite andb_false_r. reflexivity.
Qed.

Lemma pair_bind_eta {A B} (r : result (A * B)) : (do '(a, b) <- r; Ok (a, b)) = r.
Proof. destruct r as [[a b]|]; reflexivity. Qed.

Lemma cl_result_state p b' T : state (cl_result p b' T) = RCVING_BODY \/ state (cl_result p b' T) = COMPLETE.
Proof. unfold cl_result. destruct (_ && _); cbn [state set_state set_body]; auto. Qed.

Lemma cl_result_idem p y b' T :
  cl_result (set_body (set_state p RCVING_BODY) (Some y)) b' T = cl_result p b' T.
Proof. unfold cl_result. destruct (_ && _); reflexivity. Qed.

Lemma proc_app al p raw b m' r p' : pinv p -> state p <> COMPLETE -> b <> [] ->
  proc al p raw = Ok (m', r, p') ->
  (proc al p (raw ++ b) = Ok (true, r ++ b, p') /\ maybe_complete p' (r ++ b) = maybe_complete p' r) \/
  (exists p'', PL al m' (maybe_complete p' r) r = Ok (r, p'') /\ pinv p'' /\ state p'' <> COMPLETE /\
               proc al p'' (r ++ b) = proc al p (raw ++ b)) \/
  (m' = false /\ state p' = COMPLETE /\ proc al p (raw ++ b) = Ok (false, r ++ b, p')) \/
  (exists x, PL al true p (raw ++ b) = Ok x /\ framed (snd x) = false).
Proof.
  intros I N Hb. destruct (state_cases p I N) as [S|[S|[S4 S6]]].
  - (* request / status line *)
    rewrite !proc_line by exact S.
    destruct (split_once CRLF raw) as [[line rest]|] eqn:E.
    + intros H. rewrite (process_line_app al p raw b line rest E), H. cbn [bind].
      apply process_line_result in H. inversion H as [E'|line0 rest0 m u tn cd rs ver h pt pa E']; subst.
      { rewrite E in E'. discriminate. }
      left. rewrite (nz_app_r r b Hb). split; [reflexivity|].
      rewrite !maybe_complete_not4 by (cbn [state set_line]; discriminate). reflexivity.
    + unfold process_line at 1. rewrite E. intros H; inv_ok H.
      right; left. exists p'. rewrite maybe_complete_not4 by (rewrite S; discriminate).
      split; [reflexivity|]. split; [exact I|]. split; [exact N|]. rewrite proc_line by exact S. reflexivity.
  - (* header lines *)
    rewrite (proc_headers al p raw S), (proc_headers al p (raw ++ b) S).
    pose proof (PH_app b Hb p raw S) as A. pose proof (PH_spec p raw I S) as Sp.
    intros H. rewrite H in A, Sp. destruct Sp as (I' & _ & _ & _).
    destruct A as [(S4 & A)|(S' & Em & A)].
    + (* headers ended inside raw *)
      destruct r as [|r0 r'].
      2:{ left. split; [exact A|]. unfold maybe_complete. reflexivity. }
      cbn [app] in *.
      destruct ((state p' =? HEADERS_COMPLETE) && negb (content_expected p' || is_chunked_encoded p')) eqn:C0.
      2:{ left. split; [exact A|]. unfold maybe_complete. rewrite C0. reflexivity. }
      destruct (is_request (ty p') || has_header p' CONTENT_LENGTH) eqn:C1.
      { left. split; [exact A|]. unfold maybe_complete. rewrite C0. destruct b; [congruence|].
        cbn [orb andb]. rewrite C1. reflexivity. }
      (* a response without framing followed by b: close-delimited *)
      right; right; right.
      apply andb_true_iff in C0 as [_ C0]. apply negb_true_iff, orb_false_iff in C0 as [CE CH].
      assert (M : maybe_complete p' b = p').
      { unfold maybe_complete. destruct b; [congruence|]. cbn [orb]. rewrite C1, andb_false_r. reflexivity. }
      exists ([], set_body (set_state p' RCVING_BODY) (Some b)). split.
      * rewrite PL_step_true by assumption. rewrite (proc_headers al p _ S), A. cbn [bind]. rewrite M.
        rewrite PL_step_true; [|exact I'|rewrite S4; discriminate].
        rewrite proc_body by (rewrite S4; ust; lia).
        rewrite (process_body_close p' b CH CE). cbn [bind]. rewrite PL_false.
        rewrite maybe_complete_not4 by (cbn [state set_state set_body]; discriminate). reflexivity.
      * unfold framed. cbn [snd state set_state set_body content_expected is_chunked_encoded].
        rewrite CE, CH. reflexivity.
    + (* still inside the header block *)
      subst m'. right; left. exists p'.
      assert (N4 : state p' <> HEADERS_COMPLETE) by (destruct S' as [S'|S']; rewrite S'; discriminate).
      rewrite maybe_complete_not4 by exact N4.
      split; [reflexivity|]. split; [exact I'|].
      split; [destruct S' as [S'|S']; rewrite S'; discriminate|].
      rewrite (proc_headers al p' _ S'). symmetry. exact A.
  - (* body *)
    rewrite (proc_body al p raw S4), (proc_body al p (raw ++ b) S4).
    destruct (is_chunked_encoded p) eqn:CH.
    + rewrite !process_body_chunked by exact CH.
      pose proof (chunk_of_inv p I) as IC.
      rewrite (chunk_two_piece _ raw b IC).
      destruct (chunk_parse (chunk_of p) raw) as [[ra c1]|e] eqn:E; cbn [bind]; [|discriminate].
      intros H; inv_ok H.
      pose proof (process_body_spec p raw I S4 S6) as Sp.
      rewrite process_body_chunked, E in Sp by exact CH. cbn [bind] in Sp. destruct Sp as (I' & _ & _).
      destruct (cstate_eqb (cst c1) CCOMPLETE) eqn:C1.
      * right; right; left. split; [reflexivity|].
        split; [unfold chunk_result; rewrite C1; reflexivity|].
        apply cstate_eqb_complete in C1. rewrite (chunk_parse_done c1 b C1). reflexivity.
      * right; left.
        destruct (chunk_parse_remainder _ _ _ _ IC E) as [Er|Ec];
          [|apply cstate_eqb_complete in Ec; congruence].
        subst r. exists (chunk_result p c1).
        assert (X : chunk_result p c1 = set_chunk p (Some c1)) by (unfold chunk_result; rewrite C1; reflexivity).
        rewrite maybe_complete_chunked by (rewrite X; exact CH). rewrite PL_false.
        split; [reflexivity|]. split; [exact I'|].
        split; [rewrite X; exact N|].
        rewrite proc_body by (rewrite X; exact S4). rewrite X.
        rewrite process_body_chunked by exact CH. cbn [app].
        change (chunk_of (set_chunk p (Some c1))) with c1.
        destruct (chunk_parse c1 b) as [[rb c2]|e]; reflexivity.
    + destruct (content_expected p) eqn:CE.
      * destruct (pinv_cl p I CE S6) as (v & T & Hh & Hi & Hlt).
        rewrite (process_body_cl p raw v T CH CE Hh Hi Hlt), (process_body_cl p (raw ++ b) v T CH CE Hh Hi Hlt).
        set (k := (Z.to_nat T - length (bodyb p))%nat).
        assert (Hk : (0 < k)%nat) by (unfold k; lia).
        intros H; inv_ok H. rewrite firstn_app, skipn_app.
        destruct (Nat.le_gt_cases k (length raw)) as [L|L].
        -- (* the body ends inside raw *)
           left. replace (k - length raw)%nat with 0%nat by lia. cbn [firstn skipn]. rewrite app_nil_r.
           rewrite (nz_app_r raw b Hb). replace (nz raw) with true by (destruct raw; [cbn in L; lia|reflexivity]).
           split; [reflexivity|].
           destruct (cl_result_state p (bodyb p ++ firstn k raw) T) as [X|X];
             rewrite !maybe_complete_not4 by (rewrite X; discriminate); reflexivity.
        -- (* raw is shorter than what the body still needs *)
           right; left. rewrite (firstn_all2 raw), (skipn_all2 raw) by lia. cbn [app].
           set (p2 := set_body (set_state p RCVING_BODY) (Some (bodyb p ++ raw))).
           assert (X : cl_result p (bodyb p ++ raw) T = p2).
           { unfold cl_result. fold p2.
             replace (Z.of_nat (length (bodyb p ++ raw)) =? T)%Z with false
               by (symmetry; apply Z.eqb_neq; rewrite app_length; lia).
             rewrite andb_false_r. reflexivity. }
           rewrite X.
           pose proof (process_body_spec p raw I S4 S6) as Sp.
           rewrite (process_body_cl p raw v T CH CE Hh Hi Hlt) in Sp. fold k in Sp.
           rewrite (firstn_all2 raw), (skipn_all2 raw), X in Sp by lia. destruct Sp as (I2 & _ & _).
           assert (Hlt2 : (Z.of_nat (length (bodyb p2)) < T)%Z).
           { unfold bodyb, p2. cbn [body set_body]. rewrite app_length. lia. }
           assert (N2 : state p2 <> COMPLETE) by (unfold p2; cbn [state set_state set_body]; discriminate).
           assert (S2 : 4 <= state p2) by (unfold p2; cbn [state set_state set_body]; ust; lia).
           assert (B2 : forall raw2, process_body p2 raw2 =
                     Ok (nz raw2, skipn (k - length raw) raw2,
                         cl_result p (bodyb p ++ raw ++ firstn (k - length raw) raw2) T)).
           { intros raw2. rewrite (process_body_cl p2 raw2 v T CH CE Hh Hi Hlt2).
             cbv zeta. assert (Bp2 : bodyb p2 = bodyb p ++ raw) by reflexivity.
             rewrite !Bp2. unfold p2. rewrite app_length.
             replace (Z.to_nat T - (length (bodyb p) + length raw))%nat with (k - length raw)%nat
               by (unfold k; lia).
             rewrite <- app_assoc. rewrite cl_result_idem. reflexivity. }
           exists p2. rewrite maybe_complete_not4 by (unfold p2; cbn [state set_state set_body]; discriminate).
           split.
           { destruct raw as [|x raw']; [reflexivity|]. change (nz (x :: raw')) with true.
             rewrite PL_step_true by assumption. rewrite proc_body by exact S2.
             rewrite B2. cbn [bind nz length Nat.eqb negb]. rewrite skipn_nil, firstn_nil, app_nil_r.
             rewrite X. rewrite maybe_complete_not4 by (unfold p2; cbn [state set_state set_body]; discriminate).
             reflexivity. }
           split; [exact I2|]. split; [exact N2|].
           rewrite proc_body by exact S2. rewrite B2. rewrite (nz_app_r raw b Hb).
           replace (nz b) with true by (destruct b; [congruence|reflexivity]). reflexivity.
      * (* neither content-length nor chunked: whatever follows is taken as the body *)
        rewrite !(process_body_close p _ CH CE). intros H; inv_ok H.
        right; right; right.
        exists ([], set_body (set_state p RCVING_BODY) (Some (raw ++ b))). split.
        -- rewrite PL_step_true by assumption. rewrite proc_body by exact S4.
           rewrite (process_body_close p _ CH CE). cbn [bind]. rewrite PL_false.
           rewrite maybe_complete_not4 by (cbn [state set_state set_body]; discriminate). reflexivity.
        -- unfold framed. cbn [snd state set_state set_body content_expected is_chunked_encoded].
           rewrite CE, CH. reflexivity.
Qed.

Lemma proc_app_err al p raw b e : pinv p -> state p <> COMPLETE -> b <> [] ->
  proc al p raw = Err e -> proc al p (raw ++ b) = Err e.
Proof.
  intros I N Hb. destruct (state_cases p I N) as [S|[S|[S4 S6]]].
  - rewrite !proc_line by exact S.
    destruct (split_once CRLF raw) as [[line rest]|] eqn:E.
    + intros H. rewrite (process_line_app al p raw b line rest E), H. reflexivity.
    + unfold process_line at 1. rewrite E. discriminate.
  - rewrite (proc_headers al p raw S), (proc_headers al p (raw ++ b) S).
    pose proof (PH_app b Hb p raw S) as A. intros H. rewrite H in A. exact A.
  - rewrite (proc_body al p raw S4), (proc_body al p (raw ++ b) S4).
    destruct (is_chunked_encoded p) eqn:CH.
    + rewrite !process_body_chunked by exact CH.
      rewrite (chunk_two_piece _ raw b (chunk_of_inv p I)).
      destruct (chunk_parse (chunk_of p) raw) as [[ra c1]|e1]; cbn [bind]; [discriminate|].
      intros H; exact H.
    + destruct (content_expected p) eqn:CE.
      * destruct (pinv_cl p I CE S6) as (v & T & Hh & Hi & Hlt).
        rewrite (process_body_cl p raw v T CH CE Hh Hi Hlt). discriminate.
      * rewrite (process_body_close p _ CH CE). discriminate.
Qed.

(* ------------------------------------------------------------------------------------- *)
(* the segmentation law for the loop                                                      *)

Lemma PL_app al b : b <> [] -> forall m p raw, pinv p ->
  forall R, PL al true p (raw ++ b) = R -> framedR R ->
  (do '(r1, p1) <- PL al m p raw; PL al true p1 (r1 ++ b)) = R.
Proof.
  intros Hb.
  apply (PL_ind al (fun m p raw res => forall R, PL al true p (raw ++ b) = R -> framedR R ->
           (do '(r1, p1) <- res; PL al true p1 (r1 ++ b)) = R)).
  - intros m p raw _ _ R H _. exact H.
  - intros p raw e I N E R H _. cbn [bind]. rewrite <- H.
    rewrite PL_step_true by assumption. rewrite (proc_app_err al p raw b e I N Hb E). reflexivity.
  - intros p raw m' r p' I N E I' IH R H F.
    destruct (proc_app al p raw b m' r p' I N Hb E) as [(A1 & A2)|[(p'' & B1 & B2 & B3 & B4)|[(C1 & C2 & C3)|(x & D1 & D2)]]].
    + apply IH; [|exact F]. rewrite <- H. rewrite (PL_step_true al p (raw ++ b)) by assumption.
      rewrite A1. cbn [bind]. rewrite A2. reflexivity.
    + rewrite B1. cbn [bind]. rewrite <- H.
      rewrite (PL_step_true al p (raw ++ b)) by assumption.
      rewrite (PL_step_true al p'' (r ++ b)) by assumption. rewrite B4. reflexivity.
    + subst m'. rewrite PL_false. cbn [bind]. rewrite <- H.
      rewrite (PL_step_true al p (raw ++ b)) by assumption. rewrite C3. cbn [bind]. rewrite PL_false.
      rewrite !maybe_complete_not4 by (rewrite C2; discriminate).
      apply PL_complete. exact C2.
    + exfalso. rewrite D1 in H. subst R. destruct x as [rx px]. cbn [framedR snd] in *. congruence.
Qed.

(* ------------------------------------------------------------------------------------- *)
(* parser-level invariant and theorems                                                     *)

Definition parser_inv (p : parser) : Prop := pinv p /\ buffer p <> Some [].

Lemma parser_inv_new t : parser_inv (new_parser t).
Proof. split; [apply pinv_new|discriminate]. Qed.

Lemma optb_not_some_nil r : optb r <> Some [].
Proof. destruct r; discriminate. Qed.

Lemma parse_with_inv al p raw p' : parser_inv p -> parse_with al p raw = Ok p' -> parser_inv p'.
Proof.
  intros (I & _). rewrite parse_with_alt by exact I.
  destruct (PL al (nz raw) p (bufb p ++ raw)) as [[r q]|e] eqn:E; cbn [bind]; [|discriminate].
  intros H; inv_ok H. split.
  - apply pinv_sbs. eapply PL_inv; eassumption.
  - cbn [buffer set_buffer_size]. apply optb_not_some_nil.
Qed.

Theorem parse_with_never_out_of_fuel al p raw : parser_inv p -> parse_with al p raw <> Err OutOfFuel.
Proof.
  intros (I & _). rewrite parse_with_alt by exact I.
  pose proof (PL_not_oof al (nz raw) p (bufb p ++ raw) I) as N.
  destruct (PL al (nz raw) p (bufb p ++ raw)) as [[r q]|e]; cbn [bind]; congruence.
Qed.

Definition framedP (R : result parser) : Prop :=
  match R with Ok p => framed p = true | Err _ => True end.

Lemma parser_eta (p : parser) :
  set_buffer_size p (buffer p) (total_size p) = p.
Proof. destruct p; reflexivity. Qed.

Lemma parse_with_nil al p : parser_inv p -> parse_with al p [] = Ok p.
Proof.
  intros (I & B). rewrite parse_with_alt by exact I. rewrite app_nil_r. cbn [nz length Nat.eqb negb].
  rewrite PL_false. cbn [bind]. change (len []) with 0. rewrite N.add_0_r.
  replace (optb (bufb p)) with (buffer p); [rewrite parser_eta; reflexivity|].
  unfold bufb. revert B. destruct (buffer p) as [[|x t]|]; intros B; try reflexivity. exfalso; apply B; reflexivity.
Qed.

(* feeding a ++ b at once = feeding a, then b: full parser record, errors included, provided the
   whole-feed result is not in the excluded (close-delimited) class *)
Theorem two_piece_gen al p a b R : parser_inv p ->
  parse_with al p (a ++ b) = R -> framedP R ->
  (do p1 <- parse_with al p a; parse_with al p1 b) = R.
Proof.
  intros PI H F. pose proof PI as (I & B).
  destruct b as [|b0 b'].
  { rewrite app_nil_r in H. rewrite H. destruct R as [p2|e]; cbn [bind]; [|reflexivity].
    apply parse_with_nil. eapply parse_with_inv; eassumption. }
  destruct a as [|a0 a'].
  { rewrite (parse_with_nil al p PI). cbn [bind]. exact H. }
  set (a := a0 :: a') in *. set (b := b0 :: b') in *.
  assert (Hb : b <> []) by discriminate.
  rewrite parse_with_alt in H by exact I. rewrite (parse_with_alt al p a) by exact I.
  rewrite (nz_app_r a b Hb) in H. change (nz a) with true. rewrite app_assoc in H.
  destruct (PL al true p ((bufb p ++ a) ++ b)) as [[r p']|e] eqn:W; cbn [bind] in H.
  - subst R. cbn [framedP] in F. rewrite framed_sbs in F.
    pose proof (PL_app al b Hb true p (bufb p ++ a) I _ W F) as L.
    destruct (PL al true p (bufb p ++ a)) as [[r1 p1]|e1] eqn:A; cbn [bind] in L |- *; [|discriminate].
    assert (I1 : pinv p1) by (eapply PL_inv; eassumption).
    rewrite parse_with_alt by (apply pinv_sbs; exact I1).
    change (nz b) with true. unfold bufb at 1. cbn [buffer set_buffer_size]. rewrite optb_inv.
    rewrite PL_sbs by exact I1. rewrite L. cbn [bind total_size set_buffer_size].
    rewrite len_app, N.add_assoc. reflexivity.
  - subst R.
    pose proof (PL_app al b Hb true p (bufb p ++ a) I _ W Logic.I) as L.
    destruct (PL al true p (bufb p ++ a)) as [[r1 p1]|e1] eqn:A; cbn [bind] in L |- *; [|congruence].
    assert (I1 : pinv p1) by (eapply PL_inv; eassumption).
    rewrite parse_with_alt by (apply pinv_sbs; exact I1).
    change (nz b) with true. unfold bufb at 1. cbn [buffer set_buffer_size]. rewrite optb_inv.
    rewrite PL_sbs by exact I1. rewrite L. reflexivity.
Qed.

Fixpoint parse_pieces_with (al : list bytes) (p : parser) (pieces : list bytes) : result parser :=
  match pieces with
  | [] => Ok p
  | x :: t => do p' <- parse_with al p x; parse_pieces_with al p' t
  end.

Lemma parse_pieces_with_default p pieces : parse_pieces p pieces = parse_pieces_with DEFAULT_ALLOWED_URL_SCHEMES p pieces.
Proof. revert p; induction pieces as [|x t IH]; intros p; cbn [parse_pieces parse_pieces_with]; [reflexivity|].
  unfold parse. destruct (parse_with _ p x); cbn [bind]; [apply IH|reflexivity]. Qed.

Theorem segmentation_gen al pieces : forall p R, parser_inv p ->
  parse_with al p (concat pieces) = R -> framedP R -> parse_pieces_with al p pieces = R.
Proof.
  induction pieces as [|x t IH]; intros p R PI H F; cbn [concat parse_pieces_with] in *.
  - rewrite <- H. symmetry. apply parse_with_nil, PI.
  - pose proof (two_piece_gen al p x (concat t) R PI H F) as L.
    destruct (parse_with al p x) as [p1|e] eqn:E; cbn [bind] in L |- *; [|exact L].
    apply IH; [eapply parse_with_inv; eassumption|exact L|exact F].
Qed.

(* the statements for HttpParser.parse with its default allowed_url_schemes *)
Theorem parse_never_out_of_fuel p raw : parser_inv p -> parse p raw <> Err OutOfFuel.
Proof. apply parse_with_never_out_of_fuel. Qed.

Theorem parse_inv p raw p' : parser_inv p -> parse p raw = Ok p' -> parser_inv p'.
Proof. apply parse_with_inv. Qed.

Theorem two_piece p a b p2 : parser_inv p -> parse p (a ++ b) = Ok p2 -> framed p2 = true ->
  exists p1, parse p a = Ok p1 /\ parse p1 b = Ok p2.
Proof.
  intros PI H F. pose proof (two_piece_gen _ p a b (Ok p2) PI H F) as L. unfold parse.
  destruct (parse_with _ p a) as [p1|e]; cbn [bind] in L; [|discriminate]. exists p1. auto.
Qed.

Theorem two_piece_err p a b e : parser_inv p -> parse p (a ++ b) = Err e ->
  parse p a = Err e \/ exists p1, parse p a = Ok p1 /\ parse p1 b = Err e.
Proof.
  intros PI H. pose proof (two_piece_gen _ p a b (Err e) PI H Logic.I) as L. unfold parse.
  destruct (parse_with _ p a) as [p1|e1]; cbn [bind] in L; [right; exists p1; auto|left; exact L].
Qed.

Theorem segmentation t segs p : parse (new_parser t) (concat segs) = Ok p -> framed p = true ->
  parse_pieces (new_parser t) segs = Ok p.
Proof.
  intros H F. rewrite parse_pieces_with_default.
  apply (segmentation_gen _ segs (new_parser t) (Ok p) (parser_inv_new t) H F).
Qed.

Theorem segmentation_err t segs e : parse (new_parser t) (concat segs) = Err e ->
  parse_pieces (new_parser t) segs = Err e.
Proof.
  intros H. rewrite parse_pieces_with_default.
  apply (segmentation_gen _ segs (new_parser t) (Err e) (parser_inv_new t) H Logic.I).
Qed.
