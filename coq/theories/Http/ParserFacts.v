(* Facts about the HttpParser model (Http/Parser.v): sufficiency of the fuel, an invariant of
   reachable parser states, the segmentation law (two pieces, n pieces, errors included) for
   every self-delimiting message, and "complete exactly at the end" for every message of an
   abstract grammar. *)
From PM Require Import Lib.Bytes Lib.BytesFacts Lib.PyStr Lib.PyStrFacts Http.Url Http.Chunk Http.Parser Http.ChunkFacts.
From Coq Require Import ZArith Lia.

Ltac ust := unfold INITIALIZED, LINE_RCVD, RCVING_HEADERS, HEADERS_COMPLETE, RCVING_BODY, COMPLETE in *.
Ltac inv_ok H := inversion H; subst; clear H.

(* ------------------------------------------------------------------------------------- *)
(* helpers                                                                                *)

Definition bodyb (p : parser) : bytes := match body p with Some b => b | None => [] end.
Definition bufb (p : parser) : bytes := match buffer p with Some b => b | None => [] end.
Definition optb (r : bytes) : option bytes := match r with [] => None | _ => Some r end.

Lemma optb_inv r : match optb r with Some b => b | None => [] end = r.
Proof. destruct r; reflexivity. Qed.

Lemma len_pos_nz raw : (0 <? len raw) = nz raw.
Proof. destruct raw; [reflexivity|]. unfold len. cbn [length nz]. rewrite Nat2N.inj_succ.
  apply N.ltb_lt. lia. Qed.

Lemma len_app a b : len (a ++ b) = len a + len b.
Proof. unfold len. rewrite app_length. lia. Qed.

Lemma nil_match_nz (l : bytes) : match l with [] => true | _ => false end = negb (nz l).
Proof. destruct l; reflexivity. Qed.

(* ---- dictionaries ---- *)
Lemma dict_get_set_same {V} k (v : V) d : dict_get k (dict_set k v d) = Some v.
Proof.
  induction d as [|[k0 v0] t IH]; cbn [dict_set dict_get].
  - rewrite bytes_eqb_refl. reflexivity.
  - destruct (bytes_eqb k k0) eqn:E; cbn [dict_get].
    + rewrite bytes_eqb_refl. reflexivity.
    + rewrite E. exact IH.
Qed.

Lemma dict_get_set_other {V} k k' (v : V) d :
  bytes_eqb k k' = false -> dict_get k (dict_set k' v d) = dict_get k d.
Proof.
  intros N. induction d as [|[k0 v0] t IH]; cbn [dict_set dict_get].
  - rewrite N. reflexivity.
  - destruct (bytes_eqb k' k0) eqn:E; cbn [dict_get].
    + apply bytes_eqb_eq in E. subst k0. rewrite N. reflexivity.
    + rewrite IH. reflexivity.
Qed.

Lemma lower_CL : lower CONTENT_LENGTH = CONTENT_LENGTH.
Proof. reflexivity. Qed.

(* ------------------------------------------------------------------------------------- *)
(* invariant of reachable parser states (the part the loop itself maintains)              *)

Definition pinv (p : parser) : Prop :=
  (1 <= state p /\ state p <= 6) /\
  (state p < 4 -> body p = None) /\
  (content_expected p = true ->
     exists v T, header p CONTENT_LENGTH = Ok v /\ int10 v = Ok T /\ (0 < T)%Z /\
                 (state p < 6 -> (Z.of_nat (length (bodyb p)) < T)%Z)) /\
  (forall c, chunk p = Some c -> chunk_inv c).

Lemma pinv_new t : pinv (new_parser t).
Proof.
  unfold pinv, new_parser; cbn. repeat split; try lia; try discriminate.
Qed.

Lemma pinv_sbs p b s : pinv (set_buffer_size p b s) <-> pinv p.
Proof. unfold pinv. reflexivity. Qed.

(* ------------------------------------------------------------------------------------- *)
(* _process_header                                                                         *)

Definition hdr_kv (raw : bytes) : bytes * bytes :=
  match split_once [COLON] raw with
  | None => (strip raw, [])
  | Some (k, v) => (strip k, strip v)
  end.

Lemma process_header_eq p raw :
  process_header p raw =
  let key := fst (hdr_kv raw) in let value := snd (hdr_kv raw) in
  let h := add_header_d (headers p) key value in
  if bytes_eqb (lower key) CONTENT_LENGTH then
    do n <- int10 value; Ok (set_headers p (Some h) (is_chunked_encoded p) (0 <? n)%Z)
  else if bytes_eqb (lower key) TRANSFER_ENCODING && bytes_eqb (lower value) CHUNKED then
    Ok (set_headers p (Some h) true (content_expected p))
  else Ok (set_headers p (Some h) (is_chunked_encoded p) (content_expected p)).
Proof.
  unfold process_header, hdr_kv. destruct (split_once [COLON] raw) as [[k v]|]; reflexivity.
Qed.

Lemma process_header_sbs p raw b s :
  process_header (set_buffer_size p b s) raw =
  do p' <- process_header p raw; Ok (set_buffer_size p' b s).
Proof.
  rewrite !process_header_eq. cbv zeta.
  destruct (bytes_eqb _ CONTENT_LENGTH).
  - destruct (int10 _); reflexivity.
  - destruct (_ && _); reflexivity.
Qed.

Lemma process_header_err p raw e : process_header p raw = Err e -> e = ValueError.
Proof.
  rewrite process_header_eq. cbv zeta.
  destruct (bytes_eqb _ CONTENT_LENGTH).
  - destruct (int10 _) eqn:E; cbn [bind]; [discriminate|].
    intros H; inv_ok H. eapply py_int_err; exact E.
  - destruct (_ && _); discriminate.
Qed.

Lemma process_header_state p raw p' : process_header p raw = Ok p' -> state p' = state p.
Proof.
  rewrite process_header_eq. cbv zeta.
  destruct (bytes_eqb _ CONTENT_LENGTH).
  - destruct (int10 _); cbn [bind]; [|discriminate]. intros H; inv_ok H. reflexivity.
  - destruct (_ && _); intros H; inv_ok H; reflexivity.
Qed.

Lemma header_add_other p key value ch ce :
  bytes_eqb (lower key) CONTENT_LENGTH = false ->
  forall v, header p CONTENT_LENGTH = Ok v ->
  header (set_headers p (Some (add_header_d (headers p) key value)) ch ce) CONTENT_LENGTH = Ok v.
Proof.
  intros K v. unfold header. cbn [headers set_headers]. rewrite lower_CL.
  destruct (headers p) as [d|]; [|discriminate]. unfold add_header_d.
  rewrite dict_get_set_other; [tauto|].
  destruct (bytes_eqb CONTENT_LENGTH (lower key)) eqn:E; [|reflexivity].
  apply bytes_eqb_eq in E. rewrite <- E, bytes_eqb_refl in K. discriminate.
Qed.

Lemma process_header_inv p raw p' :
  pinv p -> state p < 4 -> process_header p raw = Ok p' -> pinv p'.
Proof.
  intros (R & B & C & K) S. rewrite process_header_eq. cbv zeta.
  set (key := fst (hdr_kv raw)). set (value := snd (hdr_kv raw)).
  destruct (bytes_eqb (lower key) CONTENT_LENGTH) eqn:E.
  - destruct (int10 value) as [n|] eqn:V; cbn [bind]; [|discriminate].
    intros H; inv_ok H. unfold pinv. cbn [state body chunk content_expected set_headers].
    split; [exact R|]. split; [exact B|]. split; [|exact K].
    intros L. apply Z.ltb_lt in L. exists value, n.
    split.
    { unfold header. cbn [headers set_headers]. rewrite lower_CL. unfold add_header_d.
      apply bytes_eqb_eq in E. rewrite E, dict_get_set_same. reflexivity. }
    split; [exact V|]. split; [exact L|]. intros _.
    unfold bodyb. cbn [body set_headers]. rewrite (B S). cbn. lia.
  - assert (G : forall ch, pinv (set_headers p (Some (add_header_d (headers p) key value)) ch (content_expected p))).
    { intros ch. unfold pinv. cbn [state body chunk content_expected set_headers].
      split; [exact R|]. split; [exact B|]. split; [|exact K].
      intros L. destruct (C L) as (v & T & Hh & Hi & Hp & Hb). exists v, T.
      split; [apply header_add_other; assumption|]. split; [exact Hi|]. split; [exact Hp|exact Hb]. }
    destruct (_ && _); intros H; inv_ok H; apply G.
Qed.

(* ------------------------------------------------------------------------------------- *)
(* _process_headers: one line, the loop, fuel                                              *)

Definition hdr_step (p : parser) (line : bytes) : result parser :=
  if (state p =? LINE_RCVD) || (state p =? RCVING_HEADERS) then
    if match strip line with [] => true | _ => false end
    then Ok (set_state p HEADERS_COMPLETE)
    else process_header (set_state p RCVING_HEADERS) line
  else Ok p.

Definition PH (p : parser) (raw : bytes) := process_headers (S (length raw)) p raw.

Lemma process_headers_S f p raw :
  process_headers (S f) p raw =
  match split_once CRLF raw with
  | None => Ok (false, raw, p)
  | Some (line, rest) =>
      do p' <- hdr_step p line;
      if negb (nz rest) || (state p' =? HEADERS_COMPLETE)
      then Ok (nz rest, rest, p')
      else process_headers f p' rest
  end.
Proof.
  cbn [process_headers]. destruct (split_once CRLF raw) as [[line rest]|]; [|reflexivity].
  unfold hdr_step. destruct rest; reflexivity.
Qed.

Lemma process_headers_fuel f1 : forall f2 p raw,
  (length raw < f1)%nat -> (length raw < f2)%nat ->
  process_headers f1 p raw = process_headers f2 p raw.
Proof.
  induction f1 as [|f1 IH]; intros f2 p raw H1 H2; [lia|].
  destruct f2 as [|f2]; [lia|]. rewrite !process_headers_S.
  destruct (split_once CRLF raw) as [[line rest]|] eqn:E; [|reflexivity].
  apply split_once_shrinks in E. cbn [length CRLF] in E.
  destruct (hdr_step p line) as [p'|]; cbn [bind]; [|reflexivity].
  destruct (_ || _); [reflexivity|]. apply IH; lia.
Qed.

Lemma PH_step p raw :
  PH p raw =
  match split_once CRLF raw with
  | None => Ok (false, raw, p)
  | Some (line, rest) =>
      do p' <- hdr_step p line;
      if negb (nz rest) || (state p' =? HEADERS_COMPLETE)
      then Ok (nz rest, rest, p')
      else PH p' rest
  end.
Proof.
  unfold PH. rewrite process_headers_S.
  destruct (split_once CRLF raw) as [[line rest]|] eqn:E; [|reflexivity].
  apply split_once_shrinks in E. cbn [length CRLF] in E.
  destruct (hdr_step p line) as [p'|]; cbn [bind]; [|reflexivity].
  destruct (_ || _); [reflexivity|]. apply process_headers_fuel; lia.
Qed.

(* functional induction for the header loop *)
Lemma PH_ind (P : parser -> bytes -> result (bool * bytes * parser) -> Prop) :
  (forall p raw, split_once CRLF raw = None -> P p raw (Ok (false, raw, p))) ->
  (forall p raw line rest e, split_once CRLF raw = Some (line, rest) ->
     hdr_step p line = Err e -> P p raw (Err e)) ->
  (forall p raw line rest p', split_once CRLF raw = Some (line, rest) ->
     hdr_step p line = Ok p' -> rest = [] \/ state p' = HEADERS_COMPLETE ->
     P p raw (Ok (nz rest, rest, p'))) ->
  (forall p raw line rest p', split_once CRLF raw = Some (line, rest) ->
     hdr_step p line = Ok p' -> rest <> [] -> state p' <> HEADERS_COMPLETE ->
     P p' rest (PH p' rest) -> P p raw (PH p' rest)) ->
  forall p raw, P p raw (PH p raw).
Proof.
  intros H1 H2 H3 H4.
  enough (G : forall n p raw, (length raw <= n)%nat -> P p raw (PH p raw)).
  { intros p raw. apply (G (length raw)). lia. }
  induction n as [|n IH]; intros p raw Hn; rewrite PH_step.
  - destruct raw; [|cbn in Hn; lia]. cbn. apply H1. reflexivity.
  - destruct (split_once CRLF raw) as [[line rest]|] eqn:E; [|apply H1; exact E].
    pose proof (split_once_shrinks _ _ _ _ E) as Hs. cbn [length CRLF] in Hs.
    destruct (hdr_step p line) as [p'|e] eqn:Hp; cbn [bind]; [|eapply H2; eassumption].
    destruct (nz rest) eqn:Z; cbn [negb orb].
    + destruct (N.eqb_spec (state p') HEADERS_COMPLETE) as [S|S].
      * rewrite <- Z. eapply H3; try eassumption. right; exact S.
      * apply nz_true in Z. eapply H4; try eassumption. apply IH. lia.
    + apply nz_false in Z. subst rest. eapply (H3 p raw line [] p'); try eassumption. left; reflexivity.
Qed.

Definition st23 (p : parser) : Prop := state p = LINE_RCVD \/ state p = RCVING_HEADERS.

Lemma st23_test p : st23 p -> (state p =? LINE_RCVD) || (state p =? RCVING_HEADERS) = true.
Proof. intros [H|H]; rewrite H; reflexivity. Qed.

Lemma hdr_step_state p line p' : st23 p -> hdr_step p line = Ok p' ->
  state p' = HEADERS_COMPLETE \/ state p' = RCVING_HEADERS.
Proof.
  intros S. unfold hdr_step. rewrite (st23_test p S).
  destruct (match strip line with [] => true | _ => false end).
  - intros H; inv_ok H. left; reflexivity.
  - intros H. apply process_header_state in H. right. exact H.
Qed.

Lemma hdr_step_inv p line p' : pinv p -> st23 p -> hdr_step p line = Ok p' -> pinv p'.
Proof.
  intros I S. unfold hdr_step. rewrite (st23_test p S).
  assert (S4 : state p < 4) by (destruct S as [S|S]; rewrite S; ust; lia).
  destruct I as (R & B & C & K).
  destruct (match strip line with [] => true | _ => false end).
  - intros H; inv_ok H. unfold pinv. cbn [state body chunk content_expected set_state].
    split; [ust; lia|]. split; [ust; lia|]. split; [|exact K].
    intros L. destruct (C L) as (v & T & Hh & Hi & Hp & Hb). exists v, T.
    repeat split; try assumption. intros _. unfold bodyb. cbn [body set_state].
    rewrite (B S4). cbn. lia.
  - apply process_header_inv.
    + unfold pinv. cbn [state body chunk content_expected set_state].
      split; [ust; lia|]. split; [intros _; exact (B S4)|]. split; [|exact K].
      intros L. destruct (C L) as (v & T & Hh & Hi & Hp & Hb). exists v, T.
      repeat split; try assumption. intros _. unfold bodyb. cbn [body set_state].
      rewrite (B S4). cbn. lia.
    + cbn [state set_state]. ust; lia.
Qed.

Lemma hdr_step_err p line e : hdr_step p line = Err e -> e = ValueError.
Proof.
  unfold hdr_step. destruct (_ || _); [|discriminate].
  destruct (match strip line with [] => true | _ => false end); [discriminate|].
  apply process_header_err.
Qed.

Lemma hdr_step_sbs p line b s :
  hdr_step (set_buffer_size p b s) line = do p' <- hdr_step p line; Ok (set_buffer_size p' b s).
Proof.
  unfold hdr_step. cbn [state set_buffer_size].
  destruct (_ || _); [|reflexivity].
  destruct (match strip line with [] => true | _ => false end); [reflexivity|].
  apply (process_header_sbs (set_state p RCVING_HEADERS)).
Qed.

(* what the header loop returns *)
Lemma PH_spec p raw : pinv p -> st23 p ->
  match PH p raw with
  | Ok (m, r, p') =>
      pinv p' /\ (length r <= length raw)%nat /\ (m = true -> (length r < length raw)%nat) /\
      ((st23 p' /\ m = false) \/ (state p' = HEADERS_COMPLETE /\ m = nz r))
  | Err e => e = ValueError
  end.
Proof.
  revert p raw.
  apply (PH_ind (fun p raw res => pinv p -> st23 p ->
    match res with
    | Ok (m, r, p') =>
        pinv p' /\ (length r <= length raw)%nat /\ (m = true -> (length r < length raw)%nat) /\
        ((st23 p' /\ m = false) \/ (state p' = HEADERS_COMPLETE /\ m = nz r))
    | Err e => e = ValueError
    end)).
  - intros p raw _ I S. split; [exact I|]. split; [lia|]. split; [discriminate|]. left. tauto.
  - intros p raw line rest e _ E _ _. eapply hdr_step_err; exact E.
  - intros p raw line rest p' E Hp C I S.
    apply split_once_shrinks in E. cbn [length CRLF] in E.
    split; [eapply hdr_step_inv; eassumption|]. split; [lia|]. split; [intros; lia|].
    destruct (hdr_step_state _ _ _ S Hp) as [S'|S'].
    + right. split; [exact S'|reflexivity].
    + destruct C as [C|C]; [|rewrite C in S'; discriminate]. subst rest. left.
      split; [right; exact S'|reflexivity].
  - intros p raw line rest p' E Hp Hr Hs IH I S.
    apply split_once_shrinks in E. cbn [length CRLF] in E.
    assert (I' : pinv p') by (eapply hdr_step_inv; eassumption).
    assert (S' : st23 p').
    { destruct (hdr_step_state _ _ _ S Hp) as [S'|S']; [contradiction|right; exact S']. }
    specialize (IH I' S'). destruct (PH p' rest) as [[[m r] p'']|e]; [|exact IH].
    destruct IH as (A & B & C & D). split; [exact A|]. split; [lia|]. split; [intros; lia|exact D].
Qed.

Lemma PH_sbs b s : forall p raw,
  PH (set_buffer_size p b s) raw =
  do '(m, r, p') <- PH p raw; Ok (m, r, set_buffer_size p' b s).
Proof.
  intros p raw. revert p raw.
  apply (PH_ind (fun p raw res =>
    PH (set_buffer_size p b s) raw = do '(m, r, p') <- res; Ok (m, r, set_buffer_size p' b s))).
  - intros p raw E. rewrite PH_step, E. reflexivity.
  - intros p raw line rest e E Hp. rewrite PH_step, E, hdr_step_sbs, Hp. reflexivity.
  - intros p raw line rest p' E Hp C. rewrite PH_step, E, hdr_step_sbs, Hp. cbn [bind state set_buffer_size].
    destruct C as [C|C].
    + subst rest. reflexivity.
    + rewrite C. rewrite orb_true_r. reflexivity.
  - intros p raw line rest p' E Hp Hr Hs IH. rewrite PH_step, E, hdr_step_sbs, Hp.
    cbn [bind state set_buffer_size].
    apply nz_true in Hr. rewrite Hr. apply N.eqb_neq in Hs. rewrite Hs. cbn [negb orb]. exact IH.
Qed.

(* ------------------------------------------------------------------------------------- *)
(* _process_line                                                                           *)

Lemma splitn2_cases sep l :
  (exists a, splitn sep 2 l = [a]) \/ (exists a c, splitn sep 2 l = [a; c]) \/
  (exists a c d, splitn sep 2 l = [a; c; d]).
Proof.
  cbn [splitn]. destruct (split_once sep l) as [[a r]|]; [|left; eauto].
  destruct (split_once sep r) as [[c d]|]; right; [right|left]; eauto.
Qed.

Lemma parse_authority_not_oof raw : parse_authority raw <> Err OutOfFuel.
Proof.
  unfold parse_authority.
  destruct (match split_once [AT] raw with None => _ | Some (ui, rest) => _ end) as [[user pass] hostport].
  destruct (splitn2_cases [COLON] hostport) as [(a & E)|[(a & c & E)|(a & c & d & E)]]; rewrite E.
  - discriminate.
  - destruct (int10 c) eqn:V; cbn [bind]; [discriminate|].
    intros H; inv_ok H. apply py_int_err in V. discriminate.
  - destruct (int10 _); destruct (patch_ipv6 _) eqn:Pq; cbn [bind]; try discriminate.
    all: unfold patch_ipv6, text_ in Pq; destruct (utf8_valid _); cbn [bind] in Pq;
      [|intros H; inv_ok H; discriminate].
    all: destruct (mem_byte _ _); try discriminate;
      match type of Pq with context [match ?x with [] => _ | _ :: _ => _ end] => destruct x end;
      try discriminate; destruct (_ && _); discriminate.
Qed.

Lemma from_bytes_not_oof al raw : from_bytes al raw <> Err OutOfFuel.
Proof.
  unfold from_bytes. destruct raw as [|c0 t]; [discriminate|].
  destruct (_ && negb _); [discriminate|].
  match goal with |- context [bind ?x _] => destruct x as [[sch rest]|e] eqn:E end; cbn [bind].
  - destruct rest as [rest'|].
    + destruct (match split_once [SLASH] rest' with None => _ | Some (a, p) => _ end) as [auth rem].
      pose proof (parse_authority_not_oof auth) as N.
      destruct (parse_authority auth) as [[[[u p] h] pt]|e]; cbn [bind]; [discriminate|congruence].
    + pose proof (parse_authority_not_oof (c0 :: t)) as N.
      destruct (parse_authority (c0 :: t)) as [[[[u p] h] pt]|e]; cbn [bind]; [discriminate|congruence].
  - destruct (negb _).
    + destruct (split_once _ _) as [[s r]|]; [|discriminate].
      destruct (mem_bytes s al); inv_ok E. discriminate.
    + discriminate.
Qed.

(* the result of a successful _process_line call *)
Inductive line_result (p : parser) (raw : bytes) : bool * bytes * parser -> Prop :=
| LR_wait : split_once CRLF raw = None -> line_result p raw (false, raw, p)
| LR_line line rest m u tn cd rs ver h pt pa :
    split_once CRLF raw = Some (line, rest) ->
    line_result p raw (nz rest, rest, set_line p m u tn cd rs ver h pt pa).

Lemma process_line_result al p raw x : process_line al p raw = Ok x -> line_result p raw x.
Proof.
  unfold process_line. destruct (split_once CRLF raw) as [[line rest]|] eqn:E.
  2:{ intros H; inv_ok H. apply LR_wait. exact E. }
  destruct (is_request (ty p)).
  - destruct (splitn [SP] 2 line) as [|x1 [|x2 [|x3 [|x4 l]]]]; try discriminate.
    destruct (from_bytes al x2) as [u|]; cbn [bind]; [|discriminate].
    destruct (line_attributes _ u) as [[h pt] pa].
    intros H; inv_ok H. eapply LR_line. exact E.
  - destruct (splitn [SP] 2 line) as [|x1 [|x2 [|x3 [|x4 l]]]]; try discriminate.
    + intros H; inv_ok H. eapply LR_line. exact E.
    + intros H; inv_ok H. eapply LR_line. exact E.
Qed.

Lemma process_line_not_oof al p raw : process_line al p raw <> Err OutOfFuel.
Proof.
  unfold process_line. destruct (split_once CRLF raw) as [[line rest]|]; [|discriminate].
  destruct (is_request (ty p)).
  - destruct (splitn [SP] 2 line) as [|x1 [|x2 [|x3 [|x4 l]]]]; try discriminate.
    pose proof (from_bytes_not_oof al x2) as N.
    destruct (from_bytes al x2) as [u|]; cbn [bind]; [|congruence].
    destruct (line_attributes _ u) as [[h pt] pa]. discriminate.
  - destruct (splitn [SP] 2 line) as [|x1 [|x2 [|x3 [|x4 l]]]]; discriminate.
Qed.

Lemma process_line_sbs al p raw b s :
  process_line al (set_buffer_size p b s) raw =
  do '(m, r, p') <- process_line al p raw; Ok (m, r, set_buffer_size p' b s).
Proof.
  unfold process_line. destruct (split_once CRLF raw) as [[line rest]|]; [|reflexivity].
  cbn [ty set_buffer_size].
  destruct (is_request (ty p)).
  - destruct (splitn [SP] 2 line) as [|x1 [|x2 [|x3 [|x4 l]]]]; try reflexivity.
    cbn [is_https_tunnel set_buffer_size].
    destruct (from_bytes al x2) as [u|]; cbn [bind]; [|reflexivity].
    destruct (line_attributes _ u) as [[h pt] pa]. reflexivity.
  - destruct (splitn [SP] 2 line) as [|x1 [|x2 [|x3 [|x4 l]]]]; reflexivity.
Qed.

Lemma pinv_set_line p m u tn cd rs ver h pt pa :
  pinv p -> state p = INITIALIZED -> pinv (set_line p m u tn cd rs ver h pt pa).
Proof.
  intros (R & B & C & K) S. unfold pinv. cbn [state body chunk content_expected set_line].
  assert (S4 : state p < 4) by (rewrite S; ust; lia).
  split; [ust; lia|]. split; [intros _; exact (B S4)|]. split; [|exact K].
  intros L. destruct (C L) as (v & T & Hh & Hi & Hp & Hb). exists v, T.
  repeat split; try assumption. intros _. unfold bodyb. cbn [body set_line]. rewrite (B S4). cbn. lia.
Qed.

(* ------------------------------------------------------------------------------------- *)
(* _process_body                                                                           *)

Definition chunk_of (p : parser) : chunkp := match chunk p with Some c => c | None => new_chunkp end.

Definition chunk_result (p : parser) (c' : chunkp) : parser :=
  let p1 := set_chunk p (Some c') in
  if cstate_eqb (cst c') CCOMPLETE then set_state (set_body p1 (Some (cbody c'))) COMPLETE else p1.

Lemma process_body_chunked p raw : is_chunked_encoded p = true ->
  process_body p raw = do '(raw', c') <- chunk_parse (chunk_of p) raw; Ok (false, raw', chunk_result p c').
Proof. intros H. unfold process_body. rewrite H. reflexivity. Qed.

Definition cl_result (p : parser) (b' : bytes) (T : Z) : parser :=
  let p2 := set_body (set_state p RCVING_BODY) (Some b') in
  if nz b' && (Z.of_nat (length b') =? T)%Z then set_state p2 COMPLETE else p2.

Lemma process_body_cl p raw v T :
  is_chunked_encoded p = false -> content_expected p = true ->
  header p CONTENT_LENGTH = Ok v -> int10 v = Ok T -> (Z.of_nat (length (bodyb p)) < T)%Z ->
  let k := (Z.to_nat T - length (bodyb p))%nat in
  process_body p raw = Ok (nz raw, skipn k raw, cl_result p (bodyb p ++ firstn k raw) T).
Proof.
  intros H1 H2 Hh Hi Hlt k. unfold process_body. rewrite H1, H2.
  change (header (set_state p RCVING_BODY) CONTENT_LENGTH) with (header p CONTENT_LENGTH).
  rewrite Hh. cbn [bind]. rewrite Hi. cbn [bind].
  change (match body (set_state p RCVING_BODY) with Some b => b | None => [] end) with (bodyb p).
  rewrite py_slice_to_pos, py_slice_from_pos by lia.
  replace (Z.to_nat (T - Z.of_nat (length (bodyb p)))) with k by (unfold k; lia).
  reflexivity.
Qed.

Lemma process_body_close p raw :
  is_chunked_encoded p = false -> content_expected p = false ->
  process_body p raw = Ok (false, [], set_body (set_state p RCVING_BODY) (Some raw)).
Proof. intros H1 H2. unfold process_body. rewrite H1, H2. reflexivity. Qed.

Lemma chunk_of_inv p : pinv p -> chunk_inv (chunk_of p).
Proof.
  intros (_ & _ & _ & K). unfold chunk_of. destruct (chunk p) as [c|]; [apply K; reflexivity|apply chunk_inv_new].
Qed.

Lemma pinv_cl p : pinv p -> content_expected p = true -> state p < 6 ->
  exists v T, header p CONTENT_LENGTH = Ok v /\ int10 v = Ok T /\ (Z.of_nat (length (bodyb p)) < T)%Z.
Proof.
  intros (_ & _ & C & _) L S. destruct (C L) as (v & T & Hh & Hi & Hp & Hb). exists v, T. auto.
Qed.

Lemma process_body_sbs p raw b s :
  process_body (set_buffer_size p b s) raw =
  do '(m, r, p') <- process_body p raw; Ok (m, r, set_buffer_size p' b s).
Proof.
  unfold process_body. cbn [is_chunked_encoded content_expected chunk set_buffer_size].
  destruct (is_chunked_encoded p).
  - destruct (chunk_parse _ raw) as [[raw' c']|]; cbn [bind]; [|reflexivity].
    destruct (cstate_eqb (cst c') CCOMPLETE); reflexivity.
  - destruct (content_expected p); [|reflexivity].
    change (header (set_state (set_buffer_size p b s) RCVING_BODY) CONTENT_LENGTH)
      with (header (set_state p RCVING_BODY) CONTENT_LENGTH).
    destruct (header (set_state p RCVING_BODY) CONTENT_LENGTH) as [cl|]; cbn [bind]; [|reflexivity].
    destruct (int10 cl) as [total|]; cbn [bind]; [|reflexivity].
    cbn [body set_state set_buffer_size].
    destruct (_ && _); reflexivity.
Qed.

Lemma process_body_spec p raw : pinv p -> 4 <= state p -> state p < 6 ->
  match process_body p raw with
  | Ok (m, r, p') =>
      pinv p' /\ 4 <= state p' /\ (m = false \/ (length r < length raw)%nat)
  | Err e => e <> OutOfFuel
  end.
Proof.
  intros I S4 S6. destruct (is_chunked_encoded p) eqn:CH.
  - rewrite process_body_chunked by exact CH.
    pose proof (chunk_of_inv p I) as IC.
    pose proof (chunk_parse_never_out_of_fuel (chunk_of p) raw IC) as NF.
    destruct (chunk_parse (chunk_of p) raw) as [[raw' c']|e] eqn:E; cbn [bind]; [|congruence].
    pose proof (chunk_parse_inv _ _ _ _ IC E) as IC'.
    destruct I as (R & B & C & K).
    split; [|split; [|left; reflexivity]].
    + unfold chunk_result, pinv. destruct (cstate_eqb (cst c') CCOMPLETE);
        cbn [state body chunk content_expected set_state set_body set_chunk].
      * split; [ust; lia|]. split; [ust; lia|]. split.
        -- intros L. destruct (C L) as (v & T & Hh & Hi & Hp & Hb). exists v, T.
           repeat split; try assumption. ust; lia.
        -- intros c H; inv_ok H. exact IC'.
      * split; [exact R|]. split; [exact B|]. split; [exact C|].
        intros c H; inv_ok H. exact IC'.
    + unfold chunk_result. destruct (cstate_eqb (cst c') CCOMPLETE);
        cbn [state set_state set_body set_chunk]; [ust; lia|exact S4].
  - destruct (content_expected p) eqn:CE.
    + destruct (pinv_cl p I CE S6) as (v & T & Hh & Hi & Hlt).
      rewrite (process_body_cl p raw v T CH CE Hh Hi Hlt).
      set (k := (Z.to_nat T - length (bodyb p))%nat).
      assert (Hk : (0 < k)%nat) by (unfold k; lia).
      set (b' := bodyb p ++ firstn k raw).
      assert (Lb : (length b' <= Z.to_nat T)%nat).
      { unfold b'. rewrite app_length. pose proof (firstn_le_length k raw). lia. }
      destruct I as (R & B & C & K). destruct (C CE) as (v0 & T0 & Hh0 & Hi0 & Hp0 & _).
      assert (T0 = T) by congruence. subst T0.
      split; [|split].
      * unfold cl_result, pinv.
        destruct (nz b' && (Z.of_nat (length b') =? T)%Z) eqn:D;
          cbn [state body chunk content_expected set_state set_body].
        -- split; [ust; lia|]. split; [ust; lia|]. split; [|exact K].
           intros _. exists v, T. repeat split; try assumption. ust; lia.
        -- split; [ust; lia|]. split; [ust; lia|]. split; [|exact K].
           intros _. exists v, T. repeat split; try assumption. intros _.
           unfold bodyb. cbn [body set_body set_state].
           apply andb_false_iff in D as [D|D].
           ++ apply nz_false in D. rewrite D. cbn. lia.
           ++ apply Z.eqb_neq in D. lia.
      * unfold cl_result. destruct (_ && _); cbn [state set_state set_body]; ust; lia.
      * destruct raw as [|x raw']; [left; reflexivity|right].
        rewrite skipn_length. cbn [length]. lia.
    + rewrite (process_body_close p raw CH CE).
      destruct I as (R & B & C & K).
      split; [|split; [cbn [state set_state set_body]; ust; lia|left; reflexivity]].
      unfold pinv. cbn [state body chunk content_expected set_state set_body].
      split; [ust; lia|]. split; [ust; lia|]. split; [|exact K].
      rewrite CE. discriminate.
Qed.

(* ------------------------------------------------------------------------------------- *)
(* maybe_complete                                                                          *)

Lemma maybe_complete_sbs p raw b s :
  maybe_complete (set_buffer_size p b s) raw = set_buffer_size (maybe_complete p raw) b s.
Proof.
  unfold maybe_complete. cbn [state content_expected is_chunked_encoded ty set_buffer_size].
  change (has_header (set_buffer_size p b s) CONTENT_LENGTH) with (has_header p CONTENT_LENGTH).
  destruct (_ && _ && _); reflexivity.
Qed.

Lemma maybe_complete_inv p raw : pinv p -> pinv (maybe_complete p raw).
Proof.
  intros I. unfold maybe_complete. destruct (_ && _ && _); [|exact I].
  destruct I as (R & B & C & K). unfold pinv. cbn [state body chunk content_expected set_state].
  split; [ust; lia|]. split; [ust; lia|]. split; [|exact K].
  intros L. destruct (C L) as (v & T & Hh & Hi & Hp & Hb). exists v, T.
  repeat split; try assumption. ust; lia.
Qed.

Lemma maybe_complete_not4 p raw : state p <> HEADERS_COMPLETE -> maybe_complete p raw = p.
Proof.
  intros H. unfold maybe_complete. apply N.eqb_neq in H. rewrite H. reflexivity.
Qed.

(* ------------------------------------------------------------------------------------- *)
(* one iteration of the parse loop                                                         *)

Definition proc (al : list bytes) (p : parser) (raw : bytes) : result (bool * bytes * parser) :=
  if HEADERS_COMPLETE <=? state p then process_body p raw
  else if state p =? INITIALIZED then process_line al p raw
  else PH p raw.

Lemma parse_loop_S f al m p raw :
  parse_loop (S f) al m p raw =
  if m && negb (state p =? COMPLETE) then
    do '(m', raw', p') <- proc al p raw; parse_loop f al m' (maybe_complete p' raw') raw'
  else Ok (raw, p).
Proof. reflexivity. Qed.

Lemma proc_sbs al p raw b s :
  proc al (set_buffer_size p b s) raw =
  do '(m, r, p') <- proc al p raw; Ok (m, r, set_buffer_size p' b s).
Proof.
  unfold proc. cbn [state set_buffer_size].
  destruct (HEADERS_COMPLETE <=? state p); [apply process_body_sbs|].
  destruct (state p =? INITIALIZED); [apply process_line_sbs|apply PH_sbs].
Qed.

Lemma state_cases p : pinv p -> state p <> COMPLETE ->
  (state p = INITIALIZED) \/ st23 p \/ (4 <= state p /\ state p < 6).
Proof.
  intros ((R1 & R2) & _) N. unfold st23. ust.
  destruct (N.eq_dec (state p) 1); [tauto|].
  destruct (N.eq_dec (state p) 2); [tauto|].
  destruct (N.eq_dec (state p) 3); [tauto|]. right; right. lia.
Qed.

Lemma proc_line al p raw : state p = INITIALIZED -> proc al p raw = process_line al p raw.
Proof. intros H. unfold proc. rewrite H. reflexivity. Qed.
Lemma proc_headers al p raw : st23 p -> proc al p raw = PH p raw.
Proof. intros [H|H]; unfold proc; rewrite H; reflexivity. Qed.
Lemma proc_body al p raw : 4 <= state p -> proc al p raw = process_body p raw.
Proof. intros H. unfold proc. apply N.leb_le in H. ust. rewrite H. reflexivity. Qed.

(* every iteration keeps the invariant and either stops the loop or consumes input *)
Lemma proc_spec al p raw : pinv p -> state p <> COMPLETE ->
  match proc al p raw with
  | Ok (m, r, p') => pinv (maybe_complete p' r) /\ (m = false \/ (length r < length raw)%nat)
  | Err e => e <> OutOfFuel
  end.
Proof.
  intros I N. destruct (state_cases p I N) as [S|[S|[S4 S6]]].
  - rewrite proc_line by exact S.
    pose proof (process_line_not_oof al p raw) as NF.
    destruct (process_line al p raw) as [x|e] eqn:E; [|congruence].
    apply process_line_result in E. destruct E as [E|line rest m u tn cd rs ver h pt pa E].
    + split; [apply maybe_complete_inv, I|left; reflexivity].
    + split; [apply maybe_complete_inv, pinv_set_line; assumption|].
      apply split_once_shrinks in E. cbn [length CRLF] in E. right. lia.
  - rewrite proc_headers by exact S.
    pose proof (PH_spec p raw I S) as H.
    destruct (PH p raw) as [[[m r] p']|e]; [|subst e; discriminate].
    destruct H as (A & B & C & D). split; [apply maybe_complete_inv, A|].
    destruct m; [right; apply C; reflexivity|left; reflexivity].
  - rewrite proc_body by exact S4.
    pose proof (process_body_spec p raw I S4 S6) as H.
    destruct (process_body p raw) as [[[m r] p']|e]; [|exact H].
    destruct H as (A & B & C). split; [apply maybe_complete_inv, A|exact C].
Qed.

(* ------------------------------------------------------------------------------------- *)
(* the loop: fuel is irrelevant, one-step unfolding, induction principle                  *)

Definition need (m : bool) (raw : bytes) : nat := if m then (2 + length raw)%nat else 1%nat.

Lemma parse_loop_fuel al f1 : forall f2 m p raw,
  pinv p -> (need m raw <= f1)%nat -> (need m raw <= f2)%nat ->
  parse_loop f1 al m p raw = parse_loop f2 al m p raw.
Proof.
  induction f1 as [|f1 IH]; intros f2 m p raw I H1 H2; [destruct m; cbn in H1; lia|].
  destruct f2 as [|f2]; [destruct m; cbn in H2; lia|]. rewrite !parse_loop_S.
  destruct (m && negb (state p =? COMPLETE)) eqn:C; [|reflexivity].
  apply andb_true_iff in C as [Cm C]. subst m. apply negb_true_iff, N.eqb_neq in C.
  pose proof (proc_spec al p raw I C) as H.
  destruct (proc al p raw) as [[[m' r] p']|e]; cbn [bind]; [|reflexivity].
  destruct H as (I' & D). cbn [need] in H1, H2.
  apply IH; [exact I'| |]; (destruct D as [D|D]; [subst m'; cbn [need]; lia|destruct m'; cbn [need]; lia]).
Qed.

(* the loop with the fuel parse_with gives it *)
Definition PL (al : list bytes) (m : bool) (p : parser) (raw : bytes) : result (bytes * parser) :=
  parse_loop (parse_fuel raw) al m p raw.

Lemma PL_step al m p raw : pinv p ->
  PL al m p raw =
  if m && negb (state p =? COMPLETE) then
    do '(m', raw', p') <- proc al p raw; PL al m' (maybe_complete p' raw') raw'
  else Ok (raw, p).
Proof.
  intros I. unfold PL at 1, parse_fuel. change (4 + length raw)%nat with (S (3 + length raw)).
  rewrite parse_loop_S.
  destruct (m && negb (state p =? COMPLETE)) eqn:C; [|reflexivity].
  apply andb_true_iff in C as [Cm C]. subst m. apply negb_true_iff, N.eqb_neq in C.
  pose proof (proc_spec al p raw I C) as H.
  destruct (proc al p raw) as [[[m' r] p']|e]; cbn [bind]; [|reflexivity].
  destruct H as (I' & D). unfold PL, parse_fuel.
  apply parse_loop_fuel; [exact I'| |]; (destruct D as [D|D]; [subst m'; cbn [need]; lia|destruct m'; cbn [need]; lia]).
Qed.

Lemma PL_false al p raw : PL al false p raw = Ok (raw, p).
Proof. reflexivity. Qed.

Lemma PL_complete al m p raw : state p = COMPLETE -> PL al m p raw = Ok (raw, p).
Proof.
  intros H. unfold PL, parse_fuel. change (4 + length raw)%nat with (S (3 + length raw)).
  rewrite parse_loop_S, H. rewrite andb_false_r. reflexivity.
Qed.

Lemma PL_step_true al p raw : pinv p -> state p <> COMPLETE ->
  PL al true p raw = do '(m', raw', p') <- proc al p raw; PL al m' (maybe_complete p' raw') raw'.
Proof.
  intros I N. rewrite PL_step by exact I. apply N.eqb_neq in N. rewrite N. reflexivity.
Qed.

Lemma PL_ind al (P : bool -> parser -> bytes -> result (bytes * parser) -> Prop) :
  (forall (m : bool) p raw, pinv p -> m = false \/ state p = COMPLETE -> P m p raw (Ok (raw, p))) ->
  (forall p raw e, pinv p -> state p <> COMPLETE -> proc al p raw = Err e -> P true p raw (Err e)) ->
  (forall p raw m' r p', pinv p -> state p <> COMPLETE -> proc al p raw = Ok (m', r, p') ->
     pinv (maybe_complete p' r) ->
     P m' (maybe_complete p' r) r (PL al m' (maybe_complete p' r) r) ->
     P true p raw (PL al m' (maybe_complete p' r) r)) ->
  forall m p raw, pinv p -> P m p raw (PL al m p raw).
Proof.
  intros H1 H2 H3.
  enough (G : forall n (m : bool) p (raw : bytes), ((if m then S (length raw) else 0) <= n)%nat -> pinv p ->
                                P m p raw (PL al m p raw)).
  { intros m p raw. apply (G (S (length raw))). destruct m; lia. }
  induction n as [|n IH]; intros m p raw Hn I.
  - destruct m; [lia|]. rewrite PL_false. apply H1; [exact I|left; reflexivity].
  - destruct m; [|rewrite PL_false; apply H1; [exact I|left; reflexivity]].
    destruct (N.eqb_spec (state p) COMPLETE) as [C|C].
    + rewrite PL_complete by exact C. apply H1; [exact I|right; exact C].
    + rewrite PL_step_true by assumption.
      pose proof (proc_spec al p raw I C) as H.
      destruct (proc al p raw) as [[[m' r] p']|e] eqn:E; cbn [bind].
      * destruct H as (I' & D). apply (H3 p raw m' r p' I C E I').
        apply IH; [|exact I']. destruct D as [D|D]; [subst m'; lia|destruct m'; lia].
      * apply (H2 p raw e I C E).
Qed.

Lemma PL_sbs al b s : forall m p raw, pinv p ->
  PL al m (set_buffer_size p b s) raw =
  do '(r, p') <- PL al m p raw; Ok (r, set_buffer_size p' b s).
Proof.
  apply (PL_ind al (fun m p raw res =>
    PL al m (set_buffer_size p b s) raw = do '(r, p') <- res; Ok (r, set_buffer_size p' b s))).
  - intros m p raw I [C|C].
    + subst m. reflexivity.
    + rewrite PL_complete by exact C. reflexivity.
  - intros p raw e I C E. rewrite PL_step_true; [|apply pinv_sbs, I|exact C].
    rewrite proc_sbs, E. reflexivity.
  - intros p raw m' r p' I C E I' IH. rewrite PL_step_true; [|apply pinv_sbs, I|exact C].
    rewrite proc_sbs, E. cbn [bind]. rewrite maybe_complete_sbs. exact IH.
Qed.

Lemma PL_inv al : forall m p raw, pinv p -> forall r p', PL al m p raw = Ok (r, p') -> pinv p'.
Proof.
  apply (PL_ind al (fun m p raw res => forall r p', res = Ok (r, p') -> pinv p')).
  - intros m p raw I _ r p' H; inv_ok H. exact I.
  - intros; discriminate.
  - intros p raw m' r0 p0 _ _ _ _ IH r p' H. apply (IH _ _ H).
Qed.

Lemma PL_not_oof al : forall m p raw, pinv p -> PL al m p raw <> Err OutOfFuel.
Proof.
  apply (PL_ind al (fun m p raw res => res <> Err OutOfFuel)).
  - intros; discriminate.
  - intros p raw e I C E H. inv_ok H. pose proof (proc_spec al p raw I C) as S. rewrite E in S. congruence.
  - intros; assumption.
Qed.

(* ------------------------------------------------------------------------------------- *)
(* parse in terms of PL                                                                    *)

Lemma parse_with_alt al p raw : pinv p ->
  parse_with al p raw =
  do '(r, p') <- PL al (nz raw) p (bufb p ++ raw);
  Ok (set_buffer_size p' (optb r) (total_size p + len raw)).
Proof.
  intros I. unfold parse_with. rewrite len_pos_nz.
  change (match buffer p with Some b => b ++ raw | None => raw end) with
    (match buffer p with Some b => b ++ raw | None => [] ++ raw end).
  replace (match buffer p with Some b => b ++ raw | None => [] ++ raw end) with (bufb p ++ raw)
    by (unfold bufb; destruct (buffer p); reflexivity).
  fold (PL al (nz raw) (set_buffer_size p None (total_size p + len raw)) (bufb p ++ raw)).
  rewrite PL_sbs by exact I.
  destruct (PL al (nz raw) p (bufb p ++ raw)) as [[r p']|e]; reflexivity.
Qed.

(* ------------------------------------------------------------------------------------- *)
(* stability of one iteration under extension of the input                                *)

(* the class the property excludes, recognised on the final state: a message whose headers ended
   with neither a content-length header nor chunked encoding and that was followed by at least
   one more byte (only responses get there: such a message is delimited by connection close) *)
Definition framed (p : parser) : bool :=
  negb ((state p =? RCVING_BODY) && negb (content_expected p) && negb (is_chunked_encoded p)).

Definition framedR (R : result (bytes * parser)) : Prop :=
  match R with Ok (_, p) => framed p = true | Err _ => True end.

Lemma framed_sbs p b s : framed (set_buffer_size p b s) = framed p.
Proof. reflexivity. Qed.

Lemma PH_app b : b <> [] -> forall p raw, st23 p ->
  match PH p raw with
  | Ok (m, r, pk) =>
      (state pk = HEADERS_COMPLETE /\ PH p (raw ++ b) = Ok (true, r ++ b, pk)) \/
      (st23 pk /\ m = false /\ PH p (raw ++ b) = PH pk (r ++ b))
  | Err e => PH p (raw ++ b) = Err e
  end.
Proof.
  intros Hb.
  apply (PH_ind (fun p raw res => st23 p ->
    match res with
    | Ok (m, r, pk) =>
        (state pk = HEADERS_COMPLETE /\ PH p (raw ++ b) = Ok (true, r ++ b, pk)) \/
        (st23 pk /\ m = false /\ PH p (raw ++ b) = PH pk (r ++ b))
    | Err e => PH p (raw ++ b) = Err e
    end)).
  - intros p raw _ S. right. auto.
  - intros p raw line rest e E Hp _. rewrite PH_step, (split_once_app _ _ b _ _ E), Hp. reflexivity.
  - intros p raw line rest p' E Hp C S.
    rewrite (PH_step p (raw ++ b)), (split_once_app _ _ b _ _ E), Hp. cbn [bind].
    rewrite (nz_app_r rest b Hb). cbn [negb orb].
    destruct (N.eqb_spec (state p') HEADERS_COMPLETE) as [S4|S4].
    + left. auto.
    + destruct C as [C|C]; [|contradiction]. subst rest. right.
      split; [|split; reflexivity].
      destruct (hdr_step_state _ _ _ S Hp) as [S'|S']; [contradiction|right; exact S'].
  - intros p raw line rest p' E Hp Hr Hs IH S.
    assert (S' : st23 p').
    { destruct (hdr_step_state _ _ _ S Hp) as [S'|S']; [contradiction|right; exact S']. }
    assert (X : PH p (raw ++ b) = PH p' (rest ++ b)).
    { rewrite (PH_step p (raw ++ b)), (split_once_app _ _ b _ _ E), Hp. cbn [bind].
      rewrite (nz_app_r rest b Hb). apply N.eqb_neq in Hs. rewrite Hs. reflexivity. }
    rewrite X. exact (IH S').
Qed.

Lemma process_line_app al p raw b line rest : split_once CRLF raw = Some (line, rest) ->
  process_line al p (raw ++ b) =
  do '(m, r, p') <- process_line al p raw; Ok (nz (r ++ b), r ++ b, p').
Proof.
  intros E. unfold process_line. rewrite (split_once_app _ _ b _ _ E), E.
  destruct (is_request (ty p)).
  - destruct (splitn [SP] 2 line) as [|x1 [|x2 [|x3 [|x4 l]]]]; try reflexivity.
    destruct (from_bytes al x2) as [u|]; cbn [bind]; [|reflexivity].
    destruct (line_attributes _ u) as [[h pt] pa]. reflexivity.
  - destruct (splitn [SP] 2 line) as [|x1 [|x2 [|x3 [|x4 l]]]]; reflexivity.
Qed.

Lemma maybe_complete_chunked p raw : is_chunked_encoded p = true -> maybe_complete p raw = p.
Proof.
  intros H. unfold maybe_complete. rewrite H, orb_true_r. cbn [negb]. rewrite andb_false_r. reflexivity.
Qed.

Lemma pair_bind_eta {A B} (r : result (A * B)) : (do '(a, b) <- r; Ok (a, b)) = r.
Proof. destruct r as [[a b]|]; reflexivity. Qed.

Lemma cl_result_state p b' T : state (cl_result p b' T) = RCVING_BODY \/ state (cl_result p b' T) = COMPLETE.
Proof. unfold cl_result. destruct (_ && _); cbn [state set_state set_body]; auto. Qed.

Lemma cl_result_idem p y b' T :
  cl_result (set_body (set_state p RCVING_BODY) (Some y)) b' T = cl_result p b' T.
Proof. unfold cl_result. destruct (_ && _); reflexivity. Qed.

Lemma proc_app al p raw b m' r p' : pinv p -> state p <> COMPLETE -> b <> [] ->
  proc al p raw = Ok (m', r, p') ->
  (proc al p (raw ++ b) = Ok (true, r ++ b, p') /\ maybe_complete p' (r ++ b) = maybe_complete p' r) \/
  (exists p'', PL al m' (maybe_complete p' r) r = Ok (r, p'') /\ pinv p'' /\ state p'' <> COMPLETE /\
               proc al p'' (r ++ b) = proc al p (raw ++ b)) \/
  (m' = false /\ state p' = COMPLETE /\ proc al p (raw ++ b) = Ok (false, r ++ b, p')) \/
  (exists x, PL al true p (raw ++ b) = Ok x /\ framed (snd x) = false).
Proof.
  intros I N Hb. destruct (state_cases p I N) as [S|[S|[S4 S6]]].
  - (* request / status line *)
    rewrite !proc_line by exact S.
    destruct (split_once CRLF raw) as [[line rest]|] eqn:E.
    + intros H. rewrite (process_line_app al p raw b line rest E), H. cbn [bind].
      apply process_line_result in H. inversion H as [E'|line0 rest0 m u tn cd rs ver h pt pa E']; subst.
      { rewrite E in E'. discriminate. }
      left. rewrite (nz_app_r r b Hb). split; [reflexivity|].
      rewrite !maybe_complete_not4 by (cbn [state set_line]; discriminate). reflexivity.
    + unfold process_line at 1. rewrite E. intros H; inv_ok H.
      right; left. exists p'. rewrite maybe_complete_not4 by (rewrite S; discriminate).
      split; [reflexivity|]. split; [exact I|]. split; [exact N|]. rewrite proc_line by exact S. reflexivity.
  - (* header lines *)
    rewrite (proc_headers al p raw S), (proc_headers al p (raw ++ b) S).
    pose proof (PH_app b Hb p raw S) as A. pose proof (PH_spec p raw I S) as Sp.
    intros H. rewrite H in A, Sp. destruct Sp as (I' & _ & _ & _).
    destruct A as [(S4 & A)|(S' & Em & A)].
    + (* headers ended inside raw *)
      destruct r as [|r0 r'].
      2:{ left. split; [exact A|]. unfold maybe_complete. reflexivity. }
      cbn [app] in *.
      destruct ((state p' =? HEADERS_COMPLETE) && negb (content_expected p' || is_chunked_encoded p')) eqn:C0.
      2:{ left. split; [exact A|]. unfold maybe_complete. rewrite C0. reflexivity. }
      destruct (is_request (ty p') || has_header p' CONTENT_LENGTH) eqn:C1.
      { left. split; [exact A|]. unfold maybe_complete. rewrite C0. destruct b; [congruence|].
        cbn [orb andb]. rewrite C1. reflexivity. }
      (* a response without framing followed by b: close-delimited *)
      right; right; right.
      apply andb_true_iff in C0 as [_ C0]. apply negb_true_iff, orb_false_iff in C0 as [CE CH].
      assert (M : maybe_complete p' b = p').
      { unfold maybe_complete. destruct b; [congruence|]. cbn [orb]. rewrite C1, andb_false_r. reflexivity. }
      exists ([], set_body (set_state p' RCVING_BODY) (Some b)). split.
      * rewrite PL_step_true by assumption. rewrite (proc_headers al p _ S), A. cbn [bind]. rewrite M.
        rewrite PL_step_true; [|exact I'|rewrite S4; discriminate].
        rewrite proc_body by (rewrite S4; ust; lia).
        rewrite (process_body_close p' b CH CE). cbn [bind]. rewrite PL_false.
        rewrite maybe_complete_not4 by (cbn [state set_state set_body]; discriminate). reflexivity.
      * unfold framed. cbn [snd state set_state set_body content_expected is_chunked_encoded].
        rewrite CE, CH. reflexivity.
    + (* still inside the header block *)
      subst m'. right; left. exists p'.
      assert (N4 : state p' <> HEADERS_COMPLETE) by (destruct S' as [S'|S']; rewrite S'; discriminate).
      rewrite maybe_complete_not4 by exact N4.
      split; [reflexivity|]. split; [exact I'|].
      split; [destruct S' as [S'|S']; rewrite S'; discriminate|].
      rewrite (proc_headers al p' _ S'). symmetry. exact A.
  - (* body *)
    rewrite (proc_body al p raw S4), (proc_body al p (raw ++ b) S4).
    destruct (is_chunked_encoded p) eqn:CH.
    + rewrite !process_body_chunked by exact CH.
      pose proof (chunk_of_inv p I) as IC.
      rewrite (chunk_two_piece _ raw b IC).
      destruct (chunk_parse (chunk_of p) raw) as [[ra c1]|e] eqn:E; cbn [bind]; [|discriminate].
      intros H; inv_ok H.
      pose proof (process_body_spec p raw I S4 S6) as Sp.
      rewrite process_body_chunked, E in Sp by exact CH. cbn [bind] in Sp. destruct Sp as (I' & _ & _).
      destruct (cstate_eqb (cst c1) CCOMPLETE) eqn:C1.
      * right; right; left. split; [reflexivity|].
        split; [unfold chunk_result; rewrite C1; reflexivity|].
        apply cstate_eqb_complete in C1. rewrite (chunk_parse_done c1 b C1). reflexivity.
      * right; left.
        destruct (chunk_parse_remainder _ _ _ _ IC E) as [Er|Ec];
          [|apply cstate_eqb_complete in Ec; congruence].
        subst r. exists (chunk_result p c1).
        assert (X : chunk_result p c1 = set_chunk p (Some c1)) by (unfold chunk_result; rewrite C1; reflexivity).
        rewrite maybe_complete_chunked by (rewrite X; exact CH). rewrite PL_false.
        split; [reflexivity|]. split; [exact I'|].
        split; [rewrite X; exact N|].
        rewrite proc_body by (rewrite X; exact S4). rewrite X.
        rewrite process_body_chunked by exact CH. cbn [app].
        change (chunk_of (set_chunk p (Some c1))) with c1.
        destruct (chunk_parse c1 b) as [[rb c2]|e]; reflexivity.
    + destruct (content_expected p) eqn:CE.
      * destruct (pinv_cl p I CE S6) as (v & T & Hh & Hi & Hlt).
        rewrite (process_body_cl p raw v T CH CE Hh Hi Hlt), (process_body_cl p (raw ++ b) v T CH CE Hh Hi Hlt).
        set (k := (Z.to_nat T - length (bodyb p))%nat).
        assert (Hk : (0 < k)%nat) by (unfold k; lia).
        intros H; inv_ok H. rewrite firstn_app, skipn_app.
        destruct (Nat.le_gt_cases k (length raw)) as [L|L].
        -- (* the body ends inside raw *)
           left. replace (k - length raw)%nat with 0%nat by lia. cbn [firstn skipn]. rewrite app_nil_r.
           rewrite (nz_app_r raw b Hb). replace (nz raw) with true by (destruct raw; [cbn in L; lia|reflexivity]).
           split; [reflexivity|].
           destruct (cl_result_state p (bodyb p ++ firstn k raw) T) as [X|X];
             rewrite !maybe_complete_not4 by (rewrite X; discriminate); reflexivity.
        -- (* raw is shorter than what the body still needs *)
           right; left. rewrite (firstn_all2 raw), (skipn_all2 raw) by lia. cbn [app].
           set (p2 := set_body (set_state p RCVING_BODY) (Some (bodyb p ++ raw))).
           assert (X : cl_result p (bodyb p ++ raw) T = p2).
           { unfold cl_result. fold p2.
             replace (Z.of_nat (length (bodyb p ++ raw)) =? T)%Z with false
               by (symmetry; apply Z.eqb_neq; rewrite app_length; lia).
             rewrite andb_false_r. reflexivity. }
           rewrite X.
           pose proof (process_body_spec p raw I S4 S6) as Sp.
           rewrite (process_body_cl p raw v T CH CE Hh Hi Hlt) in Sp. fold k in Sp.
           rewrite (firstn_all2 raw), (skipn_all2 raw), X in Sp by lia. destruct Sp as (I2 & _ & _).
           assert (Hlt2 : (Z.of_nat (length (bodyb p2)) < T)%Z).
           { unfold bodyb, p2. cbn [body set_body]. rewrite app_length. lia. }
           assert (N2 : state p2 <> COMPLETE) by (unfold p2; cbn [state set_state set_body]; discriminate).
           assert (S2 : 4 <= state p2) by (unfold p2; cbn [state set_state set_body]; ust; lia).
           assert (B2 : forall raw2, process_body p2 raw2 =
                     Ok (nz raw2, skipn (k - length raw) raw2,
                         cl_result p (bodyb p ++ raw ++ firstn (k - length raw) raw2) T)).
           { intros raw2. rewrite (process_body_cl p2 raw2 v T CH CE Hh Hi Hlt2).
             cbv zeta. assert (Bp2 : bodyb p2 = bodyb p ++ raw) by reflexivity.
             rewrite !Bp2. unfold p2. rewrite app_length.
             replace (Z.to_nat T - (length (bodyb p) + length raw))%nat with (k - length raw)%nat
               by (unfold k; lia).
             rewrite <- app_assoc. rewrite cl_result_idem. reflexivity. }
           exists p2. rewrite maybe_complete_not4 by (unfold p2; cbn [state set_state set_body]; discriminate).
           split.
           { destruct raw as [|x raw']; [reflexivity|]. change (nz (x :: raw')) with true.
             rewrite PL_step_true by assumption. rewrite proc_body by exact S2.
             rewrite B2. cbn [bind nz length Nat.eqb negb]. rewrite skipn_nil, firstn_nil, app_nil_r.
             rewrite X. rewrite maybe_complete_not4 by (unfold p2; cbn [state set_state set_body]; discriminate).
             reflexivity. }
           split; [exact I2|]. split; [exact N2|].
           rewrite proc_body by exact S2. rewrite B2. rewrite (nz_app_r raw b Hb).
           replace (nz b) with true by (destruct b; [congruence|reflexivity]). reflexivity.
      * (* neither content-length nor chunked: whatever follows is taken as the body *)
        rewrite !(process_body_close p _ CH CE). intros H; inv_ok H.
        right; right; right.
        exists ([], set_body (set_state p RCVING_BODY) (Some (raw ++ b))). split.
        -- rewrite PL_step_true by assumption. rewrite proc_body by exact S4.
           rewrite (process_body_close p _ CH CE). cbn [bind]. rewrite PL_false.
           rewrite maybe_complete_not4 by (cbn [state set_state set_body]; discriminate). reflexivity.
        -- unfold framed. cbn [snd state set_state set_body content_expected is_chunked_encoded].
           rewrite CE, CH. reflexivity.
Qed.

Lemma proc_app_err al p raw b e : pinv p -> state p <> COMPLETE -> b <> [] ->
  proc al p raw = Err e -> proc al p (raw ++ b) = Err e.
Proof.
  intros I N Hb. destruct (state_cases p I N) as [S|[S|[S4 S6]]].
  - rewrite !proc_line by exact S.
    destruct (split_once CRLF raw) as [[line rest]|] eqn:E.
    + intros H. rewrite (process_line_app al p raw b line rest E), H. reflexivity.
    + unfold process_line at 1. rewrite E. discriminate.
  - rewrite (proc_headers al p raw S), (proc_headers al p (raw ++ b) S).
    pose proof (PH_app b Hb p raw S) as A. intros H. rewrite H in A. exact A.
  - rewrite (proc_body al p raw S4), (proc_body al p (raw ++ b) S4).
    destruct (is_chunked_encoded p) eqn:CH.
    + rewrite !process_body_chunked by exact CH.
      rewrite (chunk_two_piece _ raw b (chunk_of_inv p I)).
      destruct (chunk_parse (chunk_of p) raw) as [[ra c1]|e1]; cbn [bind]; [discriminate|].
      intros H; exact H.
    + destruct (content_expected p) eqn:CE.
      * destruct (pinv_cl p I CE S6) as (v & T & Hh & Hi & Hlt).
        rewrite (process_body_cl p raw v T CH CE Hh Hi Hlt). discriminate.
      * rewrite (process_body_close p _ CH CE). discriminate.
Qed.

(* ------------------------------------------------------------------------------------- *)
(* the segmentation law for the loop                                                      *)

Lemma PL_app al b : b <> [] -> forall m p raw, pinv p ->
  forall R, PL al true p (raw ++ b) = R -> framedR R ->
  (do '(r1, p1) <- PL al m p raw; PL al true p1 (r1 ++ b)) = R.
Proof.
  intros Hb.
  apply (PL_ind al (fun m p raw res => forall R, PL al true p (raw ++ b) = R -> framedR R ->
           (do '(r1, p1) <- res; PL al true p1 (r1 ++ b)) = R)).
  - intros m p raw _ _ R H _. exact H.
  - intros p raw e I N E R H _. cbn [bind]. rewrite <- H.
    rewrite PL_step_true by assumption. rewrite (proc_app_err al p raw b e I N Hb E). reflexivity.
  - intros p raw m' r p' I N E I' IH R H F.
    destruct (proc_app al p raw b m' r p' I N Hb E) as [(A1 & A2)|[(p'' & B1 & B2 & B3 & B4)|[(C1 & C2 & C3)|(x & D1 & D2)]]].
    + apply IH; [|exact F]. rewrite <- H. rewrite (PL_step_true al p (raw ++ b)) by assumption.
      rewrite A1. cbn [bind]. rewrite A2. reflexivity.
    + rewrite B1. cbn [bind]. rewrite <- H.
      rewrite (PL_step_true al p (raw ++ b)) by assumption.
      rewrite (PL_step_true al p'' (r ++ b)) by assumption. rewrite B4. reflexivity.
    + subst m'. rewrite PL_false. cbn [bind]. rewrite <- H.
      rewrite (PL_step_true al p (raw ++ b)) by assumption. rewrite C3. cbn [bind]. rewrite PL_false.
      rewrite !maybe_complete_not4 by (rewrite C2; discriminate).
      apply PL_complete. exact C2.
    + exfalso. rewrite D1 in H. subst R. destruct x as [rx px]. cbn [framedR snd] in *. congruence.
Qed.

(* ------------------------------------------------------------------------------------- *)
(* parser-level invariant and theorems                                                     *)

Definition parser_inv (p : parser) : Prop := pinv p /\ buffer p <> Some [].

Lemma parser_inv_new t : parser_inv (new_parser t).
Proof. split; [apply pinv_new|discriminate]. Qed.

Lemma optb_not_some_nil r : optb r <> Some [].
Proof. destruct r; discriminate. Qed.

Lemma parse_with_inv al p raw p' : parser_inv p -> parse_with al p raw = Ok p' -> parser_inv p'.
Proof.
  intros (I & _). rewrite parse_with_alt by exact I.
  destruct (PL al (nz raw) p (bufb p ++ raw)) as [[r q]|e] eqn:E; cbn [bind]; [|discriminate].
  intros H; inv_ok H. split.
  - apply pinv_sbs. eapply PL_inv; eassumption.
  - cbn [buffer set_buffer_size]. apply optb_not_some_nil.
Qed.

Theorem parse_with_never_out_of_fuel al p raw : parser_inv p -> parse_with al p raw <> Err OutOfFuel.
Proof.
  intros (I & _). rewrite parse_with_alt by exact I.
  pose proof (PL_not_oof al (nz raw) p (bufb p ++ raw) I) as N.
  destruct (PL al (nz raw) p (bufb p ++ raw)) as [[r q]|e]; cbn [bind]; congruence.
Qed.

Definition framedP (R : result parser) : Prop :=
  match R with Ok p => framed p = true | Err _ => True end.

Lemma parser_eta (p : parser) :
  set_buffer_size p (buffer p) (total_size p) = p.
Proof. destruct p; reflexivity. Qed.

Lemma parse_with_nil al p : parser_inv p -> parse_with al p [] = Ok p.
Proof.
  intros (I & B). rewrite parse_with_alt by exact I. rewrite app_nil_r. cbn [nz length Nat.eqb negb].
  rewrite PL_false. cbn [bind]. change (len []) with 0. rewrite N.add_0_r.
  replace (optb (bufb p)) with (buffer p); [rewrite parser_eta; reflexivity|].
  unfold bufb. revert B. destruct (buffer p) as [[|x t]|]; intros B; try reflexivity. exfalso; apply B; reflexivity.
Qed.

(* feeding a ++ b at once = feeding a, then b: full parser record, errors included, provided the
   whole-feed result is not in the excluded (close-delimited) class *)
Theorem two_piece_gen al p a b R : parser_inv p ->
  parse_with al p (a ++ b) = R -> framedP R ->
  (do p1 <- parse_with al p a; parse_with al p1 b) = R.
Proof.
  intros PI H F. pose proof PI as (I & B).
  destruct b as [|b0 b'].
  { rewrite app_nil_r in H. rewrite H. destruct R as [p2|e]; cbn [bind]; [|reflexivity].
    apply parse_with_nil. eapply parse_with_inv; eassumption. }
  destruct a as [|a0 a'].
  { rewrite (parse_with_nil al p PI). cbn [bind]. exact H. }
  set (a := a0 :: a') in *. set (b := b0 :: b') in *.
  assert (Hb : b <> []) by discriminate.
  rewrite parse_with_alt in H by exact I. rewrite (parse_with_alt al p a) by exact I.
  rewrite (nz_app_r a b Hb) in H. change (nz a) with true. rewrite app_assoc in H.
  destruct (PL al true p ((bufb p ++ a) ++ b)) as [[r p']|e] eqn:W; cbn [bind] in H.
  - subst R. cbn [framedP] in F. rewrite framed_sbs in F.
    pose proof (PL_app al b Hb true p (bufb p ++ a) I _ W F) as L.
    destruct (PL al true p (bufb p ++ a)) as [[r1 p1]|e1] eqn:A; cbn [bind] in L |- *; [|discriminate].
    assert (I1 : pinv p1) by (eapply PL_inv; eassumption).
    rewrite parse_with_alt by (apply pinv_sbs; exact I1).
    change (nz b) with true. unfold bufb at 1. cbn [buffer set_buffer_size]. rewrite optb_inv.
    rewrite PL_sbs by exact I1. rewrite L. cbn [bind total_size set_buffer_size].
    rewrite len_app, N.add_assoc. reflexivity.
  - subst R.
    pose proof (PL_app al b Hb true p (bufb p ++ a) I _ W Logic.I) as L.
    destruct (PL al true p (bufb p ++ a)) as [[r1 p1]|e1] eqn:A; cbn [bind] in L |- *; [|congruence].
    assert (I1 : pinv p1) by (eapply PL_inv; eassumption).
    rewrite parse_with_alt by (apply pinv_sbs; exact I1).
    change (nz b) with true. unfold bufb at 1. cbn [buffer set_buffer_size]. rewrite optb_inv.
    rewrite PL_sbs by exact I1. rewrite L. reflexivity.
Qed.

Fixpoint parse_pieces_with (al : list bytes) (p : parser) (pieces : list bytes) : result parser :=
  match pieces with
  | [] => Ok p
  | x :: t => do p' <- parse_with al p x; parse_pieces_with al p' t
  end.

Lemma parse_pieces_with_default p pieces : parse_pieces p pieces = parse_pieces_with DEFAULT_ALLOWED_URL_SCHEMES p pieces.
Proof. revert p; induction pieces as [|x t IH]; intros p; cbn [parse_pieces parse_pieces_with]; [reflexivity|].
  unfold parse. destruct (parse_with _ p x); cbn [bind]; [apply IH|reflexivity]. Qed.

Theorem segmentation_gen al pieces : forall p R, parser_inv p ->
  parse_with al p (concat pieces) = R -> framedP R -> parse_pieces_with al p pieces = R.
Proof.
  induction pieces as [|x t IH]; intros p R PI H F; cbn [concat parse_pieces_with] in *.
  - rewrite <- H. symmetry. apply parse_with_nil, PI.
  - pose proof (two_piece_gen al p x (concat t) R PI H F) as L.
    destruct (parse_with al p x) as [p1|e] eqn:E; cbn [bind] in L |- *; [|exact L].
    apply IH; [eapply parse_with_inv; eassumption|exact L|exact F].
Qed.

(* the statements for HttpParser.parse with its default allowed_url_schemes *)
Theorem parse_never_out_of_fuel p raw : parser_inv p -> parse p raw <> Err OutOfFuel.
Proof. apply parse_with_never_out_of_fuel. Qed.

Theorem parse_inv p raw p' : parser_inv p -> parse p raw = Ok p' -> parser_inv p'.
Proof. apply parse_with_inv. Qed.

Theorem two_piece p a b p2 : parser_inv p -> parse p (a ++ b) = Ok p2 -> framed p2 = true ->
  exists p1, parse p a = Ok p1 /\ parse p1 b = Ok p2.
Proof.
  intros PI H F. pose proof (two_piece_gen _ p a b (Ok p2) PI H F) as L. unfold parse.
  destruct (parse_with _ p a) as [p1|e]; cbn [bind] in L; [|discriminate]. exists p1. auto.
Qed.

Theorem two_piece_err p a b e : parser_inv p -> parse p (a ++ b) = Err e ->
  parse p a = Err e \/ exists p1, parse p a = Ok p1 /\ parse p1 b = Err e.
Proof.
  intros PI H. pose proof (two_piece_gen _ p a b (Err e) PI H Logic.I) as L. unfold parse.
  destruct (parse_with _ p a) as [p1|e1]; cbn [bind] in L; [right; exists p1; auto|left; exact L].
Qed.

Theorem segmentation t segs p : parse (new_parser t) (concat segs) = Ok p -> framed p = true ->
  parse_pieces (new_parser t) segs = Ok p.
Proof.
  intros H F. rewrite parse_pieces_with_default.
  apply (segmentation_gen _ segs (new_parser t) (Ok p) (parser_inv_new t) H F).
Qed.

Theorem segmentation_err t segs e : parse (new_parser t) (concat segs) = Err e ->
  parse_pieces (new_parser t) segs = Err e.
Proof.
  intros H. rewrite parse_pieces_with_default.
  apply (segmentation_gen _ segs (new_parser t) (Err e) (parser_inv_new t) H Logic.I).
Qed.

(* ------------------------------------------------------------------------------------- *)
(* a COMPLETE parser only accumulates what it is given                                     *)

Theorem parse_with_complete_absorbs al p raw : parser_inv p -> state p = COMPLETE ->
  parse_with al p raw = Ok (set_buffer_size p (optb (bufb p ++ raw)) (total_size p + len raw)).
Proof.
  intros (I & _) C. rewrite parse_with_alt by exact I. rewrite PL_complete by exact C. reflexivity.
Qed.

Theorem parse_with_total_size al p raw p' : parser_inv p -> parse_with al p raw = Ok p' ->
  total_size p' = total_size p + len raw.
Proof.
  intros (I & _). rewrite parse_with_alt by exact I.
  destruct (PL al (nz raw) p (bufb p ++ raw)) as [[r q]|e]; cbn [bind]; [|discriminate].
  intros H; inv_ok H. reflexivity.
Qed.

(* ------------------------------------------------------------------------------------- *)
(* complete exactly at the end: abstract syntax of self-delimiting messages                *)

Definition tok (l : bytes) : Prop := ~ In SP l /\ ~ In CR l.

Inductive start_line :=
| ReqLine (m target ver : bytes) (u : url)        (* u: what Url.from_bytes makes of the target *)
| StatusLine (ver cd : bytes) (rs : option bytes).

Inductive framing :=
| FNone
| FLength (hn hv : bytes) (bd : bytes)            (* content-length header as spelled, body *)
| FChunked (hn hv : bytes) (s : chunk_stream).    (* transfer-encoding header as spelled, chunked stream *)

Definition hdr := (bytes * bytes)%type.

Record message := { m_start : start_line; m_hs1 : list hdr; m_framing : framing; m_hs2 : list hdr }.

Definition hdr_ok (nv : hdr) : Prop :=
  fst nv <> [] /\ strip (fst nv) = fst nv /\ strip (snd nv) = snd nv /\
  ~ In COLON (fst nv) /\ ~ In CR (fst nv) /\ ~ In CR (snd nv).
Definition other_ok (nv : hdr) : Prop :=
  hdr_ok nv /\ lower (fst nv) <> CONTENT_LENGTH /\ lower (fst nv) <> TRANSFER_ENCODING.

Definition start_ok (al : list bytes) (sl : start_line) : Prop :=
  match sl with
  | ReqLine m t v u => tok m /\ tok t /\ ~ In CR v /\ from_bytes al t = Ok u
  | StatusLine v c rs => tok v /\ tok c /\ match rs with Some r => ~ In CR r | None => True end
  end.
Definition framing_ok (f : framing) : Prop :=
  match f with
  | FNone => True
  | FLength hn hv bd => hdr_ok (hn, hv) /\ lower hn = CONTENT_LENGTH /\ int10 hv = Ok (Z.of_nat (length bd))
  | FChunked hn hv s => hdr_ok (hn, hv) /\ lower hn = TRANSFER_ENCODING /\ lower hv = CHUNKED /\ stream_ok s
  end.
Definition message_ok (al : list bytes) (m : message) : Prop :=
  start_ok al (m_start m) /\ Forall other_ok (m_hs1 m) /\ framing_ok (m_framing m) /\ Forall other_ok (m_hs2 m).

(* a response without content-length and without chunked encoding ends where the connection ends:
   it is inside the theorem only when nothing follows the blank line *)
Definition tail_ok (m : message) (tail : bytes) : Prop :=
  match m_start m, m_framing m with
  | StatusLine _ _ _, FNone => tail = []
  | _, _ => True
  end.

Definition render_start (sl : start_line) : bytes :=
  match sl with
  | ReqLine m t v _ => m ++ SP :: t ++ SP :: v
  | StatusLine v c None => v ++ SP :: c
  | StatusLine v c (Some r) => v ++ SP :: c ++ SP :: r
  end.
Definition render_hdr (nv : hdr) : bytes := fst nv ++ COLON :: SP :: snd nv.
Definition render_hdrs (hs : list hdr) : bytes := concat (map (fun nv => render_hdr nv ++ CRLF) hs).
Definition framing_hdrs (f : framing) : list hdr :=
  match f with FNone => [] | FLength hn hv _ => [(hn, hv)] | FChunked hn hv _ => [(hn, hv)] end.
Definition framing_bytes (f : framing) : bytes :=
  match f with FNone => [] | FLength _ _ bd => bd | FChunked _ _ s => render_stream s end.
Definition all_hdrs (m : message) : list hdr := m_hs1 m ++ framing_hdrs (m_framing m) ++ m_hs2 m.
Definition render (m : message) : bytes :=
  render_start (m_start m) ++ CRLF ++ render_hdrs (all_hdrs m) ++ CRLF ++ framing_bytes (m_framing m).

Definition msg_type (m : message) : ptype :=
  match m_start m with ReqLine _ _ _ _ => REQUEST_PARSER | StatusLine _ _ _ => RESPONSE_PARSER end.

(* the header dictionary: insertion order kept, keys lower-cased, a repeated name replaces the
   earlier entry in place *)
Definition add_all (h : option hdict) (hs : list hdr) : option hdict :=
  fold_left (fun h nv => Some (add_header_d h (fst nv) (snd nv))) hs h.

(* ---- list / strip helpers ---- *)
Lemma crlf_free_cr l : ~ In CR l -> crlf_free l.
Proof.
  unfold crlf_free. induction l as [|c t IH]; intros H; [reflexivity|].
  cbn [app split_once]. unfold CRLF at 1. cbn [is_prefix].
  destruct (N.eqb_spec 13 c) as [E|E].
  - exfalso. apply H. left. symmetry. exact E.
  - cbn [andb]. rewrite IH; [reflexivity|]. intros Hin. apply H. right. exact Hin.
Qed.

Lemma lstrip_length l : (length (lstrip l) <= length l)%nat.
Proof. induction l as [|x t IH]; cbn [lstrip]; [lia|]. destruct (is_ws x); cbn [length]; lia. Qed.

Lemma strip_fix_head x t : strip (x :: t) = x :: t -> is_ws x = false.
Proof.
  intros H. destruct (is_ws x) eqn:E; [|reflexivity]. exfalso.
  assert (L : (length (strip (x :: t)) <= length t)%nat).
  { unfold strip, rstrip. cbn [lstrip]. rewrite E. rewrite rev_length.
    etransitivity; [apply lstrip_length|]. rewrite rev_length. apply lstrip_length. }
  rewrite H in L. cbn [length] in L. lia.
Qed.

Lemma strip_sp v : strip (SP :: v) = strip v.
Proof. reflexivity. Qed.

Lemma hdr_ok_free nv : hdr_ok nv -> crlf_free (render_hdr nv).
Proof.
  intros (_ & _ & _ & _ & Hn & Hv). apply crlf_free_cr. unfold render_hdr.
  rewrite in_app_iff. cbn [In]. unfold COLON, SP, CR in *. intros [H|[H|[H|H]]]; try discriminate; tauto.
Qed.

Lemma hdr_ok_nonblank nv : hdr_ok nv -> match strip (render_hdr nv) with [] => true | _ => false end = false.
Proof.
  intros (Hne & Hs & _). destruct (fst nv) as [|x t] eqn:E; [congruence|].
  pose proof (strip_fix_head x t Hs) as W.
  assert (Hin : In x (strip (render_hdr nv))).
  { apply In_strip; [|exact W]. unfold render_hdr. rewrite E. left; reflexivity. }
  destruct (strip (render_hdr nv)); [destruct Hin|reflexivity].
Qed.

Lemma hdr_kv_render nv : hdr_ok nv -> hdr_kv (render_hdr nv) = nv.
Proof.
  intros (_ & Hs & Hv & Hc & _). unfold hdr_kv, render_hdr.
  rewrite (split_once_byte_notin COLON (fst nv) (SP :: snd nv) Hc).
  rewrite strip_sp, Hs, Hv. destruct nv; reflexivity.
Qed.

(* ---- one rendered header line through _process_header ---- *)
Lemma process_header_other p nv : other_ok nv ->
  process_header p (render_hdr nv) =
  Ok (set_headers p (Some (add_header_d (headers p) (fst nv) (snd nv))) (is_chunked_encoded p) (content_expected p)).
Proof.
  intros (H & N1 & N2). rewrite process_header_eq, (hdr_kv_render nv H). cbv zeta.
  replace (bytes_eqb (lower (fst nv)) CONTENT_LENGTH) with false
    by (symmetry; destruct (bytes_eqb (lower (fst nv)) CONTENT_LENGTH) eqn:E; [apply bytes_eqb_eq in E; contradiction|reflexivity]).
  replace (bytes_eqb (lower (fst nv)) TRANSFER_ENCODING) with false
    by (symmetry; destruct (bytes_eqb (lower (fst nv)) TRANSFER_ENCODING) eqn:E; [apply bytes_eqb_eq in E; contradiction|reflexivity]).
  reflexivity.
Qed.

Lemma process_header_cl p hn hv n : hdr_ok (hn, hv) -> lower hn = CONTENT_LENGTH -> int10 hv = Ok n ->
  process_header p (render_hdr (hn, hv)) =
  Ok (set_headers p (Some (add_header_d (headers p) hn hv)) (is_chunked_encoded p) (0 <? n)%Z).
Proof.
  intros H N1 N2. rewrite process_header_eq, (hdr_kv_render _ H). cbv zeta. cbn [fst snd].
  rewrite N1, bytes_eqb_refl, N2. reflexivity.
Qed.

Lemma process_header_te p hn hv : hdr_ok (hn, hv) -> lower hn = TRANSFER_ENCODING -> lower hv = CHUNKED ->
  process_header p (render_hdr (hn, hv)) =
  Ok (set_headers p (Some (add_header_d (headers p) hn hv)) true (content_expected p)).
Proof.
  intros H N1 N2. rewrite process_header_eq, (hdr_kv_render _ H). cbv zeta. cbn [fst snd].
  rewrite N1, N2. reflexivity.
Qed.

(* ---- the header loop on rendered lines ---- *)
Lemma PH_line p nv more p' : st23 p -> hdr_ok nv -> more <> [] ->
  process_header (set_state p RCVING_HEADERS) (render_hdr nv) = Ok p' ->
  PH p ((render_hdr nv ++ CRLF) ++ more) = PH p' more.
Proof.
  intros S H Hm E. rewrite PH_step, <- app_assoc, (crlf_free_split _ _ (hdr_ok_free nv H)).
  unfold hdr_step. rewrite (st23_test p S), (hdr_ok_nonblank nv H), E. cbn [bind].
  apply nz_true in Hm. rewrite Hm. rewrite (process_header_state _ _ _ E). reflexivity.
Qed.

Lemma PH_end p rest : st23 p ->
  PH p (CRLF ++ rest) = Ok (nz rest, rest, set_state p HEADERS_COMPLETE).
Proof.
  intros S. rewrite PH_step, split_once_crlf_head. unfold hdr_step. rewrite (st23_test p S).
  change (strip []) with (@nil N). cbn [bind state set_state]. rewrite N.eqb_refl, orb_true_r. reflexivity.
Qed.

Ltac ne_tac :=
  let Q := fresh in intros Q; apply (f_equal (@length N)) in Q; rewrite ?app_length in Q;
  cbn [length CRLF] in Q; lia.

Lemma crlf_app_ne (x : bytes) : CRLF ++ x <> [].
Proof. discriminate. Qed.

Lemma render_hdrs_app a b : render_hdrs (a ++ b) = render_hdrs a ++ render_hdrs b.
Proof. unfold render_hdrs. rewrite map_app, concat_app. reflexivity. Qed.

Lemma render_hdrs_one nv : render_hdrs [nv] = render_hdr nv ++ CRLF.
Proof. unfold render_hdrs. cbn [map concat]. apply app_nil_r. Qed.

(* a run of headers that are neither content-length nor transfer-encoding *)
Lemma PH_others hs : forall p more, st23 p -> Forall other_ok hs -> more <> [] ->
  exists p', PH p (render_hdrs hs ++ more) = PH p' more /\ st23 p' /\
    set_state p' HEADERS_COMPLETE =
    set_state (set_headers p (add_all (headers p) hs) (is_chunked_encoded p) (content_expected p)) HEADERS_COMPLETE.
Proof.
  induction hs as [|nv hs IH]; intros p more S F Hm.
  - exists p. cbn [render_hdrs map concat app add_all fold_left]. split; [reflexivity|]. split; [exact S|reflexivity].
  - inversion F as [|? ? Hnv Hhs]; subst.
    cbn [render_hdrs map concat]. fold (render_hdrs hs). rewrite <- app_assoc.
    pose proof (process_header_other (set_state p RCVING_HEADERS) nv Hnv) as E.
    set (p1 := set_headers (set_state p RCVING_HEADERS)
                 (Some (add_header_d (headers p) (fst nv) (snd nv))) (is_chunked_encoded p) (content_expected p)).
    assert (S1 : st23 p1) by (right; reflexivity).
    assert (Hm' : render_hdrs hs ++ more <> []).
    { intros X. apply app_eq_nil in X. tauto. }
    rewrite (PH_line p nv _ p1 S (proj1 Hnv) Hm' E).
    destruct (IH p1 more S1 Hhs Hm) as (p' & A & B & C).
    exists p'. split; [exact A|]. split; [exact B|]. rewrite C. reflexivity.
Qed.

(* ---- start line ---- *)
Lemma splitn2_three a c d : ~ In SP a -> ~ In SP c -> splitn [SP] 2 (a ++ SP :: c ++ SP :: d) = [a; c; d].
Proof.
  intros Ha Hc. cbn [splitn]. rewrite (split_once_byte_notin SP a _ Ha), (split_once_byte_notin SP c _ Hc). reflexivity.
Qed.
Lemma splitn2_two a c : ~ In SP a -> ~ In SP c -> splitn [SP] 2 (a ++ SP :: c) = [a; c].
Proof.
  intros Ha Hc. cbn [splitn]. rewrite (split_once_byte_notin SP a _ Ha), (split_once_byte_none SP c Hc). reflexivity.
Qed.

Definition after_line (p : parser) (sl : start_line) : parser :=
  match sl with
  | ReqLine m t v u =>
      let tn := bytes_eqb m CONNECT || is_https_tunnel p in
      let la := line_attributes tn u in
      set_line p (Some m) (Some u) tn (code p) (reason p) (Some v) (fst (fst la)) (snd (fst la)) (snd la)
  | StatusLine v c rs =>
      set_line p (method p) (purl p) (is_https_tunnel p) (Some c)
               (match rs with Some r => Some r | None => reason p end) (Some v) (host p) (port p) (path p)
  end.

Lemma start_free al sl : start_ok al sl -> crlf_free (render_start sl).
Proof.
  intros H. apply crlf_free_cr. destruct sl as [m t v u|v c [r|]]; cbn [start_ok render_start] in *;
    unfold tok in H; rewrite ?in_app_iff; cbn [In]; rewrite ?in_app_iff; cbn [In];
    unfold SP, CR in *; intuition discriminate.
Qed.

Lemma process_line_render al p sl rest : start_ok al sl ->
  is_request (ty p) = match sl with ReqLine _ _ _ _ => true | StatusLine _ _ _ => false end ->
  process_line al p (render_start sl ++ CRLF ++ rest) = Ok (nz rest, rest, after_line p sl).
Proof.
  intros H T. unfold process_line. rewrite (crlf_free_split _ _ (start_free al sl H)), T.
  destruct sl as [m t v u|v c [r|]]; cbn [start_ok render_start after_line] in *.
  - destruct H as ((Hm & _) & (Ht & _) & _ & Hu). rewrite (splitn2_three m t v Hm Ht), Hu. cbn [bind].
    destruct (line_attributes _ u) as [[h pt] pa]. reflexivity.
  - destruct H as ((Hv & _) & (Hc & _) & _). rewrite (splitn2_three v c r Hv Hc). reflexivity.
  - destruct H as ((Hv & _) & (Hc & _) & _). rewrite (splitn2_two v c Hv Hc). reflexivity.
Qed.

(* ---- the final state ---- *)
Definition final_of (p : parser) (m : message) : parser :=
  let h := add_all None (all_hdrs m) in
  match m_framing m with
  | FNone => set_state (set_headers p h false false) COMPLETE
  | FLength _ _ [] => set_state (set_headers p h false false) COMPLETE
  | FLength _ _ bd => set_body (set_state (set_headers p h false true) COMPLETE) (Some bd)
  | FChunked _ _ s =>
      set_chunk (set_body (set_state (set_headers p h true false) COMPLETE) (Some (stream_body s)))
                (Some (complete_state (stream_body s)))
  end.

Definition expected (m : message) (tail : bytes) : parser :=
  set_buffer_size (final_of (after_line (new_parser (msg_type m)) (m_start m)) m)
                  (optb tail) (len (render m ++ tail)).

(* a parser that has just taken the start line *)
Definition fresh2 (p : parser) : Prop :=
  state p = LINE_RCVD /\ headers p = None /\ is_chunked_encoded p = false /\ content_expected p = false /\
  body p = None /\ chunk p = None.

Lemma add_all_app h a b : add_all h (a ++ b) = add_all (add_all h a) b.
Proof. unfold add_all. apply fold_left_app. Qed.

Definition unopt (h : option hdict) : hdict := match h with Some d => d | None => [] end.

Lemma add_all_get_cl hs : forall h, Forall other_ok hs ->
  dict_get CONTENT_LENGTH (unopt (add_all h hs)) = dict_get CONTENT_LENGTH (unopt h).
Proof.
  induction hs as [|nv hs IH]; intros h F; [reflexivity|].
  inversion F as [|? ? (_ & N1 & _) Hhs]; subst. cbn [add_all fold_left]. fold (add_all (Some (add_header_d h (fst nv) (snd nv))) hs).
  rewrite IH by exact Hhs. cbn [unopt]. unfold add_header_d. fold (unopt h).
  apply dict_get_set_other.
  destruct (bytes_eqb CONTENT_LENGTH (lower (fst nv))) eqn:E; [|reflexivity].
  apply bytes_eqb_eq in E. congruence.
Qed.

(* the header dictionary in closed form *)
Definition hd_add (d : hdict) (nv : hdr) : hdict := dict_set (lower (fst nv)) nv d.
Lemma add_all_spec hs :
  add_all None hs = match hs with [] => None | _ => Some (fold_left hd_add hs []) end.
Proof.
  assert (G : forall hs h, add_all (Some h) hs = Some (fold_left hd_add hs h)).
  { induction hs0 as [|nv t IH]; intros h; [reflexivity|]. cbn [add_all fold_left].
    fold (add_all (Some (add_header_d (Some h) (fst nv) (snd nv))) t). rewrite IH.
    unfold hd_add at 2, add_header_d. destruct nv; reflexivity. }
  destruct hs as [|nv t]; [reflexivity|]. cbn [add_all fold_left].
  fold (add_all (Some (add_header_d None (fst nv) (snd nv))) t). rewrite G.
  unfold hd_add at 2, add_header_d. destruct nv; reflexivity.
Qed.

Lemma header_unopt p k : header p k = match dict_get (lower k) (unopt (headers p)) with Some (_, v) => Ok v | None => Err KeyError end.
Proof. unfold header, unopt. destruct (headers p); reflexivity. Qed.
Lemma has_header_unopt p k : has_header p k = dict_has (lower k) (unopt (headers p)).
Proof. unfold has_header, unopt. destruct (headers p); reflexivity. Qed.

(* headers of a rendered message, up to and including the blank line *)
Lemma PH_message p m rest : st23 p -> pinv p -> headers p = None ->
  is_chunked_encoded p = false -> content_expected p = false ->
  Forall other_ok (m_hs1 m) -> framing_ok (m_framing m) -> Forall other_ok (m_hs2 m) ->
  exists ch ce,
    PH p (render_hdrs (all_hdrs m) ++ CRLF ++ rest) =
      Ok (nz rest, rest, set_state (set_headers p (add_all None (all_hdrs m)) ch ce) HEADERS_COMPLETE) /\
    match m_framing m with
    | FNone => ch = false /\ ce = false
    | FLength _ _ bd => ch = false /\ ce = nz bd
    | FChunked _ _ _ => ch = true /\ ce = false
    end.
Proof.
  intros S I Hh Hch Hce F1 Ff F2. unfold all_hdrs. rewrite !render_hdrs_app, <- !app_assoc.
  assert (Hne1 : render_hdrs (framing_hdrs (m_framing m)) ++ render_hdrs (m_hs2 m) ++ CRLF ++ rest <> []) by ne_tac.
  destruct (PH_others (m_hs1 m) p _ S F1 Hne1) as (p1 & A1 & S1 & C1).
  rewrite A1. rewrite Hh, Hch, Hce in C1. clear A1 Hne1.
  assert (Hne2 : render_hdrs (m_hs2 m) ++ CRLF ++ rest <> []) by ne_tac.
  pose proof (f_equal headers C1) as Hh1. cbn [headers set_state set_headers] in Hh1.
  pose proof (f_equal is_chunked_encoded C1) as Hch1. cbn [is_chunked_encoded set_state set_headers] in Hch1.
  pose proof (f_equal content_expected C1) as Hce1. cbn [content_expected set_state set_headers] in Hce1.
  destruct (m_framing m) as [|hn hv bd|hn hv s]; cbn [framing_hdrs framing_ok] in *.
  - change (render_hdrs []) with (@nil N). cbn [app].
    destruct (PH_others (m_hs2 m) p1 (CRLF ++ rest) S1 F2 (crlf_app_ne rest)) as (p2 & A2 & S2 & C2).
    exists false, false. split; [|auto]. rewrite A2, (PH_end p2 rest S2), C2. f_equal. f_equal.
    cbn [app]. rewrite add_all_app.
    transitivity (set_state (set_headers (set_state p1 HEADERS_COMPLETE)
                   (add_all (headers p1) (m_hs2 m)) (is_chunked_encoded p1) (content_expected p1)) HEADERS_COMPLETE);
      [reflexivity|].
    rewrite C1, Hh1, Hch1, Hce1. reflexivity.
  - destruct Ff as (Hok & N1 & N2).
    rewrite render_hdrs_one.
    pose proof (process_header_cl (set_state p1 RCVING_HEADERS) hn hv _ Hok N1 N2) as E.
    assert (Hnz : (0 <? Z.of_nat (length bd))%Z = nz bd)
      by (destruct bd; [reflexivity|cbn [length nz Nat.eqb negb]; apply Z.ltb_lt; lia]).
    rewrite Hnz in E.
    set (p1' := set_headers (set_state p1 RCVING_HEADERS) (Some (add_header_d (headers p1) hn hv))
                  (is_chunked_encoded p1) (nz bd)) in *.
    assert (S1' : st23 p1') by (right; reflexivity).
    rewrite (PH_line p1 (hn, hv) _ p1' S1 Hok Hne2 E).
    destruct (PH_others (m_hs2 m) p1' (CRLF ++ rest) S1' F2 (crlf_app_ne rest)) as (p2 & A2 & S2 & C2).
    exists false, (nz bd). split; [|auto]. rewrite A2, (PH_end p2 rest S2), C2. f_equal. f_equal.
    rewrite !add_all_app. cbn [add_all fold_left fst snd].
    transitivity (set_state (set_headers (set_state p1 HEADERS_COMPLETE)
        (add_all (Some (add_header_d (headers (set_state p1 HEADERS_COMPLETE)) hn hv)) (m_hs2 m))
        (is_chunked_encoded (set_state p1 HEADERS_COMPLETE)) (nz bd)) HEADERS_COMPLETE); [reflexivity|].
    rewrite C1. reflexivity.
  - destruct Ff as (Hok & N1 & N2 & _).
    rewrite render_hdrs_one.
    pose proof (process_header_te (set_state p1 RCVING_HEADERS) hn hv Hok N1 N2) as E.
    set (p1' := set_headers (set_state p1 RCVING_HEADERS) (Some (add_header_d (headers p1) hn hv))
                  true (content_expected p1)) in *.
    assert (S1' : st23 p1') by (right; reflexivity).
    rewrite (PH_line p1 (hn, hv) _ p1' S1 Hok Hne2 E).
    destruct (PH_others (m_hs2 m) p1' (CRLF ++ rest) S1' F2 (crlf_app_ne rest)) as (p2 & A2 & S2 & C2).
    exists true, false. split; [|auto]. rewrite A2, (PH_end p2 rest S2), C2. f_equal. f_equal.
    rewrite !add_all_app. cbn [add_all fold_left fst snd].
    transitivity (set_state (set_headers (set_state p1 HEADERS_COMPLETE)
        (add_all (Some (add_header_d (headers (set_state p1 HEADERS_COMPLETE)) hn hv)) (m_hs2 m))
        true (content_expected (set_state p1 HEADERS_COMPLETE))) HEADERS_COMPLETE); [reflexivity|].
    rewrite C1. reflexivity.
Qed.

Lemma cl_lookup hs1 hn hv hs2 : lower hn = CONTENT_LENGTH -> Forall other_ok hs2 ->
  dict_get CONTENT_LENGTH (unopt (add_all None (hs1 ++ (hn, hv) :: hs2))) = Some (hn, hv).
Proof.
  intros N F. rewrite add_all_app. cbn [add_all fold_left fst snd].
  fold (add_all (Some (add_header_d (add_all None hs1) hn hv)) hs2).
  rewrite add_all_get_cl by exact F. cbn [unopt]. unfold add_header_d. rewrite N.
  apply dict_get_set_same.
Qed.

Lemma no_cl_lookup hs : Forall other_ok hs -> dict_get CONTENT_LENGTH (unopt (add_all None hs)) = None.
Proof. intros F. rewrite add_all_get_cl by exact F. reflexivity. Qed.

(* headers and body of a rendered message, from the state after the start line *)
Lemma PL_message al p m tail : fresh2 p -> pinv p ->
  Forall other_ok (m_hs1 m) -> framing_ok (m_framing m) -> Forall other_ok (m_hs2 m) ->
  (is_request (ty p) = false -> m_framing m = FNone -> tail = []) ->
  PL al true p (render_hdrs (all_hdrs m) ++ CRLF ++ framing_bytes (m_framing m) ++ tail) =
  Ok (tail, final_of p m).
Proof.
  intros (S2 & Hh & Hch & Hce & Hb & Hk) I F1 Ff F2 Ht.
  assert (S : st23 p) by (left; exact S2).
  assert (N : state p <> COMPLETE) by (rewrite S2; discriminate).
  set (rest := framing_bytes (m_framing m) ++ tail).
  destruct (PH_message p m rest S I Hh Hch Hce F1 Ff F2) as (ch & ce & A & Hf).
  rewrite PL_step_true by assumption.
  pose proof (proc_spec al p (render_hdrs (all_hdrs m) ++ CRLF ++ rest) I N) as Sp.
  rewrite (proc_headers al p _ S), A in *. cbn [bind]. destruct Sp as (I4 & _).
  set (H := add_all None (all_hdrs m)) in *.
  set (p4 := set_state (set_headers p H ch ce) HEADERS_COMPLETE) in *.
  unfold final_of. fold H. unfold all_hdrs in H.
  destruct (m_framing m) as [|hn hv bd|hn hv s] eqn:Fr; cbn [framing_hdrs framing_bytes framing_ok] in *.
  - (* no framing header: a request, or a response with nothing after the blank line *)
    destruct Hf as (-> & ->). cbn [app] in rest.
    assert (M : maybe_complete p4 rest = set_state p4 COMPLETE).
    { unfold maybe_complete. cbn [state p4 set_state set_headers content_expected is_chunked_encoded ty].
      change (HEADERS_COMPLETE =? HEADERS_COMPLETE) with true. cbn [orb negb andb].
      destruct (is_request (ty p)) eqn:Rq.
      - rewrite orb_true_r. reflexivity.
      - unfold rest. rewrite (Ht eq_refl eq_refl). reflexivity. }
    rewrite M. rewrite PL_complete by reflexivity. reflexivity.
  - destruct Hf as (-> & ->). destruct Ff as (Hok & N1 & N2).
    assert (L : dict_get CONTENT_LENGTH (unopt H) = Some (hn, hv)) by (apply cl_lookup; assumption).
    destruct bd as [|b0 bd'].
    + (* content-length: 0 *)
      cbn [app nz length Nat.eqb negb] in *.
      assert (M : maybe_complete p4 rest = set_state p4 COMPLETE).
      { unfold maybe_complete. rewrite has_header_unopt.
        cbn [state p4 set_state set_headers content_expected is_chunked_encoded ty headers].
        rewrite lower_CL. unfold dict_has. rewrite L.
        change (HEADERS_COMPLETE =? HEADERS_COMPLETE) with true. cbn [orb negb andb].
        rewrite orb_true_r. reflexivity. }
      rewrite M. rewrite PL_complete by reflexivity. reflexivity.
    + (* content-length: n > 0 *)
      set (bd := b0 :: bd') in *. change (nz bd) with true in *.
      assert (M : maybe_complete p4 rest = p4).
      { unfold maybe_complete. cbn [p4 content_expected set_state set_headers]. cbn [orb negb].
        rewrite andb_false_r. reflexivity. }
      rewrite M in *. change (nz rest) with true.
      rewrite PL_step_true; [|exact I4|discriminate].
      rewrite proc_body by (cbn [p4 state set_state]; ust; lia).
      assert (Hh4 : header p4 CONTENT_LENGTH = Ok hv).
      { rewrite header_unopt, lower_CL. cbn [p4 headers set_state set_headers]. rewrite L. reflexivity. }
      assert (B4 : bodyb p4 = []) by (unfold bodyb; cbn [p4 body set_state set_headers]; rewrite Hb; reflexivity).
      rewrite (process_body_cl p4 rest hv (Z.of_nat (length bd)) eq_refl eq_refl Hh4 N2)
        by (rewrite B4; unfold bd; cbn [length]; lia).
      rewrite B4. cbn [length app bind]. rewrite Nat2Z.id, Nat.sub_0_r.
      unfold rest. rewrite firstn_app_exact, skipn_app_exact.
      assert (X : cl_result p4 bd (Z.of_nat (length bd)) =
                  set_state (set_body (set_state p4 RCVING_BODY) (Some bd)) COMPLETE).
      { unfold cl_result. change (nz bd) with true. rewrite Z.eqb_refl. reflexivity. }
      rewrite X. rewrite maybe_complete_not4 by discriminate.
      rewrite PL_complete by reflexivity. reflexivity.
  - (* chunked *)
    destruct Hf as (-> & ->). destruct Ff as (Hok & N1 & N2 & Hs).
    assert (M : maybe_complete p4 rest = p4) by (apply maybe_complete_chunked; reflexivity).
    rewrite M in *.
    assert (Hr : nz rest = true).
    { apply nz_true. unfold rest, render_stream. ne_tac. }
    rewrite Hr. rewrite PL_step_true; [|exact I4|discriminate].
    rewrite proc_body by (cbn [p4 state set_state]; ust; lia).
    rewrite process_body_chunked by reflexivity.
    assert (C4 : chunk_of p4 = new_chunkp) by (unfold chunk_of; cbn [p4 chunk set_state set_headers]; rewrite Hk; reflexivity).
    rewrite C4. unfold rest. rewrite (chunk_complete_at_end s tail Hs). cbn [bind].
    rewrite PL_false. unfold chunk_result. cbn [complete_state cst cbody].
    change (cstate_eqb CCOMPLETE CCOMPLETE) with true. cbv iota.
    rewrite maybe_complete_not4 by discriminate. reflexivity.
Qed.

Lemma after_line_fresh t sl : fresh2 (after_line (new_parser t) sl).
Proof. destruct sl as [m tg v u|v c rs]; repeat split. Qed.

Lemma after_line_inv p sl : pinv p -> state p = INITIALIZED -> pinv (after_line p sl).
Proof. intros I S. destruct sl; apply pinv_set_line; assumption. Qed.

Lemma after_line_ty p sl : ty (after_line p sl) = ty p.
Proof. destruct sl; reflexivity. Qed.

(* the whole message followed by any tail: COMPLETE, every field as in the message, the tail
   handed back untouched in [buffer] *)
Theorem complete_at_end al m tail : message_ok al m -> tail_ok m tail ->
  parse_with al (new_parser (msg_type m)) (render m ++ tail) = Ok (expected m tail).
Proof.
  intros (Hs & F1 & Ff & F2) Ht.
  set (t := msg_type m). set (p0 := new_parser t).
  assert (I0 : pinv p0) by apply pinv_new.
  rewrite parse_with_alt by exact I0. change (bufb p0) with (@nil N). cbn [app].
  change (total_size p0) with 0. rewrite N.add_0_l.
  assert (Hne : nz (render m ++ tail) = true).
  { apply nz_true. unfold render. ne_tac. }
  rewrite Hne. unfold render at 1. rewrite <- !app_assoc.
  rewrite PL_step_true; [|exact I0|discriminate].
  rewrite proc_line by reflexivity.
  rewrite (process_line_render al p0 (m_start m) _ Hs)
    by (unfold p0, t, msg_type; destruct (m_start m); reflexivity).
  cbn [bind].
  set (p2 := after_line p0 (m_start m)).
  assert (I2 : pinv p2) by (apply after_line_inv; [exact I0|reflexivity]).
  rewrite maybe_complete_not4
    by (unfold p2; destruct (m_start m); cbn [after_line state set_line]; discriminate).
  assert (Hne2 : nz (render_hdrs (all_hdrs m) ++ CRLF ++ framing_bytes (m_framing m) ++ tail) = true).
  { apply nz_true. ne_tac. }
  rewrite Hne2.
  rewrite (PL_message al p2 m tail (after_line_fresh t (m_start m)) I2 F1 Ff F2).
  - reflexivity.
  - intros Rq Fr. unfold p2 in Rq. rewrite after_line_ty in Rq. unfold tail_ok in Ht.
    unfold p0, t, msg_type in Rq. rewrite Fr in Ht. destruct (m_start m); [discriminate|exact Ht].
Qed.

Lemma expected_state m tail : state (expected m tail) = COMPLETE.
Proof. unfold expected, final_of. destruct (m_framing m) as [|hn hv [|b0 bd]|hn hv s]; reflexivity. Qed.

Lemma expected_buffer m tail : buffer (expected m tail) = optb tail.
Proof. reflexivity. Qed.

Lemma expected_total_size m tail : total_size (expected m tail) = len (render m ++ tail).
Proof. reflexivity. Qed.

Lemma expected_headers m tail : headers (expected m tail) = add_all None (all_hdrs m).
Proof. unfold expected, final_of. destruct (m_framing m) as [|hn hv [|b0 bd]|hn hv s]; reflexivity. Qed.

Lemma expected_body m tail :
  body (expected m tail) =
  match m_framing m with
  | FNone => None
  | FLength _ _ bd => optb bd
  | FChunked _ _ s => Some (stream_body s)
  end.
Proof.
  unfold expected, final_of.
  destruct (m_framing m) as [|hn hv [|b0 bd]|hn hv s]; destruct (m_start m); reflexivity.
Qed.

Lemma expected_start m tail :
  let p := expected m tail in
  match m_start m with
  | ReqLine mt tg v u =>
      let tn := bytes_eqb mt CONNECT in
      method p = Some mt /\ purl p = Some u /\ version p = Some v /\ is_https_tunnel p = tn /\
      (host p, port p, path p) = line_attributes tn u /\ code p = None /\ reason p = None
  | StatusLine v c rs =>
      version p = Some v /\ code p = Some c /\ reason p = rs /\ method p = None /\
      host p = None /\ port p = None /\ path p = None
  end.
Proof.
  unfold expected, final_of.
  destruct (m_start m) as [mt tg v u|v c [r|]]; destruct (m_framing m) as [|hn hv [|b0 bd]|hn hv s];
    cbn [after_line new_parser msg_type is_https_tunnel code reason method purl host port path orb];
    rewrite ?orb_false_r; repeat split;
    try (destruct (line_attributes _ u) as [[h pt] pa]; reflexivity).
Qed.

Lemma expected_fields m tail :
  let p := expected m tail in
  state p = COMPLETE /\ buffer p = optb tail /\ total_size p = len (render m ++ tail) /\
  headers p = add_all None (all_hdrs m) /\
  body p = match m_framing m with
           | FNone => None | FLength _ _ bd => optb bd | FChunked _ _ s => Some (stream_body s) end /\
  match m_start m with
  | ReqLine mt tg v u =>
      let tn := bytes_eqb mt CONNECT in
      method p = Some mt /\ purl p = Some u /\ version p = Some v /\ is_https_tunnel p = tn /\
      (host p, port p, path p) = line_attributes tn u /\ code p = None /\ reason p = None
  | StatusLine v c rs =>
      version p = Some v /\ code p = Some c /\ reason p = rs /\ method p = None /\
      host p = None /\ port p = None /\ path p = None
  end.
Proof.
  exact (conj (expected_state m tail) (conj (expected_buffer m tail)
         (conj (expected_total_size m tail) (conj (expected_headers m tail)
         (conj (expected_body m tail) (expected_start m tail)))))).
Qed.

Lemma framed_complete p : state p = COMPLETE -> framed p = true.
Proof. intros H. unfold framed. rewrite H. reflexivity. Qed.

(* never earlier: on every proper prefix of the message the parser is Ok and not COMPLETE *)
Theorem not_complete_before_end al m q r : message_ok al m -> render m = q ++ r -> r <> [] ->
  exists p1, parse_with al (new_parser (msg_type m)) q = Ok p1 /\ state p1 <> COMPLETE.
Proof.
  intros Hm E Hr.
  assert (Ht : tail_ok m []) by (unfold tail_ok; destruct (m_start m); destruct (m_framing m); exact Logic.I || reflexivity).
  pose proof (complete_at_end al m [] Hm Ht) as W. rewrite app_nil_r, E in W.
  pose proof (two_piece_gen al _ q r _ (parser_inv_new _) W (framed_complete _ (expected_state m []))) as L.
  destruct (parse_with al (new_parser (msg_type m)) q) as [p1|e] eqn:Q; cbn [bind] in L; [|discriminate].
  exists p1. split; [reflexivity|]. intros C.
  rewrite (parse_with_complete_absorbs al p1 r) in L
    by (try (eapply parse_with_inv; [apply parser_inv_new|exact Q]); exact C).
  apply (f_equal (fun x => match x with Ok p => buffer p | Err _ => None end)) in L.
  cbn [buffer set_buffer_size expected optb] in L.
  destruct (bufb p1 ++ r) eqn:X; [apply app_eq_nil in X; tauto|discriminate].
Qed.

Theorem complete_exactly_at_end al m : message_ok al m ->
  (forall tail, tail_ok m tail ->
     parse_with al (new_parser (msg_type m)) (render m ++ tail) = Ok (expected m tail)) /\
  (forall q r, render m = q ++ r -> r <> [] ->
     exists p1, parse_with al (new_parser (msg_type m)) q = Ok p1 /\ state p1 <> COMPLETE).
Proof.
  intros H. split.
  - intros tail. apply complete_at_end, H.
  - intros q r. apply not_complete_before_end, H.
Qed.

(* ------------------------------------------------------------------------------------- *)
(* what [framed] excludes is exactly the class the property excludes                       *)

(* second invariant: a parser that sits after the header block with neither content-length
   expectation nor chunked encoding is a response parser and saw no content-length header
   (a request, or any message with a content-length header, completed at the blank line) *)
Definition close_delimited (p : parser) : Prop :=
  is_request (ty p) = false /\ has_header p CONTENT_LENGTH = false /\
  content_expected p = false /\ is_chunked_encoded p = false.

Definition pinv2 (p : parser) : Prop :=
  (state p = HEADERS_COMPLETE \/ state p = RCVING_BODY) ->
  content_expected p = false -> is_chunked_encoded p = false -> close_delimited p.

Lemma pinv2_new t : pinv2 (new_parser t).
Proof. intros [H|H]; discriminate. Qed.

Lemma maybe_complete_inv2 p raw : (state p = RCVING_BODY -> pinv2 p) -> pinv2 (maybe_complete p raw).
Proof.
  intros H. unfold maybe_complete.
  destruct (N.eqb_spec (state p) HEADERS_COMPLETE) as [S|S]; cbn [andb].
  2:{ intros [X|X]; [contradiction|]. apply (H X). right; exact X. }
  destruct (negb (content_expected p || is_chunked_encoded p)) eqn:F; cbn [andb].
  2:{ intros _ CE CH. rewrite CE, CH in F. discriminate. }
  destruct (_ || _ || _) eqn:C.
  - intros [X|X]; discriminate.
  - apply orb_false_iff in C as [C C3]. apply orb_false_iff in C as [_ C2].
    intros _ CE CH. repeat split; assumption.
Qed.

Lemma process_body_fields p raw m r p' : process_body p raw = Ok (m, r, p') ->
  ty p' = ty p /\ headers p' = headers p /\ content_expected p' = content_expected p /\
  is_chunked_encoded p' = is_chunked_encoded p /\
  (is_chunked_encoded p = false -> state p' = RCVING_BODY \/ state p' = COMPLETE).
Proof.
  unfold process_body. destruct (is_chunked_encoded p) eqn:CH.
  - destruct (chunk_parse _ raw) as [[raw' c']|]; cbn [bind]; [|discriminate].
    intros H; inv_ok H. destruct (cstate_eqb (cst c') CCOMPLETE); repeat split; try assumption; discriminate.
  - destruct (content_expected p) eqn:CE.
    + destruct (header _ _); cbn [bind]; [|discriminate].
      destruct (int10 _); cbn [bind]; [|discriminate].
      intros H; inv_ok H. destruct (_ && _); repeat split; try assumption; intros _; [right|left]; reflexivity.
    + intros H; inv_ok H. repeat split; try assumption. intros _. left; reflexivity.
Qed.

Lemma proc_inv2 al p raw m r p' : pinv p -> pinv2 p -> state p <> COMPLETE ->
  proc al p raw = Ok (m, r, p') -> pinv2 (maybe_complete p' r).
Proof.
  intros I I2 N. destruct (state_cases p I N) as [S|[S|[S4 S6]]].
  - rewrite proc_line by exact S. intros H. apply process_line_result in H.
    apply maybe_complete_inv2. intros X.
    inversion H as [E|line rest m0 u tn cd rs ver h pt pa E]; subst.
    + rewrite S in X. discriminate.
    + cbn [state set_line] in X. discriminate.
  - rewrite proc_headers by exact S. intros H. pose proof (PH_spec p raw I S) as Sp. rewrite H in Sp.
    destruct Sp as (_ & _ & _ & [([X|X] & _)|(X & _)]); apply maybe_complete_inv2; intros Y;
      rewrite X in Y; discriminate.
  - rewrite proc_body by exact S4. intros H.
    apply process_body_fields in H. destruct H as (T & Hh & CE & CH & St).
    apply maybe_complete_inv2. intros X _ E1 E2. rewrite CE in E1. rewrite CH in E2.
    assert (B : state p = HEADERS_COMPLETE \/ state p = RCVING_BODY) by (ust; lia).
    destruct (I2 B E1 E2) as (A1 & A2 & A3 & A4). unfold close_delimited.
    rewrite T, CE, CH. unfold has_header in *. rewrite Hh. auto.
Qed.

Lemma PL_inv2 al : forall m p raw, pinv p -> pinv2 p -> forall r p', PL al m p raw = Ok (r, p') -> pinv2 p'.
Proof.
  apply (PL_ind al (fun m p raw res => pinv2 p -> forall r p', res = Ok (r, p') -> pinv2 p')).
  - intros m p raw _ _ I2 r p' H; inv_ok H. exact I2.
  - intros; discriminate.
  - intros p raw m' r0 p0 I N E _ IH I2 r p' H.
    apply (IH (proc_inv2 al p raw m' r0 p0 I I2 N E) _ _ H).
Qed.

(* third invariant: between calls, bytes are carried in [buffer] only while the start line or the
   header block is incomplete, or after completion; during the body (in particular while the
   chunk decoder holds a partial line or chunk) nothing is carried *)
Definition st45 (p : parser) : Prop := state p = HEADERS_COMPLETE \/ state p = RCVING_BODY.
Definition pinv3 (p : parser) : Prop := st45 p -> buffer p = None.

Lemma proc_buf al p raw r p' : pinv p -> state p <> COMPLETE ->
  proc al p raw = Ok (false, r, p') -> st45 (maybe_complete p' r) -> r = [].
Proof.
  intros I N. destruct (state_cases p I N) as [S|[S|[S4 S6]]].
  - rewrite proc_line by exact S. intros H. apply process_line_result in H.
    inversion H as [E|line rest m0 u tn cd rs ver h pt pa E]; subst.
    + rewrite maybe_complete_not4 by (rewrite S; discriminate). intros [X|X]; rewrite S in X; discriminate.
    + rewrite maybe_complete_not4 by (cbn [state set_line]; discriminate).
      intros [X|X]; cbn [state set_line] in X; discriminate.
  - rewrite proc_headers by exact S. intros H. pose proof (PH_spec p raw I S) as Sp. rewrite H in Sp.
    destruct Sp as (_ & _ & _ & [(X & _)|(X & Y)]).
    + assert (N4 : state p' <> HEADERS_COMPLETE) by (destruct X as [X|X]; rewrite X; discriminate).
      rewrite maybe_complete_not4 by exact N4. intros [Z|Z]; destruct X as [X|X]; rewrite X in Z; discriminate.
    + intros _. symmetry in Y. apply nz_false in Y. exact Y.
  - rewrite proc_body by exact S4. destruct (is_chunked_encoded p) eqn:CH.
    + rewrite process_body_chunked by exact CH. pose proof (chunk_of_inv p I) as IC.
      destruct (chunk_parse (chunk_of p) raw) as [[ra c1]|e] eqn:E; cbn [bind]; [|discriminate].
      intros H; inv_ok H. destruct (chunk_parse_remainder _ _ _ _ IC E) as [Er|Ec]; [intros _; exact Er|].
      unfold chunk_result. apply cstate_eqb_complete in Ec. rewrite Ec.
      rewrite maybe_complete_not4 by (cbn [state set_state]; discriminate).
      intros [X|X]; cbn [state set_state] in X; discriminate.
    + destruct (content_expected p) eqn:CE.
      * destruct (pinv_cl p I CE S6) as (v & T & Hh & Hi & Hlt).
        rewrite (process_body_cl p raw v T CH CE Hh Hi Hlt). intros H; inv_ok H.
        match goal with H : nz raw = false |- _ => apply nz_false in H; subst raw end.
        intros _. apply skipn_nil.
      * rewrite (process_body_close p raw CH CE). intros H; inv_ok H. reflexivity.
Qed.

Lemma PL_buf al : forall m p raw, pinv p -> (m = false -> st45 p -> raw = []) ->
  forall r p', PL al m p raw = Ok (r, p') -> st45 p' -> r = [].
Proof.
  apply (PL_ind al (fun m p raw res => (m = false -> st45 p -> raw = []) ->
           forall r p', res = Ok (r, p') -> st45 p' -> r = [])).
  - intros m p raw _ [Em|Ec] H r p' E S; inv_ok E.
    + apply H; [reflexivity|exact S].
    + destruct S as [S|S]; rewrite Ec in S; discriminate.
  - intros; discriminate.
  - intros p raw m' r0 p0 I N E _ IH _ r p' H S.
    apply (IH (fun Em => ltac:(subst m'; exact (proc_buf al p raw r0 p0 I N E))) _ _ H S).
Qed.

Definition reachable_inv (p : parser) : Prop := parser_inv p /\ pinv2 p /\ pinv3 p.

Lemma reachable_inv_new t : reachable_inv (new_parser t).
Proof. split; [apply parser_inv_new|]. split; [apply pinv2_new|]. intros _. reflexivity. Qed.

Theorem parse_with_reachable_inv al p raw p' : reachable_inv p -> parse_with al p raw = Ok p' -> reachable_inv p'.
Proof.
  intros (PI & I2 & I3) H. split; [eapply parse_with_inv; eassumption|].
  destruct PI as (I & _). rewrite parse_with_alt in H by exact I.
  destruct (PL al (nz raw) p (bufb p ++ raw)) as [[r q]|e] eqn:E; cbn [bind] in H; [|discriminate].
  inv_ok H. split; [exact (PL_inv2 al _ _ _ I I2 _ _ E)|].
  intros S. cbn [buffer set_buffer_size].
  assert (X : r = []).
  { apply (PL_buf al (nz raw) p (bufb p ++ raw) I) with (p' := q); [|exact E|exact S].
    intros Em S0. apply nz_false in Em. subst raw. rewrite app_nil_r. unfold bufb. rewrite (I3 S0). reflexivity. }
  rewrite X. reflexivity.
Qed.

(* on reachable states, not framed = a response whose header block had neither a content-length
   header nor chunked encoding, and that received at least one byte after the blank line *)
Theorem unframed_iff_close_delimited p : reachable_inv p ->
  (framed p = false <-> state p = RCVING_BODY /\ close_delimited p).
Proof.
  intros ((I & _) & I2 & _). unfold framed. split.
  - intros F. apply negb_false_iff in F.
    apply andb_true_iff in F as [F CH]. apply andb_true_iff in F as [S CE].
    apply N.eqb_eq in S. apply negb_true_iff in CE. apply negb_true_iff in CH.
    split; [exact S|]. apply I2; auto.
  - intros (S & _ & _ & CE & CH). rewrite S, CE, CH. reflexivity.
Qed.

(* every message of the grammar is inside the theorems: its final state is framed *)
Lemma framed_expected m tail : framed (expected m tail) = true.
Proof. apply framed_complete, expected_state. Qed.

(* ------------------------------------------------------------------------------------- *)
(* non-vacuity: a concrete chunked POST in absolute form with extensions and a trailer       *)

Definition example_url : url :=
  {| u_scheme := Some (bs "http"); u_username := None; u_password := None;
     u_hostname := Some (bs "example.org"); u_port := Some 8080%Z; u_remainder := Some (bs "/up?x=1") |}.

Definition example_msg : message :=
  {| m_start := ReqLine (bs "POST") (bs "http://example.org:8080/up?x=1") (bs "HTTP/1.1") example_url;
     m_hs1 := [ (bs "Host", bs "example.org:8080"); (bs "X-Dup", bs "1") ];
     m_framing := FChunked (bs "Transfer-Encoding") (bs "Chunked") example_stream;
     m_hs2 := [ (bs "x-dup", bs "2"); (bs "Accept", bs "*/*") ] |}.

Definition example_tail : bytes := bs "GET / HTTP/1.1" ++ [13; 10; 72].

Lemma hdr_ok_dec nv :
  negb (nz (fst nv)) = false -> bytes_eqb (strip (fst nv)) (fst nv) = true ->
  bytes_eqb (strip (snd nv)) (snd nv) = true ->
  mem_byte COLON (fst nv) = false -> mem_byte CR (fst nv) = false -> mem_byte CR (snd nv) = false ->
  hdr_ok nv.
Proof.
  intros H1 H2 H3 H4 H5 H6. unfold hdr_ok.
  split; [apply nz_true; destruct (nz (fst nv)); [reflexivity|discriminate]|].
  split; [apply bytes_eqb_eq, H2|]. split; [apply bytes_eqb_eq, H3|].
  split; [apply mem_byte_false, H4|]. split; [apply mem_byte_false, H5|apply mem_byte_false, H6].
Qed.

Lemma other_ok_dec nv : hdr_ok nv ->
  bytes_eqb (lower (fst nv)) CONTENT_LENGTH = false -> bytes_eqb (lower (fst nv)) TRANSFER_ENCODING = false ->
  other_ok nv.
Proof.
  intros H A B. split; [exact H|].
  split; intros E; rewrite E, bytes_eqb_refl in *; discriminate.
Qed.

Lemma example_msg_ok : message_ok DEFAULT_ALLOWED_URL_SCHEMES example_msg.
Proof.
  unfold message_ok, example_msg. cbn [m_start m_hs1 m_framing m_hs2 start_ok framing_ok].
  split; [|split; [|split]].
  - unfold tok. repeat split; try (apply mem_byte_false; vm_compute; reflexivity).
  - repeat constructor; (apply other_ok_dec; [apply hdr_ok_dec|..]; vm_compute; reflexivity).
  - split; [apply hdr_ok_dec; vm_compute; reflexivity|].
    split; [vm_compute; reflexivity|]. split; [vm_compute; reflexivity|apply example_stream_ok].
  - repeat constructor; (apply other_ok_dec; [apply hdr_ok_dec|..]; vm_compute; reflexivity).
Qed.

(* converse direction: if the pieces succeed, so does the whole feed, with the same record —
   unless the whole feed ends in the excluded class *)
Theorem two_piece_converse al p a b p1 p2 : parser_inv p ->
  parse_with al p a = Ok p1 -> parse_with al p1 b = Ok p2 ->
  framedP (parse_with al p (a ++ b)) -> parse_with al p (a ++ b) = Ok p2.
Proof.
  intros PI H1 H2 F. pose proof (two_piece_gen al p a b _ PI eq_refl F) as L.
  rewrite H1 in L. cbn [bind] in L. rewrite H2 in L. symmetry. exact L.
Qed.
