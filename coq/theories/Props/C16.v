(* C16 — WebSocket frames round-trip for every size and flag combination.
   Statements only; proofs are in Ws/FrameFacts.v. *)
From PM Require Import Lib.Bytes Ws.Frame Ws.FrameSpec Ws.FrameFacts.

(* build() emits exactly the RFC 6455 encoding of the frame it was given (all flag bits, opcodes,
   masked or not, every payload length below 2^64), and leaves payload_length = len(data). *)
Theorem C16_build_is_rfc : forall rnd f, wf_frame rnd f ->
  build rnd f = Ok (rfc_encode (abs rnd f), len (data_or_empty (data f))).
Proof. exact build_is_rfc. Qed.
Print Assumptions C16_build_is_rfc.

(* parse() inverts the RFC encoder on every abstract frame, consumes exactly one frame and
   returns the following bytes untouched. *)
Theorem C16_parse_inverts_rfc : forall self a t, wf_aframe a ->
  parse self (rfc_encode a ++ t) = Ok (canon self a, t).
Proof. exact parse_rfc. Qed.
Print Assumptions C16_parse_inverts_rfc.

Theorem C16_roundtrip : forall rnd f t, wf_frame rnd f ->
  exists raw, build rnd f = Ok (raw, len (data_or_empty (data f))) /\
              parse new_frame (raw ++ t) = Ok (canon new_frame (abs rnd f), t).
Proof. exact roundtrip. Qed.
Print Assumptions C16_roundtrip.

Theorem C16_mask_involutive : forall d key, length key = 4%nat ->
  exists d', apply_mask d key = Ok d' /\ apply_mask d' key = Ok d.
Proof. exact apply_mask_involutive. Qed.
Print Assumptions C16_mask_involutive.

(* non-vacuity: the hypotheses are met at both length thresholds, masked and not *)
Definition ex_frame (m : bool) (n : N) : frame :=
  {| fin := true; rsv1 := false; rsv2 := true; rsv3 := false; opcode := 2; masked := m;
     payload_length := None; mask := if m then Some [1; 2; 3; 255] else None;
     data := Some (bpat [0; 7; 200] n) |}.
Lemma wf_frame_dec rnd f :
  (opcode f <? 16) && wf_bytes (data_or_empty (data f)) && (len (data_or_empty (data f)) <? 2 ^ 64)
  && (if masked f then match mask f with
                       | Some m => Nat.eqb (length m) 4 && wf_bytes m
                       | None => Nat.eqb (length rnd) 4 && wf_bytes rnd end else true)
  && match payload_length f with None => true | Some n => n =? len (data_or_empty (data f)) end = true ->
  wf_frame rnd f.
Proof.
  intros H. repeat (apply andb_true_iff in H as [H ?]).
  unfold wf_frame, wf_aframe, abs; cbn [a_opcode a_payload a_key].
  repeat split; try (apply N.ltb_lt; assumption); try assumption.
  - destruct (masked f); [|exact I].
    destruct (mask f); match goal with H : (Nat.eqb _ 4 && _) = true |- _ =>
      apply andb_true_iff in H as [Ha Hb]; apply Nat.eqb_eq in Ha; now split end.
  - destruct (payload_length f); [right; f_equal; now apply N.eqb_eq|now left].
Qed.
Example C16_nonvacuous : forall m n, In n [0; 1; 125; 126; 127; 65535; 65536; 70000] ->
  wf_frame [] (ex_frame m n).
Proof.
  intros m n Hn. apply wf_frame_dec.
  destruct m; cbn [In] in Hn; repeat (destruct Hn as [<-|Hn]; [vm_compute; reflexivity|]); contradiction.
Qed.
