(* C16 — WebSocket frames round-trip for every size and flag combination.
   Statements only; proofs are in Ws/FrameFacts.v. *)
From PM Require Import Lib.Bytes Ws.Frame Ws.FrameSpec Ws.FrameFacts Ws.Sha1 Ws.Stream Ws.StreamFacts.
From PM Require Net.Responses.

(* build() emits exactly the RFC 6455 encoding of the frame it was given (all flag bits, opcodes,
   masked or not, every payload length below 2^64), and leaves payload_length = len(data). *)
Theorem C16_build_is_rfc : forall rnd f, wf_frame rnd f ->
  build rnd f = Ok (rfc_encode (abs rnd f), len (data_or_empty (data f))).
Proof. exact build_is_rfc. Qed.
Print Assumptions C16_build_is_rfc.

(* parse() inverts the RFC encoder on every abstract frame, consumes exactly one frame and
   returns the following bytes untouched. *)
Theorem C16_parse_inverts_rfc : forall self a t, wf_aframe a ->
  parse self (rfc_encode a ++ t) = Ok (canon self a, t).
Proof. exact parse_rfc. Qed.
Print Assumptions C16_parse_inverts_rfc.

Theorem C16_roundtrip : forall rnd f t, wf_frame rnd f ->
  exists raw, build rnd f = Ok (raw, len (data_or_empty (data f))) /\
              parse new_frame (raw ++ t) = Ok (canon new_frame (abs rnd f), t).
Proof. exact roundtrip. Qed.
Print Assumptions C16_roundtrip.

Theorem C16_mask_involutive : forall d key, length key = 4%nat ->
  exists d', apply_mask d key = Ok d' /\ apply_mask d' key = Ok d.
Proof. exact apply_mask_involutive. Qed.
Print Assumptions C16_mask_involutive.

(* non-vacuity: the hypotheses are met at both length thresholds, masked and not *)
Definition ex_frame (m : bool) (n : N) : frame :=
  {| fin := true; rsv1 := false; rsv2 := true; rsv3 := false; opcode := 2; masked := m;
     payload_length := None; mask := if m then Some [1; 2; 3; 255] else None;
     data := Some (bpat [0; 7; 200] n) |}.
Lemma wf_frame_dec rnd f :
  (opcode f <? 16) && wf_bytes (data_or_empty (data f)) && (len (data_or_empty (data f)) <? 2 ^ 64)
  && (if masked f then match mask f with
                       | Some m => Nat.eqb (length m) 4 && wf_bytes m
                       | None => Nat.eqb (length rnd) 4 && wf_bytes rnd end else true)
  && match payload_length f with None => true | Some n => n =? len (data_or_empty (data f)) end = true ->
  wf_frame rnd f.
Proof.
  intros H. repeat (apply andb_true_iff in H as [H ?]).
  unfold wf_frame, wf_aframe, abs; cbn [a_opcode a_payload a_key].
  repeat split; try (apply N.ltb_lt; assumption); try assumption.
  - destruct (masked f); [|exact I].
    destruct (mask f); match goal with H : (Nat.eqb _ 4 && _) = true |- _ =>
      apply andb_true_iff in H as [Ha Hb]; apply Nat.eqb_eq in Ha; now split end.
  - destruct (payload_length f); [right; f_equal; now apply N.eqb_eq|now left].
Qed.
Example C16_nonvacuous : forall m n, In n [0; 1; 125; 126; 127; 65535; 65536; 70000] ->
  wf_frame [] (ex_frame m n).
Proof.
  intros m n Hn. apply wf_frame_dec.
  destruct m; cbn [In] in Hn; repeat (destruct Hn as [<-|Hn]; [vm_compute; reflexivity|]); contradiction.
Qed.


(* ====================================================================================================
   The frame STREAM as the web server reads it (HttpWebServerPlugin.on_client_data, websocket branch,
   under HttpProtocolHandler.handle_data) and the handshake.  Proofs are in Ws/StreamFacts.v.
   enc_all fs = the concatenation of the RFC 6455 encodings of fs (= what build() emits, C16_build_is_rfc);
   seen a     = the fields and payload the route's on_websocket_message is shown for frame a;
   not_close  = opcode other than CONNECTION_CLOSE.
   ==================================================================================================== *)

(* frame.parse consumes at least two bytes whenever it returns: the loop always progresses *)
Theorem C16_parse_progress : forall self raw f rest,
  parse self raw = Ok (f, rest) -> (length rest + 2 <= length raw)%nat.
Proof. exact parse_progress. Qed.
Print Assumptions C16_parse_progress.

(* the receive loop terminates on EVERY input with the fuel on_client_data gives it (never OutOfFuel),
   and any larger fuel gives the same run *)
Theorem C16_stream_terminates : forall has_route f raw,
  snd (ws_loop (ws_fuel raw) has_route f raw) <> WsOutOfFuel /\
  forall fuel, (length raw < fuel)%nat -> ws_loop fuel has_route f raw = ws_loop (ws_fuel raw) has_route f raw.
Proof. exact stream_terminates. Qed.
Print Assumptions C16_stream_terminates.

(* stream decode, one segment: for every list of well-formed frames without a close frame, delivered in
   ONE segment, on_client_data hands exactly these frames (all fields and payloads), in order, to
   on_websocket_message, consumes every byte and returns normally *)
Theorem C16_stream_decode : forall fs,
  Forall wf_aframe fs -> Forall not_close fs ->
  on_client_data true true true (enc_all fs) = OcdWebsocket (map seen fs) WsReturned.
Proof. exact on_client_data_stream. Qed.
Print Assumptions C16_stream_decode.

(* the same over a whole connection: any number of segments, each made of whole frames *)
Theorem C16_stream_decode_segments : forall fss,
  Forall (Forall wf_aframe) fss -> Forall (Forall not_close) fss ->
  ws_conn (map enc_all fss) = (map seen (concat fss), ConnOpen).
Proof. exact ws_conn_streams. Qed.
Print Assumptions C16_stream_decode_segments.

(* a close frame ends the dispatch: the frames before it (earlier segments and same segment) are delivered,
   the close frame itself is NOT handed to the route, the handler tears the connection down, and neither the
   bytes after the close frame in the same segment (arbitrary bytes [rest]) nor any later segment is looked at *)
Theorem C16_stream_close : forall fss fs c rest later,
  Forall (Forall wf_aframe) fss -> Forall (Forall not_close) fss ->
  Forall wf_aframe fs -> Forall not_close fs -> wf_aframe c -> a_opcode c = CONNECTION_CLOSE ->
  ws_conn (map enc_all fss ++ (enc_all fs ++ rfc_encode c ++ rest) :: later) =
  (map seen (concat fss ++ fs), ConnTeardown).
Proof. exact ws_conn_close. Qed.
Print Assumptions C16_stream_close.

(* ---- segments that do not end at a frame boundary: exactly what happens (FINDING C16-ws-no-reassembly) *)

(* on ANY input frame.parse raises only IndexError (fewer than 2 bytes left) or struct.error (extended length
   field cut); neither is caught by on_client_data, handle_data, handle_readables or handle_events *)
Theorem C16_parse_errors : forall self raw e,
  parse self raw = Err e ->
  (e = IndexError /\ (length raw < 2)%nat) \/
  (e = StructError /\ (2 <= length raw)%nat /\ ext_len_missing raw = true).
Proof. exact parse_errors. Qed.
Print Assumptions C16_parse_errors.

(* a segment ending k bytes into the payload of a frame (k < its length): the frames before are delivered,
   then the route is handed a SHORT message (payload_length = the announced length, data = the first k bytes),
   no exception is raised, the connection stays open, and the next segment is parsed from its first byte as
   if a new frame started there *)
Theorem C16_stream_cut_payload : forall fs a k segs,
  Forall wf_aframe fs -> Forall not_close fs -> wf_aframe a -> not_close a ->
  (k < length (a_payload a))%nat ->
  rfc_encode a = cut_encoding a k ++ skipn k (unmask a (a_payload a)) /\
  ws_conn ((enc_all fs ++ cut_encoding a k) :: segs) =
  (map seen fs ++ cut_frame a k :: fst (ws_conn segs), snd (ws_conn segs)).
Proof. exact stream_cut_payload. Qed.
Print Assumptions C16_stream_cut_payload.

(* a segment ending one byte into a frame: IndexError leaves the handler (the executor drops the connection) *)
Theorem C16_stream_cut_header : forall fs x later,
  Forall wf_aframe fs -> Forall not_close fs ->
  ws_conn ((enc_all fs ++ [x]) :: later) = (map seen fs, ConnEscaped IndexError).
Proof. exact ws_conn_one_byte. Qed.
Print Assumptions C16_stream_cut_header.

(* full statement that does NOT hold: "for every segmentation segs of enc_all fs, ws_conn segs = (map seen fs, ConnOpen)".
   Witness: one unmasked text frame "hello" received as 4 + 3 bytes. *)
Theorem C16_stream_segmentation_refuted :
  exists fs seg1 seg2,
    Forall wf_aframe fs /\ Forall not_close fs /\ seg1 ++ seg2 = enc_all fs /\
    ws_conn [enc_all fs] = (map seen fs, ConnOpen) /\
    ws_conn [seg1; seg2] <> (map seen fs, ConnOpen).
Proof. exact split_refuted. Qed.
Print Assumptions C16_stream_segmentation_refuted.

(* ---- handshake *)

(* for EVERY key the accept token is base64(sha1(key ++ GUID)) (definition of key_to_accept, C16's reference
   Ws/Sha1.v), 28 characters of the base64 alphabet *)
Theorem C16_accept_token_shape : forall key,
  key_to_accept key = b64encode (sha1 (key ++ GUID)) /\
  length (key_to_accept key) = 28%nat /\ forallb is_b64 (key_to_accept key) = true.
Proof. exact accept_token_shape. Qed.
Print Assumptions C16_accept_token_shape.

(* switch_to_websocket queues, for every key, exactly these bytes ... *)
Theorem C16_handshake_bytes : forall key,
  switch_to_websocket (Some key) = Ok (
    bytes_of_string "HTTP/1.1 101 Switching Protocols" ++ CRLF ++
    bytes_of_string "Upgrade: websocket" ++ CRLF ++
    bytes_of_string "Connection: Upgrade" ++ CRLF ++
    bytes_of_string "Sec-WebSocket-Accept: " ++ b64encode (sha1 (key ++ GUID)) ++ CRLF ++
    bytes_of_string "Content-Length: 0" ++ CRLF ++ CRLF).
Proof. exact handshake_bytes. Qed.
Print Assumptions C16_handshake_bytes.

(* ... which the RFC 7230 recogniser of Net/Responses.v reads (strict status-line grammar) as: version HTTP/1.1,
   status 101, reason "Switching Protocols", the four header fields below in this order with
   Sec-WebSocket-Accept = base64(sha1(key ++ GUID)), end of header section, and NOTHING after it.
   (Responses.recognise itself is for final responses, status >= 200, so its two stages are stated.)
   Note the fourth field: a 101 response carries "Content-Length: 0", which RFC 7230 section 3.3.2 forbids
   for 1xx responses (minor finding C16-handshake-content-length; clients ignore it). *)
Theorem C16_handshake_wellformed : forall key,
  exists line rest,
    split_once CRLF (build_websocket_handshake_response (key_to_accept key)) = Some (line, rest) /\
    PM.Net.Responses.parse_status_line true line =
      Some (PM.Net.Responses.HTTP11, 101, Some SWITCHING_PROTOCOLS) /\
    PM.Net.Responses.parse_header_fields (S (length rest)) rest =
      Some ([(K_UPGRADE, V_WEBSOCKET); (K_CONNECTION, V_UPGRADE);
             (K_ACCEPT, b64encode (sha1 (key ++ GUID)));
             (PM.Net.Responses.K_CONTENT_LENGTH, [48])], []).
Proof. exact handshake_wellformed. Qed.
Print Assumptions C16_handshake_wellformed.

(* an upgrade request without Sec-WebSocket-Key: KeyError, which nobody catches *)
Theorem C16_handshake_missing_key : switch_to_websocket None = Err KeyError.
Proof. exact handshake_missing_key. Qed.
Print Assumptions C16_handshake_missing_key.

(* WebsocketClient: upgrade() accepts exactly the token the server computes for its key; run_once hands the
   FIRST frame of a received segment to on_message and drops every byte after it (arbitrary t) *)
Theorem C16_client : forall key accept a t,
  (client_upgrade_check key accept = Ok tt <-> accept = key_to_accept key) /\
  (wf_aframe a -> client_on_read (rfc_encode a ++ t) = Ok (seen a)).
Proof. exact client_facts. Qed.
Print Assumptions C16_client.

(* non-vacuity: a concrete stream (unmasked text, masked binary of 130 bytes = 16-bit length form, empty
   text, masked empty ping) and a masked close frame satisfy the hypotheses; the decode, close and cut
   theorems applied to them give concrete runs *)
Example C16_stream_nonvacuous :
  Forall wf_aframe ex_stream /\ Forall not_close ex_stream /\ length ex_stream = 4%nat /\
  wf_aframe close_frame /\ a_opcode close_frame = CONNECTION_CLOSE /\
  ws_conn [enc_all ex_stream] = (map seen ex_stream, ConnOpen) /\
  ws_conn [enc_all [ex_hello] ++ rfc_encode close_frame ++ enc_all [ex_masked]; enc_all [ex_hello]] =
    ([seen ex_hello], ConnTeardown) /\
  ws_conn [enc_all [ex_hello] ++ cut_encoding ex_masked 7] = ([seen ex_hello; cut_frame ex_masked 7], ConnOpen) /\
  ws_conn [[129; 126; 0]] = ([], ConnEscaped StructError) /\
  switch_to_websocket (Some (bytes_of_string "dGhlIHNhbXBsZSBub25jZQ==")) =
    Ok (build_websocket_handshake_response (bytes_of_string "s3pPLMBiTxaQ9kYGzzhZRbK+xOo=")).
Proof.
  destruct ex_stream_wf as [W C]. destruct close_frame_wf as [Wc Cc].
  split; [exact W|]. split; [exact C|]. split; [reflexivity|]. split; [exact Wc|]. split; [exact Cc|].
  split; [vm_compute; reflexivity|]. split; [vm_compute; reflexivity|].
  split; [vm_compute; reflexivity|]. split; [vm_compute; reflexivity|].
  cbn [switch_to_websocket]. rewrite accept_rfc_example. reflexivity.
Qed.
