(* C03 — placeholder statements, replaced as the proofs land. *)
From PM Require Import Lib.Bytes Lib.PyStr Http.Url Http.Chunk Http.Parser.
Theorem C03_placeholder : forall t, state (new_parser t) = INITIALIZED.
Proof. reflexivity. Qed.
Print Assumptions C03_placeholder.
