(* C03 — incremental HTTP parsing does not depend on how the input is segmented.
   Statements only; the proofs are in Http/ChunkFacts.v and Http/ParserFacts.v.
   Models: Http/Chunk.v (ChunkParser), Http/Parser.v (HttpParser), Http/Url.v. *)
From PM Require Import Lib.Bytes Lib.PyStr Http.Url Http.Chunk Http.Parser Http.ChunkFacts Http.ParserFacts.
From Coq Require Import ZArith.

(* ===================================================================================== *)
(* ChunkParser on its own                                                                 *)

(* Feeding a ++ b in one call equals feeding a, then b: same decoder state (state, decoded body,
   partial chunk, expected size), same remainder, same exception if any.  For every decoder state
   satisfying the invariant of reachable states (chunk_inv: in WAITING_FOR_DATA the expected size is
   known and exceeds what has been received), in particular for a new decoder. *)
Theorem C03_chunk_two_piece : forall c a b, chunk_inv c ->
  chunk_parse c (a ++ b) =
  (do '(ra, c1) <- chunk_parse c a; do '(rb, c2) <- chunk_parse c1 b; Ok (ra ++ rb, c2)).
Proof. exact chunk_two_piece. Qed.
Print Assumptions C03_chunk_two_piece.

(* Any number of pieces, cut anywhere, empty pieces allowed, down to one byte per piece. *)
Theorem C03_chunk_segmentation : forall pieces c, chunk_inv c ->
  chunk_parse_pieces c pieces = chunk_parse c (concat pieces).
Proof. exact chunk_segmentation. Qed.
Print Assumptions C03_chunk_segmentation.

(* The invariant holds initially and is kept by every call. *)
Theorem C03_chunk_inv_reachable :
  chunk_inv new_chunkp /\
  (forall c raw r c', chunk_inv c -> chunk_parse c raw = Ok (r, c') -> chunk_inv c').
Proof. exact (conj chunk_inv_new chunk_parse_inv). Qed.
Print Assumptions C03_chunk_inv_reachable.

(* For every valid chunked stream s (any spelling of the size lines: hex case, leading zeros,
   extensions; any trailer lines) followed by ANY tail: the decoder completes, the decoded body is
   the concatenation of the chunk data and the tail comes back untouched; on every PROPER prefix
   of the stream the decoder is Ok, returns no remainder and is NOT complete. *)
Theorem C03_chunk_complete_exactly_at_end : forall s, stream_ok s ->
  (forall tail, chunk_parse new_chunkp (render_stream s ++ tail) = Ok (tail, complete_state (stream_body s))) /\
  (forall q r, render_stream s = q ++ r -> r <> [] ->
     exists c1, chunk_parse new_chunkp q = Ok ([], c1) /\ cst c1 <> CCOMPLETE).
Proof. exact chunk_complete_exactly_at_end. Qed.
Print Assumptions C03_chunk_complete_exactly_at_end.

(* ===================================================================================== *)
(* HttpParser                                                                              *)

(* [framed p] is false exactly for the class the property excludes (see C03_framed_exact):
   a close-delimited response that received at least one byte after its header block. *)

(* Two pieces: if the whole feed ends in a framed state p2, then feeding a and then b succeeds
   and yields the SAME parser record p2 (every attribute: state, start-line fields, headers,
   body, chunk decoder, buffer = unconsumed remainder, total_size, flags). *)
Theorem C03_two_piece : forall p a b p2, parser_inv p ->
  parse p (a ++ b) = Ok p2 -> framed p2 = true ->
  exists p1, parse p a = Ok p1 /\ parse p1 b = Ok p2.
Proof. exact two_piece. Qed.
Print Assumptions C03_two_piece.

(* The same as one equation that also covers exceptions: whatever the whole feed returns (a framed
   parser or an exception), the two-piece feed returns the same (the exception is raised by the
   piece in which the offending line/size/header is completed).  Any allowed_url_schemes. *)
Theorem C03_two_piece_full : forall al p a b R, parser_inv p ->
  parse_with al p (a ++ b) = R -> framedP R ->
  (do p1 <- parse_with al p a; parse_with al p1 b) = R.
Proof. exact two_piece_gen. Qed.
Print Assumptions C03_two_piece_full.

(* Converse: when both pieces succeed, the whole feed succeeds with the same record, unless the
   whole feed itself ends in the excluded class. *)
Theorem C03_two_piece_converse : forall al p a b p1 p2, parser_inv p ->
  parse_with al p a = Ok p1 -> parse_with al p1 b = Ok p2 ->
  framedP (parse_with al p (a ++ b)) -> parse_with al p (a ++ b) = Ok p2.
Proof. exact two_piece_converse. Qed.
Print Assumptions C03_two_piece_converse.

(* n pieces from a new parser (request or response), cut anywhere, empty pieces allowed. *)
Theorem C03_segmentation : forall t segs p,
  parse (new_parser t) (concat segs) = Ok p -> framed p = true ->
  parse_pieces (new_parser t) segs = Ok p.
Proof. exact segmentation. Qed.
Print Assumptions C03_segmentation.

Theorem C03_segmentation_full : forall al pieces p R, parser_inv p ->
  parse_with al p (concat pieces) = R -> framedP R -> parse_pieces_with al p pieces = R.
Proof. exact segmentation_gen. Qed.
Print Assumptions C03_segmentation_full.

(* The invariants (value ranges, content-length bookkeeping, chunk decoder invariant, no empty
   buffer; close-delimited characterisation; nothing carried in [buffer] during the body) hold for a
   new parser and are kept by every parse call. *)
Theorem C03_parser_inv_reachable :
  (forall t, reachable_inv (new_parser t)) /\
  (forall al p raw p', reachable_inv p -> parse_with al p raw = Ok p' -> reachable_inv p').
Proof. exact (conj reachable_inv_new parse_with_reachable_inv). Qed.
Print Assumptions C03_parser_inv_reachable.

(* What [framed] excludes, on reachable states: the parser is in RCVING_BODY for a RESPONSE whose
   header block contained no content-length header and no chunked transfer-encoding — i.e. a
   close-delimited message that was followed by at least one byte.  Nothing else is excluded. *)
Theorem C03_framed_exact : forall p, reachable_inv p ->
  (framed p = false <->
   state p = RCVING_BODY /\ is_request (ty p) = false /\ has_header p CONTENT_LENGTH = false /\
   content_expected p = false /\ is_chunked_encoded p = false).
Proof. exact unframed_iff_close_delimited. Qed.
Print Assumptions C03_framed_exact.

(* For every message m of the abstract grammar (ParserFacts.message: request line whose target
   Url.from_bytes accepts, or status line with or without reason; any headers "name: value";
   framing = Content-Length n with an n-byte body (n = 0 included) | chunked stream as above |
   none) and every tail (tail = [] for a response without framing): the parser is COMPLETE with
   exactly the fields of m ([expected]: method/url/version/host/port/path or version/code/reason,
   header dictionary in order with lower-cased keys, decoded body, total_size) and
   buffer = tail; on every PROPER prefix of the message it is Ok and NOT complete. *)
Theorem C03_complete_exactly_at_end : forall al m, message_ok al m ->
  (forall tail, tail_ok m tail ->
     parse_with al (new_parser (msg_type m)) (render m ++ tail) = Ok (expected m tail)) /\
  (forall q r, render m = q ++ r -> r <> [] ->
     exists p1, parse_with al (new_parser (msg_type m)) q = Ok p1 /\ state p1 <> COMPLETE).
Proof. exact complete_exactly_at_end. Qed.
Print Assumptions C03_complete_exactly_at_end.

(* the fields of [expected] spelled out *)
Theorem C03_expected_fields : forall m tail,
  let p := expected m tail in
  state p = COMPLETE /\ buffer p = optb tail /\ total_size p = len (render m ++ tail) /\
  headers p = add_all None (all_hdrs m) /\
  body p = match m_framing m with
           | FNone => None | FLength _ _ bd => optb bd | FChunked _ _ s => Some (stream_body s) end /\
  match m_start m with
  | ReqLine mt tg v u =>
      let tn := bytes_eqb mt CONNECT in
      method p = Some mt /\ purl p = Some u /\ version p = Some v /\ is_https_tunnel p = tn /\
      (host p, port p, path p) = line_attributes tn u /\ code p = None /\ reason p = None
  | StatusLine v c rs =>
      version p = Some v /\ code p = Some c /\ reason p = rs /\ method p = None /\
      host p = None /\ port p = None /\ path p = None
  end.
Proof. exact expected_fields. Qed.
Print Assumptions C03_expected_fields.

(* The header dictionary of [expected] in closed form: insertion order kept, keys lower-cased, a
   repeated name replaces the earlier entry in place (Python dict semantics). *)
Theorem C03_header_dict : forall hs,
  add_all None hs = match hs with [] => None | _ => Some (fold_left hd_add hs []) end.
Proof. exact add_all_spec. Qed.
Print Assumptions C03_header_dict.

(* Every message of the grammar ends in a framed state, so the segmentation theorems apply to it. *)
Theorem C03_framed_render : forall m tail, framed (expected m tail) = true.
Proof. exact framed_expected. Qed.
Print Assumptions C03_framed_render.

(* No result of either parser is an artefact of the fuel of the Gallina loops. *)
Theorem C03_never_out_of_fuel :
  (forall c raw, chunk_inv c -> chunk_parse c raw <> Err OutOfFuel) /\
  (forall al p raw, parser_inv p -> parse_with al p raw <> Err OutOfFuel).
Proof. exact (conj chunk_parse_never_out_of_fuel parse_with_never_out_of_fuel). Qed.
Print Assumptions C03_never_out_of_fuel.

(* Reused by other properties: a COMPLETE parser only accumulates (pipelined bytes stay in buffer);
   total_size counts every byte fed. *)
Theorem C03_complete_absorbs : forall al p raw, parser_inv p -> state p = COMPLETE ->
  parse_with al p raw = Ok (set_buffer_size p (optb (bufb p ++ raw)) (total_size p + len raw)).
Proof. exact parse_with_complete_absorbs. Qed.
Print Assumptions C03_complete_absorbs.

Theorem C03_total_size : forall al p raw p', parser_inv p -> parse_with al p raw = Ok p' ->
  total_size p' = total_size p + len raw.
Proof. exact parse_with_total_size. Qed.
Print Assumptions C03_total_size.

(* ===================================================================================== *)
(* non-vacuity: a chunked POST in absolute form (3 chunks, upper-case hex, leading zeros, two
   chunk extensions, one trailer, a duplicated header in different case) satisfies message_ok;
   followed by a 17-byte tail and cut into single bytes it is parsed (by evaluation) to a framed,
   COMPLETE parser with the decoded body and the tail as remainder, equal to the whole feed. *)
Example C03_nonvacuous :
  message_ok DEFAULT_ALLOWED_URL_SCHEMES example_msg /\ length example_tail = 17%nat /\
  let raw := render example_msg ++ example_tail in
  match parse_pieces (new_parser REQUEST_PARSER) (map (fun x => [x]) raw),
        parse (new_parser REQUEST_PARSER) raw with
  | Ok p, Ok w =>
      framed p && (state p =? COMPLETE) && option_eqb bytes_eqb (buffer p) (Some example_tail) &&
      option_eqb bytes_eqb (body p) (Some (bs "hello0123456789 chunked!!!")) && parser_obs_eqb p w
  | _, _ => false
  end = true.
Proof.
  split; [exact example_msg_ok|]. split; [reflexivity|]. vm_compute. reflexivity.
Qed.
Print Assumptions C03_nonvacuous.
