(* C11 — TLS interception issues a valid per-host certificate and never trusts a bad upstream.
   Statements only; proofs are in Tls/InterceptFacts.v (general theorems) and Tls/InterceptSweep.v
   (the finite outcome table).

   PARTIAL: X.509 path validation and the TLS handshakes are openssl's.  They enter as oracles
   (universally quantified functions): [handshake] is handed the exact ssl-context settings the code
   passes and answers with the peer certificate's subject or an exception; [openssl_run] answers each
   `openssl` command line; [connect], [client_flush], [client_handshake] answer the socket operations;
   [pipeline_step]/[response_step] stand for the HTTP parsers at work inside an intercepted session
   (C02 / C03).  What is proved is the proxy's own logic, for ALL such oracles, hosts, flag settings,
   plugin answers, cache contents and event sequences.  The only assumption about openssl is
   [openssl_spec] (a bad chain fails a CERT_REQUIRED handshake, a wrong name fails it when check_hostname
   is on), and it is a premise only where a statement speaks about certificates rather than handshakes.

   The full property reads: "a client that CONNECTs is presented a certificate naming that host and
   chaining to the configured CA; what it sends inside TLS reaches the origin over a separately verified
   TLS session with the meaning of C02 and the response returns intact; if the origin's certificate fails
   verification nothing is relayed in either direction unless the operator disabled verification;
   opted-out connections are tunnelled byte for byte".  Missing for the full statement: that the leaf
   openssl emits really chains to the CA and is accepted by a client (openssl; observed in the live run),
   and the semantics of the forwarded requests (C02). *)
From PM Require Import Lib.Bytes Lib.PyStr Tls.Intercept Tls.InterceptFacts Tls.InterceptCases Tls.InterceptSweep.

(* ---------------------------------------------------------------- never trust a bad upstream *)
(* If the origin's certificate does not verify against the configured trust store, or does not name the
   CONNECT host, and --insecure-tls-interception is off, then for every continuation of the connection:
   nothing is ever queued for or sent to the origin; the client only ever gets the proxy's own
   "200 Connection established" in plaintext; no certificate is generated or presented (the trace is
   exactly connect, queue-200, upstream-wrap); the client is no longer read, and the connection is
   closed as soon as that reply has been flushed. *)
Theorem C11_no_relay_on_bad_upstream :
  forall (is_ip_literal : bytes -> bool) (connect : bytes -> N -> option pyexn)
         (handshake : wrap_call -> hs_result) (openssl_run : openssl_cmd -> run_result)
         (client_flush : bytes -> flush_result) (client_handshake : bytes -> bytes -> option pyexn)
         (PS RS : Type) (pipeline_step : PS -> bytes -> (PS * list bytes) + pipe_failure)
         (response_step : RS -> bytes -> option RS)
         (chain_ok : option bytes -> bool) (name_ok : bytes -> bool)
         (fl : flags) (host h : bytes) (port : N) (answers : list bool) (fs0 : list bytes)
         (p0 : PS) (r0 : RS) (evs : list event),
    openssl_spec handshake chain_ok name_ok ->
    insecure_tls_interception fl = false ->
    tls_intercept_enabled_ fl answers = true ->
    text_ host = Ok h -> host <> [] -> port <> 0 -> connect h port = None ->
    (chain_ok (ca_file fl) = false \/ name_ok (strip_brackets h) = false) ->
    let hf := run is_ip_literal connect handshake openssl_run client_flush client_handshake
                  PS RS pipeline_step response_step fl host port answers fs0 p0 r0 evs in
    up_buf (ps hf) = [] /\ up_wire (ps hf) = [] /\
    concat (map snd (cl_wire (ps hf))) ++ concat (cl_buf (ps hf)) = K200 /\ plain_wire (cl_wire (ps hf)) /\
    cl (ps hf) = ClPlain /\ up (ps hf) = UpDead /\
    tr (ps hf) = [EConnect h port; EClientQueue K200; EUpstreamWrap (policy_call fl h)] /\
    mode hf <> Running /\
    (existsb is_FlushClient evs = true -> mode hf = Closed).
Proof. exact no_relay_on_bad_upstream. Qed.
Print Assumptions C11_no_relay_on_bad_upstream.

(* the same for ANY exception out of the upstream handshake (alerts, resets, timeouts ...), whatever the
   insecure switch says *)
Theorem C11_no_relay_when_handshake_raises :
  forall (is_ip_literal : bytes -> bool) (connect : bytes -> N -> option pyexn)
         (handshake : wrap_call -> hs_result) (openssl_run : openssl_cmd -> run_result)
         (client_flush : bytes -> flush_result) (client_handshake : bytes -> bytes -> option pyexn)
         (PS RS : Type) (pipeline_step : PS -> bytes -> (PS * list bytes) + pipe_failure)
         (response_step : RS -> bytes -> option RS)
         (fl : flags) (host h : bytes) (port : N) (answers : list bool) (fs0 : list bytes)
         (p0 : PS) (r0 : RS) (evs : list event) (e : pyexn),
    text_ host = Ok h -> host <> [] -> port <> 0 -> connect h port = None ->
    tls_intercept_enabled_ fl answers = true ->
    handshake (policy_call fl h) = HsRaise e -> is_HttpProtocolException e = false ->
    let hf := run is_ip_literal connect handshake openssl_run client_flush client_handshake
                  PS RS pipeline_step response_step fl host port answers fs0 p0 r0 evs in
    up_buf (ps hf) = [] /\ up_wire (ps hf) = [] /\
    concat (map snd (cl_wire (ps hf))) ++ concat (cl_buf (ps hf)) = K200 /\ plain_wire (cl_wire (ps hf)) /\
    cl (ps hf) = ClPlain /\ up (ps hf) = UpDead /\
    tr (ps hf) = [EConnect h port; EClientQueue K200; EUpstreamWrap (policy_call fl h)] /\
    mode hf <> Running /\
    (existsb is_FlushClient evs = true -> mode hf = Closed).
Proof. exact no_relay_when_handshake_raises. Qed.
Print Assumptions C11_no_relay_when_handshake_raises.

(* Conversely: on NO path is a byte ever sent inside a TLS session of the proxy, to either side, and
   neither connection is ever TLS-wrapped, unless the upstream handshake succeeded under the policy
   settings; with verification on and openssl as specified that means the origin's chain verified against
   the configured trust store and its certificate names the CONNECT host. *)
Theorem C11_tls_only_after_verified_handshake :
  forall (is_ip_literal : bytes -> bool) (connect : bytes -> N -> option pyexn)
         (handshake : wrap_call -> hs_result) (openssl_run : openssl_cmd -> run_result)
         (client_flush : bytes -> flush_result) (client_handshake : bytes -> bytes -> option pyexn)
         (PS RS : Type) (pipeline_step : PS -> bytes -> (PS * list bytes) + pipe_failure)
         (response_step : RS -> bytes -> option RS)
         (fl : flags) (host : bytes) (port : N) (answers : list bool) (fs0 : list bytes)
         (p0 : PS) (r0 : RS) (evs : list event),
    let hf := run is_ip_literal connect handshake openssl_run client_flush client_handshake
                  PS RS pipeline_step response_step fl host port answers fs0 p0 r0 evs in
    (cl (ps hf) = ClTls \/ up (ps hf) = UpTls \/
     (exists d, In (true, d) (cl_wire (ps hf))) \/ (exists d, In (true, d) (up_wire (ps hf)))) ->
    exists h p, text_ host = Ok h /\ handshake (policy_call fl h) = HsOk p.
Proof. exact tls_only_after_verified_handshake. Qed.
Print Assumptions C11_tls_only_after_verified_handshake.

Theorem C11_tls_only_for_good_origin :
  forall (is_ip_literal : bytes -> bool) (connect : bytes -> N -> option pyexn)
         (handshake : wrap_call -> hs_result) (openssl_run : openssl_cmd -> run_result)
         (client_flush : bytes -> flush_result) (client_handshake : bytes -> bytes -> option pyexn)
         (PS RS : Type) (pipeline_step : PS -> bytes -> (PS * list bytes) + pipe_failure)
         (response_step : RS -> bytes -> option RS)
         (chain_ok : option bytes -> bool) (name_ok : bytes -> bool)
         (fl : flags) (host : bytes) (port : N) (answers : list bool) (fs0 : list bytes)
         (p0 : PS) (r0 : RS) (evs : list event),
    openssl_spec handshake chain_ok name_ok ->
    insecure_tls_interception fl = false ->
    let hf := run is_ip_literal connect handshake openssl_run client_flush client_handshake
                  PS RS pipeline_step response_step fl host port answers fs0 p0 r0 evs in
    (cl (ps hf) = ClTls \/ up (ps hf) = UpTls \/
     (exists d, In (true, d) (cl_wire (ps hf))) \/ (exists d, In (true, d) (up_wire (ps hf)))) ->
    exists h, text_ host = Ok h /\ chain_ok (ca_file fl) = true /\ name_ok (strip_brackets h) = true.
Proof. exact tls_only_for_good_origin. Qed.
Print Assumptions C11_tls_only_for_good_origin.

(* ---------------------------------------------------------------- the verification policy *)
(* Whatever happens, at most one upstream handshake is attempted per CONNECT, and its context is:
   verify_mode = CERT_NONE iff the insecure switch is on, otherwise CERT_REQUIRED with check_hostname;
   server_hostname = the CONNECT host (brackets of an IPv6 literal removed); cafile = --ca-file and NOTHING
   else: no further trust source is loaded into the context (load_default_certs, load_verify_locations,
   set_default_verify_paths ...: wc_extra_trust = []) and verify_flags / protocol versions / options are
   what create_default_context left (wc_settings_default = true). *)
Theorem C11_verify_policy :
  forall (is_ip_literal : bytes -> bool) (connect : bytes -> N -> option pyexn)
         (handshake : wrap_call -> hs_result) (openssl_run : openssl_cmd -> run_result)
         (client_flush : bytes -> flush_result) (client_handshake : bytes -> bytes -> option pyexn)
         (PS RS : Type) (pipeline_step : PS -> bytes -> (PS * list bytes) + pipe_failure)
         (response_step : RS -> bytes -> option RS)
         (fl : flags) (host : bytes) (port : N) (answers : list bool) (fs0 : list bytes)
         (p0 : PS) (r0 : RS) (evs : list event),
    let hf := run is_ip_literal connect handshake openssl_run client_flush client_handshake
                  PS RS pipeline_step response_step fl host port answers fs0 p0 r0 evs in
    (forall c, In (EUpstreamWrap c) (tr (ps hf)) -> exists h, text_ host = Ok h /\ c = policy_call fl h) /\
    (count_up_wraps (tr (ps hf)) <= 1)%nat.
Proof. exact verify_policy. Qed.
Print Assumptions C11_verify_policy.

Theorem C11_policy_call_fields : forall fl h,
  let c := policy_call fl h in
  (wc_verify_mode c = CERT_NONE <-> insecure_tls_interception fl = true) /\
  (insecure_tls_interception fl = false -> wc_verify_mode c = CERT_REQUIRED /\ wc_check_hostname c = true) /\
  wc_server_hostname c = Some (strip_brackets h) /\
  wc_cafile c = ca_file fl /\ wc_extra_trust c = [] /\ wc_settings_default c = true.
Proof. exact policy_call_fields. Qed.
Print Assumptions C11_policy_call_fields.

(* when is interception attempted at all: all four CA flags present and no plugin answered False *)
Theorem C11_intercept_gate : forall fl answers,
  tls_intercept_enabled_ fl answers = tls_interception_enabled fl && forallb (fun a => a) answers.
Proof. exact tls_intercept_enabled_spec. Qed.
Print Assumptions C11_intercept_gate.

(* ---------------------------------------------------------------- opt-out is an opaque tunnel *)
(* If interception is off or a plugin's do_intercept returns False - at the CONNECT and at every later
   call - there is no wrap call and no openssl command at all (the trace is connect, queue-200), both
   sockets stay plain, and byte for byte, in order: what the client sends is what is sent/queued to the
   origin, and what the origin sends is what the client gets after the 200 reply.  [benign]: the event list
   may contain, at any position, short writes and every "would block, try again" answer of a non-blocking
   socket (BlockingIOError / SSLWantWriteError on a send, SSLWantReadError on a recv; both directions): the tunnel keeps running. *)
Theorem C11_optout_is_tunnel :
  forall (is_ip_literal : bytes -> bool) (connect : bytes -> N -> option pyexn)
         (handshake : wrap_call -> hs_result) (openssl_run : openssl_cmd -> run_result)
         (client_flush : bytes -> flush_result) (client_handshake : bytes -> bytes -> option pyexn)
         (PS RS : Type) (pipeline_step : PS -> bytes -> (PS * list bytes) + pipe_failure)
         (response_step : RS -> bytes -> option RS)
         (fl : flags) (host h : bytes) (port : N) (answers : list bool) (fs0 : list bytes)
         (p0 : PS) (r0 : RS) (evs : list event),
    text_ host = Ok h -> host <> [] -> port <> 0 -> connect h port = None ->
    tls_intercept_enabled_ fl answers = false ->
    Forall (declined fl) evs -> Forall benign evs ->
    let hf := run is_ip_literal connect handshake openssl_run client_flush client_handshake
                  PS RS pipeline_step response_step fl host port answers fs0 p0 r0 evs in
    tr (ps hf) = [EConnect h port; EClientQueue K200] /\ fs (ps hf) = fs0 /\
    mode hf = Running /\ cl (ps hf) = ClPlain /\ up (ps hf) = UpPlain /\
    plain_wire (cl_wire (ps hf)) /\ plain_wire (up_wire (ps hf)) /\
    concat (map snd (up_wire (ps hf))) ++ concat (up_buf (ps hf)) = concat (client_chunks evs) /\
    concat (map snd (cl_wire (ps hf))) ++ concat (cl_buf (ps hf)) = K200 ++ concat (upstream_chunks evs).
Proof. exact optout_is_tunnel. Qed.
Print Assumptions C11_optout_is_tunnel.

(* ---------------------------------------------------------------- the certificate names the host *)
(* Every openssl command issued and every client-side handshake performed is about the CONNECT host:
   the self-signed template and the CA-signed leaf carry subjectAltName = IP:<addr> when the host is an
   IP literal (brackets removed) and DNS:<host> otherwise; the cache files are <ca_cert_dir>/<host>.pub/
   .csr/.pem; the leaf is signed with --ca-cert-file/--ca-key-file; the client handshake uses
   --ca-signing-key-file and <ca_cert_dir>/<host>.pem.  (The subject DN is copied from the origin's
   certificate: [exists peer_subject, subj = build_subject peer_subject].) *)
Theorem C11_cert_names_host :
  forall (is_ip_literal : bytes -> bool) (connect : bytes -> N -> option pyexn)
         (handshake : wrap_call -> hs_result) (openssl_run : openssl_cmd -> run_result)
         (client_flush : bytes -> flush_result) (client_handshake : bytes -> bytes -> option pyexn)
         (PS RS : Type) (pipeline_step : PS -> bytes -> (PS * list bytes) + pipe_failure)
         (response_step : RS -> bytes -> option RS)
         (fl : flags) (host : bytes) (port : N) (answers : list bool) (fs0 : list bytes)
         (p0 : PS) (r0 : RS) (evs : list event),
    let hf := run is_ip_literal connect handshake openssl_run client_flush client_handshake
                  PS RS pipeline_step response_step fl host port answers fs0 p0 r0 evs in
    forall e, In e (tr (ps hf)) ->
      match e with
      | EOpenssl c => exists h, text_ host = Ok h /\ good_cmd is_ip_literal fl h c
      | EClientWrap k cert =>
          exists h dir, text_ host = Ok h /\ ca_signing_key_file fl = Some k /\
                        ca_cert_dir fl = Some dir /\ cert = generated_cert_file_path dir h
      | _ => True
      end.
Proof. exact cert_names_host. Qed.
Print Assumptions C11_cert_names_host.

Theorem C11_san_entry : forall (is_ip_literal : bytes -> bool) h,
  get_alt_name is_ip_literal h =
  if is_ip_literal (strip_brackets h) then bs "IP:" ++ strip_brackets h else bs "DNS:" ++ h.
Proof. exact get_alt_name_spec. Qed.
Print Assumptions C11_san_entry.

(* warm cache: if <ca_cert_dir>/<host>.pem exists no openssl command is run; and whenever the client side
   ends up wrapped, the certificate presented is that file, it exists, and it was either there before or
   written by a successful openssl command of this very connection (cold cache) *)
Theorem C11_cert_cache :
  forall (is_ip_literal : bytes -> bool) (connect : bytes -> N -> option pyexn)
         (handshake : wrap_call -> hs_result) (openssl_run : openssl_cmd -> run_result)
         (client_flush : bytes -> flush_result) (client_handshake : bytes -> bytes -> option pyexn)
         (PS RS : Type) (pipeline_step : PS -> bytes -> (PS * list bytes) + pipe_failure)
         (response_step : RS -> bytes -> option RS)
         (fl : flags) (host : bytes) (port : N) (answers : list bool) (fs0 : list bytes)
         (p0 : PS) (r0 : RS) (evs : list event),
    let hf := run is_ip_literal connect handshake openssl_run client_flush client_handshake
                  PS RS pipeline_step response_step fl host port answers fs0 p0 r0 evs in
    (forall h dir, text_ host = Ok h -> ca_cert_dir fl = Some dir ->
                   mem_path (generated_cert_file_path dir h) fs0 = true ->
                   Forall (fun e => is_openssl e = false) (tr (ps hf))) /\
    (cl (ps hf) = ClTls ->
     exists h dir k, text_ host = Ok h /\ ca_cert_dir fl = Some dir /\
       let cert := generated_cert_file_path dir h in
       In (EClientWrap k cert) (tr (ps hf)) /\ client_handshake k cert = None /\
       mem_path cert (fs (ps hf)) = true /\
       (mem_path cert fs0 = true \/
        exists c, In (EOpenssl c) (tr (ps hf)) /\ bytes_eqb cert (cmd_out c) = true /\ openssl_run c = RTrue)).
Proof. exact cert_cache. Qed.
Print Assumptions C11_cert_cache.

(* ---------------------------------------------------------------- the intercepted exchange (partial) *)
(* Full statement would add: [outs] has the meaning of the client's requests (C02).  Proved: once the
   client side is wrapped, what on_client_data's request pipeline produces from the decrypted chunks is
   exactly what is queued for the origin and it leaves only inside the upstream TLS session; every origin
   chunk is queued for the client unmodified, in order, and leaves only inside the client TLS session; the
   only plaintext the client ever received is (a prefix of) the CONNECT reply - the client's byte stream
   is K200 followed by the origin's bytes.  As above the event list may contain short writes and would-block
   answers (SSLWantWriteError on either TLS send, SSLWantReadError on either recv) at any position:
   the exchange stays established and not a byte is lost, duplicated or reordered.
   The bookkeeping response parser ([response_step]) is arbitrary: it may raise on any origin chunk (the
   former premise [responses_ok] is gone - since fix ba95ac6 the code relays the chunk regardless). *)
Theorem C11_intercepted_exchange_partial :
  forall (is_ip_literal : bytes -> bool) (connect : bytes -> N -> option pyexn)
         (handshake : wrap_call -> hs_result) (openssl_run : openssl_cmd -> run_result)
         (client_flush : bytes -> flush_result) (client_handshake : bytes -> bytes -> option pyexn)
         (PS RS : Type) (pipeline_step : PS -> bytes -> (PS * list bytes) + pipe_failure)
         (response_step : RS -> bytes -> option RS)
         (fl : flags) (host : bytes) (port : N) (answers : list bool) (fs0 : list bytes)
         (p0 : PS) (r0 : RS) (evs : list event) (outs : list bytes),
    let h1 := handle_connect is_ip_literal connect handshake openssl_run client_flush client_handshake
                             PS RS fl host port answers (init_h fs0 p0 r0) in
    let hf := run is_ip_literal connect handshake openssl_run client_flush client_handshake
                  PS RS pipeline_step response_step fl host port answers fs0 p0 r0 evs in
    cl (ps h1) = ClTls ->
    Forall (engaged_at fl) evs -> Forall benign evs ->
    pipeline_outs pipeline_step p0 (client_chunks evs) = Some outs ->
    established hf /\
    exists w0 wc,
      cl_wire (ps hf) = w0 ++ wc /\ plain_wire w0 /\ tls_wire wc /\
      tls_wire (up_wire (ps hf)) /\
      concat (map snd (up_wire (ps hf))) ++ concat (up_buf (ps hf)) = concat outs /\
      concat (map snd w0) ++ concat (map snd wc) ++ concat (cl_buf (ps hf)) = K200 ++ concat (upstream_chunks evs).
Proof. exact intercepted_exchange. Qed.
Print Assumptions C11_intercepted_exchange_partial.

(* ---------------------------------------------------------------- failure branches of the relay callbacks *)
(* read_from_descriptors: whatever the bookkeeping response parser does with an origin chunk - digest it or
   raise (e.g. a malformed status line or header block inside the TLS session) - the chunk is queued for the
   client unmodified behind what is already queued; mode, escaped exception, wires, upstream buffer and the
   request pipeline are untouched.  For EVERY response_step, while the handler still reads the upstream. *)
Theorem C11_response_chunk_relayed_whatever_the_parser :
  forall (PS RS : Type) (pipeline_step : PS -> bytes -> (PS * list bytes) + pipe_failure)
         (response_step : RS -> bytes -> option RS)
         (fl : flags) (h : hstate PS RS) (a : list bool) (raw : bytes),
    mode h = Running \/ mode h = MustFlush -> up_fd_valid (up (ps h)) = true ->
    let h' := step PS RS pipeline_step response_step fl h (UpstreamData a raw) in
    cl_buf (ps h') = cl_buf (ps h) ++ [raw] /\ mode h' = mode h /\ escaped h' = escaped h /\
    cl_wire (ps h') = cl_wire (ps h) /\ up_buf (ps h') = up_buf (ps h) /\ up_wire (ps h') = up_wire (ps h) /\
    pipe h' = pipe h.
Proof. exact response_chunk_relayed_whatever_the_parser. Qed.
Print Assumptions C11_response_chunk_relayed_whatever_the_parser.

(* on_client_data: the parser of decrypted follow-up requests raises HttpProtocolException (garbage inside
   the TLS session), possibly after queueing [outs] for the origin.  Nothing escapes handle_events and nothing
   pending for the client is lost: with output pending the handler stops reading the client (further client
   data is ignored), and the next complete flush delivers every pending chunk - inside the client's TLS
   session when there is one - and only then closes; with nothing pending it closes at once. *)
Theorem C11_protocol_exception_delivers_pending :
  forall (PS RS : Type) (pipeline_step : PS -> bytes -> (PS * list bytes) + pipe_failure)
         (response_step : RS -> bytes -> option RS)
         (fl : flags) (h : hstate PS RS) (a : list bool) (raw : bytes) (outs : list bytes),
    mode h = Running -> up (ps h) <> UpNone -> tls_intercept_enabled_ fl a = true ->
    pipeline_step (pipe h) raw = inr (PipeProtocol outs) ->
    let h1 := step PS RS pipeline_step response_step fl h (ClientData a raw) in
    escaped h1 = escaped h /\ cl_buf (ps h1) = cl_buf (ps h) /\ cl_wire (ps h1) = cl_wire (ps h) /\
    up_buf (ps h1) = up_buf (ps h) ++ outs /\ up_wire (ps h1) = up_wire (ps h) /\
    (cl_buf (ps h) = [] -> mode h1 = Closed) /\
    (cl_buf (ps h) <> [] ->
       mode h1 = MustFlush /\
       step PS RS pipeline_step response_step fl h1 (ClientData a raw) = h1 /\
       (cl (ps h) <> ClDead ->
        let h2 := step PS RS pipeline_step response_step fl h1 FlushClient in
        mode h2 = Closed /\ escaped h2 = escaped h /\ cl_buf (ps h2) = [] /\
        cl_wire (ps h2) = cl_wire (ps h) ++ map (fun d => (is_tls_cl (cl (ps h)), d)) (cl_buf (ps h)))).
Proof. exact protocol_exception_delivers_pending. Qed.
Print Assumptions C11_protocol_exception_delivers_pending.

(* non-vacuity of the two: an established interception in which the origin's chunk makes the response parser
   raise and is still queued, then the client sends garbage: must-flush with the chunk pending, no exception
   escaped; the flush delivers it inside TLS and closes *)
Example C11_nonvacuous_failure_branches :
  let sc := mkScript [] None (ChainTrustedBy (bs "/x/trust.pem")) [bs "example.com"] None
                     (Some [(bs "commonName", bs "up.example")]) RTrue RTrue RTrue (FlushSent 39) None
                     [(bs "request-1", [bs "request-1"])] [bs "GARBAGE"] [bs "bad-response"] in
  let evs := [ClientData [true] (bs "request-1"); FlushUpstream; UpstreamData [true] (bs "bad-response");
              ClientData [true] (bs "GARBAGE")] in
  let h1 := sim_run sc ex_flags (bs "example.com") 443 [true] [] evs in
  let h2 := sim_run sc ex_flags (bs "example.com") 443 [true] [] (evs ++ [FlushClient]) in
  mode h1 = MustFlush /\ escaped h1 = None /\ cl_buf (ps h1) = [bs "bad-response"] /\ cl (ps h1) = ClTls /\
  mode h2 = Closed /\ escaped h2 = None /\ channel true (cl_wire (ps h2)) = bs "bad-response" /\
  channel true (up_wire (ps h2)) = bs "request-1".
Proof. vm_compute. repeat split; reflexivity. Qed.

(* ---------------------------------------------------------------- the finite outcome table *)
(* every combination of the enumerated oracle outcomes x flag settings x plugin answers x cache states,
   for a name, an IPv4 literal and a bracketed IPv6 literal, evaluated by the kernel: the boolean
   renderings of the statements above hold on each of them (see Tls/InterceptSweep.v) *)
Theorem C11_outcome_table_sweep :
  forallb (fun host => forallb (sweep_check host) (sweep_table host)) sweep_hosts = true.
Proof. exact sweep_ok. Qed.
Print Assumptions C11_outcome_table_sweep.

(* ---------------------------------------------------------------- non-vacuity *)
(* the scripted openssl of the correspondence check satisfies openssl_spec, the premises of the theorems
   are met by concrete scripts, and the interesting states are reached *)
Theorem C11_sim_handshake_meets_spec : forall sc,
  sc_transport sc = None ->
  openssl_spec (sim_handshake sc)
               (fun ca => match sc_chain sc with ChainTrustedBy t => obytes_eqb ca (Some t) | _ => false end)
               (fun hn => mem_bytes hn (sc_names sc)).
Proof. exact sim_handshake_meets_spec. Qed.
Print Assumptions C11_sim_handshake_meets_spec.

Example C11_nonvacuous_bad_upstream :
  let sc := ex_script ChainUntrusted [bs "example.com"] in
  let hf := sim_run sc ex_flags (bs "example.com") 443 [true] [] ex_events in
  tls_intercept_enabled_ ex_flags [true] = true /\ insecure_tls_interception ex_flags = false /\
  mode hf = Closed /\ up_wire (ps hf) = [] /\ cl_wire (ps hf) = [(false, K200)] /\ cl_buf (ps hf) = [].
Proof. vm_compute. repeat split. Qed.

Example C11_nonvacuous_wrong_name :
  let sc := ex_script (ChainTrustedBy (bs "/x/trust.pem")) [bs "other.example"] in
  let hf := sim_run sc ex_flags (bs "[::1]") 443 [] [] ex_events in
  mode hf = Closed /\ up_wire (ps hf) = [] /\ cl_wire (ps hf) = [(false, K200)].
Proof. vm_compute. repeat split. Qed.

Example C11_nonvacuous_established :
  let sc := ex_script (ChainTrustedBy (bs "/x/trust.pem")) [bs "::1"] in
  let hf := sim_run sc ex_flags (bs "[::1]") 443 [true] [] ex_events in
  established hf /\
  In (EOpenssl (CmdSign (bs "/x/ca.pem") (bs "/x/ca.key") (bs "/certs/[::1].csr") (bs "/certs/[::1].pem") 730
                        (LF :: bs "subjectAltName=IP:::1"))) (tr (ps hf)) /\
  channel false (cl_wire (ps hf)) = K200 /\
  channel true (cl_wire (ps hf)) = bs "response-1" ++ bs "response-2" /\
  channel true (up_wire (ps hf)) = bs "request-1" ++ bs "request-2" /\ channel false (up_wire (ps hf)) = [].
Proof. vm_compute. repeat split. right; right; right; right; right; left; reflexivity. Qed.

Example C11_nonvacuous_would_block :
  let sc := ex_script (ChainTrustedBy (bs "/x/trust.pem")) [bs "example.com"] in
  let evs := [ClientRecvRaise SSLWantReadError; ClientData [true] (bs "request-1");
              UpstreamWrite (SendOk 4); UpstreamWrite (SendRaise SSLWantWriteError); UpstreamWrite (SendOk 2);
              UpstreamWrite (SendRaise BlockingIOError_); FlushUpstream;
              UpstreamRecvRaise SSLWantReadError; UpstreamData [true] (bs "response-1");
              ClientWrite (SendRaise SSLWantWriteError); ClientWrite (SendOk 3); FlushClient] in
  let hf := sim_run sc ex_flags (bs "example.com") 443 [true] [] evs in
  Forall benign evs /\ established hf /\
  channel true (up_wire (ps hf)) = bs "request-1" /\ channel true (cl_wire (ps hf)) = bs "response-1" /\
  up_buf (ps hf) = [] /\ cl_buf (ps hf) = [] /\
  map (fun x => length (snd x)) (up_wire (ps hf)) = [4; 2; 3]%nat.
Proof.
  vm_compute. split; [|repeat split].
  repeat (constructor; [first [exact I | reflexivity | (right; reflexivity) | (left; reflexivity)]|]). constructor.
Qed.

Example C11_nonvacuous_tunnel :
  let sc := ex_script ChainUntrusted [] in
  let hf := sim_run sc ex_flags (bs "example.com") 443 [true; false] [] ex_events_optout in
  tls_intercept_enabled_ ex_flags [true; false] = false /\ Forall (declined ex_flags) ex_events_optout /\
  channel false (up_wire (ps hf)) = bs "request-1" ++ bs "request-2" /\
  channel false (cl_wire (ps hf)) = K200 ++ bs "response-1" ++ bs "response-2" /\
  tr (ps hf) = [EConnect (bs "example.com") 443; EClientQueue K200].
Proof.
  vm_compute. repeat split.
  repeat constructor; intros a Ha; inversion Ha; reflexivity.
Qed.
