(* C11 placeholder: statements follow *)
From PM Require Import Lib.Bytes Tls.Intercept Tls.InterceptFacts.
