(* C17 — threaded, local-threadless and remote-threadless modes behave identically.
   Statements only; proofs in Exec/ModesFacts.v (threaded vs local executor) and Exec/FdTableFacts.v
   (descriptor hand-off to a remote executor).

   Full statement, for reference: for every client conversation the bytes the client receives, the bytes
   each upstream receives and, per connection, the order of data and close events are the same whether
   connections are handled by a thread per connection, by the acceptor's in-process event loop (local
   executor), or by separate worker processes (remote executor).

   What is proved.  The drivers are generic in the work (its five entry points are arbitrary functions; the
   bytes sent to the client and to upstreams and the order of data/close events are whatever these functions do
   to the work object and its sockets — i.e. part of the work state W).
   * C17_local_eq_threaded: under the stated premises the thread-per-connection driver and the threadless
     executor take the work through EXACTLY the same calls with the same arguments, leave their loops at the
     same iteration with the SAME work state, and then shut it down — hence identical transcripts up to that
     point.  With several connections in one executor, C05_noninterference makes each of them equal to its
     alone run, which is the run considered here.
   * C17_threaded_is_core_then_shutdown / C17_shutdown_same_without_buffer: the one place the drivers differ is
     the blocking flush of a pending client buffer at the start of the threaded shutdown(); when nothing is
     pending the shutdowns are the same function.
   * C17_remote_fd (PARTIAL for remote mode): `send addr; send_handle; close` in the acceptor followed by
     `recv; recv_handle; dup` in the worker hands the executor two descriptors of the SAME open connection, the
     acceptor keeps none, the connection stays open all along; after shutdown() and os.close() nothing refers
     to it.  Thereafter the remote executor runs the same Threadless code as the local one (the model has a
     single loop with the parameter wq; every C05/C10 theorem is stated for arbitrary wq).  Process scheduling
     and SCM_RIGHTS themselves are residue. *)
From PM Require Import Lib.Bytes Lib.ZDict Exec.Threadless Exec.ThreadlessCases Exec.ThreadlessFacts
  Exec.Modes Exec.ModesFacts Exec.ModesCases Exec.FdTable Exec.FdTableFacts Exec.Dispatch Exec.DispatchFacts
  Exec.DispatchLocks Exec.DispatchLocksFacts.
From Coq Require Import ZArith Permutation.

Theorem C17_local_eq_threaded :
  forall (W IO : Type)
         (w_initialize : W -> IO -> W * result unit)
         (w_get_events : W -> IO -> W * result sel_events)
         (w_handle_events : W -> list fd -> list fd -> IO -> W * result bool)
         (w_shutdown : W -> IO -> W * result unit)
         (w_is_inactive : W -> N -> IO -> W * result bool)
         (tick_limit : N),
    no_reaping W IO w_is_inactive ->            (* no idle reaping: is_inactive answers False and changes nothing *)
    idle_noop W IO w_handle_events ->           (* handle_events with nothing ready does nothing and returns False *)
    forall (e0 : tevent IO) (evs : list (tevent IO)) (i : work_id) (w : W),
      i <> 0%Z ->
      (* along the run: no epoll_ctl failure, get_events returns distinct descriptors >= 0 with masks in
         {READ, WRITE, READ|WRITE} and never drops a descriptor *)
      match w_initialize w (te_io e0) with
      | (w0, Ok _) => tame W IO w_get_events w_handle_events evs w0 []
      | _ => True
      end ->
      exists st',
        run_forever W IO w_initialize w_get_events w_handle_events w_shutdown w_is_inactive None tick_limit
                    (arrive W IO e0 i w :: map (lift W IO) evs) (init_state W None) = (st', Running) /\
        match w_initialize w (te_io e0) with
        | (w0, Ok _) =>
            match threaded_core W IO w_get_events w_handle_events w_is_inactive evs w0 [] with
            | (wT, _, None) => exists prev', synced W i wT prev' st'
            | (wT, _, Some e) => ended W i (fst (w_shutdown wT (te_io e))) st'
            end
        | (w0, Err _) => ended W i (fst (w_shutdown w0 (te_io e0))) st'
        end.
Proof. exact local_eq_threaded. Qed.
Print Assumptions C17_local_eq_threaded.

Theorem C17_threaded_is_core_then_shutdown :
  forall (W IO : Type) w_initialize w_get_events w_handle_events w_shutdown w_is_inactive
         (w_has_buffer : W -> bool) (w_client_fd : W -> fd) (w_flush_once : W -> IO -> W * result unit)
         (e0 : tevent IO) (evs : list (tevent IO)) (w : W),
    threaded_run W IO w_initialize w_get_events w_handle_events w_shutdown w_is_inactive w_has_buffer w_client_fd w_flush_once e0 evs w =
    match w_initialize w (te_io e0) with
    | (w0, Ok _) =>
        match threaded_core W IO w_get_events w_handle_events w_is_inactive evs w0 [] with
        | (wT, _, None) => (wT, TRunning)
        | (wT, smT, Some e) =>
            let (w', r) := t_shutdown W IO w_shutdown w_has_buffer w_client_fd w_flush_once e wT smT in (w', TDone r)
        end
    | (w0, Err _) =>
        let (w', r) := t_shutdown W IO w_shutdown w_has_buffer w_client_fd w_flush_once e0 w0 [] in (w', TDone r)
    end.
Proof. exact threaded_run_is_core. Qed.
Print Assumptions C17_threaded_is_core_then_shutdown.

Theorem C17_shutdown_same_without_buffer :
  forall (W IO : Type) (w_shutdown : W -> IO -> W * result unit) (w_has_buffer : W -> bool)
         (w_client_fd : W -> fd) (w_flush_once : W -> IO -> W * result unit) (e : tevent IO) (w : W) (sm : tsel),
    w_has_buffer w = false ->
    t_shutdown W IO w_shutdown w_has_buffer w_client_fd w_flush_once e w sm = w_shutdown w (te_io e).
Proof. exact shutdown_same_without_buffer. Qed.
Print Assumptions C17_shutdown_same_without_buffer.

(* remote executor: the descriptor hand-off (PARTIAL: the rest of remote mode is the local-mode code) *)
Theorem C17_remote_fd :
  forall a h s c ta tw,
    zget a ta = Some c -> (forall f, zget f ta = Some c -> f = a) ->
    (forall f, zget f tw <> Some c) ->
    zmem h tw = false -> zmem s tw = false -> h <> s -> (0 <= h)%Z -> (0 <= s)%Z ->
    let p0 := {| acceptor := ta; inflight := []; worker := tw |} in
    exists p1 p2 p3 p4,
      apply_hop p0 (ASendHandle a) = Ok p1 /\ apply_hop p1 (AClose a) = Ok p2 /\
      apply_hop p2 (WRecvHandle h) = Ok p3 /\ apply_hop p3 (WDup h s) = Ok p4 /\
      holds c p1 /\ holds c p2 /\ holds c p3 /\ holds c p4 /\
      (forall f, zget f (acceptor p4) <> Some c) /\ inflight p4 = [] /\
      (forall f, f <> a -> zget f (acceptor p4) = zget f ta) /\
      zget h (worker p4) = Some c /\ zget s (worker p4) = Some c /\
      (forall f, zget f (worker p4) = Some c -> f = h \/ f = s) /\
      (forall f, f <> h -> f <> s -> zget f (worker p4) = zget f tw).
Proof. exact handoff_ok. Qed.
Print Assumptions C17_remote_fd.

Theorem C17_remote_release :
  forall h s c tw ta,
    zget h tw = Some c -> zget s tw = Some c -> h <> s -> (forall f, zget f tw = Some c -> f = h \/ f = s) ->
    (forall f, zget f ta <> Some c) ->
    let p0 := {| acceptor := ta; inflight := []; worker := tw |} in
    exists p2, apply_hops p0 (worker_release h s) = Ok p2 /\ ~ holds c p2 /\
               (forall f, f <> h -> f <> s -> zget f (worker p2) = zget f tw).
Proof. exact release_after_handoff. Qed.
Print Assumptions C17_remote_release.

(* Dispatch to remote workers (acceptor.py _work, delegate.py, remote.py receive_from_work_queue). *)
(* the worker index is in range for every acceptor id and every number of connections dispatched so far *)
Theorem C17_worker_index_in_range :
  forall total idd num_workers, num_workers <> 0 -> worker_index total idd num_workers < num_workers.
Proof. exact worker_index_in_range. Qed.
Print Assumptions C17_worker_index_in_range.

(* what delegate_work_to_pool writes is what receive_from_work_queue expects, for a unix or a TCP listener
   configuration, with or without a peer address, whatever is queued behind; so any sequence of connections
   delegated to a pipe is received in order, each with its own descriptor *)
Theorem C17_delegate_matches_receive :
  forall unix addr f rest,
    receive_one unix (delegate_msgs unix addr f ++ rest) = Ok (f, told_addr unix addr, rest).
Proof. exact delegate_matches_receive. Qed.
Print Assumptions C17_delegate_matches_receive.

Theorem C17_receive_all_delegated :
  forall unix conns,
    receive_all unix (2 * length conns + 1) (flat_map (fun c => delegate_msgs unix (fst c) (snd c)) conns) =
    Ok (map (fun c => (snd c, told_addr unix (fst c))) conns).
Proof. exact receive_all_delegated. Qed.
Print Assumptions C17_receive_all_delegated.

(* an acceptor with as many pipes as workers never indexes out of range, whatever its id *)
Theorem C17_dispatch_never_fails :
  forall unix idd num_workers conns total pipes,
    num_workers <> 0 -> length pipes = N.to_nat num_workers ->
    exists pipes', dispatch_all unix idd num_workers total conns pipes = Ok pipes' /\ length pipes' = length pipes.
Proof. exact dispatch_never_fails. Qed.
Print Assumptions C17_dispatch_never_fails.

(* the two ends must use the SAME configuration bit: a disagreement makes the worker fail *)
Theorem C17_dispatch_mismatch_fails :
  forall addr f rest,
    (exists x, receive_one true (delegate_msgs false addr f ++ rest) = Err x) /\
    (exists x, receive_one false (delegate_msgs true addr f ++ rest) = Err x).
Proof. exact mismatch_fails. Qed.
Print Assumptions C17_dispatch_mismatch_fails.

(* non-vacuity: a concrete scripted handler and schedule satisfying the premise [tame]; both drivers
   (evaluated) drive it through the same five calls, it queues 5 bytes for the client, flushes 3 of them and
   ends by returning True: same log, same bytes accepted before the exit in both modes; the threaded driver
   then flushes the remaining 2 bytes before closing *)
Definition ex_handler : hwork :=
  mk_hwork 41%Z None
    [inl [(41%Z, 1)]; inl [(41%Z, 3); (410%Z, 1)]; inl [(41%Z, 3); (410%Z, 1)]]
    [mk_hentry [5] false (inl false); mk_hentry [] true (inl true)] [] [inl 3].
Definition ex_e0 : tevent unit := mk_tevent [] [] 100 [].
Definition ex_evs : list (tevent unit) :=
  [mk_tevent [] [(41%Z, 1)] 103 []; mk_tevent [] [(41%Z, 2); (410%Z, 1)] 106 [true; true]].

Example C17_nonvacuous :
  tame hwork unit hw_get_events hw_handle_events ex_evs (fst (hw_initialize ex_handler tt)) []
  /\ (exists w', T_RUN ex_e0 ex_evs ex_handler = (w', TDone (Ok tt)) /\
                 hw_sent w' = [(5, 3); (2, 2)] /\ hw_closed w' = true /\
                 hw_log w' = [HInit; HGet; HHandle [41%Z] []; HGet; HHandle [410%Z] [41%Z]; HShutdown])
  /\ (exists st w', L_RUN 39 (arrive_event ex_e0 41%Z ex_handler :: map lift_event ex_evs) (init_state hwork None) = (st, Running) /\
                    gone st = [(41%Z, w')] /\ hw_sent w' = [(5, 3)] /\ hw_buf w' = [2] /\ hw_closed w' = true /\
                    hw_log w' = [HInit; HGet; HHandle [41%Z] []; HGet; HHandle [410%Z] [41%Z]; HShutdown]).
Proof.
  split; [|split].
  - apply tameb_sound. vm_compute. reflexivity.
  - eexists. vm_compute. repeat split.
  - eexists. eexists. vm_compute. repeat split.
Qed.

(* ------------------------------------------------------------------------------------------------------------
   The lock discipline of the hand-off, for EVERY interleaving of concurrent dispatcher threads
   (Exec/DispatchLocks.v, proofs in Exec/DispatchLocksFacts.v).

   Several acceptor processes, each starting one dispatcher thread per accepted connection, write to the same worker
   pipes.  A thread = the arguments Acceptor._work computes (work: executor_pids[index], executor_queues[index],
   executor_locks[index] with index = (_total + idd) % num_workers) + the program of delegate_work_to_pool
   (acquire work_lock; send(addr) unless unix; send_handle; conn.close(); release).  `run ths sched g` lets the threads
   picked by `sched` take one atomic action each (a pick that is blocked on its lock or finished is skipped), so the
   runs over ALL lists `sched` are exactly the interleavings the locks allow.  Every acceptor holds the pool's shared
   lists: position i = pipe i, guarded by the lock object locks[i], whatever objects these are. *)

(* _work never raises and takes pid, pipe and lock at the SAME list position *)
Theorem C17_work_same_index :
  forall nw pids locks unix idd total addr f,
    nw <> 0 -> length pids = N.to_nat nw -> length locks = N.to_nat nw ->
    exists th, work nw (shared_pool nw pids locks) unix idd total addr f = Ok th /\
               t_queue th = N.to_nat (worker_index total idd nw) /\
               nth_error locks (N.to_nat (worker_index total idd nw)) = Some (t_lock th) /\
               nth_error pids (N.to_nat (worker_index total idd nw)) = Some (t_pid th) /\
               t_conn th = f /\ t_addr th = addr /\ t_unix th = unix.
Proof. exact work_spawned. Qed.
Print Assumptions C17_work_same_index.

(* any number of workers, any collection of accepted connections of any acceptors at any values of their counters, any
   schedule: once all dispatcher threads have returned, the pipe of every worker k is the concatenation, in SOME order,
   of the complete message blocks of exactly the connections routed to k - a permutation at block granularity *)
Theorem C17_dispatch_atomic :
  forall nw pids locks unix (cs : list conn) ths (sched : list nat),
    nw <> 0 -> length pids = N.to_nat nw -> length locks = N.to_nat nw ->
    spawn_all work nw (shared_pool nw pids locks) unix cs = Ok ths ->
    let g := run_conns ths nw sched in
    all_done g = true ->
    forall k, (k < N.to_nat nw)%nat ->
      exists cs', Permutation cs' (routed_to nw k cs) /\ pipe g k = flat_map (conn_block unix) cs'.
Proof. exact dispatch_atomic. Qed.
Print Assumptions C17_dispatch_atomic.

(* ... hence every worker reads its whole pipe without failure and is handed exactly the connections routed to it,
   each descriptor with ITS OWN address (no mix-up between two connections) *)
Theorem C17_interleaved_receive_ok :
  forall nw pids locks unix (cs : list conn) ths (sched : list nat),
    nw <> 0 -> length pids = N.to_nat nw -> length locks = N.to_nat nw ->
    spawn_all work nw (shared_pool nw pids locks) unix cs = Ok ths ->
    let g := run_conns ths nw sched in
    all_done g = true ->
    forall k, (k < N.to_nat nw)%nat ->
      exists cs', Permutation cs' (routed_to nw k cs) /\
        receive_all unix (2 * length (routed_to nw k cs) + 1) (pipe g k) =
        Ok (map (fun c => (c_fd c, told_addr unix (c_addr c))) cs').
Proof. exact interleaved_receive_ok. Qed.
Print Assumptions C17_interleaved_receive_ok.

(* the invariant, in EVERY reachable state (not only final ones): Inv (lock table and program counters agree; every
   pipe = complete blocks + at most the address of the one thread between its two writes); while a thread is inside
   its critical section on a pipe no other thread routed to that pipe is inside its own (mutex); a pipe whose lock is
   free holds only complete blocks - those of the threads routed to it that have returned *)
Theorem C17_dispatch_invariant :
  forall nw pids locks unix (cs : list conn) ths (sched : list nat),
    nw <> 0 -> length pids = N.to_nat nw -> length locks = N.to_nat nw ->
    spawn_all work nw (shared_pool nw pids locks) unix cs = Ok ths ->
    let g := run_conns ths nw sched in
    Inv ths g /\
    (forall t1 t2 th1 th2 p1 p2,
       at_ ths (g_pcs g) t1 th1 p1 -> at_ ths (g_pcs g) t2 th2 p2 -> t_queue th1 = t_queue th2 ->
       critical p1 = true -> critical p2 = true -> t1 = t2) /\
    forall k l, (k < N.to_nat nw)%nat -> nth_error locks k = Some l -> lock_free (g_held g) l = true ->
      exists order, NoDup order /\
        (forall tid, In tid order <-> exists th, at_ ths (g_pcs g) tid th PDone /\ t_queue th = k) /\
        pipe g k = blocks ths order.
Proof. exact dispatch_invariant_conns. Qed.
Print Assumptions C17_dispatch_invariant.

(* the discipline itself is what matters: for ANY set of threads such that two threads writing to the same pipe take the
   same lock, every reachable state satisfies the invariant *)
Theorem C17_dispatch_discipline_suffices :
  forall ths npipes sched,
    (forall t1 t2 th1 th2, nth_error ths t1 = Some th1 -> nth_error ths t2 = Some th2 ->
                           t_queue th1 = t_queue th2 -> t_lock th1 = t_lock th2) ->
    Inv ths (run ths sched (init_gstate npipes (length ths))).
Proof. exact Inv_reachable. Qed.
Print Assumptions C17_dispatch_discipline_suffices.

(* no deadlock: in every reachable state some thread that has not returned can move, and some continuation of the
   schedule lets all threads return (so the premise `all_done` of C17_dispatch_atomic is reachable from everywhere) *)
Theorem C17_dispatch_no_deadlock :
  forall nw pids locks unix (cs : list conn) ths (sched : list nat),
    nw <> 0 -> length pids = N.to_nat nw -> length locks = N.to_nat nw ->
    spawn_all work nw (shared_pool nw pids locks) unix cs = Ok ths ->
    let g := run_conns ths nw sched in
    (all_done g = false -> exists tid g', step ths tid g = Some g') /\
    exists more, all_done (run_conns ths nw (sched ++ more)) = true.
Proof. exact dispatch_no_deadlock. Qed.
Print Assumptions C17_dispatch_no_deadlock.

(* refutation of the broken discipline (lock taken at position total mod n, pipe at (total mod n + idd) mod n, as in the
   seeded change C17-r3-1): two acceptors, two connections routed to worker 0 and a schedule allowed by the locks after
   which worker 0's pipe is `address, address, descriptor, descriptor` and its receive fails; on the way both threads
   are inside their critical sections on pipe 0 at once.  Under the real _work the same connections with the same picks
   (repeated once, since the second thread is now blocked when first picked) are received correctly. *)
Theorem C17_lock_index_matters :
  exists (cs : list conn) (sched pre : list nat) (ths : list thread),
    length cs = 2%nat /\ map c_idd cs = [0; 1] /\ routed_to 2 0 cs = cs /\
    spawn_all work_seeded 2 ex_pool false cs = Ok ths /\
    (let g := run_conns ths 2 sched in
     all_done g = true /\
     pipe g 0 = [MAddr (Some 4000); MAddr (Some 4001); MHandle 21%Z; MHandle 20%Z] /\
     receive_all false 5 (pipe g 0) = Err (OSError 0)) /\
    (let g := run_conns ths 2 pre in ~ mutex ths g) /\
    (exists ths', spawn_all work 2 ex_pool false cs = Ok ths' /\
       let g := run_conns ths' 2 (sched ++ sched) in
       all_done g = true /\ receive_all false 5 (pipe g 0) = Ok [(20%Z, Some 4000); (21%Z, Some 4001)]).
Proof. exact lock_index_matters. Qed.
Print Assumptions C17_lock_index_matters.

(* non-vacuity: 2 acceptors, 2 workers, 4 connections and a schedule in which threads interleave and are picked while
   blocked; an intermediate state (thread 1 between its two writes, thread 0 blocked on the same lock, thread 2 inside
   the other critical section) and the final state (pipe 0 holds thread 1's block BEFORE thread 0's) *)
Example C17_locks_nonvacuous :
  exists ths,
    spawn_all work 2 ex_pool false ex_conns = Ok ths /\
    (let g := run_conns ths 2 ex_prefix in
       g_pcs g = [PStart; PAddrSent; PLocked; PStart] /\ g_held g = [(1, 2); (0, 1)]%nat /\
       pipe g 0 = [MAddr (Some 4001)] /\ step ths 0 g = None /\ step ths 3 g = None) /\
    (let g := run_conns ths 2 ex_sched in
       all_done g = true /\ g_held g = [] /\
       g_pipes g = [[MAddr (Some 4001); MHandle 21%Z; MAddr (Some 4000); MHandle 20%Z];
                    [MAddr (Some 4002); MHandle 22%Z; MAddr (Some 4003); MHandle 23%Z]] /\
       receive_all false 5 (pipe g 0) = Ok [(21%Z, Some 4001); (20%Z, Some 4000)] /\
       receive_all false 5 (pipe g 1) = Ok [(22%Z, Some 4002); (23%Z, Some 4003)]).
Proof. exact locks_nonvacuous. Qed.
Print Assumptions C17_locks_nonvacuous.
