(* C17 — threaded, local-threadless and remote-threadless modes behave identically.
   Statements only; proofs in Exec/ModesFacts.v (threaded vs local executor) and Exec/FdTableFacts.v
   (descriptor hand-off to a remote executor).

   Full statement, for reference: for every client conversation the bytes the client receives, the bytes
   each upstream receives and, per connection, the order of data and close events are the same whether
   connections are handled by a thread per connection, by the acceptor's in-process event loop (local
   executor), or by separate worker processes (remote executor).

   What is proved.  The drivers are generic in the work (its five entry points are arbitrary functions; the
   bytes sent to the client and to upstreams and the order of data/close events are whatever these functions do
   to the work object and its sockets — i.e. part of the work state W).
   * C17_local_eq_threaded: under the stated premises the thread-per-connection driver and the threadless
     executor take the work through EXACTLY the same calls with the same arguments, leave their loops at the
     same iteration with the SAME work state, and then shut it down — hence identical transcripts up to that
     point.  With several connections in one executor, C05_noninterference makes each of them equal to its
     alone run, which is the run considered here.
   * C17_threaded_is_core_then_shutdown / C17_shutdown_same_without_buffer: the one place the drivers differ is
     the blocking flush of a pending client buffer at the start of the threaded shutdown(); when nothing is
     pending the shutdowns are the same function.
   * C17_remote_fd (PARTIAL for remote mode): `send addr; send_handle; close` in the acceptor followed by
     `recv; recv_handle; dup` in the worker hands the executor two descriptors of the SAME open connection, the
     acceptor keeps none, the connection stays open all along; after shutdown() and os.close() nothing refers
     to it.  Thereafter the remote executor runs the same Threadless code as the local one (the model has a
     single loop with the parameter wq; every C05/C10 theorem is stated for arbitrary wq).  Process scheduling
     and SCM_RIGHTS themselves are residue. *)
From PM Require Import Lib.Bytes Lib.ZDict Exec.Threadless Exec.ThreadlessCases Exec.ThreadlessFacts
  Exec.Modes Exec.ModesFacts Exec.ModesCases Exec.FdTable Exec.FdTableFacts Exec.Dispatch Exec.DispatchFacts.
From Coq Require Import ZArith.

Theorem C17_local_eq_threaded :
  forall (W IO : Type)
         (w_initialize : W -> IO -> W * result unit)
         (w_get_events : W -> IO -> W * result sel_events)
         (w_handle_events : W -> list fd -> list fd -> IO -> W * result bool)
         (w_shutdown : W -> IO -> W * result unit)
         (w_is_inactive : W -> N -> IO -> W * result bool)
         (tick_limit : N),
    no_reaping W IO w_is_inactive ->            (* no idle reaping: is_inactive answers False and changes nothing *)
    idle_noop W IO w_handle_events ->           (* handle_events with nothing ready does nothing and returns False *)
    forall (e0 : tevent IO) (evs : list (tevent IO)) (i : work_id) (w : W),
      i <> 0%Z ->
      (* along the run: no epoll_ctl failure, get_events returns distinct descriptors >= 0 with masks in
         {READ, WRITE, READ|WRITE} and never drops a descriptor *)
      match w_initialize w (te_io e0) with
      | (w0, Ok _) => tame W IO w_get_events w_handle_events evs w0 []
      | _ => True
      end ->
      exists st',
        run_forever W IO w_initialize w_get_events w_handle_events w_shutdown w_is_inactive None tick_limit
                    (arrive W IO e0 i w :: map (lift W IO) evs) (init_state W None) = (st', Running) /\
        match w_initialize w (te_io e0) with
        | (w0, Ok _) =>
            match threaded_core W IO w_get_events w_handle_events w_is_inactive evs w0 [] with
            | (wT, _, None) => exists prev', synced W i wT prev' st'
            | (wT, _, Some e) => ended W i (fst (w_shutdown wT (te_io e))) st'
            end
        | (w0, Err _) => ended W i (fst (w_shutdown w0 (te_io e0))) st'
        end.
Proof. exact local_eq_threaded. Qed.
Print Assumptions C17_local_eq_threaded.

Theorem C17_threaded_is_core_then_shutdown :
  forall (W IO : Type) w_initialize w_get_events w_handle_events w_shutdown w_is_inactive
         (w_has_buffer : W -> bool) (w_client_fd : W -> fd) (w_flush_once : W -> IO -> W * result unit)
         (e0 : tevent IO) (evs : list (tevent IO)) (w : W),
    threaded_run W IO w_initialize w_get_events w_handle_events w_shutdown w_is_inactive w_has_buffer w_client_fd w_flush_once e0 evs w =
    match w_initialize w (te_io e0) with
    | (w0, Ok _) =>
        match threaded_core W IO w_get_events w_handle_events w_is_inactive evs w0 [] with
        | (wT, _, None) => (wT, TRunning)
        | (wT, smT, Some e) =>
            let (w', r) := t_shutdown W IO w_shutdown w_has_buffer w_client_fd w_flush_once e wT smT in (w', TDone r)
        end
    | (w0, Err _) =>
        let (w', r) := t_shutdown W IO w_shutdown w_has_buffer w_client_fd w_flush_once e0 w0 [] in (w', TDone r)
    end.
Proof. exact threaded_run_is_core. Qed.
Print Assumptions C17_threaded_is_core_then_shutdown.

Theorem C17_shutdown_same_without_buffer :
  forall (W IO : Type) (w_shutdown : W -> IO -> W * result unit) (w_has_buffer : W -> bool)
         (w_client_fd : W -> fd) (w_flush_once : W -> IO -> W * result unit) (e : tevent IO) (w : W) (sm : tsel),
    w_has_buffer w = false ->
    t_shutdown W IO w_shutdown w_has_buffer w_client_fd w_flush_once e w sm = w_shutdown w (te_io e).
Proof. exact shutdown_same_without_buffer. Qed.
Print Assumptions C17_shutdown_same_without_buffer.

(* remote executor: the descriptor hand-off (PARTIAL: the rest of remote mode is the local-mode code) *)
Theorem C17_remote_fd :
  forall a h s c ta tw,
    zget a ta = Some c -> (forall f, zget f ta = Some c -> f = a) ->
    (forall f, zget f tw <> Some c) ->
    zmem h tw = false -> zmem s tw = false -> h <> s -> (0 <= h)%Z -> (0 <= s)%Z ->
    let p0 := {| acceptor := ta; inflight := []; worker := tw |} in
    exists p1 p2 p3 p4,
      apply_hop p0 (ASendHandle a) = Ok p1 /\ apply_hop p1 (AClose a) = Ok p2 /\
      apply_hop p2 (WRecvHandle h) = Ok p3 /\ apply_hop p3 (WDup h s) = Ok p4 /\
      holds c p1 /\ holds c p2 /\ holds c p3 /\ holds c p4 /\
      (forall f, zget f (acceptor p4) <> Some c) /\ inflight p4 = [] /\
      (forall f, f <> a -> zget f (acceptor p4) = zget f ta) /\
      zget h (worker p4) = Some c /\ zget s (worker p4) = Some c /\
      (forall f, zget f (worker p4) = Some c -> f = h \/ f = s) /\
      (forall f, f <> h -> f <> s -> zget f (worker p4) = zget f tw).
Proof. exact handoff_ok. Qed.
Print Assumptions C17_remote_fd.

Theorem C17_remote_release :
  forall h s c tw ta,
    zget h tw = Some c -> zget s tw = Some c -> h <> s -> (forall f, zget f tw = Some c -> f = h \/ f = s) ->
    (forall f, zget f ta <> Some c) ->
    let p0 := {| acceptor := ta; inflight := []; worker := tw |} in
    exists p2, apply_hops p0 (worker_release h s) = Ok p2 /\ ~ holds c p2 /\
               (forall f, f <> h -> f <> s -> zget f (worker p2) = zget f tw).
Proof. exact release_after_handoff. Qed.
Print Assumptions C17_remote_release.

(* Dispatch to remote workers (acceptor.py _work, delegate.py, remote.py receive_from_work_queue). *)
(* the worker index is in range for every acceptor id and every number of connections dispatched so far *)
Theorem C17_worker_index_in_range :
  forall total idd num_workers, num_workers <> 0 -> worker_index total idd num_workers < num_workers.
Proof. exact worker_index_in_range. Qed.
Print Assumptions C17_worker_index_in_range.

(* what delegate_work_to_pool writes is what receive_from_work_queue expects, for a unix or a TCP listener
   configuration, with or without a peer address, whatever is queued behind; so any sequence of connections
   delegated to a pipe is received in order, each with its own descriptor *)
Theorem C17_delegate_matches_receive :
  forall unix addr f rest,
    receive_one unix (delegate_msgs unix addr f ++ rest) = Ok (f, told_addr unix addr, rest).
Proof. exact delegate_matches_receive. Qed.
Print Assumptions C17_delegate_matches_receive.

Theorem C17_receive_all_delegated :
  forall unix conns,
    receive_all unix (2 * length conns + 1) (flat_map (fun c => delegate_msgs unix (fst c) (snd c)) conns) =
    Ok (map (fun c => (snd c, told_addr unix (fst c))) conns).
Proof. exact receive_all_delegated. Qed.
Print Assumptions C17_receive_all_delegated.

(* an acceptor with as many pipes as workers never indexes out of range, whatever its id *)
Theorem C17_dispatch_never_fails :
  forall unix idd num_workers conns total pipes,
    num_workers <> 0 -> length pipes = N.to_nat num_workers ->
    exists pipes', dispatch_all unix idd num_workers total conns pipes = Ok pipes' /\ length pipes' = length pipes.
Proof. exact dispatch_never_fails. Qed.
Print Assumptions C17_dispatch_never_fails.

(* the two ends must use the SAME configuration bit: a disagreement makes the worker fail *)
Theorem C17_dispatch_mismatch_fails :
  forall addr f rest,
    (exists x, receive_one true (delegate_msgs false addr f ++ rest) = Err x) /\
    (exists x, receive_one false (delegate_msgs true addr f ++ rest) = Err x).
Proof. exact mismatch_fails. Qed.
Print Assumptions C17_dispatch_mismatch_fails.

(* non-vacuity: a concrete scripted handler and schedule satisfying the premise [tame]; both drivers
   (evaluated) drive it through the same five calls, it queues 5 bytes for the client, flushes 3 of them and
   ends by returning True: same log, same bytes accepted before the exit in both modes; the threaded driver
   then flushes the remaining 2 bytes before closing *)
Definition ex_handler : hwork :=
  mk_hwork 41%Z None
    [inl [(41%Z, 1)]; inl [(41%Z, 3); (410%Z, 1)]; inl [(41%Z, 3); (410%Z, 1)]]
    [mk_hentry [5] false (inl false); mk_hentry [] true (inl true)] [] [inl 3].
Definition ex_e0 : tevent unit := mk_tevent [] [] 100 [].
Definition ex_evs : list (tevent unit) :=
  [mk_tevent [] [(41%Z, 1)] 103 []; mk_tevent [] [(41%Z, 2); (410%Z, 1)] 106 [true; true]].

Example C17_nonvacuous :
  tame hwork unit hw_get_events hw_handle_events ex_evs (fst (hw_initialize ex_handler tt)) []
  /\ (exists w', T_RUN ex_e0 ex_evs ex_handler = (w', TDone (Ok tt)) /\
                 hw_sent w' = [(5, 3); (2, 2)] /\ hw_closed w' = true /\
                 hw_log w' = [HInit; HGet; HHandle [41%Z] []; HGet; HHandle [410%Z] [41%Z]; HShutdown])
  /\ (exists st w', L_RUN 39 (arrive_event ex_e0 41%Z ex_handler :: map lift_event ex_evs) (init_state hwork None) = (st, Running) /\
                    gone st = [(41%Z, w')] /\ hw_sent w' = [(5, 3)] /\ hw_buf w' = [2] /\ hw_closed w' = true /\
                    hw_log w' = [HInit; HGet; HHandle [41%Z] []; HGet; HHandle [410%Z] [41%Z]; HShutdown]).
Proof.
  split; [|split].
  - apply tameb_sound. vm_compute. reflexivity.
  - eexists. vm_compute. repeat split.
  - eexists. eexists. vm_compute. repeat split.
Qed.
