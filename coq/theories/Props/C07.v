(* C07 — queued output is fully delivered before the proxy closes a client connection.
   Statements only; proofs are in Net/HandlerFacts.v.

   The model (Net/Handler.v) is the code after fix commit ae6ca23 (proposed_fixes/C07-write-side-teardown.diff):
   handle_events no longer returns True at once when the plugin's write side fails (upstream
   BrokenPipeError / OSError) — it stops reading and waits for the client buffer like the read side does.
   On the unrepaired tree that path lost every byte still queued for the client in threadless mode
   (witness: corpus/C07/fixed-defects.json).

   [g_cl_queued s] = every byte ever queued for the client (ghost), [delivered_client] = bytes the client
   socket accepted, [pending_client] = bytes still buffered.  handle_events returns
   Teardown (True) | Continue (False) | Raised (an exception escaped; threadless treats it as True). *)
From PM Require Import Lib.Bytes Net.Conn Net.ConnFacts Net.Handler Net.HandlerFacts Net.Tunnel Net.TunnelFacts.
From Coq Require Import ZArith.

(* Whatever path makes handle_events decide teardown — client EOF/reset, upstream EOF/reset/timeout,
   upstream write failure, a rejected request with its error response, a web-server reply followed by
   close, completion of the awaited final flush — the client buffer is empty at that moment and the
   client has received everything ever queued for it; the only exception is a failure of the client
   send of this very call (the client is gone: excluded by "provided it keeps reading"). *)
Theorem C07_teardown_flushed : forall c ev s s',
  inv c s -> handle_events c ev s = (s', Teardown) -> client_send_failed ev s = false ->
  pending_client s' = [] /\ delivered_client s' = g_cl_queued s'.
Proof. exact teardown_all_delivered. Qed.
Print Assumptions C07_teardown_flushed.

(* the same along every event list from a fresh connection (inv holds initially and is preserved) *)
Theorem C07_run_teardown_flushed : forall c t0 evs s,
  Forall (fun ev => send_error (c_send ev) = false) evs ->
  run c (init t0) evs = (s, Teardown) ->
  pending_client s = [] /\ delivered_client s = g_cl_queued s.
Proof. exact run_teardown_flushed. Qed.
Print Assumptions C07_run_teardown_flushed.

(* what is queued is conserved at every moment: delivered ++ pending = everything queued so far *)
Theorem C07_nothing_dropped_meanwhile : forall c t0 evs s r,
  run c (init t0) evs = (s, r) -> delivered_client s ++ pending_client s = g_cl_queued s.
Proof. exact client_stream_conservation. Qed.
Print Assumptions C07_nothing_dropped_meanwhile.

(* prompt: while a teardown is pending (must_flush_before_shutdown set by a rejection path, or reads
   torn down by a read-side / write-side end), the handle_events call whose client flush accepts the
   last pending byte is the call that returns True *)
Theorem C07_prompt : forall c ev s s' r w' n,
  must_flush s = true \/ reads_teared s = true ->
  c_w ev = true -> has_buffer (work s) = true ->
  flush (max_send c) (c_send ev) (work s) = (w', Flushed n) -> buffer w' = [] ->
  handle_events c ev s = (s', r) -> r = Teardown.
Proof. exact teardown_prompt. Qed.
Print Assumptions C07_prompt.

(* and it does get there: with a teardown pending, any continuation in which the client keeps reading
   (client-writable events on which the kernel accepts k > 0 bytes), at least "bytes + pieces pending"
   many, ends in Teardown with everything delivered — for every output size and partial-write pattern *)
Theorem C07_drains_to_teardown : forall c evs s,
  must_flush s = true \/ reads_teared s = true -> has_buffer (work s) = true ->
  Forall drain_ev evs -> (backlog (work s) <= length evs)%nat ->
  exists s', run c s evs = (s', Teardown) /\
             pending_client s' = [] /\ delivered_client s' = delivered_client s ++ pending_client s.
Proof.
  intros c evs s H1 H2 H3 H4. destruct (drains_to_teardown c evs s H1 H2 H3 H4) as [s' [A [B C]]].
  exists s'. repeat split; auto. unfold pending_client, pending. rewrite B. reflexivity.
Qed.
Print Assumptions C07_drains_to_teardown.

(* threaded mode: shutdown() runs the blocking _flush first.  When _flush returns normally the buffer
   is empty and all of it went to the socket, in order; and it does return normally when every ready
   report is followed by a send accepting k > 0 bytes (time-outs of select in between do not matter). *)
Theorem C07_threaded_flush : forall max sel w,
  (forall w' n, threaded_flush max sel w = (w', Some (Flushed n)) ->
                buffer w' = [] /\ sent w' = sent w ++ pending w) /\
  (forallb sel_effective sel = true -> (backlog w <= count_ready sel)%nat ->
   exists w', threaded_flush max sel w = (w', Some (Flushed 0)) /\ buffer w' = [] /\ sent w' = sent w ++ pending w).
Proof.
  intros max sel w. split.
  - intros w' n. apply threaded_flush_complete.
  - apply threaded_flush_drains.
Qed.
Print Assumptions C07_threaded_flush.

(* hence in threaded mode EVERY end of the loop (teardown, idle, even an escaped exception) delivers
   what was queued before the socket is closed *)
Theorem C07_threaded_shutdown_delivers : forall c sel s,
  threadless c = false ->
  forallb sel_effective sel = true -> (backlog (work s) <= count_ready sel)%nat ->
  let s' := shutdown c sel s in
  closed (work s') = true /\ buffer (work s') = [] /\ sent (work s') = sent (work s) ++ pending (work s).
Proof. exact threaded_shutdown_delivers. Qed.
Print Assumptions C07_threaded_shutdown_delivers.

(* faabfc0: whatever the final flush runs into (would-block, broken pipe, connection reset, any other OS
   error), shutdown() still closes the client socket and runs the close callbacks (upstream closed) — before
   that commit an OSError other than BrokenPipeError during _flush skipped plugin.on_client_connection_close() *)
Theorem C07_shutdown_always_closes : forall c sel s,
  let s' := shutdown c sel s in
  closed (work s') = true /\
  match upstream s with
  | Some _ => exists u', upstream s' = Some u' /\ closed u' = true
  | None => upstream s' = None
  end.
Proof. exact shutdown_always_closes. Qed.
Print Assumptions C07_shutdown_always_closes.

(* ---- BaseTcpTunnelHandler (proxy/core/base/tcp_tunnel.py; only used through --work-klass, e.g.
   examples/https_connect_tunnel.py — not reachable from the default proxy), modelled WITH
   commit 76c50ed (proposed_fixes/C07-tunnel-upstream-eof.diff).  Before that patch handle_events returned True at once when the
   upstream closed, dropping whatever was still buffered for the client. *)

(* a teardown decided by the tunnel handler finds the client buffer empty, unless it is the client side that
   ended (EOF / reset / timeout on the client recv — BaseTcpServerHandler gives up at once on those) *)
Theorem C07_tunnel_handler_teardown_flushed : forall c ev s s',
  tunnel_handle_events c ev s = (s', Teardown) ->
  client_ended ev = true \/ buffer (work s') = [].
Proof. exact tunnel_teardown_flushed. Qed.
Print Assumptions C07_tunnel_handler_teardown_flushed.

(* the upstream's close with output pending arms must_flush_before_shutdown instead of tearing down, and the
   call whose client flush empties the buffer then returns True *)
Theorem C07_tunnel_handler_server_close : forall c ev s u w' n,
  (upstream s = Some u -> u_r ev = true -> u_recv ev = REof -> has_buffer (work s) = true ->
   tunnel_server_events c ev s = (set_must_flush true s, Continue)) /\
  (must_flush s = true -> c_w ev = true -> has_buffer (work s) = true ->
   flush (max_send c) (c_send ev) (work s) = (w', Flushed n) -> buffer w' = [] ->
   exists s', tunnel_handle_events c ev s = (s', Teardown) /\ work s' = w').
Proof.
  intros c ev s u w' n. split.
  - apply tunnel_server_close_waits.
  - apply tunnel_final_flush_prompt.
Qed.
Print Assumptions C07_tunnel_handler_server_close.

(* ---- non-vacuity: the origin answers 413 while the request is still being sent, the client accepts only
   one byte, the next upstream flush fails with a broken pipe (NO teardown: this is the repaired path,
   reads and writes are torn down and the handler waits), then the client drains and the call
   accepting the last byte returns Teardown *)
Definition ex_cfg : cfg := mkCfg 4 (bs "ACK") 10240 true.
Definition ev_ (cr cw ur uw : bool) (cs us : outcome) (crv urv : recv_res) (rq : req_outcome) : event :=
  mkEvent 7 cr cw ur uw cs us crv urv rq DNothing.
Definition ex_prefix : list event :=
  [ ev_ true false false false (Accept 9) (Accept 9) (RData (bs "GET http://h/ HTTP/1.1")) ROsErr (RProxy false (bs "GET / HTTP/1.1") []);
    ev_ false true true true (Accept 9) (Accept 2) ROsErr (RData (bs "413 too large")) RIncomplete;
    ev_ false true false true (Accept 1) Broken ROsErr ROsErr RIncomplete ].
Definition ex_drain : list event :=
  [ ev_ false true false false (Accept 9) (Accept 9) ROsErr ROsErr RIncomplete;
    ev_ false true false false (Accept 9) (Accept 9) ROsErr ROsErr RIncomplete;
    ev_ false true false false (Accept 9) (Accept 9) ROsErr ROsErr RIncomplete ].
Example C07_nonvacuous :
  let '(s, r) := run ex_cfg (init 0) ex_prefix in
  r = Continue /\ reads_teared s = true /\ writes_teared s = true /\
  delivered_client s = bs "4" /\ pending_client s = bs "13 too large" /\
  let '(s', r') := run ex_cfg s ex_drain in
  r' = Teardown /\ delivered_client s' = bs "413 too large" /\ pending_client s' = [].
Proof. vm_compute. repeat split; reflexivity. Qed.
