(* C04 — each request on a persistent connection is answered in order by the right origin.
   Statements only; proofs are in Net/ConversationFacts.v.  Model: Net/Conversation.v (the composition
   handler.handle_data -> first-request parse -> plugin.on_request_complete -> plugin.on_client_data for
   every later segment, with the REAL HttpParser model Http/Parser.v, for the forward proxy, the web
   server and the reverse proxy), after proposed_fixes/C04-pipelined-remainder.diff.

   Vocabulary (Net/ConversationFacts.v):
     message, render, message_ok   the abstract grammar of self-delimiting requests of C03
     rq0 m                         request m as HttpParser leaves it (nothing following it)
     names c m                     what m names: TOrigin host port bytes-to-be-received | TLocal plugin | TNone
     expected_answer c answers m   the response the client must get for m in the world [answers]
     quiet / settled / origins_answer   nobody closes and sockets exist before they are readable / the upstream
                                   in use has nothing unsent / every origin connection has emitted exactly one
                                   answer per request piece it received
     run c (init ds) evs           the connection under the event list evs (client segments, upstream data,
                                   flushes): client_bytes evs = the request bytes, cut into segments ANYWHERE *)
From PM Require Import Lib.Bytes Lib.PyStr Http.Url Http.Parser Http.ParserFacts Http.Builders
  Net.Conversation Net.ConversationCases Net.ConversationFacts.
From Coq Require Import ZArith.

(* ===================================================================================== *)
(* THE PROPERTY IN FULL                                                                    *)

(* For every configuration and every conversation of well-formed keep-alive requests that each name
   an origin or a route: for every world of origins, EVERY way of packing the request bytes into
   segments and EVERY interleaving with what the origins emit, the client receives exactly one
   response per request, in request order, each the answer of what that request names, and the
   connection is still open with no request pending.  [C04_statement] is this sentence: *)
Theorem C04_statement_written_out :
  C04_statement <->
  (forall (c : cfg) (reqs : list message), wf_conversation c reqs ->
   forall (answers : world) (ds : list nat) (evs : list event),
     quiet c (init ds) evs ->
     client_bytes evs = concat (map render reqs) ->
     let s := run c (init ds) evs in
     settled s -> origins_answer answers evs s ->
     stat s = Alive /\ pending_request s = false /\
     client_stream s = concat (map (expected_answer c answers) reqs)).
Proof. split; intros H; exact H. Qed.
Print Assumptions C04_statement_written_out.

(* The code does NOT satisfy it (three recorded findings below). *)
Theorem C04_statement_refuted : ~ C04_statement.
Proof. exact statement_refuted. Qed.
Print Assumptions C04_statement_refuted.

(* ===================================================================================== *)
(* WHAT IS PROVED: every packing, every interleaving, for the class where all requests name   *)
(* the first request's origin (forward proxy) / route (web server)                            *)

(* Forward proxy.  Requests m1 :: ms, each well-formed, without Upgrade header, not CONNECT,
   naming the origin (h, pt), rebuildable; the request bytes cut into non-empty segments anywhere
   (client_bytes evs = the concatenation), data from the upstream connection arriving at any point
   after the first request's last byte, flushes anywhere.  Then: one connection, to (h, pt); it was
   sent exactly fwd c m1, fwd c m2, ... (each request forwarded exactly once, in order); everything it
   emitted was queued for the client in order; the connection is alive, the upstream still watched,
   no request pending. *)
Theorem C04_partial_forward : forall (c : cfg) (h : bytes) (pt : Z) (m1 : message) (ms : list message),
  has_proxy c = true ->
  Forall (fwd_class c h pt) (m1 :: ms) ->
  http_handler_protocol (rq0 m1) = HTTP_PROXY ->
  forall (ds : list nat) (evs : list event),
  sched_ok (length (render m1)) evs ->
  client_bytes evs = concat (map render (m1 :: ms)) ->
  let s := run c (init ds) evs in
  stat s = Alive /\ pipeline_request s = None /\ pending_request s = false /\
  connect_log s = [(h, pt)] /\
  (exists n, conns s = [mkUp h pt (map (fwd c) (m1 :: ms)) n false]) /\
  client_q s = ups evs /\ registered s O = true.
Proof. exact forward_partial. Qed.
Print Assumptions C04_partial_forward.

(* ... hence the full statement holds for these conversations. *)
Theorem C04_partial_forward_holds : forall (c : cfg) (h : bytes) (pt : Z) (m1 : message) (ms : list message),
  has_proxy c = true ->
  Forall (fwd_class c h pt) (m1 :: ms) ->
  Forall (fun m => http_handler_protocol (rq0 m) = HTTP_PROXY) (m1 :: ms) ->
  C04_holds c (m1 :: ms).
Proof.
  intros c h pt m1 ms H1 H2 H3. apply (forward_holds c h pt m1 ms H1 H2); [|exact H3].
  inversion H3; assumption.
Qed.
Print Assumptions C04_partial_forward_holds.

(* Web server, local plugin j (handle_request queues respond(request); the answer must not depend
   on the bytes FOLLOWING the request).  Requests m1 :: ms, each well-formed, keep-alive, without
   Upgrade header, whose path names a route of plugin j; cut into segments anywhere; anything else may
   happen in between except a close by the client.  Then the client was queued respond(m1), respond(m2),
   ... exactly once each, in order; alive, nothing pending, no upstream connection. *)
Theorem C04_partial_web : forall (c : cfg) (j : nat) (respond : parser -> list bytes),
  has_web c = true ->
  nth_error (web_plugins c) j = Some (WLocal respond) ->
  (forall p b s, respond (set_buffer_size p b s) = respond p) ->
  forall (m1 : message) (ms : list message),
  Forall (web_class c j) (m1 :: ms) ->
  http_handler_protocol (rq0 m1) = WEB_SERVER ->
  forall (ds : list nat) (evs : list event),
  wsched_ok evs ->
  client_bytes evs = concat (map render (m1 :: ms)) ->
  let s := run c (init ds) evs in
  stat s = Alive /\ pipeline_request s = None /\ pending_request s = false /\ conns s = [] /\
  client_q s = concat (map (resp respond) (m1 :: ms)).
Proof. exact web_partial. Qed.
Print Assumptions C04_partial_web.

Theorem C04_partial_web_holds : forall (c : cfg) (j : nat) (respond : parser -> list bytes),
  has_web c = true ->
  nth_error (web_plugins c) j = Some (WLocal respond) ->
  (forall p b s, respond (set_buffer_size p b s) = respond p) ->
  forall (m1 : message) (ms : list message),
  Forall (web_class c j) (m1 :: ms) ->
  Forall (fun m => http_handler_protocol (rq0 m) = WEB_SERVER) (m1 :: ms) ->
  C04_holds c (m1 :: ms).
Proof.
  intros c j respond H1 H2 H3 m1 ms H4 H5. apply (web_holds c j respond H1 H2 H3 m1 ms H4); [|exact H5].
  inversion H5; assumption.
Qed.
Print Assumptions C04_partial_web_holds.

(* ===================================================================================== *)
(* WHY THE PACKING DOES NOT MATTER (the two lemmas everything rests on)                      *)

(* [Pending p m r]: parser p is in the middle of request m and exactly the bytes r are missing.
   Cutting r anywhere keeps the relation (this is where C03's two-piece law enters). *)
Theorem C04_cut_anywhere : forall (p : parser) (m : message) (a r' : bytes),
  no_upgrade m -> Pending p m (a ++ r') -> r' <> [] ->
  exists p', parse p a = Ok p' /\ Pending p' m r'.
Proof. exact Pending_short. Qed.
Print Assumptions C04_cut_anywhere.

(* The pipelining loop that server.py and web.py share (pipeline_round: parse; if complete: act,
   take pipeline_request.buffer as the next input), on ONE segment cut anywhere in a stream of
   requests ms: the requests that end inside the segment — [done] — are served exactly once, in
   order; the parser is left absent at a request boundary or in the middle of the next request; the
   bytes after the segment are exactly what the remaining requests still need ([Carry]). *)
Theorem C04_pipelining_loop :
  forall (round : hstate -> bytes -> hstate * result (option bytes))
         (oc : hstate -> parser -> hstate * result (option parser)) (okm : message -> Prop)
         (act : hstate -> message -> hstate) (G : hstate -> Prop),
  (forall s raw, G s -> (forall p, pipeline_request s = Some p -> hhas p L_UPGRADE = false) ->
                 round s raw = pipeline_round oc s raw) ->
  (forall s m tail, G s -> okm m -> oc s (expected m tail) = (act s m, Ok None)) ->
  (forall s m, G s -> okm m -> G (act s m)) ->
  (forall s po, G s -> G (set_pipeline po s)) ->
  (forall s po m, act (set_pipeline po s) m = set_pipeline po (act s m)) ->
  forall (ms : list message) (fuel : nat) (s : hstate) (seg after : bytes),
  Forall (msg_ok okm) ms -> G s -> Carry (pipeline_request s) ms (seg ++ after) -> seg <> [] ->
  (length seg < fuel)%nat ->
  exists done ms' po', ms = done ++ ms' /\
    pipeline_loop fuel round s seg = (set_pipeline po' (fold_left act done s), Ok tt) /\
    Carry po' ms' after.
Proof. exact loop_segment. Qed.
Print Assumptions C04_pipelining_loop.

(* ===================================================================================== *)
(* WHERE THE CODE VIOLATES THE PROPERTY (recorded findings; each witness is replayed on the     *)
(* implementation by the harness: corpus/C04/known-findings.json)                               *)

(* C04-other-origin — forward proxy: GET http://a.com/1 then GET http://b.com/x on one connection.
   The second request is rebuilt and queued on the connection to a.com (on_client_data never looks
   at the host): the client gets a.com's answer for a request that names b.com. *)
Theorem C04_refuted_other_origin :
  exists c reqs, wf_conversation c reqs /\ ~ C04_holds c reqs.
Proof. exists (cfg_of cc_forward), [req_a1; req_bx]. exact (conj wf_other_origin other_origin_refuted). Qed.
Print Assumptions C04_refuted_other_origin.

Theorem C04_other_origin_behaviour :
  let s := run (cfg_of cc_forward) (init []) evs_other_origin in
  connect_log s = [(bs "a.com", 80%Z)] /\
  length (up_queued (nth O (conns s) (mkUp [] 0 [] O true))) = 2%nat /\
  names (cfg_of cc_forward) req_bx = TOrigin (bs "b.com") 80%Z (fwd (cfg_of cc_forward) req_bx).
Proof. exact other_origin_behaviour. Qed.
Print Assumptions C04_other_origin_behaviour.

(* C04-web-followup-route — web server with plugins PlugA (/a) and PlugB (/b): GET /a1 then
   GET /b1.  Later requests are dispatched to self.route, the route of the FIRST request. *)
Theorem C04_refuted_web_route :
  exists c reqs, wf_conversation c reqs /\ ~ C04_holds c reqs.
Proof. exists (cfg_of cc_web), [req_wa; req_wb]. exact (conj wf_web_route web_route_refuted). Qed.
Print Assumptions C04_refuted_web_route.

Theorem C04_web_route_behaviour :
  client_q (run (cfg_of cc_web) (init []) evs_web_route) =
    tag_respond (bs "PlugA") (rq0 req_wa) ++ tag_respond (bs "PlugA") (rq0 req_wb) /\
  names (cfg_of cc_web) req_wb = TLocal 1%nat.
Proof. exact web_route_behaviour. Qed.
Print Assumptions C04_web_route_behaviour.

(* C04-reverse-followup — reverse proxy, route /x -> http://up-x.example:8001/base: GET /x1 then
   GET /x2 before the first answer.  handle_request calls initialize_upstream again: a second
   connection replaces self.upstream, the first is never read (nor closed) again: one response
   for two requests.  With both requests in one segment the first is not even SENT. *)
Theorem C04_refuted_reverse_followup :
  exists c reqs, wf_conversation c reqs /\ ~ C04_holds c reqs.
Proof. exists (cfg_of cc_reverse), [req_x1; req_x2]. exact (conj wf_reverse_followup reverse_followup_refuted). Qed.
Print Assumptions C04_refuted_reverse_followup.

Theorem C04_reverse_followup_behaviour :
  let c := cfg_of cc_reverse in
  (let s := run c (init []) evs_reverse_followup in
   connect_log s = [(bs "up-x.example", 8001%Z); (bs "up-x.example", 8001%Z)] /\
   upstream s = Some 1%nat /\
   client_stream s = tag_world (bs "up-x.example") 8001%Z (sent_of c req_x2)) /\
  (let s := run c (init []) [EClient (render req_x1 ++ render req_x2); EFlush] in
   map up_stream (conns s) = [[]; sent_of c req_x2] /\
   map up_all (conns s) = [sent_of c req_x1; sent_of c req_x2]).
Proof. exact (conj reverse_followup_behaviour reverse_followup_one_segment). Qed.
Print Assumptions C04_reverse_followup_behaviour.

(* ===================================================================================== *)
(* non-vacuity: three requests to a.com — GET, chunked POST (three chunks with extensions, a
   trailer, a Proxy-Connection header to be dropped), POST with Content-Length — satisfy the class of
   C04_partial_forward; sent as [1 1/2 requests][the rest] with the origin answering in two bursts
   (the second split again) the model, by evaluation, forwards the three rebuilt requests on one
   connection and the client's stream is exactly the three expected answers. *)
Example C04_nonvacuous :
  let c := cfg_of cc_forward in
  has_proxy c = true /\ Forall (fwd_class c (bs "a.com") 80%Z) reqs3 /\
  http_handler_protocol (rq0 req_a1) = HTTP_PROXY /\
  sched_ok (length (render req_a1)) evs3 /\ client_bytes evs3 = stream3 /\
  (length (render req_a1) < cut3 < length (render req_a1) + length (render req_a2))%nat /\
  let s := run c (init []) evs3 in
  map up_queued (conns s) = [map (fwd c) reqs3] /\
  client_stream s = concat (map (expected_answer c tag_world) reqs3) /\
  stat s = Alive /\ pending_request s = false.
Proof.
  cbv zeta. split; [reflexivity|]. split; [exact reqs3_class|]. split; [vm_compute; reflexivity|].
  exact nonvacuous_run.
Qed.
Print Assumptions C04_nonvacuous.
