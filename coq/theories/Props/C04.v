(* C04 — each request on a persistent connection is answered in order by the right origin.
   Statements only (being written). *)
From PM Require Import Lib.Bytes Net.Conversation Net.ConversationFacts.
