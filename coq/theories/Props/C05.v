(* C05 — one connection cannot take down or stall the executor serving the others.
   Statements only; proofs are in Exec/ThreadlessFacts.v (invariant, survival), Exec/ThreadlessNI.v
   (non-interference) and Exec/ThreadlessOldFacts.v (refutation of the loop as found).

   The model (Exec/Threadless.v) is generic in the work: W and IO are arbitrary types, the five
   entry points of proxy/core/work/work.py are ARBITRARY functions that may mutate the work and
   raise at every call, so "whatever a single client or upstream does on one connection"
   (malformed bytes, aborts, I/O errors, an error raised while it is being handled) is covered
   by the quantification over these functions and over the schedule.  Statements are about the
   REPAIRED loop (proposed_fixes/C05-guard-per-work-steps.diff). *)
From PM Require Import Lib.Bytes Lib.ZDict Exec.Threadless Exec.ThreadlessOld Exec.ThreadlessCases
  Exec.ThreadlessFacts Exec.ThreadlessNI Exec.ThreadlessOldFacts.
From Coq Require Import ZArith.

(* The worker keeps running: for all work behaviours and all schedules no exception escapes
   _run_once/_run_forever.  [sched_ok] is the kernel premise evaluated along the run: an arriving
   connection gets a descriptor number that no live work is using (and not 0), and in remote mode
   epoll reports the work-queue pipe at most once per call and as readable. *)
Theorem C05_loop_survives :
  forall (W IO : Type)
         (w_initialize : W -> IO -> W * result unit)
         (w_get_events : W -> IO -> W * result sel_events)
         (w_handle_events : W -> list fd -> list fd -> IO -> W * result bool)
         (w_shutdown : W -> IO -> W * result unit)
         (w_is_inactive : W -> N -> IO -> W * result bool)
         (wq : option fd) (tick_limit : N) (evs : list (event W IO)) st s,
    sched_ok W IO w_initialize w_get_events w_handle_events w_shutdown w_is_inactive wq tick_limit evs (init_state W wq) ->
    run_forever W IO w_initialize w_get_events w_handle_events w_shutdown w_is_inactive wq tick_limit evs (init_state W wq) = (st, s) ->
    forall x, s <> Crashed x.
Proof. exact loop_survives. Qed.
Print Assumptions C05_loop_survives.

(* ... and its bookkeeping stays consistent: after every prefix of every run the selector map and
   registered_events_by_work_ids describe each other and every registration belongs to a live work. *)
Theorem C05_bookkeeping_invariant :
  forall (W IO : Type) w_initialize w_get_events w_handle_events w_shutdown w_is_inactive
         (wq : option fd) (tick_limit : N) (evs : list (event W IO)) st s,
    sched_ok W IO w_initialize w_get_events w_handle_events w_shutdown w_is_inactive wq tick_limit evs (init_state W wq) ->
    run_forever W IO w_initialize w_get_events w_handle_events w_shutdown w_is_inactive wq tick_limit evs (init_state W wq) = (st, s) ->
    inv W wq None st.
Proof. exact reachable_inv. Qed.
Print Assumptions C05_bookkeeping_invariant.

(* Every other connection completes exactly as it would have alone: what work i sees of the joint
   run (its own state after the same calls, its registered events, its descriptors in the selector,
   the state in which it was shut down) equals what it sees when the other connections never
   arrive ([restrict i] drops their arrivals, nothing else), and the loop status is the same.
   Premises: [disciplined] = a work only names descriptors it owns (the assumption written in
   _update_work_events); [prompt_ev] = tasks complete in the iteration that created them. *)
Theorem C05_noninterference :
  forall (W IO : Type) w_initialize w_get_events w_handle_events w_shutdown w_is_inactive
         (wq : option fd) (tick_limit : N) (owner : fd -> work_id) (good : work_id -> W -> Prop),
    disciplined W IO w_initialize w_get_events w_handle_events w_is_inactive owner good ->
    forall (evs : list (event W IO)) i S' s A' a,
      sched_ok W IO w_initialize w_get_events w_handle_events w_shutdown w_is_inactive wq tick_limit evs (init_state W wq) ->
      Forall (arrival_good W IO good) evs -> Forall (prompt_ev W IO) evs ->
      run_forever W IO w_initialize w_get_events w_handle_events w_shutdown w_is_inactive wq tick_limit evs (init_state W wq) = (S', s) ->
      run_forever W IO w_initialize w_get_events w_handle_events w_shutdown w_is_inactive wq tick_limit
                  (map (restrict W IO i) evs) (init_state W wq) = (A', a) ->
      s = a /\ same_view W owner i S' A' /\ (forall x, s <> Crashed x).
Proof. exact noninterference. Qed.
Print Assumptions C05_noninterference.

(* The loop AS FOUND violates the property (witnesses evaluated on the model of the unrepaired code
   and replayed on the real code by the harness): a work whose shutdown() raises — a request target
   with a non-UTF-8 byte does that — stops the loop while another connection is still waiting. *)
Theorem C05_refuted_old :
  exists st, OLD_RUN None 39 sched_a (init_state swork None) = (st, Crashed UnicodeDecodeError)
             /\ zmem 12%Z (works st) = true
             /\ (exists w, zget 12%Z (works st) = Some w /\ s_log w = [CInit]).
Proof. exact refuted_old_shutdown. Qed.
Print Assumptions C05_refuted_old.

Theorem C05_refuted_old_get_events :
  exists st, OLD_RUN None 39 sched_b1 (init_state swork None) = (st, Crashed ValueError) /\ zmem 12%Z (works st) = true.
Proof. exact refuted_old_get_events. Qed.
Print Assumptions C05_refuted_old_get_events.

Theorem C05_refuted_old_modify :
  exists st, OLD_RUN None 39 sched_b2 (init_state swork None) = (st, Crashed (OSError 0)) /\ zmem 12%Z (works st) = true.
Proof. exact refuted_old_modify. Qed.
Print Assumptions C05_refuted_old_modify.

Theorem C05_refuted_old_register :
  exists st, OLD_RUN None 39 sched_b3 (init_state swork None) = (st, Crashed (OSError 0)) /\ zmem 12%Z (works st) = true.
Proof. exact refuted_old_register. Qed.
Print Assumptions C05_refuted_old_register.

Theorem C05_refuted_old_is_inactive :
  exists st, OLD_RUN None 1 sched_c (init_state swork None) = (st, Crashed AssertionError) /\ zmem 12%Z (works st) = true.
Proof. exact refuted_old_is_inactive. Qed.
Print Assumptions C05_refuted_old_is_inactive.

(* the same schedule on the repaired loop: it keeps running and the canary completes *)
Theorem C05_repaired_on_witness :
  exists st, NEW_RUN None 39 sched_a (init_state swork None) = (st, Running)
             /\ works st = [] /\ registered st = [] /\ sel st = []
             /\ gone_of swork 12%Z (gone st) =
                [mk_swork_full None [inl [(12%Z, 1)]] [] None [] [CInit; CGet; CHandle [12%Z] []; CGet; CHandle [12%Z] []; CShutdown]].
Proof. exact repaired_shutdown. Qed.
Print Assumptions C05_repaired_on_witness.

(* non-vacuity: the premises of the two main theorems hold of a concrete two-connection schedule
   (one adversarial, one canary), and the scripted works used by the correspondence check are disciplined *)
Example C05_nonvacuous :
  sched_ok swork unit sw_initialize sw_get_events sw_handle_events sw_shutdown sw_is_inactive None 39
           sched_nv (init_state swork None)
  /\ Forall (arrival_good swork unit sw_good) sched_nv
  /\ Forall (prompt_ev swork unit) sched_nv
  /\ (exists st, NEW_RUN None 39 sched_nv (init_state swork None) = (st, Running) /\ length (gone st) = 2%nat).
Proof. exact premises_nonvacuous. Qed.

Example C05_scripted_works_disciplined :
  disciplined swork unit sw_initialize sw_get_events sw_handle_events sw_is_inactive sw_owner sw_good.
Proof. exact sw_disciplined. Qed.
