(* C12 — Reverse proxy routes matching requests to a configured upstream, as documented.
   Statements only; proofs are in Net/ReverseFacts.v.  Model: Net/Reverse.v.

   Scope of the statements up to C12_nonvacuous: the FIRST request of a client connection (state [init_state]);
   ReverseProxy is the only HttpWebServerBasePlugin and the static server is off (what
   --enable-reverse-proxy loads); plugins keep the default protocols(); handle_route is a function
   of the request; DEFAULT_DISABLE_HEADERS = [] (checked against /repo on every run).
   [re_match] is Python's re (oracle), the list [rs] the raw draws behind random.choice, the
   configured upstream URL is the already parsed [url] record.
   LATER requests of the same connection (web.py on_client_data -> ReverseProxy.handle_request in the state
   the previous request left) are the subject of the last section: C12_later_requests_routed,
   C12_later_no_route, C12_later_not_keep_alive over the connection-level model Net/ReverseConv.v.
   That every such request replaces self.upstream without closing the previous object is modelled as it
   is (recorded findings C04-reverse-followup / C10-reverse-upstream-replacement) and not judged here. *)
From PM Require Import Lib.Bytes Lib.PyStr Net.Reverse Net.ReverseFacts Net.ReverseConv Net.ReverseConvFacts.
Open Scope N_scope.

(* One plugin (the documented configuration), any table, any request, any draw:
   if [r] is the first route of the table whose pattern matches the request path and [u] the
   upstream it designates (the URL random.choice picks from a static route's list for draw
   [hd 0 rs]; the Url a dynamic route's handle_route returns), then exactly one outbound connection
   is made, to (host u, port u or 80/443 by scheme), TLS is wrapped for that host iff the scheme is
   https, nothing is queued to the client, exactly one packet is queued to the upstream, and a
   reference HTTP/1.1 reader of that packet sees the client's method and version, the URL's path
   (or "/") as request-target, the client's header fields in order with the Host value replaced by
   the upstream authority iff --rewrite-host-header, and the client's body (see [forwarded]). *)
Theorem C12_routes :
  forall (pattern : Type) (re_match : pattern -> bytes -> bool)
         (cfg : config) (pl : plugin pattern) (req : request) (p : bytes) (rs : list nat)
         (r : route pattern) (u : url),
    r_path req = Some p -> truthy p = true -> utf8_valid p = true ->
    before_routing pl req = Some req ->
    first_match re_match p (p_routes pl) = Some r ->
    selects r req (hd O rs) u ->
    wf_url u = true -> wf_request req = true -> disable_headers cfg = [] ->
    exists h wire st',
      u_hostname u = Some h /\
      on_request_complete re_match cfg [pl] ConnOk (Ok tt) req rs init_state = (st', draws_after r rs, Ok false) /\
      connect_log st' = [(h, upstream_port u)] /\
      wrap_log st' = (if scheme_is u HTTPS_PROTO then [h] else []) /\
      upstream_ st' = Some (mkUp (h, upstream_port u) [wire] false true) /\
      client_queue st' = [] /\
      ref_parse wire = Some (forwarded cfg u req).
Proof. exact routes_single. Qed.
Print Assumptions C12_routes.

(* "defaulting by scheme", spelled out (an explicit port 0 counts as absent: `port or DEFAULT`) *)
Theorem C12_port_default : forall u,
  upstream_port u =
  match u_port u with
  | Some p => if p =? 0 then (if scheme_is u HTTP_PROTO then 80 else 443) else p
  | None => if scheme_is u HTTP_PROTO then 80 else 443
  end.
Proof. exact upstream_port_spec. Qed.
Print Assumptions C12_port_default.

(* random.choice: the designated upstream is one of the route's URLs, and every URL of the route
   is designated by some draw *)
Theorem C12_choice : forall (urls : list url),
  (forall d u, random_choice urls d = Ok u -> In u urls) /\
  (forall u, In u urls -> exists d, random_choice urls d = Ok u) /\
  (urls <> [] -> forall d, exists u, random_choice urls d = Ok u).
Proof.
  intros urls. split; [|split].
  - intros d u. exact (random_choice_in urls d u).
  - intros u. exact (random_choice_onto urls u).
  - intros H d. exact (random_choice_total urls d H).
Qed.
Print Assumptions C12_choice.

(* Without exception the header list is exactly the client's (Host apart) when the request has no
   body, and also when its Content-Length field already carries the canonical decimal length *)
Theorem C12_headers_preserved : forall cfg u req,
  (get_body_or_chunks (chunk_size cfg) req = None ->
   m_headers (forwarded cfg u req) = map (rewrite_host cfg u) (r_headers req)) /\
  (forall k,
     let hs := map (rewrite_host cfg u) (r_headers req) in
     let n := dec_of_N (len (opt_bytes (get_body_or_chunks (chunk_size cfg) req))) in
     find (fun kv => bytes_eqb (lower (fst kv)) (lower (bs "Content-Length"))) hs = Some (k, n) ->
     find (fun kv => bytes_eqb k (fst kv)) hs = Some (k, n) ->
     m_headers (forwarded cfg u req) = hs).
Proof.
  intros cfg u req. split.
  - intros H. unfold forwarded. cbn [m_headers]. rewrite H. apply fix_content_length_no_body.
  - intros k hs n H1 H2. unfold forwarded. cbn [m_headers]. apply (fix_content_length_canonical _ _ k H1 H2).
Qed.
Print Assumptions C12_headers_preserved.

(* Which route wins.  Inside one plugin's table: the first route, in table order, whose pattern
   matches. *)
Theorem C12_first_match :
  forall (pattern : Type) (re_match : pattern -> bytes -> bool) (p : bytes)
         (rts : list (route pattern)) (r : route pattern),
    first_match re_match p rts = Some r ->
    exists pre post, rts = pre ++ r :: post /\ re_match (route_pat r) p = true /\
                     forall r', In r' pre -> re_match (route_pat r') p = false.
Proof. exact first_match_spec. Qed.
Print Assumptions C12_first_match.

(* Across plugins the code does NOT stop at the first match: the `break` leaves only the inner
   loop, so the first matching route of EVERY plugin fires, in plugin order (a later plugin's URL
   overrides an earlier one's; literal answers of all of them are queued). *)
Theorem C12_every_plugin_fires :
  forall (pattern : Type) (re_match : pattern -> bytes -> bool) (ps : list (plugin pattern))
         (req : request) (p : bytes) (rs : list nat) (st : state) (needs : bool),
    r_path req = Some p -> utf8_valid p = true ->
    plugins_loop re_match ps req rs st needs = fire_all (fired re_match p ps) req rs st needs.
Proof. exact plugins_loop_fired. Qed.
Print Assumptions C12_every_plugin_fires.

(* Any number of plugins: a request matching some route, handled without exception, either got
   only literal answers (nothing connected) or caused exactly one connection, to host:port of an
   upstream offered by a route that fired, which was sent the client's request under the
   documented rewriting. *)
Theorem C12_routes_any_plugins :
  forall (pattern : Type) (re_match : pattern -> bytes -> bool)
         (cfg : config) (ps : list (plugin pattern)) (req : request) (p : bytes) (rs : list nat)
         (st' : state) (rs' : list nat) (td : bool),
    r_path req = Some p -> truthy p = true -> utf8_valid p = true ->
    (forall pl, In pl ps -> before_routing pl req = Some req) ->
    no_conn pattern (fired re_match p ps) req ->
    (forall r u, In r (fired re_match p ps) -> offers r req u -> wf_url u = true) ->
    wf_request req = true -> disable_headers cfg = [] ->
    existsb (fun pat => re_match pat p) (routes ps) = true ->
    on_request_complete re_match cfg ps ConnOk (Ok tt) req rs init_state = (st', rs', Ok td) ->
    td = false /\
    ((connect_log st' = [] /\ wrap_log st' = [] /\ upstream_ st' = None) \/
     exists r u h wire,
       In r (fired re_match p ps) /\ offers r req u /\ u_hostname u = Some h /\
       connect_log st' = [(h, upstream_port u)] /\
       wrap_log st' = (if scheme_is u HTTPS_PROTO then [h] else []) /\
       upstream_ st' = Some (mkUp (h, upstream_port u) [wire] false true) /\
       ref_parse wire = Some (forwarded cfg u req)).
Proof. exact routes_sound. Qed.
Print Assumptions C12_routes_any_plugins.

(* A dynamic route answering with literal bytes: they are queued to the client as they are,
   nothing is connected, the connection stays up. *)
Theorem C12_literal :
  forall (pattern : Type) (re_match : pattern -> bytes -> bool)
         (cfg : config) (pl : plugin pattern) (co : conn_outcome) (wo : result unit) (req : request)
         (p : bytes) (rs : list nat) (pat : pattern) (h : request -> result dyn) (b : bytes),
    r_path req = Some p -> truthy p = true -> utf8_valid p = true ->
    before_routing pl req = Some req ->
    first_match re_match p (p_routes pl) = Some (Dynamic pat h) ->
    h req = Ok (DBytes b) ->
    on_request_complete re_match cfg [pl] co wo req rs init_state
    = (client_queue_add (set_route init_state) b, rs, Ok false).
Proof. exact literal_single. Qed.
Print Assumptions C12_literal.

(* No route: the 404 packet is queued, teardown is requested, and nothing else happened
   (connect_log = [], no upstream object), for every table, request, connect outcome and draws. *)
Theorem C12_no_route :
  forall (pattern : Type) (re_match : pattern -> bytes -> bool)
         (cfg : config) (ps : list (plugin pattern)) (co : conn_outcome) (wo : result unit)
         (req : request) (rs : list nat),
    utf8_valid (or_slash (r_path req)) = true ->
    existsb (fun pat => re_match pat (or_slash (r_path req))) (routes ps) = false ->
    on_request_complete re_match cfg ps co wo req rs init_state
    = (mkState None None
         [bs "HTTP/1.1 404 NOT FOUND" ++ CRLF ++ bs "Server: " ++ server_agent cfg ++ CRLF
          ++ bs "Content-Length: 0" ++ CRLF ++ bs "Connection: close" ++ CRLF ++ CRLF]
         [] [] [] false, rs, Ok true).
Proof.
  intros pattern re_match cfg ps co wo req rs Hu Hn.
  rewrite (no_route pattern re_match cfg ps co wo req rs Hu Hn).
  unfold client_queue_add, init_state. cbn [choice upstream_ client_queue connect_log wrap_log orphans route_set app].
  rewrite (not_found_bytes (server_agent cfg)). reflexivity.
Qed.
Print Assumptions C12_no_route.

(* ... and even when the path does not decode, or whatever exception is raised: no route, no
   connection attempt, no TLS wrap, no upstream object. *)
Theorem C12_no_connect_without_route :
  forall (pattern : Type) (re_match : pattern -> bytes -> bool)
         (cfg : config) (ps : list (plugin pattern)) (co : conn_outcome) (wo : result unit)
         (req : request) (rs : list nat),
    (forall t, text_ (or_slash (r_path req)) = Ok t -> existsb (fun pat => re_match pat t) (routes ps) = false) ->
    let st' := fst (fst (on_request_complete re_match cfg ps co wo req rs init_state)) in
    connect_log st' = [] /\ upstream_ st' = None /\ wrap_log st' = [].
Proof. exact no_connect_without_route. Qed.
Print Assumptions C12_no_connect_without_route.

(* The upstream's answer: every received segment is queued to the client unmodified and in order,
   for every segmentation; the byte stream queued does not depend on the segmentation. *)
Theorem C12_response_relayed : forall segs st, upstream_ st <> None ->
  exists st', read_all (map RData segs) st = (st', Ok false) /\
              client_queue st' = client_queue st ++ segs /\
              connect_log st' = connect_log st /\ upstream_ st' = upstream_ st.
Proof. exact response_relayed. Qed.
Print Assumptions C12_response_relayed.

Theorem C12_response_segmentation_independent : forall segs1 segs2 st st1 st2 r1 r2,
  upstream_ st <> None -> concat segs1 = concat segs2 ->
  read_all (map RData segs1) st = (st1, r1) -> read_all (map RData segs2) st = (st2, r2) ->
  concat (client_queue st1) = concat (client_queue st) ++ concat segs1 /\
  concat (client_queue st2) = concat (client_queue st1).
Proof. exact response_segmentation_independent. Qed.
Print Assumptions C12_response_segmentation_independent.

(* ------------------------------------------------------------------ non-vacuity *)
Definition ex_match (i : N) (p : bytes) : bool :=
  ((i =? 0) && bytes_eqb p (bs "/other")) || ((i =? 1) && bytes_eqb p (bs "/get"))
  || ((i =? 2) && is_prefix (bs "/get") p) || ((i =? 3) && bytes_eqb p (bs "/lit")).
Definition ex_u1 := mkUrl (Some (bs "http")) (Some (bs "up1.example")) None None.
Definition ex_u2 := mkUrl (Some (bs "https")) (Some (bs "up2.example")) (Some 8443) (Some (bs "/base?x=1")).
Definition ex_u3 := mkUrl (Some (bs "http")) (Some (bs "[::1]")) (Some 81) (Some (bs "/dyn")).
Definition ex_plugin : plugin N :=
  mkPlugin (fun r => Some r)
    [Static 0 [ex_u1]; Static 1 [ex_u1; ex_u2]; Dynamic 2 (fun _ => Ok (DUrl ex_u3));
     Dynamic 3 (fun _ => Ok (DBytes (bs "HTTP/1.1 204 No Content")))].
Definition ex_req (path : bytes) : request :=
  mkRequest (bs "POST") (Some path) (bs "HTTP/1.1")
    [(bs "host", (bs "Host", bs "me.example")); (bs "x-a", (bs "X-A", bs "1"));
     (bs "content-length", (bs "content-length", bs "3"))] (Some (bs "abc")) false.
Definition ex_cfg (rw : bool) := mkConfig rw 131072 [] (bs "proxy.py v0").

(* the hypotheses of C12_routes hold for a table where several routes match (1 and 2 match /get,
   route 1 wins), for both upstreams of the winning route and both flag settings; and the outcome
   computed by the model is the documented one *)
Example C12_nonvacuous :
  first_match ex_match (bs "/get") (p_routes ex_plugin) = Some (Static 1 [ex_u1; ex_u2]) /\
  selects (Static 1 [ex_u1; ex_u2]) (ex_req (bs "/get")) 4 ex_u1 /\
  selects (Static 1 [ex_u1; ex_u2]) (ex_req (bs "/get")) 7 ex_u2 /\
  first_match ex_match (bs "/getx") (p_routes ex_plugin) = Some (Dynamic 2 (fun _ => Ok (DUrl ex_u3))) /\
  wf_url ex_u1 = true /\ wf_url ex_u2 = true /\ wf_url ex_u3 = true /\
  wf_request (ex_req (bs "/get")) = true /\ utf8_valid (bs "/get") = true /\
  (let '(st, _, r) := on_request_complete ex_match (ex_cfg true) [ex_plugin] ConnOk (Ok tt) (ex_req (bs "/get")) [7%nat] init_state in
   r = Ok false /\ connect_log st = [(bs "up2.example", 8443)] /\ wrap_log st = [bs "up2.example"] /\
   option_map up_buffer (upstream_ st) =
     Some [bs "POST /base?x=1 HTTP/1.1" ++ CRLF ++ bs "Host: up2.example:8443" ++ CRLF ++ bs "X-A: 1" ++ CRLF
           ++ bs "content-length: 3" ++ CRLF ++ CRLF ++ bs "abc"]) /\
  (let '(st, _, r) := on_request_complete ex_match (ex_cfg false) [ex_plugin] ConnOk (Ok tt) (ex_req (bs "/get")) [4%nat] init_state in
   r = Ok false /\ connect_log st = [(bs "up1.example", 80)] /\ wrap_log st = [] /\
   option_map up_buffer (upstream_ st) =
     Some [bs "POST / HTTP/1.1" ++ CRLF ++ bs "Host: me.example" ++ CRLF ++ bs "X-A: 1" ++ CRLF
           ++ bs "content-length: 3" ++ CRLF ++ CRLF ++ bs "abc"]) /\
  (let '(st, _, r) := on_request_complete ex_match (ex_cfg true) [ex_plugin] ConnOk (Ok tt) (ex_req (bs "/nope")) [] init_state in
   r = Ok true /\ connect_log st = [] /\ upstream_ st = None /\ length (client_queue st) = 1%nat).
Proof. vm_compute. repeat split; reflexivity. Qed.


(* ================================================================== later requests of a connection
   Model: Net/ReverseConv.v (proofs Net/ReverseConvFacts.v).  A client connection is its first request [a0]
   followed by a list [l] of later requests, each a complete request arriving in one segment after the previous
   exchange is over (its rebuilt form flushed to the upstream, the upstream's answer read and queued to the
   client).  [conversation] runs on_request_complete for [a0] and, for every later request, what
   HttpWebServerPlugin.on_client_data does: ReverseProxy.handle_request again, in the state left behind.

   One plugin (the documented configuration), any table, any number of requests, any draws:
   if request i (i = 0 is the first) has route [t_route t_i] as the FIRST route of the table matching ITS path and
   that route designates [t_url t_i] (= u_i), requests and URLs well-formed, all requests keep-alive, then the
   whole connection is served without teardown and
   * exactly one outbound connection is made per request: the connect log is [(host u_0, port u_0); ...;
     (host u_n, port u_n)], ports defaulted by scheme ([url_addr]); the socket layer is given the host without
     IPv6 brackets ([socket_addr] = utils.py new_socket_connection);
   * TLS is wrapped for exactly the https ones, in order;
   * the connection has had exactly one upstream object per request, and the i-th one has the address of u_i and
     its peer received exactly one packet, which a reference HTTP/1.1 reader sees as request i under the documented
     rewriting of C12_routes ([forwarded cfg u_i req_i]) — never a packet of another request, never at the
     upstream of the previous request;
   * the client is queued every segment of every upstream answer, unmodified and in order. *)
Theorem C12_later_requests_routed :
  forall (pattern : Type) (re_match : pattern -> bytes -> bool)
         (cfg : config) (pl : plugin pattern) (a0 : arrival) (l : list arrival)
         (ts : list (target pattern)) (rs : list nat),
    disable_headers cfg = [] ->
    routed re_match pl (a0 :: l) ts rs ->
    is_http_1_1_keep_alive (a_req a0) = true ->
    Forall (fun a => is_http_1_1_keep_alive (a_req a) = true) l ->
    exists k rs',
      conversation re_match cfg [pl] a0 l rs = (k, rs', Ok false) /\
      connect_log (k_rev k) = map (fun t => url_addr (t_url t)) ts /\
      wrap_log (k_rev k) = flat_map (fun t => wrap_of (t_url t)) ts /\
      client_queue (k_rev k) = flat_map (fun a => data_of (a_reads a)) (a0 :: l) /\
      length (upstream_history k) = length (a0 :: l) /\
      forall i a t, nth_error (a0 :: l) i = Some a -> nth_error ts i = Some t ->
        exists h wire,
          u_hostname (t_url t) = Some h /\
          nth_error (connect_log (k_rev k)) i = Some (h, upstream_port (t_url t)) /\
          nth_error (map socket_addr (connect_log (k_rev k))) i = Some (socket_host h, upstream_port (t_url t)) /\
          nth_error (upstream_history k) i = Some ((h, upstream_port (t_url t)), [wire]) /\
          ref_parse wire = Some (forwarded cfg (t_url t) (a_req a)).
Proof. exact later_requests_routed_conn. Qed.
Print Assumptions C12_later_requests_routed.

(* new_socket_connection strips the brackets of an IPv6 literal *)
Theorem C12_socket_host_brackets : forall x, socket_host ([91] ++ x ++ [93]) = x.
Proof. exact socket_host_brackets. Qed.
Print Assumptions C12_socket_host_brackets.

(* A later request that matches NO route (any number of plugins, any state [k] of a connection whose first request
   was routed, i.e. self.route is set, and was keep-alive): on_client_data does not go through _try_route, so there
   is no 404.  handle_request finds no route and returns: no outbound connection, no TLS wrap, NOTHING queued to
   the client, no upstream object created or replaced, and no teardown when the request is keep-alive (the client
   is left without an answer on a connection that stays open — this is recorded finding C04-web-followup-route,
   stated here exactly, not judged); when it is not keep-alive the only effect is the HttpProtocolException
   ('Pipelined request is not keep-alive'), i.e. a bare teardown.  The state is literally unchanged, except that
   after a websocket-upgrade first request ReverseProxy.on_client_data has queued the raw segment on the current
   upstream. *)
Theorem C12_later_no_route :
  forall (pattern : Type) (re_match : pattern -> bytes -> bool)
         (cfg : config) (ps : list (plugin pattern)) (first : request) (a : arrival) (rs : list nat)
         (k : conn) (p : bytes),
    route_set (k_rev k) = true -> is_http_1_1_keep_alive first = true ->
    (is_websocket_upgrade first = true -> upstream_ (k_rev k) <> None) ->
    r_path (a_req a) = Some p -> utf8_valid p = true ->
    (forall pl, In pl ps -> before_routing pl (a_req a) = Some (a_req a)) ->
    existsb (fun pat => re_match pat p) (routes ps) = false ->
    let k' := if is_websocket_upgrade first then with_rev k (upstream_queue (k_rev k) (a_raw a)) else k in
    web_on_client_data re_match cfg ps first a rs k
    = (k', rs, if is_http_1_1_keep_alive (a_req a) then Ok tt else Err (HttpProtocolException 5)) /\
    connect_log (k_rev k') = connect_log (k_rev k) /\ wrap_log (k_rev k') = wrap_log (k_rev k) /\
    client_queue (k_rev k') = client_queue (k_rev k) /\ upstream_history k' = upstream_history k.
Proof. exact later_no_route_spec. Qed.
Print Assumptions C12_later_no_route.

(* A later request that matches a route but is NOT keep-alive (HTTP/1.0, Connection: close): it is routed and
   connected like any other (one connect, to its own route's upstream) and its rebuilt form is queued on the new
   upstream object, but on_client_data then raises HttpProtocolException; the handler tears down and nothing
   flushes the queue, so the upstream's peer has received nothing and the client is queued nothing.
   What the code does — stated exactly, not judged (C04 territory). *)
Theorem C12_later_not_keep_alive :
  forall (pattern : Type) (re_match : pattern -> bytes -> bool)
         (cfg : config) (pl : plugin pattern) (first : request) (a : arrival) (t : target pattern)
         (rs : list nat) (k : conn),
    route_set (k_rev k) = true -> is_http_1_1_keep_alive first = true ->
    (is_websocket_upgrade first = true -> upstream_ (k_rev k) <> None) ->
    (upstream_ (k_rev k) = None -> k_received k = []) ->
    disable_headers cfg = [] ->
    is_http_1_1_keep_alive (a_req a) = false ->
    routed_one re_match pl a t rs ->
    exists h wire k',
      u_hostname (t_url t) = Some h /\
      later_request re_match cfg [pl] first a rs k = (k', draws_after (t_route t) rs, Err (HttpProtocolException 5)) /\
      connect_log (k_rev k') = connect_log (k_rev k) ++ [(h, upstream_port (t_url t))] /\
      upstream_ (k_rev k') = Some (mkUp (h, upstream_port (t_url t)) [wire] false true) /\
      k_received k' = [] /\
      client_queue (k_rev k') = client_queue (k_rev k) /\
      ref_parse wire = Some (forwarded cfg (t_url t) (a_req a)).
Proof. exact later_request_routed_not_keep_alive. Qed.
Print Assumptions C12_later_not_keep_alive.

(* ------------------------------------------------------------------ non-vacuity, later requests *)
Definition ex_kreq (path : bytes) : request :=
  mkRequest (bs "GET") (Some path) (bs "HTTP/1.1") [(bs "host", (bs "Host", bs "me.example"))] None false.
Definition ex_arr (path : bytes) (answer : list bytes) : arrival :=
  mkArr (bs "GET " ++ path ++ bs " HTTP/1.1" ++ CRLF ++ bs "Host: me.example" ++ CRLF ++ CRLF)
        (ex_kreq path) ConnOk (Ok tt) (map RData answer).
Definition ex_r1 : route N := Static 1 [ex_u1; ex_u2].
Definition ex_r2 : route N := Dynamic 2 (fun _ => Ok (DUrl ex_u3)).

(* three requests on one connection: /get (draw 7 -> the https upstream up2.example:8443), /getx (the dynamic
   route -> [::1]:81), /get again (draw 4 -> up1.example:80); the hypotheses of C12_later_requests_routed hold,
   and the model computes three connects, one upstream object per request, each having received its own
   request only.  Then a fourth request /nope: nothing happens at all. *)
Example C12_later_nonvacuous :
  let a0 := ex_arr (bs "/get") [bs "HTTP/1.1 200 OK"; bs "..."] in
  let l := [ex_arr (bs "/getx") [bs "r2"]; ex_arr (bs "/get") [bs "r3"]] in
  let ts := [mkTarget ex_r1 ex_u2; mkTarget ex_r2 ex_u3; mkTarget ex_r1 ex_u1] in
  routed ex_match ex_plugin (a0 :: l) ts [7%nat; 4%nat] /\
  is_http_1_1_keep_alive (a_req a0) = true /\
  Forall (fun a => is_http_1_1_keep_alive (a_req a) = true) l /\
  (let '(k, rs', r) := conversation ex_match (ex_cfg true) [ex_plugin] a0 l [7%nat; 4%nat] in
   r = Ok false /\ rs' = [] /\
   connect_log (k_rev k) = [(bs "up2.example", 8443); (bs "[::1]", 81); (bs "up1.example", 80)] /\
   map socket_addr (connect_log (k_rev k)) = [(bs "up2.example", 8443); (bs "::1", 81); (bs "up1.example", 80)] /\
   wrap_log (k_rev k) = [bs "up2.example"] /\
   upstream_history k =
     [((bs "up2.example", 8443), [bs "GET /base?x=1 HTTP/1.1" ++ CRLF ++ bs "Host: up2.example:8443" ++ CRLF ++ CRLF]);
      ((bs "[::1]", 81), [bs "GET /dyn HTTP/1.1" ++ CRLF ++ bs "Host: [::1]:81" ++ CRLF ++ CRLF]);
      ((bs "up1.example", 80), [bs "GET / HTTP/1.1" ++ CRLF ++ bs "Host: up1.example" ++ CRLF ++ CRLF])] /\
   concat (client_queue (k_rev k)) = bs "HTTP/1.1 200 OK...r2r3" /\
   (* a fourth request that matches no route: same state, no teardown *)
   web_on_client_data ex_match (ex_cfg true) [ex_plugin] (a_req a0) (ex_arr (bs "/nope") []) [] k = (k, [], Ok tt)).
Proof.
  cbv zeta. split.
  { cbn [routed]. unfold routed_one.
    repeat split; try (eexists; repeat split); vm_compute; reflexivity. }
  split; [vm_compute; reflexivity|].
  split; [repeat constructor|].
  vm_compute. repeat split; reflexivity.
Qed.
